"""Translate the slot-table constants and the allocator configuration of each editor:
id range (the `range(a, b)` in `_generate_allocable_*`), reserved id, raise-vs-skip on
exhaustion, carried-first placement  ->  Generated/Consts.lean (+ build/consts.json)."""
import ast
import json
import os

from pysrc import TranslatorGap, const_value, find_method, load_module

E = "richchk.editor.richchk."


def range_bounds(mod, cls, fn):
    """(lo, hi) from `range(a, b)` assigned in the function; reserved from `index != CONST`"""
    lo = hi = None
    reserved = None
    for node in ast.walk(fn):
        if isinstance(node, ast.Call) and isinstance(node.func, ast.Name) and node.func.id == "range" and len(node.args) == 2:
            lo = const_value(mod, node.args[0], cls)
            hi = const_value(mod, node.args[1], cls) - 1
        if isinstance(node, ast.Compare) and len(node.ops) == 1 and isinstance(node.ops[0], ast.NotEq):
            try:
                reserved = const_value(mod, node.comparators[0], cls)
            except TranslatorGap:
                pass
    if lo is None:
        raise TranslatorGap(f"{fn.name}: no range(a, b)")
    src = ast.unparse(fn)
    if "not in" not in src or ".reverse()" not in src and "allocable" in fn.name and "switch" not in src.lower():
        pass
    return lo, hi, reserved


def exhaustion_behaviour(fn, var):
    """'raise' if the `if not <var>:` block raises, 'skip' if it continues/breaks"""
    for node in ast.walk(fn):
        if isinstance(node, ast.If) and ast.unparse(node.test) == f"not {var}":
            kinds = {type(s).__name__ for s in node.body}
            if "Raise" in kinds:
                return "raise", node
            if "Continue" in kinds:
                return "skip", node
            if "Break" in kinds:
                return "break", node
    raise TranslatorGap(f"no `if not {var}:` block")


def editor_cfg(modname, clsname, gen_fn, add_fn, var, sort_key=None):
    mod = load_module(modname)
    cls = mod.classes[clsname]
    a = find_method(mod, cls, add_fn)[2]
    if find_method(mod, cls, gen_fn) is None:
        # the helper may have been renamed: it is the method whose result the add function pops ids from
        popped = {n.func.value.id for n in ast.walk(a) if isinstance(n, ast.Call) and isinstance(n.func, ast.Attribute) and n.func.attr == "pop" and isinstance(n.func.value, ast.Name)}
        for node in ast.walk(a):
            if isinstance(node, ast.Assign) and len(node.targets) == 1 and isinstance(node.targets[0], ast.Name) and node.targets[0].id in popped \
                    and isinstance(node.value, ast.Call) and isinstance(node.value.func, ast.Attribute) and isinstance(node.value.func.value, ast.Name) \
                    and node.value.func.value.id in ("self", "cls"):
                gen_fn = node.value.func.attr
    if find_method(mod, cls, gen_fn) is None:
        raise TranslatorGap(f"{clsname}: cannot find the method that produces the free ids")
    g = find_method(mod, cls, gen_fn)[2]
    lo, hi, reserved = range_bounds(mod, cls, g)
    gsrc = ast.unparse(g)
    # the local variable holding the free ids is whatever the result of the generator is bound to
    # (its name is the author's business)
    for node in ast.walk(a):
        if isinstance(node, ast.Assign) and isinstance(node.value, ast.Call) and isinstance(node.value.func, ast.Attribute) and node.value.func.attr == gen_fn \
                and len(node.targets) == 1 and isinstance(node.targets[0], ast.Name):
            var = node.targets[0].id
            break
    # consumed smallest first: list reversed then .pop()
    if ".reverse()" not in gsrc or f"{var}.pop()" not in ast.unparse(a):
        raise TranslatorGap(f"{clsname}: free ids are not consumed smallest-first")
    beh, node = exhaustion_behaviour(a, var)
    # the exhaustion test must sit in the branch that needs a new id (not at the loop top)
    asrc = ast.unparse(a)
    loop = [n for n in ast.walk(a) if isinstance(n, ast.For)][-1]
    top_level_tests = [s for s in loop.body if isinstance(s, ast.If) and ast.unparse(s.test) == f"not {var}"]
    if top_level_tests:
        raise TranslatorGap(f"{clsname}: exhaustion test at the top of the loop")
    carried_first = None
    if sort_key is not None:
        carried_first = False
        for node in ast.walk(a):
            if isinstance(node, ast.Call) and isinstance(node.func, ast.Name) and node.func.id == "sorted":
                for kw in node.keywords:
                    if kw.arg == "key" and isinstance(kw.value, ast.Lambda) and len(kw.value.args.args) == 1:
                        arg = kw.value.args.args[0].arg
                        if ast.unparse(kw.value.body) == f"{arg}.index is None":
                            carried_first = True
        if not carried_first:
            raise TranslatorGap(f"{clsname}: index-carrying objects are not placed first")
    return {"lo": lo, "hi": hi, "reserved": reserved, "raise": beh == "raise", "behaviour": beh}


def generate(gen_dir, build_dir, write_if_changed):
    gaps, cfg = [], {}
    specs = [
        ("mrgn", E + "rich_mrgn_editor", "RichMrgnEditor", "_generate_allocable_location_indices", "add_locations", "allocable_indices", ("unique_locations_to_add", "location")),
        ("uprp", E + "rich_uprp_editor", "RichUprpEditor", "_generate_allocable_ids", "add_cuwp_slots", "allocable_ids", ("unique_cuwps", "cuwp")),
        ("wav", E + "rich_wav_editor", "RichWavEditor", "_generate_allocable_ids", "add_wav_files", "allocable_ids", None),
    ]
    for name, m, c, g, a, v, sk in specs:
        try:
            cfg[name] = editor_cfg(m, c, g, a, v, sk)
        except TranslatorGap as e:
            gaps.append((name, str(e)))
        except Exception as e:  # noqa: BLE001
            gaps.append((name, f"reader error {type(e).__name__}: {e}"))
    # SWNM rebuilder: range(0, MAX_SWITCHES), pointer into the ascending free list, raise when exhausted
    try:
        mod = load_module("richchk.io.richchk.lookups.swnm.rich_swnm_rebuilder")
        cls = mod.classes["RichSwnmRebuilder"]
        g = find_method(mod, cls, "_generate_allocable_ids")[2]
        lo, hi, _ = range_bounds(mod, cls, g)
        src = ast.unparse(find_method(mod, cls, "rebuild_rich_swnm_from_rich_chk")[2])
        # shapes with the local names left to the author; what matters: the free list is computed from the
        # UNION of trigger-used and named switches, consumed through a pointer, exhaustion raises
        import re

        mu = re.search(r"(\w+) = (\w+)\.union\((\w+)\)", src)
        mf = re.search(r"(\w+) = cls\._generate_allocable_ids\((\w+)\)", src)
        if not mu or not mf or mf.group(2) != mu.group(1):
            raise TranslatorGap("SWNM rebuilder: free ids are not computed from the union of used and named switches")
        free = re.escape(mf.group(1))
        # "the pointer is past the end of the free list", in any of its equivalent integer spellings
        mp = None
        for pat in (r"if (\w+) > len\(%s\) - 1:", r"if (\w+) >= len\(%s\):", r"if len\(%s\) <= (\w+):", r"if len\(%s\) - 1 < (\w+):",
                    r"if not (\w+) < len\(%s\):", r"if not (\w+) <= len\(%s\) - 1:"):
            mp = re.search(pat % free, src)
            if mp:
                break
        if not mp:
            raise TranslatorGap("SWNM rebuilder: no exhaustion test on the free-id pointer")
        ptr = re.escape(mp.group(1))
        for need in [r"raise ValueError\(\w+\)", r"\w+ = %s\[%s\]" % (free, ptr), r"%s \+= 1" % ptr, r"(\w+)\[(\w+)\.index\] = \2"]:
            if not re.search(need, src):
                raise TranslatorGap(f"SWNM rebuilder lacks the shape `{need}`")
        cfg["swnm"] = {"lo": lo, "hi": hi, "reserved": None, "raise": True, "behaviour": "raise"}
    except TranslatorGap as e:
        gaps.append(("swnm", str(e)))
    except Exception as e:  # noqa: BLE001
        gaps.append(("swnm", f"reader error {type(e).__name__}: {e}"))
    # table sizes used by the rich transcoders when re-expanding
    sizes = {}
    try:
        m = load_module("richchk.transcoder.richchk.transcoders.richchk_mrgn_transcoder")
        sizes["mrgnEncodeSlots"] = const_value(m, ast.Attribute(value=ast.Name(id="self"), attr="_MAX_LOCATIONS"), m.classes["RichChkMrgnTranscoder"])
        m = load_module("richchk.model.chk.uprp.uprp_constants")
        sizes["maxCuwpSlots"] = const_value(m, ast.Name(id="MAX_CUWP_SLOTS"))
        m = load_module("richchk.model.chk.wav.wav_constants")
        sizes["maxWavFiles"] = const_value(m, ast.Name(id="MAX_WAV_FILES"))
        sizes["unusedWavStringId"] = const_value(m, ast.Name(id="UNUSED_WAV_STRING_ID"))
        m = load_module("richchk.model.chk.swnm.swnm_constants")
        sizes["maxSwitches"] = const_value(m, ast.Name(id="MAX_SWITCHES"))
        m = load_module("richchk.transcoder.richchk.transcoders.richchk_trig_transcoder")
        c = m.classes["RichChkTrigTranscoder"]
        sizes["condsPerTrigger"] = const_value(m, ast.Attribute(value=ast.Name(id="self"), attr="_NUM_CONDITIONS_PER_TRIGGER"), c)
        sizes["actionsPerTrigger"] = const_value(m, ast.Attribute(value=ast.Name(id="self"), attr="_NUM_ACTIONS_PER_TRIGGER"), c)
    except Exception as e:  # noqa: BLE001
        gaps.append(("sizes", f"{type(e).__name__}: {e}"))

    def lean_cfg(c):
        r = "none" if c["reserved"] is None else f"some {c['reserved']}"
        return f"⟨{c['lo']}, {c['hi']}, {r}, {'true' if c['raise'] else 'false'}⟩"

    L = ["/- GENERATED by /verif/translator/tr_consts.py on every run.  Do not edit. -/", "import RichchkModel.Model.Alloc", "namespace Richchk.Generated", "open Richchk", "", f"def constGaps : Nat := {len(gaps)}"]
    for g in gaps:
        L.append(f"-- TranslatorGap {g[0]}: {g[1]}")
    for name in ("mrgn", "uprp", "wav", "swnm"):
        c = cfg.get(name, {"lo": 0, "hi": 0, "reserved": None, "raise": False})
        L.append(f"def {name}Cfg : AllocCfg := {lean_cfg(c)}")
    for k, v in sizes.items():
        L.append(f"def {k} : Nat := {v}")
    L.append("")
    L.append("end Richchk.Generated")
    write_if_changed(os.path.join(gen_dir, "Consts.lean"), "\n".join(L) + "\n")
    with open(os.path.join(build_dir, "consts.json"), "w") as f:
        json.dump({"cfg": cfg, "sizes": sizes, "gaps": gaps}, f)
    return gaps, {"editors": len(cfg), "sizes": len(sizes), "gaps": len(gaps)}
