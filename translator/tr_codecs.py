"""Translate the helper codecs: flag bit layouts, every RichChkEnum, known AI scripts,
hit-point conversion constants  ->  lean/RichchkModel/Generated/Codecs.lean (+ build/codecs.json)."""
import ast
import glob
import json
import os
import re

from pysrc import PKG_ROOT, TranslatorGap, const_value, dataclass_fields, find_class, find_method, load_module, load_path, property_map

H = "richchk.transcoder.richchk.transcoders.helpers."


def strip_us(n):
    return n[1:] if n.startswith("_") else n


def func_body(fn):
    return [s for s in fn.body if not (isinstance(s, ast.Expr) and isinstance(s.value, ast.Constant))]


def bit_index_expr(node, env):
    """bool(int(S[-k])) | not bool(int(S[-k])) | Name bound to one  ->  (k-1, inverted, S)"""
    inverted = False
    if isinstance(node, ast.Name) and node.id in env:
        return bit_index_expr(env[node.id], env)
    if isinstance(node, ast.UnaryOp) and isinstance(node.op, ast.Not):
        inverted = True
        node = node.operand
    if not (isinstance(node, ast.Call) and isinstance(node.func, ast.Name) and node.func.id == "bool"):
        raise TranslatorGap("flag value is not bool(int(bits[-k]))")
    inner = node.args[0]
    if not (isinstance(inner, ast.Call) and isinstance(inner.func, ast.Name) and inner.func.id == "int" and len(inner.args) == 1):
        raise TranslatorGap("flag value is not bool(int(bits[-k]))")
    sub = inner.args[0]
    if not (isinstance(sub, ast.Subscript) and isinstance(sub.value, ast.Name)):
        raise TranslatorGap("flag value does not index a bit string")
    idx = sub.slice
    if isinstance(idx, ast.UnaryOp) and isinstance(idx.op, ast.USub) and isinstance(idx.operand, ast.Constant):
        k = idx.operand.value
    else:
        raise TranslatorGap("bit index is not a negative literal")
    return k - 1, inverted, sub.value.id


def format_width(node):
    """'{:0Wb}'.format(x) -> W"""
    if (
        isinstance(node, ast.Call)
        and isinstance(node.func, ast.Attribute)
        and node.func.attr == "format"
        and isinstance(node.func.value, ast.Constant)
    ):
        m = re.fullmatch(r"\{:0(\d+)b\}", node.func.value.value)
        if m:
            return int(m.group(1))
    raise TranslatorGap("bit string is not '{:0Wb}'.format(n)")


def decode_ctor_flags(mod, cls, fname):
    """decode function returning Ctor(kw=bool(int(S[-k])), ...) -> (width, [(name, bit, inverted)])"""
    r = find_method(mod, cls, fname)
    if not r:
        raise TranslatorGap(f"{cls.name}.{fname} missing")
    fn = r[2]
    env, width_of = {}, {}
    ret = None
    for st in func_body(fn):
        if isinstance(st, (ast.Assign, ast.AnnAssign)):
            t = st.targets[0] if isinstance(st, ast.Assign) else st.target
            if isinstance(t, ast.Name):
                env[t.id] = st.value
                try:
                    width_of[t.id] = format_width(st.value)
                except TranslatorGap:
                    pass
        elif isinstance(st, ast.Return):
            ret = st.value
    if not (isinstance(ret, ast.Call) and ret.keywords and not ret.args):
        raise TranslatorGap(f"{fname} does not return a keyword-constructed flags object")
    out, width = [], None
    for kw in ret.keywords:
        bit, inv, s = bit_index_expr(kw.value, env)
        if s not in width_of:
            raise TranslatorGap("bit string width unknown")
        width = width_of[s]
        out.append((strip_us(kw.arg), bit, inv))
    return width, out


def encode_fstring_order(mod, cls, fname):
    """int(f"{int(x.a)}{int(x.b)}...", base=2) -> [(name, inverted)] most significant first"""
    r = find_method(mod, cls, fname)
    if not r:
        raise TranslatorGap(f"{cls.name}.{fname} missing")
    body = func_body(r[2])
    if len(body) != 1 or not isinstance(body[0], ast.Return):
        raise TranslatorGap(f"{fname} is not a single return")
    call = body[0].value
    if not (isinstance(call, ast.Call) and isinstance(call.func, ast.Name) and call.func.id == "int"):
        raise TranslatorGap(f"{fname} does not return int(<bit string>, base=2)")
    base = [k for k in call.keywords if k.arg == "base"]
    if not base or const_value(mod, base[0].value) != 2:
        raise TranslatorGap("bit string is not parsed with base=2")
    js = call.args[0]
    if not isinstance(js, ast.JoinedStr):
        raise TranslatorGap("bit string is not an f-string")
    out = []
    for v in js.values:
        if not isinstance(v, ast.FormattedValue):
            raise TranslatorGap("literal text inside the bit f-string")
        e = v.value
        if not (isinstance(e, ast.Call) and isinstance(e.func, ast.Name) and e.func.id == "int" and len(e.args) == 1):
            raise TranslatorGap("f-string part is not int(...)")
        a = e.args[0]
        inv = False
        if isinstance(a, ast.UnaryOp) and isinstance(a.op, ast.Not):
            inv, a = True, a.operand
        if not isinstance(a, ast.Attribute):
            raise TranslatorGap("f-string part is not int(obj.attr)")
        out.append((strip_us(a.attr), inv))
    return out


CUWP_DECODE_EXPECTED = """bit_string_template = f'{{:0{str(cuwp_flags_type.flags_bit_size())}b}}'
bit_string = bit_string_template.format(encoded_flags)
num_bits_used_for_flags = len(dataclasses.fields(cuwp_flags_type))
decoded_flags = []
for bit in range(1, num_bits_used_for_flags + 1):
    decoded_flags.append(bool(int(bit_string[bit * -1])))
return cuwp_flags_type(*decoded_flags)"""
CUWP_ENCODE_EXPECTED = """encoded_flags = []
for field in dataclasses.fields(decoded_flags):
    encoded_flags.append(f'{int(getattr(decoded_flags, field.name))}')
encoded_flags.reverse()
return int(''.join(encoded_flags), base=2)"""


def codec_entry(name, width, dec, enc_msb_first):
    """combine decode [(name, bit, inv)] and encode [(name, inv)] (MSB first) into a FlagCodec"""
    enc = list(reversed(enc_msb_first))  # LSB first
    pos = {n: i for i, (n, _) in enumerate(enc)}
    if len(pos) != len(enc):
        raise TranslatorGap(f"{name}: a flag is written twice")
    invs = {i for _, _, i in dec} | {i for _, i in enc}
    if len(invs) != 1:
        raise TranslatorGap(f"{name}: mixed inverted / plain flags")
    fields = []
    for n, bit, _ in dec:
        if n not in pos:
            raise TranslatorGap(f"{name}: decoded flag {n} is never encoded")
        fields.append({"name": n, "decodeBit": bit, "encodePos": pos[n]})
    if len(fields) != len(enc):
        raise TranslatorGap(f"{name}: encoded flag never decoded")
    return {"name": name, "width": width, "inverted": invs.pop(), "fields": fields}


def translate_flags():
    out = []
    for modname, clsname, label in [
        (H + "trigger_action_flags_transcoder", "TriggerActionFlagsTranscoder", "trigger_action"),
        (H + "trigger_condition_flags_transcoder", "TriggerConditionFlagsTranscoder", "trigger_condition"),
    ]:
        mod = load_module(modname)
        cls = mod.classes[clsname]
        width, dec = decode_ctor_flags(mod, cls, "decode_flags")
        enc = encode_fstring_order(mod, cls, "encode_flags")
        out.append(codec_entry(label, width, dec, enc))
    # MRGN elevation flags
    mod = load_module("richchk.transcoder.richchk.transcoders.richchk_mrgn_transcoder")
    cls = mod.classes["RichChkMrgnTranscoder"]
    width, dec = decode_ctor_flags(mod, cls, "_decode_elevation_flags")
    enc = encode_fstring_order(mod, cls, "_encode_elevation_flags")
    # the hop elevation_flags.x -> RichLocation(_x=...)
    src = ast.unparse(find_method(mod, cls, "decode")[2])
    for n, _, _ in dec:
        if f"_{n}=elevation_flags.{n}" not in src:
            raise TranslatorGap(f"elevation flag {n} is not stored in RichLocation._{n}")
    out.append(codec_entry("mrgn_elevation", width, dec, enc))
    # CUWP flags: generic loop over dataclass fields
    mod = load_module(H + "cuwp_flags_transcoder")
    cls = mod.classes["CuwpFlagsTranscoder"]
    d = "\n".join(ast.unparse(s) for s in func_body(find_method(mod, cls, "decode_flags")[2]))
    e = "\n".join(ast.unparse(s) for s in func_body(find_method(mod, cls, "encode_flags")[2]))
    if d != CUWP_DECODE_EXPECTED:
        raise TranslatorGap("CuwpFlagsTranscoder.decode_flags has an unrecognised shape")
    if e != CUWP_ENCODE_EXPECTED:
        raise TranslatorGap("CuwpFlagsTranscoder.encode_flags has an unrecognised shape")
    for fmod, fcls, label in [
        ("valid_special_property_flags", "ValidSpecialPropertyFlags", "cuwp_valid_special"),
        ("valid_unit_property_flags", "ValidUnitPropertyFlags", "cuwp_valid_unit"),
        ("unit_property_flags", "UnitPropertyFlags", "cuwp_unit"),
    ]:
        m = load_module("richchk.model.richchk.uprp.flags." + fmod)
        c = m.classes[fcls]
        names = [strip_us(n) for n, _ in dataclass_fields(m, c)]
        r = find_method(m, c, "flags_bit_size")
        body = func_body(r[2])
        width = const_value(m, body[0].value)
        fields = [{"name": n, "decodeBit": i, "encodePos": i} for i, n in enumerate(names)]
        out.append({"name": label, "width": width, "inverted": False, "fields": fields})
    return out


def translate_enums():
    enums = []
    root = os.path.join(PKG_ROOT, "richchk", "model", "richchk")
    for p in sorted(glob.glob(os.path.join(root, "**", "*.py"), recursive=True)):
        mod = load_path(p)
        for cname, cls in mod.classes.items():
            if not any(isinstance(b, ast.Name) and b.id == "RichChkEnum" for b in cls.bases):
                continue
            members = []
            for node in cls.body:
                if isinstance(node, ast.Assign) and len(node.targets) == 1 and isinstance(node.targets[0], ast.Name):
                    v = const_value(mod, node.value, cls)
                    if not (isinstance(v, tuple) and len(v) == 2 and isinstance(v[0], int)):
                        raise TranslatorGap(f"{cname}.{node.targets[0].id} is not (id, name)")
                    members.append({"member": node.targets[0].id, "id": v[0], "desc": v[1]})
            enums.append({"enum": cname, "module": mod.name, "members": members})
    return enums


def translate_ai():
    mod = load_module("richchk.model.richchk.trig.enums.ai_script")
    cls = mod.classes["KnownAiScript"]
    out = []
    for node in cls.body:
        if isinstance(node, ast.Assign) and isinstance(node.value, ast.Call):
            c = node.value
            if not (isinstance(c.func, ast.Name) and c.func.id == "AiScript" and len(c.args) == 2):
                raise TranslatorGap("KnownAiScript member is not AiScript(name, description)")
            out.append({"member": node.targets[0].id, "name": const_value(mod, c.args[0]), "desc": const_value(mod, c.args[1])})
    # the transcoder: lookup keyed by exact name, 4-byte pack/unpack
    tm = load_module(H + "ai_script_transcoder")
    src = ast.unparse(tm.classes["AiScriptTranscoder"])
    # shapes, with local variable names left to the author (\\w+ / back-references)
    for need in [r"(\w+)\.value\.name: \1\.value for \1 in KnownAiScript",
                 r"(\w+) = struct\.pack\('I', \w+\)\s+(\w+) = \1\.decode\(_STRING_ENCODING\)",
                 r"\w+ in cls\._AI_SCRIPT_LOOKUP",
                 r"UnknownAiScript\(_name=\w+",
                 r"(\w+) = \w+\.name\.encode\(_STRING_ENCODING\)\s+\w+ = struct\.unpack\('I', \1\)\[0\]"]:
        if not re.search(need, src):
            raise TranslatorGap(f"AiScriptTranscoder lacks the shape `{need}`")
    return out


def translate_hp():
    tm = load_module(H + "unit_hitpoints_transcoder")
    cls = tm.classes["UnitHitpointsTranscoder"]
    rate = const_value(tm, ast.Attribute(value=ast.Name(id="cls"), attr="_HITPOINTS_CONVERSION_RATE"), cls)
    dsrc = ast.unparse(find_method(tm, cls, "decode_hitpoints")[2])
    esrc = ast.unparse(find_method(tm, cls, "encode_hitpoints")[2])
    m = re.search(r"actual_hitpoints = Decimal\(hitpoints_before_decode\) / Decimal\((\w+(?:\.\w+)?)\)", dsrc)
    if not m or "return actual_hitpoints" not in dsrc:
        raise TranslatorGap("decode_hitpoints shape")
    div = int(m.group(1)) if m.group(1).isdigit() else rate
    if "return int(Decimal(encoded_hitpoints) * Decimal(cls._HITPOINTS_CONVERSION_RATE))" not in esrc:
        raise TranslatorGap("encode_hitpoints shape")
    return {"decodeDivisor": div, "encodeMultiplier": rate}


def translate_unit_weapons(enums):
    ids = {e["enum"]: {m["member"]: m["id"] for m in e["members"]} for e in enums}
    mod = load_module("richchk.model.richchk.unis.unit_to_weapon_lookup")
    d = mod.assigns.get("_UNIT_TO_WEAPON")
    if not isinstance(d, ast.Dict):
        raise TranslatorGap("_UNIT_TO_WEAPON is not a dict literal")
    out = []
    for k, v in zip(d.keys, d.values):
        if not (isinstance(k, ast.Attribute) and isinstance(k.value, ast.Name) and k.value.id == "UnitId" and isinstance(v, ast.List)):
            raise TranslatorGap("_UNIT_TO_WEAPON entry shape")
        ws = []
        for w in v.elts:
            if not (isinstance(w, ast.Attribute) and isinstance(w.value, ast.Name) and w.value.id == "WeaponId"):
                raise TranslatorGap("_UNIT_TO_WEAPON weapon shape")
            ws.append(ids["WeaponId"][w.attr])
        out.append((ids["UnitId"][k.attr], ws))
    src = ast.unparse(mod.functions["get_weapons_for_unit"])
    if "return _UNIT_TO_WEAPON.get(unit, list())" not in src:
        raise TranslatorGap("get_weapons_for_unit shape")
    return out


def lean_str(s):
    return '"' + s.replace("\\", "\\\\").replace('"', '\\"') + '"'


def generate(gen_dir, build_dir, write_if_changed):
    gaps = []
    flags, enums, ai, hp = [], [], [], {"decodeDivisor": 0, "encodeMultiplier": 0}
    for label, fn in [("flags", translate_flags), ("enums", translate_enums), ("ai", translate_ai), ("hp", translate_hp)]:
        try:
            v = fn()
            if label == "flags":
                flags = v
            elif label == "enums":
                enums = v
            elif label == "ai":
                ai = v
            else:
                hp = v
        except TranslatorGap as e:
            gaps.append((label, str(e)))
        except Exception as e:  # noqa: BLE001
            gaps.append((label, f"reader error {type(e).__name__}: {e}"))
    unit_weapons = []
    try:
        unit_weapons = translate_unit_weapons(enums)
    except TranslatorGap as e:
        gaps.append(("unit_weapons", str(e)))
    except Exception as e:  # noqa: BLE001
        gaps.append(("unit_weapons", f"reader error {type(e).__name__}: {e}"))
    L = [
        "/- GENERATED by /verif/translator/tr_codecs.py on every run.  Do not edit. -/",
        "import RichchkModel.Model.Codecs",
        "namespace Richchk.Generated",
        "open Richchk",
        "",
        f"def codecGaps : Nat := {len(gaps)}",
    ]
    for g in gaps:
        L.append(f"-- TranslatorGap {g[0]}: {g[1]}")
    L.append("")
    L.append("def flagCodecs : List (String × FlagCodec) := [")
    rows = []
    for c in flags:
        fs = ", ".join(f"⟨{lean_str(f['name'])}, {f['decodeBit']}, {f['encodePos']}⟩" for f in c["fields"])
        rows.append(f"  ({lean_str(c['name'])}, ⟨{c['width']}, {'true' if c['inverted'] else 'false'}, [{fs}]⟩)")
    L.append(",\n".join(rows))
    L.append("]")
    L.append("")
    L.append("def enums : List (String × List EnumMember) := [")
    rows = []
    for e in enums:
        # emitted sorted by number (stable): the obligation "numbers strictly increasing" is then
        # linear; two members on one number stay adjacent and fail it
        ms = ", ".join(f"⟨{lean_str(m['member'])}, {m['id']}⟩" for m in sorted(e["members"], key=lambda m: m["id"]))
        rows.append(f"  ({lean_str(e['enum'])}, [{ms}])")
    L.append(",\n".join(rows))
    L.append("]")
    L.append("")
    L.append("/-- (member, UTF-8 bytes of the script name) -/")
    L.append("def knownAiScripts : List (String × Bytes) := [")
    L.append(",\n".join(f"  ({lean_str(a['member'])}, [{', '.join(str(b) for b in a['name'].encode('utf-8'))}])" for a in ai))
    L.append("]")
    L.append("")
    L.append(f"def hpDecodeDivisor : Nat := {hp['decodeDivisor']}")
    L.append(f"def hpEncodeMultiplier : Nat := {hp['encodeMultiplier']}")
    L.append("/-- unit id -> weapon ids (`_UNIT_TO_WEAPON`) -/")
    L.append("def unitWeapons : List (Nat × List Nat) := [" + ", ".join(f"({u}, {ws})" for u, ws in unit_weapons) + "]")
    L.append("")
    L.append("end Richchk.Generated")
    write_if_changed(os.path.join(gen_dir, "Codecs.lean"), "\n".join(L) + "\n")
    with open(os.path.join(build_dir, "codecs.json"), "w") as f:
        json.dump({"flags": flags, "enums": enums, "ai": ai, "hp": hp, "unit_weapons": unit_weapons, "gaps": gaps}, f)
    return gaps, {"flag_codecs": len(flags), "enums": len(enums), "enum_members": sum(len(e["members"]) for e in enums), "ai_scripts": len(ai), "gaps": len(gaps)}


if __name__ == "__main__":
    import sys

    def w(p, t):
        sys.stdout.write(t)
        return True

    os.makedirs("/tmp/codecs_build", exist_ok=True)
    print(generate("/tmp/codecs_gen", "/tmp/codecs_build", w))
