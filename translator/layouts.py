"""Translate the ten byte transcoders (transcoder/chk/transcoders/*.py) into Lean layouts.

A restricted-subset symbolic reader: it executes `decode` and `_encode` symbolically over
the statement forms those files use and produces, independently for the two directions,
a layout tree

    Seq[ Field(name,width) | Array(name,width,count) | Repeat(n|EOF, Seq) | Sub(size, Seq)
         | StrTable(width) ]

which is then classified into one of the model's `SecLayout` shapes.  Anything outside the
subset raises TranslatorGap (reported, never guessed).
"""
import ast
import glob
import os

from pysrc import (
    PKG_ROOT,
    TranslatorGap,
    class_attr_value,
    const_value,
    find_class,
    find_method,
    load_path,
    property_map,
    section_name_value,
)

FMT_WIDTH = {"B": 1, "H": 2, "I": 4, "c": 1}


# ----------------------------------------------------------------------------- symbolic values
class Read:
    """one integer read from / written to the stream"""

    def __init__(self, fmt, order):
        self.fmt = fmt
        self.order = order  # global sequence number of the read

    def __repr__(self):
        return f"Read({self.fmt}@{self.order})"


class ReadList:
    def __init__(self, fmt, count, order):
        self.fmt, self.count, self.order = fmt, count, order


class Obj:
    def __init__(self, cls, fields):
        self.cls, self.fields = cls, fields  # fields: kw -> value


class RepList:
    """list built by a loop: count is int or 'EOF'; elem is the value appended per iteration"""

    def __init__(self, count, elem, sub=None):
        self.count, self.elem, self.sub = count, elem, sub


class Stream:
    def __init__(self, name, size=None):
        self.name, self.size = name, size


class StrLoop:
    """the NUL-terminated string loop"""

    def __init__(self, order):
        self.order = order


class DecodeExec:
    """symbolic execution of a `decode` method"""

    def __init__(self, mod, cls):
        self.mod, self.cls = mod, cls
        self.counter = 0
        self.trace = []  # layout events in stream order

    def tick(self):
        self.counter += 1
        return self.counter

    def const(self, node):
        return const_value(self.mod, node, self.cls)

    # -- expressions
    def read_expr(self, node, env):
        """match struct.unpack(F, S.read(n))[0] -> Read"""
        if (
            isinstance(node, ast.Subscript)
            and isinstance(node.value, ast.Call)
            and self.is_struct(node.value.func, "unpack")
        ):
            idx = node.slice
            if not (isinstance(idx, ast.Constant) and idx.value == 0):
                raise TranslatorGap("unpack result index is not [0]")
            call = node.value
            fmt = self.const(call.args[0])
            rd = call.args[1]
            if not (
                isinstance(rd, ast.Call)
                and isinstance(rd.func, ast.Attribute)
                and rd.func.attr == "read"
                and isinstance(rd.func.value, ast.Name)
                and isinstance(env.get(rd.func.value.id), Stream)
            ):
                raise TranslatorGap("unpack source is not stream.read(n)")
            n = self.const(rd.args[0])
            if fmt not in FMT_WIDTH:
                raise TranslatorGap(f"unsupported struct format {fmt!r}")
            if FMT_WIDTH[fmt] != n:
                raise TranslatorGap(f"read({n}) does not match format {fmt!r}")
            return Read(fmt, self.tick())
        return None

    def fmt_of_decode(self, node):
        """'64B' or '{}B'.format(N) -> (format char, count)"""
        if isinstance(node, ast.Constant) and isinstance(node.value, str) and node.value[:-1].isdigit() and node.value[-1] in FMT_WIDTH:
            return node.value[-1], int(node.value[:-1])
        if (isinstance(node, ast.Call) and isinstance(node.func, ast.Attribute) and node.func.attr == "format"
                and isinstance(node.func.value, ast.Constant) and isinstance(node.func.value.value, str)):
            tmpl = node.func.value.value
            if tmpl.startswith("{}") and len(tmpl) == 3 and len(node.args) == 1:
                return tmpl[2], self.const(node.args[0])
        if isinstance(node, ast.JoinedStr) and len(node.values) == 2 and isinstance(node.values[0], ast.FormattedValue) and isinstance(node.values[1], ast.Constant):
            return node.values[1].value, self.const(node.values[0].value)
        raise TranslatorGap(f"unsupported unpack format {ast.unparse(node)[:60]}")

    @staticmethod
    def is_struct(func, name):
        return (
            isinstance(func, ast.Attribute)
            and func.attr == name
            and isinstance(func.value, ast.Name)
            and func.value.id == "struct"
        )

    def is_eof_test(self, test, env):
        """stream.tell() != len(data)"""
        return (
            isinstance(test, ast.Compare)
            and len(test.ops) == 1
            and isinstance(test.ops[0], ast.NotEq)
            and isinstance(test.left, ast.Call)
            and isinstance(test.left.func, ast.Attribute)
            and test.left.func.attr == "tell"
            and isinstance(test.comparators[0], ast.Call)
            and isinstance(test.comparators[0].func, ast.Name)
            and test.comparators[0].func.id == "len"
        )

    def range_count(self, it):
        if isinstance(it, ast.Call) and isinstance(it.func, ast.Name) and it.func.id == "range":
            if len(it.args) == 1:
                return it.args[0]
        return None

    def eval(self, node, env):
        r = self.read_expr(node, env)
        if r is not None:
            return r
        # "c" char read: struct.unpack("c", s.read(1))[0].decode(ENC)
        if (
            isinstance(node, ast.Call)
            and isinstance(node.func, ast.Attribute)
            and node.func.attr == "decode"
        ):
            inner = self.read_expr(node.func.value, env)
            if inner is not None and inner.fmt == "c":
                return ("char", inner)
        if isinstance(node, ast.Name):
            if node.id in env:
                return env[node.id]
            return ("const", self.const(node))
        if isinstance(node, ast.Constant):
            return ("const", node.value)
        if isinstance(node, ast.List) and not node.elts:
            return []
        if isinstance(node, ast.ListComp):
            if len(node.generators) != 1 or node.generators[0].ifs:
                raise TranslatorGap("unsupported comprehension")
            cnt = self.range_count(node.generators[0].iter)
            if cnt is None:
                raise TranslatorGap("comprehension is not over range(N)")
            n = self.const(cnt)
            elt = self.read_expr(node.elt, env)
            if elt is None:
                raise TranslatorGap("comprehension element is not a stream read")
            return ReadList(elt.fmt, n, elt.order)
        # counted read: list(struct.unpack("{}B".format(N), s.read(N * width))) (also without list(...))
        inner = node
        if isinstance(node, ast.Call) and isinstance(node.func, ast.Name) and node.func.id in ("list", "tuple") and len(node.args) == 1:
            inner = node.args[0]
        if isinstance(inner, ast.Call) and self.is_struct(inner.func, "unpack") and len(inner.args) == 2:
            try:
                fmt, count = self.fmt_of_decode(inner.args[0])
            except TranslatorGap:
                fmt, count = None, None
            rd = inner.args[1]
            if (fmt in FMT_WIDTH and isinstance(count, int) and isinstance(rd, ast.Call) and isinstance(rd.func, ast.Attribute) and rd.func.attr == "read"
                    and isinstance(rd.func.value, ast.Name) and isinstance(env.get(rd.func.value.id), Stream)):
                n = self.const(rd.args[0])
                if n != count * FMT_WIDTH[fmt]:
                    raise TranslatorGap(f"read({n}) does not match format {count}{fmt!r}")
                return ReadList(fmt, count, self.tick())
        if isinstance(node, ast.Call):
            f = node.func
            # BytesIO(x)
            if isinstance(f, ast.Name) and f.id == "BytesIO":
                src = node.args[0]
                if isinstance(src, ast.Name) and isinstance(env.get(src.id), Stream):
                    return env[src.id]
                return Stream("bytes")
            # constructor with keywords
            if isinstance(f, ast.Name) and node.keywords and not node.args:
                try:
                    find_class(self.mod, f.id)
                except TranslatorGap:
                    raise TranslatorGap(f"unknown callable {f.id}")
                return Obj(f.id, {k.arg: self.eval(k.value, env) for k in node.keywords})
            # helper method call: self.m(...)/cls.m(...)
            if isinstance(f, ast.Attribute) and isinstance(f.value, ast.Name) and f.value.id in ("self", "cls"):
                return self.call_method(f.attr, node.args, env)
            # "".join(chars)
            if isinstance(f, ast.Attribute) and f.attr == "join":
                return ("joined", self.eval(node.args[0], env))
            # stream.read(n) as an argument (sub-stream)
            if isinstance(f, ast.Attribute) and f.attr == "read" and isinstance(f.value, ast.Name):
                if isinstance(env.get(f.value.id), Stream):
                    return Stream("sub", self.const(node.args[0]))
        raise TranslatorGap(f"unsupported decode expression: {ast.unparse(node)[:100]}")

    def call_method(self, name, args, env):
        r = find_method(self.mod, self.cls, name)
        if not r:
            raise TranslatorGap(f"helper {name} not found")
        m, c, fn = r
        params = [a.arg for a in fn.args.args if a.arg not in ("self", "cls")]
        if len(params) != len(args):
            raise TranslatorGap(f"helper {name}: argument count")
        sub_marker = None
        new_env = {}
        for p, a in zip(params, args):
            v = self.eval(a, env)
            is_read_call = (
                isinstance(a, ast.Call) and isinstance(a.func, ast.Attribute) and a.func.attr == "read"
            )
            if isinstance(v, Stream) and v.name == "sub" and is_read_call:
                sub_marker = v
                self.trace.append(("sub_begin", v.size))
            new_env[p] = v
        ret = self.exec_block(fn.body, new_env)
        if sub_marker is not None:
            self.trace.append(("sub_end", sub_marker.size))
        return ret

    # -- statements
    def exec_block(self, stmts, env):
        for st in stmts:
            if isinstance(st, ast.Expr) and isinstance(st.value, ast.Constant):
                continue
            if isinstance(st, (ast.Assign, ast.AnnAssign)):
                target = st.targets[0] if isinstance(st, ast.Assign) else st.target
                if st.value is None:
                    continue
                if not isinstance(target, ast.Name):
                    raise TranslatorGap("assignment target is not a name")
                # `xs = [<read> for _ in range(n)]` with n a count read from the stream is the same thing as
                # `xs = []; for _ in range(n): xs.append(<read>)`: one canonical trace for both spellings
                lc = st.value
                if isinstance(lc, ast.ListComp) and len(lc.generators) == 1 and not lc.generators[0].ifs:
                    cnt = self.range_count(lc.generators[0].iter)
                    if isinstance(cnt, ast.Name) and isinstance(env.get(cnt.id), Read):
                        n = ("var", cnt.id, env[cnt.id].order)
                        self.trace.append(("loop_begin", n))
                        before = len(self.trace)
                        v = self.eval(lc.elt, env)
                        if isinstance(v, Read) and len(self.trace) == before:
                            self.trace.append(("field", target.id, v))
                        self.trace.append(("loop_end", n))
                        env[target.id] = [v]
                        continue
                before = len(self.trace)
                v = self.eval(st.value, env)
                if isinstance(v, Read) and len(self.trace) == before:
                    self.trace.append(("field", target.id, v))
                elif isinstance(v, ReadList):
                    self.trace.append(("array", target.id, v))
                env[target.id] = v
                continue
            if isinstance(st, ast.AugAssign) and isinstance(st.op, ast.Add):
                # index += 1 style counters
                continue
            if isinstance(st, ast.For):
                cnt = self.range_count(st.iter)
                if cnt is None:
                    raise TranslatorGap("for loop is not over range(N)")
                if isinstance(cnt, ast.Name) and isinstance(env.get(cnt.id), Read):
                    n = ("var", cnt.id, env[cnt.id].order)
                else:
                    n = self.const(cnt)
                    # `for _ in range(N): xs.append(<one read>)` with a constant N is the same thing as
                    # `xs = [<one read> for _ in range(N)]`: an array of N numbers
                    if len(st.body) == 1 and isinstance(st.body[0], ast.Expr) and isinstance(st.body[0].value, ast.Call):
                        call = st.body[0].value
                        f = call.func
                        if (isinstance(f, ast.Attribute) and f.attr == "append" and isinstance(f.value, ast.Name) and len(call.args) == 1
                                and env.get(f.value.id) == [] and isinstance(n, int)):
                            mark = len(self.trace)
                            elt = self.read_expr(call.args[0], env)
                            if elt is not None and len(self.trace) == mark:
                                rl = ReadList(elt.fmt, n, elt.order)
                                self.trace.append(("array", f.value.id, rl))
                                env[f.value.id] = rl
                                continue
                self.trace.append(("loop_begin", n))
                self.exec_loop_body(st.body, env)
                self.trace.append(("loop_end", n))
                continue
            if isinstance(st, ast.While):
                if self.is_eof_test(st.test, env):
                    # the string loop has an inner while on the NUL char
                    if any(isinstance(s, ast.While) for s in st.body):
                        self.check_string_loop(st, env)
                        self.trace.append(("strloop",))
                        # strings var: the list appended to
                        for s in st.body:
                            if (
                                isinstance(s, ast.Expr)
                                and isinstance(s.value, ast.Call)
                                and isinstance(s.value.func, ast.Attribute)
                                and s.value.func.attr == "append"
                            ):
                                env[s.value.func.value.id] = ("strings",)
                        continue
                    self.trace.append(("loop_begin", "EOF"))
                    self.exec_loop_body(st.body, env)
                    self.trace.append(("loop_end", "EOF"))
                    continue
                raise TranslatorGap("unsupported while loop")
            if isinstance(st, ast.Expr) and isinstance(st.value, ast.Call):
                f = st.value.func
                if isinstance(f, ast.Attribute) and f.attr == "append" and isinstance(f.value, ast.Name):
                    before = len(self.trace)
                    v = self.eval(st.value.args[0], env)
                    if isinstance(v, Read) and len(self.trace) == before:
                        # list.append(read): a counted array field in a for-loop
                        self.trace.append(("field", f.value.id, v))
                    lst = env.get(f.value.id)
                    if isinstance(lst, list):
                        lst.append(v)
                    continue
                raise TranslatorGap(f"unsupported call statement {ast.unparse(st)[:80]}")
            if isinstance(st, ast.Return):
                return self.eval(st.value, env)
            raise TranslatorGap(f"unsupported decode statement: {ast.unparse(st)[:100]}")
        return None

    def exec_loop_body(self, body, env):
        self.exec_block(body, env)

    def check_string_loop(self, st, env):
        """verify the shape of the STR string loop (read 'c', decode, until NUL)"""
        src = ast.unparse(st)
        need = ["struct.unpack('c'", ".read(1)", ".decode(", "_NULL_TERMINATE_CHAR_FOR_STRING", "append("]
        for n in need:
            if n not in src:
                raise TranslatorGap(f"string loop lacks {n}")


# ----------------------------------------------------------------------------- encode side
class EncodeExec:
    """symbolic execution of `_encode`: produces a sequence of pack events whose argument is
    a path into the decoded object (resolved to model field names)"""

    def __init__(self, mod, cls):
        self.mod, self.cls = mod, cls
        self.trace = []

    def const(self, node):
        return const_value(self.mod, node, self.cls)

    def path_of(self, node, env):
        """expression -> ('path', root, [attr, ...]) / ('index', path, var) / const"""
        if isinstance(node, ast.Name):
            v = env.get(node.id)
            if v is not None:
                return v
            return ("const", self.const(node))
        if isinstance(node, ast.Attribute):
            base = self.path_of(node.value, env)
            if base[0] == "path":
                return ("path", base[1], base[2] + [node.attr])
        if isinstance(node, ast.Subscript):
            base = self.path_of(node.value, env)
            if base[0] == "path":
                idx = node.slice
                if isinstance(idx, ast.Name) and env.get(idx.id, (None,))[0] == "loopvar":
                    return ("path", base[1], base[2] + ["[i]"])
        if isinstance(node, ast.Constant):
            return ("const", node.value)
        raise TranslatorGap(f"unsupported encode operand {ast.unparse(node)[:80]}")

    def fmt_of(self, node, env):
        """format argument: literal or '{}X'.format(N) -> (fmt char, count or None or ('len', path))"""
        if isinstance(node, ast.Constant) and isinstance(node.value, str):
            s = node.value
            if s in FMT_WIDTH:
                return s, None
            if s[:-1].isdigit() and s[-1] in FMT_WIDTH or s[-1] == "s":
                return s[-1], int(s[:-1])
        if (
            isinstance(node, ast.Call)
            and isinstance(node.func, ast.Attribute)
            and node.func.attr == "format"
            and isinstance(node.func.value, ast.Constant)
        ):
            tmpl = node.func.value.value
            if tmpl.startswith("{}") and len(tmpl) == 3:
                arg = node.args[0]
                if isinstance(arg, ast.Call) and isinstance(arg.func, ast.Name) and arg.func.id == "len":
                    return tmpl[2], ("len", self.path_of(arg.args[0], env))
                return tmpl[2], self.const(arg)
        raise TranslatorGap(f"unsupported pack format {ast.unparse(node)[:60]}")

    def pack_event(self, call, env):
        fmt, count = self.fmt_of(call.args[0], env)
        if fmt == "s":
            # string bytes / NUL terminator (STR only)
            self.trace.append(("packs", ast.unparse(call)))
            return
        if len(call.args) != 2:
            raise TranslatorGap("pack with several operands")
        arg = call.args[1]
        if isinstance(arg, ast.Starred):
            p = self.path_of(arg.value, env)
            self.trace.append(("array", fmt, count, p))
        else:
            if count is not None:
                raise TranslatorGap("counted pack without star operand")
            p = self.path_of(arg, env)
            self.trace.append(("field", fmt, p))

    def eval_bytes(self, node, env):
        """expression producing bytes: pack(...), a + b, helper call"""
        if isinstance(node, ast.Constant) and node.value == b"":
            return
        if isinstance(node, ast.BinOp) and isinstance(node.op, ast.Add):
            self.eval_bytes(node.left, env)
            self.eval_bytes(node.right, env)
            return
        if isinstance(node, ast.Call):
            if DecodeExec.is_struct(node.func, "pack"):
                self.pack_event(node, env)
                return
            f = node.func
            if isinstance(f, ast.Attribute) and isinstance(f.value, ast.Name) and f.value.id in ("self", "cls"):
                self.call_method(f.attr, node.args, env)
                return
        if isinstance(node, ast.Name) and env.get(node.id) == ("bytes",):
            return
        raise TranslatorGap(f"unsupported bytes expression {ast.unparse(node)[:100]}")

    def call_method(self, name, args, env):
        r = find_method(self.mod, self.cls, name)
        if not r:
            raise TranslatorGap(f"helper {name} not found")
        m, c, fn = r
        params = [a.arg for a in fn.args.args if a.arg not in ("self", "cls")]
        new_env = {p: self.path_of(a, env) for p, a in zip(params, args)}
        self.exec_block(fn.body, new_env)

    def exec_block(self, stmts, env):
        for st in stmts:
            if isinstance(st, ast.Expr) and isinstance(st.value, ast.Constant):
                continue
            if isinstance(st, (ast.Assign, ast.AnnAssign)):
                target = st.targets[0] if isinstance(st, ast.Assign) else st.target
                if isinstance(st.value, ast.Constant) and st.value.value == b"":
                    env[target.id] = ("bytes",)
                    continue
                raise TranslatorGap(f"unsupported encode assignment {ast.unparse(st)[:80]}")
            if isinstance(st, ast.AugAssign) and isinstance(st.op, ast.Add):
                self.eval_bytes(st.value, env)
                continue
            if isinstance(st, ast.For):
                it = st.iter
                if isinstance(it, ast.Call) and isinstance(it.func, ast.Name) and it.func.id == "range":
                    bound = self.path_of(it.args[0], env)
                    self.trace.append(("loop_begin", ("range", bound)))
                    env2 = dict(env)
                    env2[st.target.id] = ("loopvar",)
                    self.exec_block(st.body, env2)
                    self.trace.append(("loop_end",))
                    continue
                p = self.path_of(it, env)
                if p[0] != "path":
                    raise TranslatorGap("for loop over a non-path")
                self.trace.append(("loop_begin", ("each", p)))
                env2 = dict(env)
                env2[st.target.id] = ("path", p[1], p[2] + ["[*]"])
                self.exec_block(st.body, env2)
                self.trace.append(("loop_end",))
                continue
            if isinstance(st, ast.Return):
                self.eval_bytes(st.value, env)
                return
            raise TranslatorGap(f"unsupported encode statement {ast.unparse(st)[:100]}")


# ----------------------------------------------------------------------------- classification
def model_class_of(mod, cls):
    """the decoded model class: keyword `chk_section_name=X.section_name()`"""
    for kw in cls.keywords:
        if kw.arg == "chk_section_name":
            v = kw.value
            if (
                isinstance(v, ast.Call)
                and isinstance(v.func, ast.Attribute)
                and v.func.attr == "section_name"
                and isinstance(v.func.value, ast.Name)
            ):
                return v.func.value.id
            if isinstance(v, ast.Attribute) and isinstance(v.value, ast.Name) and v.value.id == "ChkSectionName":
                return None, v.attr
    raise TranslatorGap(f"{cls.name}: no chk_section_name keyword")


def obj_field_order(obj):
    """flatten an Obj's Read fields ordered by read order -> [(kw, fmt)]"""
    items = []
    for kw, v in obj.fields.items():
        if isinstance(v, Read):
            items.append((v.order, kw, v.fmt))
        elif isinstance(v, tuple) and v[0] == "const":
            raise TranslatorGap(f"constant in decoded field {kw}")
        else:
            raise TranslatorGap(f"non-scalar record field {kw}")
    items.sort()
    return [(kw, FMT_WIDTH[fmt]) for _, kw, fmt in items]


def classify_decode(ret, trace):
    """decoded return value + stream trace -> layout dict"""
    if not isinstance(ret, Obj):
        raise TranslatorGap("decode does not return a keyword-constructed model")
    fields = ret.fields
    # STR / STRx
    if any(t[0] == "strloop" for t in trace):
        n = fields.get("_number_of_strings")
        offs = fields.get("_string_offsets")
        strs = fields.get("_strings")
        if not (isinstance(n, Read) and strs == ("strings",) and isinstance(offs, list)):
            raise TranslatorGap("unexpected STR decode shape")
        if len(offs) != 1 or not isinstance(offs[0], Read) or offs[0].fmt != n.fmt:
            raise TranslatorGap("STR offsets are not read with the count's width")
        # the offsets loop must be bounded by the count that was read, and be the only loop
        loops = [t for t in trace if t[0] == "loop_begin"]
        if len(loops) != 1 or not (isinstance(loops[0][1], tuple) and loops[0][1][2] == n.order):
            raise TranslatorGap("STR offsets loop is not `for _ in range(<count read>)`")
        if not (n.order < offs[0].order):
            raise TranslatorGap("STR count is not read first")
        return {"kind": "str", "w": FMT_WIDTH[n.fmt]}
    if all(isinstance(v, ReadList) for v in fields.values()):
        items = sorted((v.order, kw, v) for kw, v in fields.items())
        return {"kind": "arrays", "fields": [(kw, FMT_WIDTH[v.fmt], v.count) for _, kw, v in items]}
    if len(fields) == 1:
        (kw, v), = fields.items()
        if isinstance(v, list) and len(v) == 1:
            loops = [t for t in trace if t[0] == "loop_begin"]
            elem = v[0]
            if isinstance(elem, Obj) and all(isinstance(x, Read) for x in elem.fields.values()):
                if len(loops) != 1:
                    raise TranslatorGap("record section with nested loops")
                cnt = loops[0][1]
                rec = obj_field_order(elem)
                if cnt == "EOF":
                    return {"kind": "recsEof", "list": kw, "cls": elem.cls, "fields": rec}
                return {"kind": "recsN", "n": cnt, "list": kw, "cls": elem.cls, "fields": rec}
            if isinstance(elem, Obj):
                return classify_trig(kw, elem, trace)
    raise TranslatorGap("decode shape not recognised")


def classify_trig(listkw, trig, trace):
    subs = [t for t in trace if t[0] == "sub_begin"]
    if len(subs) != 1:
        raise TranslatorGap("trigger decode without a single sub-stream")
    out = {"kind": "trig", "list": listkw, "trigSize": subs[0][1], "cls": trig.cls}
    f = trig.fields
    conds, acts, ex = f.get("_conditions"), f.get("_actions"), f.get("_player_execution")
    if not (isinstance(conds, list) and isinstance(acts, list) and isinstance(ex, Obj)):
        raise TranslatorGap("unexpected trigger shape")
    for_loops = [t[1] for t in trace if t[0] == "loop_begin" and t[1] != "EOF"]
    if len(for_loops) != 2:
        raise TranslatorGap("expected exactly the condition and action loops")
    c, a = conds[0], acts[0]
    if min(v.order for v in c.fields.values()) > min(v.order for v in a.fields.values()):
        raise TranslatorGap("actions are read before conditions")
    out["nc"], out["na"] = for_loops
    out["cf"], out["af"] = obj_field_order(c), obj_field_order(a)
    out["ccls"], out["acls"], out["ecls"] = c.cls, a.cls, ex.cls
    ef, pf, ci = ex.fields.get("_execution_flags"), ex.fields.get("_player_flags"), ex.fields.get("_current_action_index")
    if not (isinstance(ef, Read) and isinstance(pf, ReadList) and isinstance(ci, Read)):
        raise TranslatorGap("unexpected player-execution shape")
    if not (max(v.order for v in a.fields.values()) < ef.order < pf.order < ci.order):
        raise TranslatorGap("player-execution block is not read last in order flags, players, index")
    out["ew"], out["np"], out["pw"], out["cw"] = FMT_WIDTH[ef.fmt], pf.count, FMT_WIDTH[pf.fmt], FMT_WIDTH[ci.fmt]
    return out


def resolve_props(mod, clsname, attrs):
    """follow property names through model classes -> list of underlying field names"""
    out = []
    cm, cc = find_class(mod, clsname)
    pm = property_map(cm, cc)
    return pm


def classify_encode(mod, model_cls, trace, declayout):
    """encode trace -> layout dict with model FIELD names (properties resolved)"""
    cm, cc = find_class(mod, model_cls)
    top = property_map(cm, cc)

    def top_field(p):
        if p[0] != "path" or not p[2]:
            raise TranslatorGap("pack operand is not an attribute of the section")
        f = top.get(p[2][0])
        if f is None:
            raise TranslatorGap(f"{model_cls}.{p[2][0]} is not a plain field property")
        return f

    kind = declayout["kind"]
    if kind == "arrays":
        fields = []
        for ev in trace:
            if ev[0] != "array":
                raise TranslatorGap("array section encode has a non-array pack")
            _, fmt, count, p = ev
            if len(p[2]) != 1:
                raise TranslatorGap("nested array operand")
            fields.append((top_field(p), FMT_WIDTH[fmt], count))
        return {"kind": "arrays", "fields": fields}
    if kind in ("recsEof", "recsN"):
        if not (trace and trace[0][0] == "loop_begin" and trace[0][1][0] == "each" and trace[-1][0] == "loop_end"):
            raise TranslatorGap("record section encode is not a single for-each loop")
        lst = top_field(trace[0][1][1])
        rcm, rcc = find_class(mod, declayout["cls"])
        rp = property_map(rcm, rcc)
        fields = []
        for ev in trace[1:-1]:
            if ev[0] != "field":
                raise TranslatorGap("record encode has a non-scalar pack")
            _, fmt, p = ev
            if len(p[2]) != 3 or p[2][1] != "[*]":
                raise TranslatorGap("record field operand shape")
            f = rp.get(p[2][2])
            if f is None:
                raise TranslatorGap(f"{declayout['cls']}.{p[2][2]} is not a plain field property")
            fields.append((f, FMT_WIDTH[fmt]))
        out = {"kind": kind, "list": lst, "cls": declayout["cls"], "fields": fields}
        if kind == "recsN":
            out["n"] = declayout["n"]  # encode writes every record it is given
        return out
    if kind == "str":
        # pack(W, n); for i in range(n): pack(W, offsets[i]); for s in strings: pack("{}s".format(len(s)), bytes) ; pack("1s", NUL)
        evs = trace
        try:
            assert evs[0][0] == "field" and top_field(evs[0][2]) == "_number_of_strings"
            w = FMT_WIDTH[evs[0][1]]
            assert evs[1][0] == "loop_begin" and evs[1][1][0] == "range"
            assert top_field(evs[1][1][1]) == "_number_of_strings"
            assert evs[2][0] == "field" and FMT_WIDTH[evs[2][1]] == w
            assert top_field(evs[2][2]) == "_string_offsets" and evs[2][2][2][1] == "[i]"
            assert evs[3][0] == "loop_end"
            assert evs[4][0] == "loop_begin" and evs[4][1][0] == "each" and top_field(evs[4][1][1]) == "_strings"
            assert evs[5][0] == "packs" and evs[6][0] == "packs" and evs[7][0] == "loop_end" and len(evs) == 8
            assert "len(string_)" in evs[5][1] and "_NULL_TERMINATE_CHAR_FOR_STRING" in evs[6][1] and "'1s'" in evs[6][1]
        except (AssertionError, IndexError, KeyError):
            raise TranslatorGap("STR encode shape not recognised")
        return {"kind": "str", "w": w}
    if kind == "trig":
        return classify_trig_encode(mod, top_field, trace, declayout)
    raise TranslatorGap("unknown kind")


def classify_trig_encode(mod, top_field, trace, d):
    # for trigger in triggers: (for c in conditions: fields) (for a in actions: fields) flags, players array, index
    t = list(trace)
    try:
        assert t[0][0] == "loop_begin" and t[0][1][0] == "each" and top_field(t[0][1][1]) == d["list"]
        tcm, tcc = find_class(mod, d["cls"])
        tp = property_map(tcm, tcc)
        i = 1
        groups = []
        for which in ("ccls", "acls"):
            assert t[i][0] == "loop_begin" and t[i][1][0] == "each"
            lp = t[i][1][1][2]
            assert lp[1] == "[*]"
            groups.append(tp.get(lp[2]))
            rcm, rcc = find_class(mod, d[which])
            rp = property_map(rcm, rcc)
            i += 1
            fs = []
            while t[i][0] == "field":
                _, fmt, p = t[i]
                f = rp.get(p[2][-1])
                assert f is not None
                fs.append((f, FMT_WIDTH[fmt]))
                i += 1
            assert t[i][0] == "loop_end"
            i += 1
            groups.append(fs)
        assert groups[0] == "_conditions" and groups[2] == "_actions"
        ecm, ecc = find_class(mod, d["ecls"])
        ep = property_map(ecm, ecc)
        assert t[i][0] == "field" and ep.get(t[i][2][2][-1]) == "_execution_flags"
        ew = FMT_WIDTH[t[i][1]]
        i += 1
        assert t[i][0] == "array" and ep.get(t[i][3][2][-1]) == "_player_flags"
        pw = FMT_WIDTH[t[i][1]]
        cnt = t[i][2]
        assert isinstance(cnt, tuple) and cnt[0] == "len" and ep.get(cnt[1][2][-1]) == "_player_flags"
        i += 1
        assert t[i][0] == "field" and ep.get(t[i][2][2][-1]) == "_current_action_index"
        cw = FMT_WIDTH[t[i][1]]
        i += 1
        assert t[i][0] == "loop_end" and i == len(t) - 1
    except (AssertionError, IndexError, KeyError, TypeError):
        raise TranslatorGap("TRIG encode shape not recognised")
    out = dict(d)
    out.update({"cf": groups[1], "af": groups[3], "ew": ew, "pw": pw, "cw": cw})
    return out


def translate_transcoder(path):
    mod = load_path(path)
    results = []
    for cname, cls in mod.classes.items():
        if not any(k.arg == "chk_section_name" for k in cls.keywords):
            continue
        mc = model_class_of(mod, cls)
        if isinstance(mc, tuple):
            raise TranslatorGap(f"{cname}: registration by literal enum member not supported")
        mm, mcc = find_class(mod, mc)
        secname = section_name_value(mm, mcc)
        dec = find_method(mod, cls, "decode")
        enc = find_method(mod, cls, "_encode")
        if not dec or not enc:
            raise TranslatorGap(f"{cname}: decode/_encode missing")
        de = DecodeExec(mod, cls)
        params = [a.arg for a in dec[2].args.args if a.arg != "self"]
        ret = de.exec_block(dec[2].body, {params[0]: Stream("payload")})
        dl = classify_decode(ret, de.trace)
        if ret.cls != mc:
            raise TranslatorGap(f"{cname}.decode returns {ret.cls}, registered for {mc}")
        ee = EncodeExec(mod, cls)
        eparams = [a.arg for a in enc[2].args.args if a.arg != "self"]
        ee.exec_block(enc[2].body, {eparams[0]: ("path", eparams[0], [])})
        el = classify_encode(mod, mc, ee.trace, dl)
        results.append({"class": cname, "model": mc, "section": secname, "decode": dl, "encode": el, "file": os.path.relpath(path, PKG_ROOT)})
    return results


def translate_all():
    d = os.path.join(PKG_ROOT, "richchk", "transcoder", "chk", "transcoders")
    out, gaps = [], []
    for p in sorted(glob.glob(os.path.join(d, "*.py"))):
        if os.path.basename(p) == "__init__.py":
            continue
        try:
            out += translate_transcoder(p)
        except TranslatorGap as e:
            gaps.append((os.path.relpath(p, PKG_ROOT), str(e)))
        except Exception as e:  # any crash of the reader is a gap, not a guess
            gaps.append((os.path.relpath(p, PKG_ROOT), f"reader error: {type(e).__name__}: {e}"))
    return out, gaps


# ----------------------------------------------------------------------------- Lean emission
def lean_str(s):
    return '"' + s.replace("\\", "\\\\").replace('"', '\\"') + '"'


def lean_bytes(s):
    return "[" + ", ".join(str(b) for b in s.encode("utf-8")) + "]"


def lean_layout(l):
    k = l["kind"]
    if k == "arrays":
        fs = ", ".join(f"⟨{lean_str(n)}, {w}, {c}⟩" for n, w, c in l["fields"])
        return f".arrays [{fs}]"
    if k == "recsEof":
        fs = ", ".join(f"⟨{lean_str(n)}, {w}⟩" for n, w in l["fields"])
        return f".recsEof [{fs}]"
    if k == "recsN":
        fs = ", ".join(f"⟨{lean_str(n)}, {w}⟩" for n, w in l["fields"])
        return f".recsN {l['n']} [{fs}]"
    if k == "str":
        return f".str {l['w']}"
    if k == "trig":
        cf = ", ".join(f"⟨{lean_str(n)}, {w}⟩" for n, w in l["cf"])
        af = ", ".join(f"⟨{lean_str(n)}, {w}⟩" for n, w in l["af"])
        return f".trig [{cf}] [{af}] {l['nc']} {l['na']} {l['ew']} {l['np']} {l['pw']} {l['cw']} {l['trigSize']}"
    raise ValueError(k)


def emit_lean(results, gaps):
    lines = [
        "/- GENERATED by /verif/translator/layouts.py from /repo/src/richchk/transcoder/chk/transcoders/*.py",
        "   on every run.  Do not edit. -/",
        "import RichchkModel.Model.Chunk",
        "namespace Richchk.Generated",
        "open Richchk",
        "",
        f"/-- number of constructs the translator could not read (must be 0) -/",
        f"def layoutGaps : Nat := {len(gaps)}",
        "",
    ]
    for g in gaps:
        lines.append(f"-- TranslatorGap {g[0]}: {g[1]}")
    lines.append("/-- layouts as read off each transcoder's `decode` -/")
    lines.append("def decTable : SecTable := [")
    lines.append(",\n".join(f"  ({lean_bytes(r['section'])}, {lean_layout(r['decode'])})" for r in results))
    lines.append("]")
    lines.append("")
    lines.append("/-- layouts as read off each transcoder's `_encode` -/")
    lines.append("def encTable : SecTable := [")
    lines.append(",\n".join(f"  ({lean_bytes(r['section'])}, {lean_layout(r['encode'])})" for r in results))
    lines.append("]")
    lines.append("")
    lines.append("end Richchk.Generated")
    return "\n".join(lines) + "\n"


if __name__ == "__main__":
    import json
    import sys

    res, gaps = translate_all()
    if len(sys.argv) > 1 and sys.argv[1] == "--json":
        print(json.dumps({"results": res, "gaps": gaps}, indent=1, default=str))
    else:
        sys.stdout.write(emit_lean(res, gaps))
