"""Source access helpers for the translator: module resolution, class / constant lookup.

The translator never imports richchk; it only reads the source text with `ast`.
"""
import ast
import os
from functools import lru_cache

REPO = os.environ.get("RICHCHK_REPO", "/repo")
PKG_ROOT = os.path.join(REPO, "src")  # contains package dir `richchk`


class TranslatorGap(Exception):
    """A construct the restricted-subset reader does not understand."""


@lru_cache(maxsize=None)
def parse_file(path):
    with open(path, "r", encoding="utf-8") as f:
        return ast.parse(f.read(), filename=path)


def module_path(modname):
    """dotted module name -> file path (module.py or package/__init__.py)"""
    base = os.path.join(PKG_ROOT, *modname.split("."))
    if os.path.isfile(base + ".py"):
        return base + ".py"
    if os.path.isdir(base) and os.path.isfile(os.path.join(base, "__init__.py")):
        return os.path.join(base, "__init__.py")
    return None


def path_module(path):
    rel = os.path.relpath(path, PKG_ROOT)
    if rel.endswith("__init__.py"):
        rel = os.path.dirname(rel)
    else:
        rel = rel[:-3]
    return rel.replace(os.sep, ".")


def resolve_relative(cur_mod, is_pkg, level, module):
    """resolve `from <level dots><module> import ...` seen in module `cur_mod`"""
    if level == 0:
        return module
    parts = cur_mod.split(".")
    if not is_pkg:
        parts = parts[:-1]
    if level > 1:
        parts = parts[: len(parts) - (level - 1)]
    if module:
        parts = parts + module.split(".")
    return ".".join(parts)


class Module:
    """Parsed module with its import table (name -> (module, original name))."""

    def __init__(self, path):
        self.path = path
        self.name = path_module(path)
        self.is_pkg = path.endswith("__init__.py")
        self.tree = parse_file(path)
        self.imports = {}  # local name -> (modname, attr or None)
        self.classes = {}
        self.assigns = {}
        self.functions = {}
        for node in self.tree.body:
            if isinstance(node, ast.ImportFrom):
                mod = resolve_relative(self.name, self.is_pkg, node.level, node.module)
                for a in node.names:
                    self.imports[a.asname or a.name] = (mod, a.name)
            elif isinstance(node, ast.Import):
                for a in node.names:
                    self.imports[a.asname or a.name.split(".")[0]] = (a.name, None)
            elif isinstance(node, ast.ClassDef):
                self.classes[node.name] = node
            elif isinstance(node, ast.FunctionDef):
                self.functions[node.name] = node
            elif isinstance(node, ast.Assign):
                for t in node.targets:
                    if isinstance(t, ast.Name):
                        self.assigns[t.id] = node.value
            elif isinstance(node, ast.AnnAssign) and isinstance(node.target, ast.Name):
                if node.value is not None:
                    self.assigns[node.target.id] = node.value


@lru_cache(maxsize=None)
def load_module(modname):
    p = module_path(modname)
    if p is None:
        return None
    return Module(p)


@lru_cache(maxsize=None)
def load_path(path):
    return Module(path)


def find_class(mod, name, _depth=0):
    """resolve a class name visible in `mod` to (Module, ClassDef)"""
    if _depth > 8:
        raise TranslatorGap(f"class resolution too deep for {name}")
    if name in mod.classes:
        return mod, mod.classes[name]
    if name in mod.imports:
        m, attr = mod.imports[name]
        target = load_module(m)
        if target is None:
            # `from pkg import submodule`
            raise TranslatorGap(f"cannot resolve import of {name} from {m}")
        return find_class(target, attr, _depth + 1)
    raise TranslatorGap(f"class {name} not found from {mod.name}")


def class_attr_value(mod, cls, attr):
    for node in cls.body:
        if isinstance(node, ast.Assign):
            for t in node.targets:
                if isinstance(t, ast.Name) and t.id == attr:
                    return const_value(mod, node.value, cls)
        if isinstance(node, ast.AnnAssign) and isinstance(node.target, ast.Name):
            if node.target.id == attr and node.value is not None:
                return const_value(mod, node.value, cls)
    # base classes
    for b in cls.bases:
        if isinstance(b, ast.Name):
            try:
                bm, bc = find_class(mod, b.id)
            except TranslatorGap:
                continue
            try:
                return class_attr_value(bm, bc, attr)
            except TranslatorGap:
                continue
    raise TranslatorGap(f"class attribute {attr} not found in {cls.name}")


def const_value(mod, node, cls=None, _depth=0):
    """evaluate a constant expression: literals, module constants (followed through
    imports), class attributes via self./cls./ClassName., simple arithmetic"""
    if _depth > 10:
        raise TranslatorGap("constant resolution too deep")
    if isinstance(node, ast.Constant):
        return node.value
    if isinstance(node, ast.Tuple):
        return tuple(const_value(mod, e, cls, _depth + 1) for e in node.elts)
    if isinstance(node, ast.UnaryOp) and isinstance(node.op, ast.USub):
        return -const_value(mod, node.operand, cls, _depth + 1)
    if isinstance(node, ast.BinOp):
        a = const_value(mod, node.left, cls, _depth + 1)
        b = const_value(mod, node.right, cls, _depth + 1)
        if isinstance(node.op, ast.Add):
            return a + b
        if isinstance(node.op, ast.Sub):
            return a - b
        if isinstance(node.op, ast.Mult):
            return a * b
        if isinstance(node.op, ast.FloorDiv):
            return a // b
        raise TranslatorGap("unsupported operator in constant")
    if isinstance(node, ast.Name):
        if node.id in mod.assigns:
            return const_value(mod, mod.assigns[node.id], None, _depth + 1)
        if node.id in mod.imports:
            m, attr = mod.imports[node.id]
            target = load_module(m)
            if target is None:
                raise TranslatorGap(f"cannot resolve {node.id}")
            return const_value(target, ast.Name(id=attr), None, _depth + 1)
        raise TranslatorGap(f"unknown name {node.id} in {mod.name}")
    if isinstance(node, ast.Attribute) and isinstance(node.value, ast.Name):
        base = node.value.id
        if base in ("self", "cls") and cls is not None:
            return class_attr_value(mod, cls, node.attr)
        try:
            cm, cc = find_class(mod, base)
        except TranslatorGap:
            raise TranslatorGap(f"cannot resolve {base}.{node.attr}")
        return class_attr_value(cm, cc, node.attr)
    raise TranslatorGap(f"unsupported constant expression {ast.dump(node)[:80]}")


def property_map(mod, cls):
    """{property name -> underlying field} for `@property def x(self): return self._y`;
    includes dataclass fields themselves (identity)."""
    out = {}
    # inherited properties first (reverse MRO approximation: later bases first, own class last)
    for b in reversed(cls.bases):
        bname = b.id if isinstance(b, ast.Name) else (b.value.id if isinstance(b, ast.Subscript) and isinstance(b.value, ast.Name) else None)
        if bname:
            try:
                bm, bc = find_class(mod, bname)
                out.update(property_map(bm, bc))
            except TranslatorGap:
                pass
    for node in cls.body:
        if isinstance(node, ast.AnnAssign) and isinstance(node.target, ast.Name):
            out[node.target.id] = node.target.id
    for node in cls.body:
        if isinstance(node, ast.FunctionDef):
            is_prop = any(
                (isinstance(d, ast.Name) and d.id in ("property", "cached_property"))
                or (isinstance(d, ast.Attribute) and d.attr in ("property", "cached_property"))
                for d in node.decorator_list
            )
            if not is_prop:
                continue
            body = [s for s in node.body if not (isinstance(s, ast.Expr) and isinstance(s.value, ast.Constant))]
            if len(body) == 1 and isinstance(body[0], ast.Return):
                r = body[0].value
                # plain `self._x`, or a defensive copy of it: self._x.copy(),
                # copy.deepcopy(self._x), list(self._x)
                if (
                    isinstance(r, ast.Call)
                    and isinstance(r.func, ast.Attribute)
                    and r.func.attr == "copy"
                    and not r.args
                ):
                    r = r.func.value
                elif (
                    isinstance(r, ast.Call)
                    and len(r.args) == 1
                    and (
                        (isinstance(r.func, ast.Attribute) and r.func.attr in ("deepcopy", "copy"))
                        or (isinstance(r.func, ast.Name) and r.func.id in ("list", "deepcopy"))
                    )
                ):
                    r = r.args[0]
                if isinstance(r, ast.Attribute) and isinstance(r.value, ast.Name) and r.value.id == "self":
                    out[node.name] = r.attr
                    continue
            out[node.name] = None  # computed property: not a plain field
    return out


def dataclass_fields(mod, cls):
    """ordered list of (field name, default ast or None), base classes first"""
    fields = []
    # dataclasses collect fields in reverse MRO order: for `class C(A, B)` that is B's, then A's, then C's
    for b in reversed(cls.bases):
        if isinstance(b, ast.Name):
            try:
                bm, bc = find_class(mod, b.id)
                for f in dataclass_fields(bm, bc):
                    fields = [x for x in fields if x[0] != f[0]]
                    fields.append(f)
            except TranslatorGap:
                pass
    for node in cls.body:
        if isinstance(node, ast.AnnAssign) and isinstance(node.target, ast.Name):
            ann = ast.unparse(node.annotation)
            if "ClassVar" in ann:
                continue
            fields = [f for f in fields if f[0] != node.target.id]
            fields.append((node.target.id, node.value))
    return fields


def find_method(mod, cls, name):
    for node in cls.body:
        if isinstance(node, ast.FunctionDef) and node.name == name:
            return mod, cls, node
    for b in cls.bases:
        bname = None
        if isinstance(b, ast.Name):
            bname = b.id
        elif isinstance(b, ast.Subscript) and isinstance(b.value, ast.Name):
            bname = b.value.id
        if bname:
            try:
                bm, bc = find_class(mod, bname)
                r = find_method(bm, bc, name)
                if r:
                    return r
            except TranslatorGap:
                pass
    return None


def section_name_value(mod, cls):
    """value of `Cls.section_name()` -> the ChkSectionName member's string"""
    r = find_method(mod, cls, "section_name")
    if not r:
        raise TranslatorGap(f"no section_name on {cls.name}")
    m, c, fn = r
    body = [s for s in fn.body if not (isinstance(s, ast.Expr) and isinstance(s.value, ast.Constant))]
    if len(body) == 1 and isinstance(body[0], ast.Return):
        v = body[0].value
        if isinstance(v, ast.Attribute) and isinstance(v.value, ast.Name) and v.value.id == "ChkSectionName":
            return chk_section_names()[v.attr]
    raise TranslatorGap(f"section_name of {cls.name} is not a plain enum member")


@lru_cache(maxsize=None)
def chk_section_names():
    mod = load_module("richchk.model.chk_section_name")
    cls = mod.classes["ChkSectionName"]
    out = {}
    for node in cls.body:
        if isinstance(node, ast.Assign) and len(node.targets) == 1 and isinstance(node.targets[0], ast.Name):
            v = const_value(mod, node.value)
            if isinstance(v, tuple):
                v = v[0]
            out[node.targets[0].id] = v
    return out
