"""Translate the package's import-time behaviour: per module the ordered top-level events
(import of a module with the names it needs from it, registration of a transcoder class,
`import_all_modules_in_subpackage`), the four registries and the model classes' ids
 -> Generated/Imports.lean (+ build/imports.json)."""
import ast
import json
import os

from pysrc import PKG_ROOT, TranslatorGap, const_value, find_class, find_method, load_path, resolve_relative

REGISTRIES = {
    # keyword -> (registry index, factory module)
    "chk_section_name": None,  # resolved by base class below
}
FACTORIES = [
    ("richchk.transcoder.chk.chk_section_transcoder_factory", "_RegistrableTranscoder", "chk_section_name", "ChkSectionTranscoderFactory"),
    ("richchk.transcoder.richchk.richchk_section_transcoder_factory", "_RichChkRegistrableTranscoder", "chk_section_name", "RichChkSectionTranscoderFactory"),
    ("richchk.transcoder.richchk.transcoders.trig.rich_trigger_action_transcoder_factory", "_RichTriggerActionRegistrableTranscoder", "trigger_action_id", "RichTriggerActionTranscoderFactory"),
    ("richchk.transcoder.richchk.transcoders.trig.rich_trigger_condition_transcoder_factory", "_RichTriggerConditionRegistrableTranscoder", "trigger_condition_id", "RichTriggerConditionTranscoderFactory"),
]


def all_modules():
    mods = {}
    root = os.path.join(PKG_ROOT, "richchk")
    for d, dirs, files in os.walk(root):
        dirs.sort()
        if "__init__.py" not in files:
            dirs[:] = []
            continue
        rel = os.path.relpath(d, PKG_ROOT).replace(os.sep, ".")
        mods[rel] = os.path.join(d, "__init__.py")
        for f in sorted(files):
            if f.endswith(".py") and f != "__init__.py":
                mods[rel + "." + f[:-3]] = os.path.join(d, f)
    return mods


def parents(name):
    parts = name.split(".")
    return [".".join(parts[:i]) for i in range(1, len(parts))]


def enum_id(mod, expr, enumname):
    """X.method() of a model class returning EnumName.MEMBER -> number"""
    return None


def registration_key(m, cls, kw):
    """resolve the registration keyword's value to a comparable key"""
    v = kw.value
    if isinstance(v, ast.Call) and isinstance(v.func, ast.Attribute) and isinstance(v.func.value, ast.Name):
        model = v.func.value.id
        meth = v.func.attr
        mm, mc = find_class(m, model)
        r = find_method(mm, mc, meth)
        if not r:
            raise TranslatorGap(f"{model}.{meth} not found")
        body = [s for s in r[2].body if not (isinstance(s, ast.Expr) and isinstance(s.value, ast.Constant))]
        if len(body) == 1 and isinstance(body[0], ast.Return) and isinstance(body[0].value, ast.Attribute) and isinstance(body[0].value.value, ast.Name):
            en, member = body[0].value.value.id, body[0].value.attr
            em, ec = find_class(r[0], en)
            for node in ec.body:
                if isinstance(node, ast.Assign) and isinstance(node.targets[0], ast.Name) and node.targets[0].id == member:
                    val = const_value(em, node.value)
                    return model, (val[0] if isinstance(val, tuple) else val)
        raise TranslatorGap(f"{model}.{meth}() is not a plain enum member")
    raise TranslatorGap("registration keyword is not Model.method()")


def module_events(name, path, mods):
    m = load_path(path)
    is_pkg = path.endswith("__init__.py")
    events = []
    defpos = {}
    gaps = []

    def add_import(target, names):
        """import module `target` needing `names` (attributes that are not submodules)"""
        if not target.startswith("richchk"):
            return
        if target not in mods:
            return
        needs = []
        for n in names:
            sub = target + "." + n
            if sub in mods:
                events.append({"kind": "imp", "mod": target, "needs": []})
                events.append({"kind": "imp", "mod": sub, "needs": []})
                return_sub.append(n)
            else:
                needs.append(n)
        events.append({"kind": "imp", "mod": target, "needs": needs})

    def visit(stmts):
        for st in stmts:
            if isinstance(st, ast.ImportFrom):
                target = resolve_relative(name, is_pkg, st.level, st.module)
                if target is None:
                    continue
                return_sub.clear()
                add_import(target, [a.name for a in st.names])
                for a in st.names:
                    defpos[a.asname or a.name] = len(events)
            elif isinstance(st, ast.Import):
                for a in st.names:
                    if a.name.startswith("richchk"):
                        events.append({"kind": "imp", "mod": a.name, "needs": []})
                    defpos[(a.asname or a.name).split(".")[0]] = len(events)
            elif isinstance(st, ast.ClassDef):
                for reg_i, (fmod, base, kwname, fcls) in enumerate(FACTORIES):
                    if any(isinstance(b, ast.Name) and b.id == base for b in st.bases):
                        kws = [k for k in st.keywords if k.arg == kwname]
                        if kws:
                            try:
                                model, key = registration_key(m, st, kws[0])
                                events.append({"kind": "reg", "registry": reg_i, "key": key, "cls": st.name, "model": model})
                            except TranslatorGap as e:
                                gaps.append((name, f"{st.name}: {e}"))
                defpos[st.name] = len(events)
            elif isinstance(st, ast.FunctionDef):
                defpos[st.name] = len(events)
            elif isinstance(st, (ast.Assign, ast.AnnAssign)):
                ts = st.targets if isinstance(st, ast.Assign) else [st.target]
                for t in ts:
                    if isinstance(t, ast.Name):
                        defpos[t.id] = len(events)
            elif isinstance(st, ast.Expr) and isinstance(st.value, ast.Call):
                f = st.value.func
                if isinstance(f, ast.Name) and f.id == "import_all_modules_in_subpackage":
                    pkg = const_value(m, st.value.args[0])
                    sub = const_value(m, st.value.args[1])
                    target = "richchk" + pkg + "." + sub
                    events.append({"kind": "all", "pkg": target})
            elif isinstance(st, ast.If):
                test = ast.unparse(st.test)
                if "TYPE_CHECKING" in test:
                    visit(st.orelse)
                else:
                    visit(st.body)
                    visit(st.orelse)
            elif isinstance(st, ast.Try):
                visit(st.body)
                visit(st.finalbody)

    return_sub = []
    visit(m.tree.body)
    return events, defpos, gaps


def generate(gen_dir, build_dir, write_if_changed):
    gaps = []
    mods = all_modules()
    names = sorted(mods)
    idx = {n: i for i, n in enumerate(names)}
    table = {}
    for n in names:
        try:
            ev, dp, g = module_events(n, mods[n], mods)
            gaps += g
        except Exception as e:  # noqa: BLE001
            gaps.append((n, f"reader error {type(e).__name__}: {e}"))
            ev, dp = [], {}
        table[n] = (ev, dp)
    # resolve needs to definition positions in the target module
    out_mods = []
    for n in names:
        ev, _ = table[n]
        evs = []
        for e in ev:
            if e["kind"] == "imp":
                tgt = e["mod"]
                chain = [p for p in parents(tgt) if p in idx] + [tgt]
                need = 0
                for nm in e["needs"]:
                    dp = table[tgt][1]
                    if nm in dp:
                        need = max(need, dp[nm])
                    else:
                        gaps.append((n, f"imports unknown name {nm} from {tgt}"))
                for c in chain[:-1]:
                    evs.append(("imp", idx[c], 0))
                evs.append(("imp", idx[tgt], need))
            elif e["kind"] == "reg":
                evs.append(("reg", e["registry"], e["key"], e["cls"]))
            elif e["kind"] == "all":
                pkg = e["pkg"]
                if pkg not in idx:
                    gaps.append((n, f"import_all of unknown package {pkg}"))
                    continue
                for c in [p for p in parents(pkg) if p in idx] + [pkg]:
                    evs.append(("imp", idx[c], 0))
                members = sorted(x for x in names if x.startswith(pkg + ".") and "." not in x[len(pkg) + 1:])
                for x in members:
                    evs.append(("imp", idx[x], 0))
        out_mods.append(evs)
    # keys: section names -> small ints via a table; action/condition ids are ints
    keytab = {}

    def keynum(k):
        if isinstance(k, int):
            return k
        if k not in keytab:
            keytab[k] = 1000 + len(keytab)
        return keytab[k]

    regs = []  # (registry, key, cls, module)
    for n, evs in zip(names, out_mods):
        for e in evs:
            if e[0] == "reg":
                regs.append({"registry": e[1], "key": e[2], "cls": e[3], "module": n})
    factory_ids = [idx.get(f[0], 0) for f in FACTORIES]
    # model classes per registry (for "agrees with the set of model classes")
    model_keys = model_class_keys()
    L = ["/- GENERATED by /verif/translator/tr_imports.py on every run.  Do not edit. -/", "import RichchkModel.Model.Imports", "namespace Richchk.Generated", "open Richchk", "",
         f"def importGaps : Nat := {len(gaps)}"]
    for g in gaps[:40]:
        L.append(f"-- TranslatorGap {g[0]}: {g[1]}")
    L.append(f"def moduleCount : Nat := {len(names)}")
    L.append(f"def factoryModules : List Nat := {factory_ids}")
    rows = []
    for n, evs in zip(names, out_mods):
        items = []
        for e in evs:
            if e[0] == "imp":
                items.append(f".imp {e[1]} {e[2]}")
            else:
                items.append(f".reg {e[1]} {keynum(e[2])}")
        rows.append("  [" + ", ".join(items) + "]")
    CH = 20
    nch = (len(rows) + CH - 1) // CH
    for c in range(nch):
        L.append(f"def moduleChunk{c} : List (List ImpEvent) := [")
        L.append(",\n".join(rows[c * CH:(c + 1) * CH]))
        L.append("]")
    L.append("def moduleGraph : ImpGraph := ⟨%d, %d, [%s]⟩" % (CH, len(rows), ", ".join(f"moduleChunk{c}" for c in range(nch))))
    for r in range(4):
        ks = sorted(keynum(k) for k in model_keys[r])
        L.append(f"def modelKeys{r} : List Nat := {ks}")
    L.append("")
    L.append("end Richchk.Generated")
    write_if_changed(os.path.join(gen_dir, "Imports.lean"), "\n".join(L) + "\n")
    with open(os.path.join(build_dir, "imports.json"), "w") as f:
        json.dump({"modules": names, "events": out_mods, "registrations": regs, "factories": [f[0] for f in FACTORIES], "factory_classes": [f[3] for f in FACTORIES],
                   "keytab": keytab, "model_keys": {str(r): sorted(map(str, model_keys[r])) for r in range(4)}, "gaps": gaps}, f)
    return gaps, {"modules": len(names), "registrations": len(regs), "gaps": len(gaps)}


def model_class_keys():
    """ids of the model classes each registry is about: decoded sections with a byte transcoder
    are exactly the Decoded*Section classes (minus unknown); rich sections; action and condition
    model classes (non-abstract classes defining action_id / condition_id)"""
    import glob

    from pysrc import chk_section_names, load_module

    keys = {0: set(), 1: set(), 2: set(), 3: set()}
    root = os.path.join(PKG_ROOT, "richchk", "model")
    for p in sorted(glob.glob(os.path.join(root, "**", "*.py"), recursive=True)):
        m = load_path(p)
        for cname, cls in m.classes.items():
            for node in cls.body:
                if not isinstance(node, ast.FunctionDef):
                    continue
                body = [s for s in node.body if not (isinstance(s, ast.Expr) and isinstance(s.value, ast.Constant))]
                if len(body) != 1 or not isinstance(body[0], ast.Return):
                    continue
                v = body[0].value
                if not (isinstance(v, ast.Attribute) and isinstance(v.value, ast.Name)):
                    continue
                if node.name == "section_name" and v.value.id == "ChkSectionName":
                    val = chk_section_names()[v.attr]
                    if cname.startswith("Decoded") and v.attr != "UNKNOWN":
                        keys[0].add(val)
                    elif cname.startswith("Rich"):
                        keys[1].add(val)
                elif node.name in ("action_id", "condition_id") and v.value.id in ("TriggerActionId", "TriggerConditionId"):
                    em, ec = find_class(m, v.value.id)
                    for n2 in ec.body:
                        if isinstance(n2, ast.Assign) and isinstance(n2.targets[0], ast.Name) and n2.targets[0].id == v.attr:
                            num = const_value(em, n2.value)[0]
                            if num != 0:  # NO_ACTION / NO_CONDITION placeholders are not transcoded
                                keys[2 if node.name == "action_id" else 3].add(num)
    return keys
