"""Abstract every function body of the library's operations into the alias IR of
lean/RichchkModel/Model/Alias.lean  ->  Generated/Effects.lean (+ build/effects.json).

Reading rules (the trusted part of C13's tie; see DESIGN.md, C13):
  * every parameter (self / cls included), every global and every result of a call that is not
    recognised below is `unknown` (kind `any`);
  * literals, comprehensions, constructor calls (a callee whose name starts with an upper-case
    letter, `cls(...)`, `dataclasses.replace`) allocate: `new [contents]`;
    `copy.deepcopy(x)` allocates with no shared contents: `new []`;
  * `list(x) set(x) tuple(x) dict(x) frozenset(x) sorted(x) reversed(x) copy.copy(x) x.copy()`,
    slices and `[e for e in x]` copy shallowly: contents are elements of x;
  * attribute access, subscripts, iteration variables, `.get/.pop/.values/.items/.keys` results are
    elements of their receiver;
  * a call of `append extend insert add update setdefault remove discard pop popitem clear sort
    reverse` on a receiver that is not an imported module, `x[k] = v`, `del x[k]`, `x.attr = v`
    (outside `__init__` / `__post_init__` on self), `object.__setattr__`, and `x += v` on a
    variable not known to be a number / str / bytes are in-place mutations of the receiver;
    exception: a subscript store into an upper-case class attribute (`cls._ENUM_ID_MAP[k] = ...`)
    is a memoisation cache, listed in effects.json, not an obligation;
  * local variables are versioned by reaching definitions over the structured control flow
    (if / for / while / try / with), so a name re-bound in another branch is another variable;
    apart from that, order is ignored (every statement may run any number of times);
  * a call `cls._m(...)` / `self._m(...)` / `Class._m(...)` / `_f(...)` of a PRIVATE function of the
    same file is inlined (its statements join the caller's, parameters aliased to the arguments,
    recursion tied back to the first copy); a private function all of whose uses are inlined has no
    obligation of its own;
  * calls to functions outside the package are assumed not to mutate their arguments.
"""
import ast
import json
import os

from pysrc import PKG_ROOT

SCOPE_DIRS = ["editor", "io", "transcoder", "util", "model"]
EXCLUDE_PATH_PARTS = [os.sep + "mpq" + os.sep]          # file / archive operations: C15-C17
# functions whose purpose is to mutate process-wide registries at import time (C18), not map values
EXCLUDE_FUNCS = {"register", "_register", "import_all_modules_in_subpackage"}
MUTATORS = {"append", "extend", "insert", "add", "update", "setdefault", "remove", "discard", "pop", "popitem", "clear", "sort", "reverse"}
SHALLOW_FUNCS = {"list", "set", "tuple", "dict", "frozenset", "sorted", "reversed"}
ELEM_METHODS = {"get", "pop", "values", "items", "keys", "popitem", "setdefault"}
SCALAR_FUNCS = {"len", "int", "str", "bytes", "bool", "float", "hash", "id", "repr", "isinstance", "issubclass", "max", "min", "sum", "any", "all", "abs", "round", "ord", "chr", "format", "hex", "bin", "divmod", "callable", "hasattr", "type"}
ITER_WRAPPERS = {"enumerate", "zip", "reversed", "sorted", "list", "iter", "tuple", "set"}
SCALAR_TYPES = {"bytes", "str", "int", "float", "bool", "Decimal"}
PURE_MODULES = ("struct", "os", "logging", "math", "re", "uuid", "tempfile", "shutil", "platform")
INIT_NAMES = ("__init__", "__post_init__", "__new__", "__enter__")
MAX_INLINE_DEPTH = 4


class Ctx:
    """per-file context: imported module names, private functions by name, return annotations"""

    def __init__(self, tree):
        self.modules = {"object"}
        for node in ast.walk(tree):
            if isinstance(node, ast.Import):
                for a in node.names:
                    self.modules.add((a.asname or a.name).split(".")[0])
        self.funcs = {}       # name -> [FunctionDef] in this file
        for qn, node in functions_of(tree):
            self.funcs.setdefault(node.name, []).append(node)


RETURN_ANN = {}   # function name -> set of return annotation texts (whole scope)
GLOBAL_FUNCS = {}  # function name -> [(FunctionDef, Ctx)] over the whole scope
CONTAINER_METHOD_NAMES = MUTATORS | ELEM_METHODS | {"copy", "index", "count", "join", "split", "format", "encode", "decode", "read", "write", "close", "strip"}


class FnTranslator:
    def __init__(self, fn, ctx, qualname):
        self.fn = fn
        self.ctx = ctx
        self.qualname = qualname
        self.var_id = {}
        self.names = []
        self.stmts = []
        self.seen = set()
        self.sites = {}                 # stmt index -> (lineno, text)
        self.caches = []
        self.inlined = []               # names of private callees inlined
        self.frames = []                # inlining chain: [(FunctionDef, param vars, ret var)]
        self.scope_stack = []
        self.defaultdicts = set()
        self.enter_function(fn, top=True)

    # ---------------------------------------------------------------- variables
    def v(self, name):
        if name not in self.var_id:
            self.var_id[name] = len(self.names)
            self.names.append(name)
        return self.var_id[name]

    def node_var(self, node, role, hint=""):
        return self.v("%s$%s%d:%d%s" % (self.prefix, role, getattr(node, "lineno", 0), getattr(node, "col_offset", 0), hint))

    def emit(self, x, rhs):
        key = ("assign", x, rhs if rhs[0] != "new" else ("new", tuple(rhs[1])))
        if key not in self.seen:
            self.seen.add(key)
            self.stmts.append(("assign", x, rhs))

    def mut(self, recv, ys, node):
        key = ("mutate", recv, tuple(ys))
        if key not in self.seen:
            self.seen.add(key)
            self.sites[len(self.stmts)] = (getattr(node, "lineno", 0), ast.unparse(node)[:120])
            self.stmts.append(("mutate", recv, list(ys)))

    # ---------------------------------------------------------------- function frames
    def enter_function(self, fn, top=False, prefix=""):
        self.prefix = prefix
        a = fn.args
        pnames = [x.arg for x in a.posonlyargs + a.args + a.kwonlyargs] + ([a.vararg.arg] if a.vararg else []) + ([a.kwarg.arg] if a.kwarg else [])
        if top:
            self.params = pnames
            self.param_vars = [self.v(p) for p in pnames]
        locals_ = set(pnames)
        for node in ast.walk(fn):
            if isinstance(node, ast.Name) and isinstance(node.ctx, (ast.Store, ast.Del)):
                locals_.add(node.id)
        scalars = set()
        rets = ast.unparse(fn.returns) if fn.returns is not None else None
        for node in ast.walk(fn):
            if isinstance(node, ast.AnnAssign) and isinstance(node.target, ast.Name) and ast.unparse(node.annotation) in SCALAR_TYPES:
                scalars.add(node.target.id)
            if isinstance(node, (ast.Assign, ast.AnnAssign)):
                tg = node.targets if isinstance(node, ast.Assign) else [node.target]
                if node.value is not None and self.is_scalar_expr(node.value, scalars):
                    for t in tg:
                        if isinstance(t, ast.Name):
                            scalars.add(t.id)
            if isinstance(node, ast.Return) and rets in SCALAR_TYPES and isinstance(node.value, ast.Name):
                scalars.add(node.value.id)
        for x in a.posonlyargs + a.args + a.kwonlyargs:
            if x.annotation is not None and ast.unparse(x.annotation) in SCALAR_TYPES:
                scalars.add(x.arg)
        for node in ast.walk(fn):
            if isinstance(node, (ast.Assign, ast.AnnAssign)) and isinstance(node.value, ast.Call) and isinstance(node.value.func, ast.Name) and node.value.func.id == "defaultdict":
                for tg in (node.targets if isinstance(node, ast.Assign) else [node.target]):
                    if isinstance(tg, ast.Name):
                        self.defaultdicts.add(tg.id)
        return pnames, locals_, scalars

    def is_scalar_expr(self, e, scalars=None):
        scalars = self.scalars if scalars is None else scalars
        if isinstance(e, (ast.Constant, ast.JoinedStr, ast.Compare)):
            return True
        if isinstance(e, ast.UnaryOp):
            return True
        if isinstance(e, ast.Name):
            return e.id in scalars
        if isinstance(e, ast.BinOp):
            return self.is_scalar_expr(e.left, scalars) or self.is_scalar_expr(e.right, scalars)
        if isinstance(e, ast.Call):
            f = e.func
            if isinstance(f, ast.Name) and f.id in SCALAR_FUNCS:
                return True
            if isinstance(f, ast.Attribute) and isinstance(f.value, ast.Name) and f.value.id == "struct":
                return True
            nm = f.id if isinstance(f, ast.Name) else (f.attr if isinstance(f, ast.Attribute) else None)
            anns = RETURN_ANN.get(nm)
            if anns and all(a in SCALAR_TYPES for a in anns):
                return True
        return False

    def is_module(self, e):
        return isinstance(e, ast.Name) and e.id in self.ctx.modules and e.id not in self.locals

    # ---------------------------------------------------------------- names with reaching definitions
    def use_name(self, node):
        name = node.id
        if name not in self.locals:
            t = self.node_var(node, "g_" + name + "_")
            self.emit(t, ("unknown",))
            return [t]
        vs = sorted(self.cur.get(name, ()))
        if not vs:
            # read before any definition reached it (loop-carried or conditional): unknown
            t = self.v(self.prefix + name + "@undef")
            self.emit(t, ("unknown",))
            return [t]
        return vs

    def one(self, vs, node, role="j"):
        if len(vs) == 1:
            return vs[0]
        t = self.node_var(node, role)
        for x in vs:
            self.emit(t, ("alias", x))
        return t

    def define(self, name, node, rhs):
        x = self.v("%s%s@%d:%d" % (self.prefix, name, getattr(node, "lineno", 0), getattr(node, "col_offset", 0)))
        self.emit(x, rhs)
        self.cur[name] = {x}
        return x

    # ---------------------------------------------------------------- expressions
    def var_of(self, e):
        return self.one(self.vars_of(e), e)

    def vars_of(self, e):
        """variables that may denote the cell of expression e"""
        if isinstance(e, ast.Name):
            return self.use_name(e)
        if isinstance(e, ast.Attribute):
            t = self.node_var(e, "a")
            if self.is_module(e.value):
                self.emit(t, ("unknown",))
                return [t]
            for b in self.vars_of(e.value):
                self.emit(t, ("elem", b))
            return [t]
        if isinstance(e, ast.Subscript):
            if not isinstance(e.slice, ast.Constant):
                self.vars_of(e.slice) if not isinstance(e.slice, ast.Slice) else [self.vars_of(x) for x in (e.slice.lower, e.slice.upper, e.slice.step) if x is not None]
            t = self.node_var(e, "s")
            for b in self.vars_of(e.value):
                # a slice of a list is a shallow copy, an index is an element
                self.emit(t, ("shallow", b) if isinstance(e.slice, ast.Slice) else ("elem", b))
                if isinstance(e.value, ast.Name) and e.value.id in self.defaultdicts and not isinstance(e.slice, ast.Slice):
                    # reading a missing key of a defaultdict stores a new value into it
                    tn = self.node_var(e, "dd")
                    self.emit(tn, ("new", []))
                    self.mut(b, [tn], e)
                    self.emit(t, ("alias", tn))
            return [t]
        if isinstance(e, ast.Starred):
            return self.vars_of(e.value)
        if isinstance(e, (ast.List, ast.Tuple, ast.Set)):
            ys = [self.elts_var(x) for x in e.elts]
            t = self.node_var(e, "l")
            self.emit(t, ("new", ys))
            return [t]
        if isinstance(e, ast.Dict):
            ys = [self.var_of(x) for x in list(e.keys) + list(e.values) if x is not None]
            t = self.node_var(e, "d")
            self.emit(t, ("new", ys))
            return [t]
        if isinstance(e, (ast.ListComp, ast.SetComp, ast.GeneratorExp, ast.DictComp)):
            saved = {k: set(v) for k, v in self.cur.items()}
            for g in e.generators:
                self.bind_iter(g.target, g.iter)
                for c in g.ifs:
                    self.vars_of(c)
            ys = [self.var_of(e.elt)] if not isinstance(e, ast.DictComp) else [self.var_of(e.key), self.var_of(e.value)]
            self.cur = saved
            t = self.node_var(e, "c")
            self.emit(t, ("new", ys))
            return [t]
        if isinstance(e, ast.IfExp):
            self.vars_of(e.test)
            return sorted(set(self.vars_of(e.body)) | set(self.vars_of(e.orelse)))
        if isinstance(e, ast.BoolOp):
            out = set()
            for x in e.values:
                out |= set(self.vars_of(x))
            return sorted(out)
        if isinstance(e, ast.NamedExpr):
            xs = self.vars_of(e.value)
            self.define(e.target.id, e, ("alias", self.one(xs, e)))
            return xs
        if isinstance(e, ast.BinOp):
            l, r = self.var_of(e.left), self.var_of(e.right)
            t = self.node_var(e, "o")
            if self.is_scalar_expr(e):
                self.emit(t, ("new", []))
            else:
                # list + list, set | set, ...: a new container with the operands' elements
                tl, tr = self.node_var(e, "ol"), self.node_var(e, "or")
                self.emit(tl, ("elem", l))
                self.emit(tr, ("elem", r))
                self.emit(t, ("new", [tl, tr]))
            return [t]
        if isinstance(e, ast.Call):
            return [self.call(e)]
        if isinstance(e, ast.Await):
            return self.vars_of(e.value)
        if isinstance(e, (ast.Compare, ast.UnaryOp)):
            for c in ast.iter_child_nodes(e):
                if isinstance(c, ast.expr):
                    self.vars_of(c)
        elif isinstance(e, ast.Lambda):
            t = self.node_var(e, "f")
            self.emit(t, ("unknown",))
            return [t]
        elif isinstance(e, ast.JoinedStr):
            for x in e.values:
                if isinstance(x, ast.FormattedValue):
                    self.vars_of(x.value)
        # constants, comparisons, f-strings, ...: immutable scalars
        t = self.node_var(e, "k")
        self.emit(t, ("new", []))
        return [t]

    def elts_var(self, x):
        if isinstance(x, ast.Starred):
            t = self.node_var(x, "e")
            for b in self.vars_of(x.value):
                self.emit(t, ("elem", b))
            return t
        return self.var_of(x)

    def resolve_private(self, f):
        """FunctionDef of a private same-file callee, or None"""
        name = None
        if isinstance(f, ast.Attribute) and isinstance(f.value, ast.Name) and (f.value.id in ("cls", "self") or f.value.id[:1].isupper()):
            name = f.attr
        elif isinstance(f, ast.Name) and f.id not in self.locals:
            name = f.id
        if name is None or not name.startswith("_") or name.startswith("__"):
            return None
        cands = self.ctx.funcs.get(name, [])
        return (cands[0], self.ctx) if len(cands) == 1 else None

    def resolve_unique_small(self, f):
        """a method / function defined exactly once in the whole package, small and free of mutation:
        `lookup.get_ids()`-style accessors, inlined so that what they return is known"""
        name = f.attr if isinstance(f, ast.Attribute) else (f.id if isinstance(f, ast.Name) and f.id not in self.locals else None)
        if name is None or name in CONTAINER_METHOD_NAMES or name.startswith("__") or name[:1].isupper():
            return None
        cands = GLOBAL_FUNCS.get(name, [])
        if len(cands) != 1:
            return None
        node, ctx = cands[0]
        if sum(1 for _ in ast.walk(node)) > 150:
            return None
        for sub in ast.walk(node):
            if isinstance(sub, ast.Call) and isinstance(sub.func, ast.Attribute) and sub.func.attr in MUTATORS:
                return None
            if isinstance(sub, (ast.AugAssign, ast.Delete)):
                return None
            if isinstance(sub, ast.Assign) and any(isinstance(t, (ast.Subscript, ast.Attribute)) for t in sub.targets):
                return None
        return node, ctx

    def call(self, e):
        f = e.func
        args = list(e.args) + [k.value for k in e.keywords]
        fname = f.id if isinstance(f, ast.Name) else (f.attr if isinstance(f, ast.Attribute) else None)
        t = self.node_var(e, "r")
        # mutating method call (statement or expression)
        if isinstance(f, ast.Attribute) and f.attr in MUTATORS and not self.is_module(f.value):
            recvs = self.vars_of(f.value)
            ys = self.stored_values(f.attr, args, e)
            for r in recvs:
                self.mut(r, ys, e)
            for r in recvs:
                self.emit(t, ("elem", r) if f.attr in ELEM_METHODS else ("new", []))
            return t
        if isinstance(f, ast.Attribute) and self.is_module(f.value):
            mod = f.value.id
            if mod == "copy" and f.attr == "deepcopy":
                for a in args:
                    self.vars_of(a)
                self.emit(t, ("new", []))
                return t
            if mod == "copy" and f.attr == "copy" and args:
                for b in self.vars_of(args[0]):
                    self.emit(t, ("shallow", b))
                return t
            if mod == "dataclasses" and f.attr == "replace":
                self.emit(t, ("new", [self.var_of(a) for a in args]))
                return t
            if mod == "object" and f.attr == "__setattr__" and args:
                recvs = self.vars_of(args[0])
                if not (self.cur_fn.name in INIT_NAMES and isinstance(args[0], ast.Name) and args[0].id == "self"):
                    ys = [self.var_of(a) for a in args[1:]]
                    for r in recvs:
                        self.mut(r, ys, e)
                self.emit(t, ("new", []))
                return t
            for a in args:
                self.vars_of(a)
            self.emit(t, ("new", []) if mod in PURE_MODULES else ("unknown",))
            return t
        if isinstance(f, ast.Name) and f.id in SHALLOW_FUNCS and f.id not in self.locals:
            if not args:
                self.emit(t, ("new", []))
            else:
                for src in self.iter_sources(args[0]):
                    self.emit(t, ("shallow", src))
                for a in args[1:]:
                    self.vars_of(a)
            return t
        if isinstance(f, ast.Name) and f.id in SCALAR_FUNCS and f.id not in self.locals:
            for a in args:
                self.vars_of(a)
            self.emit(t, ("new", []))
            return t
        if isinstance(f, ast.Attribute) and f.attr == "copy" and not args:
            for b in self.vars_of(f.value):
                self.emit(t, ("shallow", b))
            return t
        if isinstance(f, ast.Attribute) and f.attr in ELEM_METHODS:
            recvs = self.vars_of(f.value)
            avs = [self.var_of(a) for a in args]
            for r in recvs:
                self.emit(t, ("elem", r))
            for a in avs[1:]:   # d.get(k, default)
                self.emit(t, ("alias", a))
            return t
        callee = self.resolve_private(f)
        if callee is not None and len(self.frames) < MAX_INLINE_DEPTH:
            return self.inline(callee[0], callee[1], e, t, private=True)
        callee = self.resolve_unique_small(f)
        if callee is not None and len(self.frames) < MAX_INLINE_DEPTH:
            if isinstance(f, ast.Attribute):
                self.vars_of(f.value)
            return self.inline(callee[0], callee[1], e, t, private=False)
        for a in args:
            self.vars_of(a)
        if isinstance(f, ast.Attribute):
            self.vars_of(f.value)
        is_ctor = (fname is not None and fname[:1].isupper()) or (isinstance(f, ast.Name) and f.id == "cls") or fname in ("replace", "defaultdict", "deque")
        if fname == "defaultdict":
            self.emit(t, ("new", []))       # the factory is not a content element
        elif is_ctor:
            self.emit(t, ("new", [self.var_of(a) for a in args]))
        else:
            self.emit(t, ("unknown",))
        return t

    def inline(self, callee, cctx, call, t, private=True):
        """splice the callee's statements into this body; returns the variable holding its result"""
        a = callee.args
        pnames = [x.arg for x in a.posonlyargs + a.args + a.kwonlyargs]
        # positional binding; self / cls of a method bound to `unknown`
        actual = list(call.args)
        bound_first = isinstance(call.func, ast.Attribute) and pnames[:1] and pnames[0] in ("self", "cls")
        binds = {}
        formals = pnames[1:] if bound_first else pnames
        for p, arg in zip(formals, actual):
            binds[p] = arg
        for k in call.keywords:
            if k.arg:
                binds[k.arg] = k.value
        arg_vars = {p: self.vars_of(arg) for p, arg in binds.items()}
        for fr in self.frames:
            if fr["fn"] is callee:
                # recursion: tie the arguments back to the first copy's parameters
                for p, vs in arg_vars.items():
                    for x in vs:
                        self.emit(fr["pvars"][p], ("alias", x))
                self.emit(t, ("alias", fr["ret"]))
                return t
        prefix = "%s%s#%d:" % (self.prefix, callee.name, len(self.frames))
        saved = (self.prefix, self.locals, self.scalars, self.cur, self.cur_fn, self.ctx)
        self.prefix = prefix
        self.ctx = cctx
        pn, self.locals, self.scalars = self.enter_function(callee, prefix=prefix)
        self.cur_fn = callee
        pvars = {p: self.v(prefix + p) for p in pn}
        ret = self.v(prefix + "$ret")
        for p in pn:
            if p in arg_vars:
                for x in arg_vars[p]:
                    self.emit(pvars[p], ("alias", x))
            else:
                self.emit(pvars[p], ("unknown",))      # self / cls / defaults
        self.cur = {p: {pvars[p]} for p in pn}
        self.frames.append({"fn": callee, "pvars": pvars, "ret": ret})
        if private:
            self.inlined.append(callee.name)
        self.block(callee.body)
        self.frames.pop()
        self.prefix, self.locals, self.scalars, self.cur, self.cur_fn, self.ctx = saved
        self.emit(t, ("alias", ret))
        return t

    def iter_sources(self, it):
        """variables whose ELEMENTS the iteration yields"""
        if isinstance(it, ast.Call) and isinstance(it.func, ast.Name) and it.func.id in ITER_WRAPPERS and it.func.id not in self.locals and it.args:
            if it.func.id == "zip":
                out = []
                for a in it.args:
                    out += self.iter_sources(a)
                return out
            return self.iter_sources(it.args[0])
        if isinstance(it, ast.Call) and isinstance(it.func, ast.Attribute) and it.func.attr in ("items", "values", "keys") and not it.args:
            return self.vars_of(it.func.value)
        if isinstance(it, ast.Call) and isinstance(it.func, ast.Name) and it.func.id == "range":
            for a in it.args:
                self.vars_of(a)
            t = self.node_var(it, "n")
            self.emit(t, ("new", []))
            return [t]
        return self.vars_of(it)

    def bind_iter(self, target, it):
        srcs = self.iter_sources(it)
        t = self.node_var(target, "it")
        for s in srcs:
            self.emit(t, ("elem", s))
        self.bind_target(target, [t], "alias")

    def bind_target(self, target, xs, how="alias"):
        """bind target to (an alias / an element of) each of xs"""
        if isinstance(target, ast.Name):
            x = self.v("%s%s@%d:%d" % (self.prefix, target.id, target.lineno, target.col_offset))
            for y in xs:
                self.emit(x, (how, y))
            self.cur[target.id] = {x}
        elif isinstance(target, (ast.Tuple, ast.List)):
            for el in target.elts:
                if isinstance(el, ast.Starred):
                    self.bind_target(el.value, xs, "shallow" if how == "alias" else how)
                else:
                    # unpacking: each name is an element of the unpacked value
                    if how == "alias":
                        self.bind_target(el, xs, "elem")
                    else:
                        t = self.node_var(el, "u")
                        for y in xs:
                            self.emit(t, (how, y))
                        self.bind_target(el, [t], "elem")
        elif isinstance(target, ast.Subscript):
            if how != "alias":
                t = self.node_var(target, "v")
                for y in xs:
                    self.emit(t, (how, y))
                xs = [t]
            base = target.value
            if isinstance(base, ast.Attribute) and isinstance(base.value, ast.Name) and base.value.id in ("cls",) and base.attr.lstrip("_").isupper():
                self.caches.append((target.lineno, ast.unparse(target)[:100]))
                return
            if isinstance(base, ast.Subscript) and isinstance(base.value, ast.Attribute) and isinstance(base.value.value, ast.Name) and base.value.value.id == "cls" and base.value.attr.lstrip("_").isupper():
                self.caches.append((target.lineno, ast.unparse(target)[:100]))
                return
            for r in self.vars_of(base):
                self.mut(r, xs, target)
        elif isinstance(target, ast.Attribute):
            if how != "alias":
                t = self.node_var(target, "v")
                for y in xs:
                    self.emit(t, (how, y))
                xs = [t]
            recvs = self.vars_of(target.value)
            if not (self.cur_fn.name in INIT_NAMES and isinstance(target.value, ast.Name) and target.value.id == "self"):
                for r in recvs:
                    self.mut(r, xs, target)

    def stored_values(self, meth, args, node):
        if meth in ("remove", "discard", "pop", "popitem", "clear", "sort", "reverse"):
            for a in args:
                self.vars_of(a)
            return []
        ys = []
        for i, a in enumerate(args):
            if meth in ("extend", "update"):
                t = self.node_var(a, "x")
                for b in self.vars_of(a):
                    self.emit(t, ("elem", b))
                ys.append(t)
            else:
                ys.append(self.var_of(a))
        return ys

    # ---------------------------------------------------------------- statements
    def run(self):
        self.cur_fn = self.fn
        pn, self.locals, self.scalars = self.enter_function(self.fn)
        self.cur = {p: {self.v(p)} for p in self.params}
        self.block(self.fn.body)
        return self

    def block(self, stmts):
        for s in stmts:
            self.stmt(s)

    @staticmethod
    def merge(a, b):
        out = {k: set(v) for k, v in a.items()}
        for k, v in b.items():
            out.setdefault(k, set()).update(v)
        return out

    def stmt(self, st):
        if isinstance(st, (ast.FunctionDef, ast.AsyncFunctionDef, ast.ClassDef)):
            return   # analysed on their own
        if isinstance(st, ast.Assign):
            xs = self.vars_of(st.value)
            for t in st.targets:
                self.bind_target(t, xs)
        elif isinstance(st, ast.AnnAssign):
            if st.value is not None:
                self.bind_target(st.target, self.vars_of(st.value))
        elif isinstance(st, ast.AugAssign):
            if isinstance(st.target, ast.Name):
                if st.target.id in self.scalars or self.is_scalar_expr(st.value):
                    self.vars_of(st.value)
                    self.define(st.target.id, st, ("new", []))
                else:
                    t = self.node_var(st, "x")
                    for b in self.vars_of(st.value):
                        self.emit(t, ("elem", b))
                    for r in self.use_name(st.target):
                        self.mut(r, [t], st)
            else:
                val = self.var_of(st.value)
                recvs = self.vars_of(st.target.value)
                in_init = isinstance(st.target.value, ast.Name) and st.target.value.id == "self" and self.cur_fn.name in INIT_NAMES
                if not (in_init and isinstance(st.target, ast.Attribute)):
                    for r in recvs:
                        self.mut(r, [] if self.is_scalar_expr(st.value) else [val], st)
        elif isinstance(st, ast.Delete):
            for t in st.targets:
                if isinstance(t, (ast.Subscript, ast.Attribute)):
                    for r in self.vars_of(t.value):
                        self.mut(r, [], st)
        elif isinstance(st, (ast.For, ast.AsyncFor, ast.While)):
            before = {k: set(v) for k, v in self.cur.items()}
            for _ in range(3):
                start = {k: set(v) for k, v in self.cur.items()}
                if isinstance(st, ast.While):
                    self.vars_of(st.test)
                else:
                    self.bind_iter(st.target, st.iter)
                self.block(st.body)
                merged = self.merge(self.merge(before, start), self.cur)
                if merged == start:
                    break
                self.cur = merged
            self.block(st.orelse)
            self.cur = self.merge(before, self.cur)
        elif isinstance(st, ast.If):
            self.vars_of(st.test)
            before = {k: set(v) for k, v in self.cur.items()}
            self.block(st.body)
            after_body = self.cur
            self.cur = {k: set(v) for k, v in before.items()}
            self.block(st.orelse)
            self.cur = self.merge(after_body, self.cur)
        elif isinstance(st, (ast.With, ast.AsyncWith)):
            for item in st.items:
                self.vars_of(item.context_expr)
                if item.optional_vars is not None:
                    t = self.node_var(item.optional_vars, "w")
                    self.emit(t, ("unknown",))
                    self.bind_target(item.optional_vars, [t])
            self.block(st.body)
        elif isinstance(st, ast.Try):
            before = {k: set(v) for k, v in self.cur.items()}
            self.block(st.body)
            after = self.merge(before, self.cur)
            ends = [self.cur]
            for h in st.handlers:
                self.cur = {k: set(v) for k, v in after.items()}
                if h.name:
                    self.define(h.name, h, ("unknown",))
                self.block(h.body)
                ends.append(self.cur)
            self.cur = ends[0]
            self.block(st.orelse)
            for e in ends[1:]:
                self.cur = self.merge(self.cur, e)
            self.cur = self.merge(self.cur, after)
            self.block(st.finalbody)
        elif isinstance(st, ast.Return):
            if st.value is not None:
                xs = self.vars_of(st.value)
                if self.frames:
                    for x in xs:
                        self.emit(self.frames[-1]["ret"], ("alias", x))
        elif isinstance(st, ast.Expr):
            self.vars_of(st.value)
        elif isinstance(st, (ast.Raise, ast.Assert)):
            for c in ast.iter_child_nodes(st):
                if isinstance(c, ast.expr):
                    self.vars_of(c)
        elif isinstance(st, ast.Match):
            self.vars_of(st.subject)
            before = {k: set(v) for k, v in self.cur.items()}
            acc = before
            for c in st.cases:
                self.cur = {k: set(v) for k, v in before.items()}
                self.block(c.body)
                acc = self.merge(acc, self.cur)
            self.cur = acc
        # pass / break / continue / import / global: nothing


# -------------------------------------------------------------------------------------- kinds
RANK = {"any": 0, "fresh1": 1, "fresh2": 2, "deep": 3}


def rhs_ok(sig, tau, r):
    k = r[0]
    if k == "new":
        if tau in ("any", "fresh1"):
            return True
        want = "fresh1" if tau == "fresh2" else "deep"
        return all(sig[y] == want for y in r[1])
    if k == "shallow":
        if tau in ("any", "fresh1"):
            return True
        return sig[r[1]] == tau
    if k == "alias":
        return tau == "any" or sig[r[1]] == tau
    if k == "elem":
        if tau == "any":
            return True
        if tau == "fresh1":
            return sig[r[1]] == "fresh2"
        if tau == "deep":
            return sig[r[1]] == "deep"
        return False
    return tau == "any"


def stmt_ok(sig, s):
    if s[0] == "assign":
        return rhs_ok(sig, sig[s[1]], s[2])
    k = sig[s[1]]
    if k == "any":
        return False
    if k == "fresh1":
        return True
    want = "fresh1" if k == "fresh2" else "deep"
    return all(sig[y] == want for y in s[2])


def infer(nvars, params, body):
    sig = ["deep"] * nvars
    fixed = set(params)
    for p in params:
        sig[p] = "any"
    mutated = {s[1] for s in body if s[0] == "mutate"}

    def lower(x, k):
        if x in fixed or RANK[k] >= RANK[sig[x]]:
            return False
        sig[x] = k
        return True

    for _ in range(8 * nvars + 8):
        changed = False
        for s in body:
            if stmt_ok(sig, s):
                continue
            if s[0] == "mutate":
                x, ys = s[1], s[2]
                if sig[x] == "deep":
                    changed |= lower(x, "fresh2" if all(sig[y] == "fresh1" for y in ys) else "fresh1")
                elif sig[x] == "fresh2":
                    for y in ys:
                        if RANK[sig[y]] > 1:
                            changed |= lower(y, "fresh1")
                    if not all(sig[y] == "fresh1" for y in ys):
                        changed |= lower(x, "fresh1")
                continue
            x, r = s[1], s[2]
            if r[0] == "new":
                if sig[x] == "fresh2":
                    for y in r[1]:
                        if RANK[sig[y]] > 1:
                            changed |= lower(y, "fresh1")
                    if not all(sig[y] == "fresh1" for y in r[1]):
                        changed |= lower(x, "fresh1")
                else:
                    changed |= lower(x, "fresh2" if (sig[x] == "deep" and all(sig[y] == "fresh1" for y in r[1])) else "fresh1")
            elif r[0] == "shallow":
                changed |= lower(x, "fresh2" if (sig[r[1]] == "fresh2" and sig[x] == "deep") else "fresh1")
            elif r[0] == "alias":
                y = r[1]
                if RANK[sig[x]] > RANK[sig[y]]:
                    changed |= lower(x, sig[y])
                elif not lower(y, sig[x]):
                    changed |= lower(x, "any")
                else:
                    changed = True
            elif r[0] == "elem":
                y = r[1]
                if sig[y] == "fresh2" and RANK[sig[x]] > 1:
                    changed |= lower(x, "fresh1")
                elif sig[y] == "deep" and sig[x] in ("fresh1",) and lower(y, "fresh2"):
                    changed = True
                else:
                    changed |= lower(x, "any")
            else:
                changed |= lower(x, "any")
        if not changed:
            break
    return sig


# -------------------------------------------------------------------------------------- files
def functions_of(tree):
    """(qualified name, FunctionDef) for every function and method, nested ones included"""
    out = []

    def walk(node, prefix):
        for ch in ast.iter_child_nodes(node):
            if isinstance(ch, (ast.FunctionDef, ast.AsyncFunctionDef)):
                out.append((prefix + ch.name, ch))
                walk(ch, prefix + ch.name + ".")
            elif isinstance(ch, ast.ClassDef):
                walk(ch, prefix + ch.name + ".")
            elif isinstance(ch, (ast.If, ast.Try, ast.With)):
                walk(ch, prefix)
    walk(tree, "")
    return out


def scope_files():
    root = os.path.join(PKG_ROOT, "richchk")
    for d in SCOPE_DIRS:
        for dirpath, _, files in sorted(os.walk(os.path.join(root, d))):
            for fn in sorted(files):
                path = os.path.join(dirpath, fn)
                if fn.endswith(".py") and not any(part in path for part in EXCLUDE_PATH_PARTS):
                    yield path


def translate_all():
    fns, gaps = [], []
    trees = {}
    RETURN_ANN.clear()
    GLOBAL_FUNCS.clear()
    for path in scope_files():
        rel = os.path.relpath(path, PKG_ROOT)
        try:
            trees[path] = ast.parse(open(path, encoding="utf-8").read(), filename=path)
        except SyntaxError as e:
            gaps.append((rel, "syntax error: %s" % e))
            continue
        cx = Ctx(trees[path])
        for _, node in functions_of(trees[path]):
            GLOBAL_FUNCS.setdefault(node.name, []).append((node, cx))
            if node.returns is not None:
                RETURN_ANN.setdefault(node.name, set()).add(ast.unparse(node.returns))
            else:
                RETURN_ANN.setdefault(node.name, set()).add("?")
    for path, tree in trees.items():
        rel = os.path.relpath(path, PKG_ROOT)
        ctx = Ctx(tree)
        per_file = []
        inlined_somewhere = set()
        for qn, node in functions_of(tree):
            if node.name in EXCLUDE_FUNCS:
                continue
            try:
                tr = FnTranslator(node, ctx, qn).run()
            except Exception as e:  # noqa: BLE001
                gaps.append((rel + ":" + qn, "reader error %s: %s" % (type(e).__name__, e)))
                continue
            inlined_somewhere |= set(tr.inlined)
            per_file.append((qn, node, tr))
        for qn, node, tr in per_file:
            params = tr.param_vars
            sig = infer(len(tr.names), params, tr.stmts)
            bad = [i for i, s in enumerate(tr.stmts) if not stmt_ok(sig, s)]
            private_inlined = node.name in inlined_somewhere and node.name.startswith("_")
            fns.append({"file": rel, "name": qn, "line": node.lineno, "vars": tr.names, "params": params, "body": tr.stmts, "sigma": sig,
                        "mutations": [tr.sites[i] for i in sorted(tr.sites)], "bad": bad, "bad_sites": [tr.sites.get(i) or ("assign", tr.names[tr.stmts[i][1]]) for i in bad],
                        "caches": tr.caches, "inlines": sorted(set(tr.inlined)), "verified_in_callers": private_inlined})
    return fns, gaps


def lean_rhs(r):
    if r[0] == "new":
        return ".new [%s]" % ", ".join(str(y) for y in r[1])
    if r[0] == "unknown":
        return ".unknown"
    return ".%s %d" % (r[0], r[1])


def lean_stmt(s):
    if s[0] == "assign":
        return ".assign %d (%s)" % (s[1], lean_rhs(s[2]))
    return ".mutate %d [%s]" % (s[1], ", ".join(str(y) for y in s[2]))


def generate(gen_dir, build_dir, write_if_changed):
    fns, gaps = translate_all()
    # only functions that mutate something carry an obligation: a body without `mutate` passes `check`
    # with every variable declared `any`.  Private helpers verified inside each of their callers are
    # counted, not emitted.
    emit = [f for f in fns if any(s[0] == "mutate" for s in f["body"]) and not f["verified_in_callers"]]
    L = ["/- GENERATED by translator/tr_effects.py from /repo's working tree: do not edit. -/", "import RichchkModel.Model.Alias", "namespace Richchk.Generated", "open Richchk.Alias", ""]
    names = []
    for i, f in enumerate(emit):
        nm = "fn%d" % i
        names.append(nm)
        doc = "%s :: %s (line %d); mutation sites: %s" % (f["file"], f["name"], f["line"], "; ".join("%d: %s" % (ln, tx) for ln, tx in f["mutations"]))
        L.append("/-- %s -/" % doc.replace("-/", "- /").replace("/-", "/ -")[:700])
        L.append("def %s : Fn := {" % nm)
        L.append("  name := %s" % json.dumps(f["file"] + "::" + f["name"]))
        L.append("  params := [%s]" % ", ".join(str(p) for p in f["params"]))
        L.append("  sigma := [%s]" % ", ".join("(%d, .%s)" % (i2, v) for i2, v in enumerate(f["sigma"]) if v != "any"))
        L.append("  body := [")
        L.append(",\n".join("    " + lean_stmt(s) for s in f["body"]))
        L.append("  ] }")
        L.append("")
    L.append("def effects : List Fn := [%s]" % ", ".join(names))
    L.append("def effectsFunctionsRead : Nat := %d" % len(fns))
    L.append("def effectGaps : Nat := %d" % len(gaps))
    L.append("end Richchk.Generated")
    write_if_changed(os.path.join(gen_dir, "Effects.lean"), "\n".join(L) + "\n")
    with open(os.path.join(build_dir, "effects.json"), "w") as f:
        json.dump({"functions": [{k: v for k, v in fn.items() if k not in ("body", "vars", "sigma")} | {"nstmts": len(fn["body"]), "emitted": fn in emit} for fn in fns], "gaps": gaps}, f)
    return gaps, {"functions": len(fns), "with_obligation": len(emit), "flagged": sum(1 for f in emit if f["bad"]), "caches": sum(len(f["caches"]) for f in fns), "gaps": len(gaps)}


if __name__ == "__main__":
    fns, gaps = translate_all()
    print(len(fns), "functions;", sum(1 for f in fns if any(s[0] == "mutate" for s in f["body"])), "with mutation;", len(gaps), "gaps")
    for f in fns:
        if f["bad"] and not f["verified_in_callers"]:
            print("FLAGGED", f["file"], f["name"], f["bad_sites"])
        if f["caches"]:
            print("CACHE", f["file"], f["name"], f["caches"])
    for g in gaps:
        print("GAP", g)
