"""Translate the 51 action and 22 condition transcoders into a field<->argument table.

For every registered transcoder class:
  id        the number of the TriggerActionId / TriggerConditionId member its model class returns
  decode    for each rich argument: (record field it is read from, codec)
  encode    for each record field: zero | typebyte | (rich argument it is written from, codec)
codec in {num, enum:<Enum>, loc, str, strval, switch, cuwp, ai, wavdur}
Output: lean/RichchkModel/Generated/TrigTable.lean and build/trigtable.json
"""
import ast
import re
import glob
import json
import os

from pysrc import PKG_ROOT, TranslatorGap, const_value, dataclass_fields, find_class, find_method, load_module, load_path, property_map

TDIR = os.path.join(PKG_ROOT, "richchk", "transcoder", "richchk", "transcoders", "trig")


def body_of(fn):
    return [s for s in fn.body if not (isinstance(s, ast.Expr) and isinstance(s.value, ast.Constant))]


def attr_chain(node):
    """a.b.c -> ['a','b','c'] or None"""
    parts = []
    while isinstance(node, ast.Attribute):
        parts.append(node.attr)
        node = node.value
    if isinstance(node, ast.Name):
        parts.append(node.id)
        return list(reversed(parts))
    return None


class Side:
    """classifies expressions of one `_decode` / `_encode` body"""

    def __init__(self, mod, cls, fn, kind, model_name=""):
        self.mod, self.cls, self.fn, self.kind, self.model_name = mod, cls, fn, kind, model_name
        params = [a.arg for a in fn.args.args if a.arg != "self"]
        self.obj, self.ctx = params[0], params[1]
        self.env = {}
        self.assign_order = []
        self.asserts = []
        self.ret = None
        for st in body_of(fn):
            if isinstance(st, ast.Assert):
                self.asserts.append(ast.unparse(st.test))
            elif isinstance(st, (ast.Assign, ast.AnnAssign)):
                t = st.targets[0] if isinstance(st, ast.Assign) else st.target
                if not isinstance(t, ast.Name):
                    raise TranslatorGap("assignment target is not a name")
                self.env[t.id] = st.value
                self.assign_order.append(t.id)
            elif isinstance(st, ast.Return):
                self.ret = st.value
            elif isinstance(st, ast.If) and not st.orelse and all(
                isinstance(b, ast.Expr) and isinstance(b.value, ast.Call) and ast.unparse(b.value.func).startswith("self.log.")
                for b in st.body
            ):
                continue  # logging only
            else:
                raise TranslatorGap(f"unsupported statement in {fn.name}: {ast.unparse(st)[:80]}")
        if not (isinstance(self.ret, ast.Call) and not self.ret.args):
            raise TranslatorGap(f"{fn.name} does not return a keyword-constructed object")

    def resolve(self, node):
        seen = 0
        while isinstance(node, ast.Name) and node.id in self.env and seen < 5:
            node = self.env[node.id]
            seen += 1
        return node

    def obj_attr(self, node):
        """obj.attr -> attr (property name on the decoded record / rich object)"""
        ch = attr_chain(node)
        if ch and len(ch) == 2 and ch[0] == self.obj:
            return ch[1]
        return None

    # ---- decode expressions: value of a rich argument
    def classify_decode(self, node):
        node = self.resolve(node)
        a = self.obj_attr(node)
        if a:
            return ("num", a)
        if isinstance(node, ast.Attribute) and node.attr == "value":
            inner = self.classify_decode(node.value)
            if inner[0] == "str":
                return ("strval", inner[1])
        if isinstance(node, ast.Call):
            ch = attr_chain(node.func)
            if ch == ["RichChkEnumTranscoder", "decode_enum"]:
                f = self.obj_attr(node.args[0])
                if f and isinstance(node.args[1], ast.Name):
                    return ("enum:" + node.args[1].id, f)
            if ch == ["AiScriptTranscoder", "decode"]:
                f = self.obj_attr(node.args[0])
                if f:
                    return ("ai", f)
            if ch and ch[0] == self.ctx and len(ch) == 3:
                f = self.obj_attr(node.args[0]) if node.args else None
                if f is None and node.keywords:
                    f = self.obj_attr(node.keywords[0].value)
                table = {
                    ("rich_mrgn_lookup", "get_location_by_id"): "loc",
                    ("rich_mrgn_lookup", "get_location_by_id_or_throw"): "loc!",
                    ("rich_str_lookup", "get_string_by_id"): "str",
                    ("rich_cuwp_lookup", "get_cuwp_by_id"): "cuwp",
                }
                k = table.get((ch[1], ch[2]))
                if k and f:
                    return (k, f)
            if ch and ch[0] == "self" and ch[1] == "_decode_switch":
                arg = node.args[0] if node.args else [k.value for k in node.keywords if k.arg == "switch_id"][0]
                f = self.obj_attr(arg)
                self.check_decode_switch()
                if f:
                    return ("switch", f)
        raise TranslatorGap(f"unrecognised decode expression: {ast.unparse(node)[:100]}")

    def check_decode_switch(self):
        r = find_method(self.mod, self.cls, "_decode_switch")
        if not r:
            raise TranslatorGap("_decode_switch missing")
        src = "\n".join(ast.unparse(s) for s in body_of(r[2]))
        exp = ("maybe_switch = rich_chk_decode_context.rich_swnm_lookup.get_switch_by_id(switch_id)\n"
               "if not maybe_switch:\n    return RichSwitch(_custom_name=RichNullString(), _index=switch_id)\nreturn maybe_switch")
        if src != exp:
            raise TranslatorGap("_decode_switch has an unrecognised shape")

    # ---- encode expressions: value of a record field
    def classify_encode(self, node):
        node = self.resolve(node)
        if isinstance(node, ast.Constant) and node.value == 0:
            return ("zero", None)
        idm = "action_id" if self.kind == "action" else "condition_id"
        if ast.unparse(node) in (f"{self.obj}.{idm}().id", f"{self.model_name}.{idm}().id"):
            return ("typebyte", None)
        a = self.obj_attr(node)
        if a:
            return ("num", a)
        if isinstance(node, ast.Call):
            ch = attr_chain(node.func)
            arg0 = node.args[0] if node.args else (node.keywords[0].value if node.keywords else None)
            if ch == ["RichChkEnumTranscoder", "encode_enum"]:
                f = self.obj_attr(arg0)
                if f:
                    return ("enum", f)
            if ch == ["AiScriptTranscoder", "encode"]:
                f = self.obj_attr(arg0)
                if f:
                    return ("ai", f)
            if ch and ch[0] == self.ctx and len(ch) == 3:
                table = {
                    ("rich_mrgn_lookup", "get_id_by_location"): "loc",
                    ("rich_mrgn_lookup", "get_id_by_location_or_throw"): "loc!",
                    ("rich_str_lookup", "get_id_by_string"): "str",
                    ("rich_cuwp_lookup", "get_id_by_cuwp"): "cuwp",
                    ("rich_swnm_lookup", "get_id_by_switch"): "switch",
                }
                k = table.get((ch[1], ch[2]))
                if k:
                    f = self.obj_attr(arg0)
                    if f:
                        return (k, f)
                    # RichString(_value=obj.path)
                    if k == "str" and isinstance(arg0, ast.Call) and isinstance(arg0.func, ast.Name) and arg0.func.id == "RichString":
                        f = self.obj_attr(arg0.keywords[0].value)
                        if f:
                            return ("strval", f)
            if ch and ch[0] == "self" and ch[1] == "_determine_wav_duration":
                self.check_wav_duration()
                return ("wavdur", "duration_ms")
        raise TranslatorGap(f"unrecognised encode expression: {ast.unparse(node)[:100]}")

    def check_wav_duration(self):
        """`_determine_wav_duration` as a decision tree, whatever its nesting / early returns: the explicit
        duration when there is one (`is None` test, so 0 counts as explicit); otherwise the duration of the
        metadata looked up by the action's path; ValueError when there is no lookup or no metadata"""
        r = find_method(self.mod, self.cls, "_determine_wav_duration")
        fn = r[2]
        params = [a.arg for a in fn.args.args if a.arg not in ("self", "cls")]
        if len(params) != 2:
            raise TranslatorGap("_determine_wav_duration: expected (action, context)")
        act, ctx = params
        binds = {}

        def test_of(t, pol=True):
            if isinstance(t, ast.UnaryOp) and isinstance(t.op, ast.Not):
                return test_of(t.operand, not pol)
            if isinstance(t, ast.Compare) and len(t.ops) == 1 and isinstance(t.comparators[0], ast.Constant) and t.comparators[0].value is None:
                if isinstance(t.ops[0], ast.Is):
                    return ("isnone", ast.unparse(t.left), pol)
                if isinstance(t.ops[0], ast.IsNot):
                    return ("isnone", ast.unparse(t.left), not pol)
            if isinstance(t, (ast.Name, ast.Attribute)):
                return ("truthy", ast.unparse(t), pol)
            raise TranslatorGap(f"_determine_wav_duration: unsupported test `{ast.unparse(t)[:60]}`")

        paths = []

        def walk(stmts, conds):
            """returns True when every path through stmts ended in return / raise"""
            for i, st in enumerate(stmts):
                if isinstance(st, ast.Expr) and isinstance(st.value, ast.Constant):
                    continue
                if isinstance(st, ast.Expr) and isinstance(st.value, ast.Call) and "log" in ast.unparse(st.value.func).lower():
                    continue
                if isinstance(st, (ast.Assign, ast.AnnAssign)):
                    tgt = st.targets[0] if isinstance(st, ast.Assign) else st.target
                    if not isinstance(tgt, ast.Name) or st.value is None:
                        raise TranslatorGap("_determine_wav_duration: unsupported assignment")
                    binds[tgt.id] = ast.unparse(st.value)
                    continue
                if isinstance(st, ast.Return):
                    paths.append((frozenset(conds), ("return", ast.unparse(st.value))))
                    return True
                if isinstance(st, ast.Raise):
                    exc = st.exc.func if isinstance(st.exc, ast.Call) else st.exc
                    paths.append((frozenset(conds), ("raise", ast.unparse(exc))))
                    return True
                if isinstance(st, ast.If):
                    k, e, pol = test_of(st.test)
                    rest = stmts[i + 1:]
                    done_t = walk(st.body, conds + [(k, e, pol)])
                    if not done_t:
                        done_t = walk(rest, conds + [(k, e, pol)])
                    done_f = walk(st.orelse, conds + [(k, e, not pol)]) if st.orelse else False
                    if not done_f:
                        done_f = walk(rest, conds + [(k, e, not pol)])
                    if not (done_t and done_f):
                        raise TranslatorGap("_determine_wav_duration: a path ends without return / raise")
                    return True
                raise TranslatorGap(f"_determine_wav_duration: unsupported statement `{ast.unparse(st)[:60]}`")
            return False

        if not walk(fn.body, []):
            raise TranslatorGap("_determine_wav_duration: a path ends without return / raise")
        dur = f"{act}.duration_ms"
        lookup = f"{ctx}.wav_metadata_lookup"
        metas = [v for v, e in binds.items() if e.replace(" ", "").replace("\n", "") == f"{lookup}.get_metadata_by_wav_path({act}.path_to_wav_in_mpq)"]
        if len(metas) != 1:
            raise TranslatorGap("_determine_wav_duration: the metadata is not looked up by the action's path")
        m = metas[0]
        none = ("isnone", dur, True)
        want = {
            (frozenset([("isnone", dur, False)]), ("return", dur)),
            (frozenset([none, ("truthy", lookup, False)]), ("raise", "ValueError")),
            (frozenset([none, ("truthy", lookup, True), ("truthy", m, False)]), ("raise", "ValueError")),
            (frozenset([none, ("truthy", lookup, True), ("truthy", m, True)]), ("return", f"{m}.duration_ms")),
        }
        if set(paths) != want:
            raise TranslatorGap("_determine_wav_duration: decision tree differs from (explicit duration | metadata duration | ValueError): %s" % sorted((sorted(c), o) for c, o in set(paths) ^ want)[:2])


def model_id(mod, cls, kind):
    """(model class name, enum member, number)"""
    kwname = "trigger_action_id" if kind == "action" else "trigger_condition_id"
    meth = "action_id" if kind == "action" else "condition_id"
    enumname = "TriggerActionId" if kind == "action" else "TriggerConditionId"
    for kw in cls.keywords:
        if kw.arg == kwname:
            v = kw.value
            if isinstance(v, ast.Call) and isinstance(v.func, ast.Attribute) and v.func.attr == meth and isinstance(v.func.value, ast.Name):
                mname = v.func.value.id
                mm, mc = find_class(mod, mname)
                r = find_method(mm, mc, meth)
                body = body_of(r[2])
                if len(body) == 1 and isinstance(body[0], ast.Return):
                    ch = attr_chain(body[0].value)
                    if ch and ch[0] == enumname and len(ch) == 2:
                        em, ec = find_class(mm, enumname)
                        for node in ec.body:
                            if isinstance(node, ast.Assign) and node.targets[0].id == ch[1]:
                                return mname, ch[1], const_value(em, node.value)[0], mm, mc
                raise TranslatorGap(f"{mname}.{meth}() is not a plain enum member")
    return None


def translate_file(path, kind):
    mod = load_path(path)
    rows = []
    rec_cls = "DecodedTriggerAction" if kind == "action" else "DecodedTriggerCondition"
    for cname, cls in mod.classes.items():
        mid = model_id(mod, cls, kind)
        if mid is None:
            continue
        mname, member, num, mm, mc = mid
        rm, rc = find_class(mod, rec_cls)
        rec_props = property_map(rm, rc)
        rich_props = property_map(mm, mc)
        dfn = find_method(mod, cls, "_decode")
        efn = find_method(mod, cls, "_encode")
        if not dfn or not efn or dfn[1] is not cls or efn[1] is not cls:
            raise TranslatorGap(f"{cname}: _decode/_encode not defined in the class")
        d = Side(mod, cls, dfn[2], kind, mname)
        e = Side(mod, cls, efn[2], kind, mname)
        if not (isinstance(d.ret.func, ast.Name) and d.ret.func.id == mname):
            raise TranslatorGap(f"{cname}._decode returns {ast.unparse(d.ret.func)}, registered for {mname}")
        if not (isinstance(e.ret.func, ast.Name) and e.ret.func.id == rec_cls):
            raise TranslatorGap(f"{cname}._encode does not return {rec_cls}")
        def eval_key(side, pos, value):
            # expressions bound to local variables are evaluated first, in statement order
            if isinstance(value, ast.Name) and value.id in side.assign_order:
                return side.assign_order.index(value.id)
            return 1000 + pos

        dec = []
        dec_keys = []
        for pos, kw in enumerate(d.ret.keywords):
            codec, prop = d.classify_decode(kw.value)
            f = rec_props.get(prop)
            if f is None:
                raise TranslatorGap(f"{rec_cls}.{prop} is not a plain field property")
            dec.append({"arg": kw.arg, "codec": codec, "field": f})
            dec_keys.append((eval_key(d, pos, kw.value), kw.arg))
        enc = []
        enc_keys = []
        for pos, kw in enumerate(e.ret.keywords):
            enc_keys.append((eval_key(e, pos, kw.value), kw.arg))
        for kw in e.ret.keywords:
            codec, prop = e.classify_encode(kw.value)
            arg = None
            if prop is not None:
                arg = rich_props.get(prop)
                if arg is None:
                    raise TranslatorGap(f"{mname}.{prop} is not a plain field property")
            enc.append({"field": kw.arg, "codec": codec, "arg": arg})
        # the first assert of _decode must pin the type byte
        idprop = "action_id" if kind == "action" else "condition_id"
        want = f"{d.obj}.{idprop} == {mname}.{idprop}().id"
        rows.append({
            "kind": kind, "transcoder": cname, "model": mname, "member": member, "id": num,
            "decode": dec, "encode": enc,
            "asserts_type": want in d.asserts,
            "rich_fields": [n for n, _ in dataclass_fields(mm, mc)],
            "dec_order": [a for _, a in sorted(dec_keys)],
            "enc_order": [a for _, a in sorted(enc_keys)],
            "file": os.path.relpath(path, PKG_ROOT),
        })
    return rows


def base_flag_handling(kind):
    """the Protocol base: decode -> build_dataclass_with_fields(self._decode(..), _flags=X.decode_flags(rec.flags)),
    encode -> build_dataclass_with_fields(self._encode(..), _flags=X.encode_flags(rich.flags))"""
    fname = "rich_trigger_action_transcoder.py" if kind == "action" else "rich_trigger_condition_transcoder.py"
    mod = load_path(os.path.join(TDIR, fname))
    cls = [c for n, c in mod.classes.items() if n.startswith("RichTrigger") and n.endswith("Transcoder")][0]
    codec = "TriggerActionFlagsTranscoder" if kind == "action" else "TriggerConditionFlagsTranscoder"
    rec = "decoded_action" if kind == "action" else "decoded_condition"
    rich = "rich_action" if kind == "action" else "rich_condition"
    d = ast.unparse(find_method(mod, cls, "decode")[2])
    e = ast.unparse(find_method(mod, cls, "encode")[2])
    ok = (
        f"return build_dataclass_with_fields(self._decode({rec}, rich_chk_decode_context), _flags={codec}.decode_flags({rec}.flags))" in d
        and f"return build_dataclass_with_fields(self._encode({rich}, rich_chk_encode_context), _flags={codec}.encode_flags({rich}.flags))" in e
    )
    if not ok:
        raise TranslatorGap(f"base {kind} transcoder flag handling has an unrecognised shape")


def lean_str(s):
    return '"' + s.replace("\\", "\\\\").replace('"', '\\"') + '"'


def generate(gen_dir, build_dir, write_if_changed):
    gaps, rows = [], []
    for kind, sub in (("action", "actions"), ("condition", "conditions")):
        try:
            base_flag_handling(kind)
        except TranslatorGap as e:
            gaps.append((kind + "-base", str(e)))
        for p in sorted(glob.glob(os.path.join(TDIR, sub, "*.py"))):
            if os.path.basename(p) == "__init__.py":
                continue
            try:
                rows += translate_file(p, kind)
            except TranslatorGap as e:
                gaps.append((os.path.relpath(p, PKG_ROOT), str(e)))
            except Exception as e:  # noqa: BLE001
                gaps.append((os.path.relpath(p, PKG_ROOT), f"reader error {type(e).__name__}: {e}"))
    rows.sort(key=lambda r: (r["kind"], r["id"], r["transcoder"]))
    L = [
        "/- GENERATED by /verif/translator/tr_trig.py on every run.  Do not edit. -/",
        "import RichchkModel.Model.TrigTable",
        "namespace Richchk.Generated",
        "open Richchk",
        "",
        f"def trigGaps : Nat := {len(gaps)}",
    ]
    for g in gaps:
        L.append(f"-- TranslatorGap {g[0]}: {g[1]}")

    def row(r):
        def split(c):
            if c.startswith("enum:"):
                return "enum", c[5:]
            if c == "strval":
                return "str", "value"
            return c, ""

        dec = ", ".join(f"⟨{lean_str(d['arg'])}, {lean_str(split(d['codec'])[0])}, {lean_str(split(d['codec'])[1])}, {lean_str(d['field'])}⟩" for d in r["decode"])
        enc = ", ".join(f"⟨{lean_str(e['field'])}, {lean_str(split(e['codec'])[0])}, {lean_str(e['arg'] or '')}⟩" for e in r["encode"])
        def sl(xs):
            return "[" + ", ".join(lean_str(x) for x in xs) + "]"

        return (f"  ⟨{r['id']}, {lean_str(r['model'])}, {lean_str(r['member'])}, [{dec}], [{enc}], {'true' if r['asserts_type'] else 'false'}, "
                f"{sl(r['rich_fields'])}, {sl(r['dec_order'])}, {sl(r['enc_order'])}⟩")

    for kind, name in (("action", "actionTable"), ("condition", "conditionTable")):
        L.append("")
        L.append(f"def {name} : List TrigRow := [")
        L.append(",\n".join(row(r) for r in rows if r["kind"] == kind))
        L.append("]")
    L.append("")
    L.append("end Richchk.Generated")
    write_if_changed(os.path.join(gen_dir, "TrigTable.lean"), "\n".join(L) + "\n")
    with open(os.path.join(build_dir, "trigtable.json"), "w") as f:
        json.dump({"rows": rows, "gaps": gaps}, f)
    return gaps, {"actions": len([r for r in rows if r["kind"] == "action"]), "conditions": len([r for r in rows if r["kind"] == "condition"]), "gaps": len(gaps)}


if __name__ == "__main__":
    import sys

    os.makedirs("/tmp/trig_build", exist_ok=True)
    g, s = generate("/tmp/trig_gen", "/tmp/trig_build", lambda p, t: (os.makedirs(os.path.dirname(p), exist_ok=True), open(p, "w").write(t)))
    print(g, s)
    d = json.load(open("/tmp/trig_build/trigtable.json"))
    for r in d["rows"]:
        print(r["kind"][0], r["id"], r["model"], " | ".join(f"{x['arg']}<-{x['codec']}@{x['field']}" for x in r["decode"]))
