"""Translate the file-writing entry points: default of the overwrite flag, and the ordered
sequence of guards / file-system calls / archive-library calls of each body (with-blocks and
try/except kept as bracketing events)  ->  Generated/FileApis.lean (+ build/fileapis.json)."""
import ast
import json
import os

from pysrc import TranslatorGap, find_method, load_module

APIS = [
    ("chkExport", "richchk.io.chk.chk_io", "ChkIo", "encode_chk_to_file", "force_create"),
    ("extractChk", "richchk.io.mpq.starcraft_mpq_io", "StarCraftMpqIo", "extract_chk_from_mpq", "overwrite_existing"),
    ("readChk", "richchk.io.mpq.starcraft_mpq_io", "StarCraftMpqIo", "read_chk_from_mpq", None),
    ("saveMap", "richchk.io.mpq.starcraft_mpq_io", "StarCraftMpqIo", "save_chk_to_mpq", "overwrite_existing"),
    ("copyAtomically", "richchk.io.mpq.starcraft_mpq_io", "StarCraftMpqIo", "_copy_file_atomically", None),
    ("importAudio", "richchk.io.mpq.starcraft_audio_files_io", "StarCraftAudioFilesIo", "add_audio_files_to_mpq", "overwrite_existing"),
    ("addAudioToMpq", "richchk.io.mpq.starcraft_audio_files_io", "StarCraftAudioFilesIo", "_add_audio_files_to_mpq", None),
    ("extractFile", "richchk.mpq.stormlib.stormlib_wrapper", "StormLibWrapper", "extract_file", "overwrite_existing"),
    ("wavMetadata", "richchk.io.mpq.starcraft_audio_files_metadata_io", "StarCraftAudioFilesMetadataIo", "extract_all_audio_files_metadata", None),
    ("wavDuration", "richchk.io.mpq.starcraft_audio_files_metadata_io", "StarCraftAudioFilesMetadataIo", "_calculate_audio_file_duration_ms", None),
    ("tempEnter", "richchk.util.fileutils", "CrossPlatformSafeTemporaryNamedFile", "__enter__", None),
    ("tempExit", "richchk.util.fileutils", "CrossPlatformSafeTemporaryNamedFile", "__exit__", None),
]

INTERESTING = ("shutil.copyfile", "os.replace", "os.remove", "os.rename", "shutil.move", "shutil.copy", "open")


def call_name(node):
    try:
        return ast.unparse(node.func)
    except Exception:  # noqa: BLE001
        return "?"


class _Subst(ast.NodeTransformer):
    def __init__(self, mapping):
        self.mapping = mapping

    def visit_Name(self, node):
        return self.mapping.get(node.id, node)


class Seq(ast.NodeVisitor):
    def __init__(self, mod=None, cls=None):
        self.ev = []
        self.mod, self.cls = mod, cls

    def guard_helper(self, st):
        """`self._check(args)` as a statement, where `_check` is a private method of the same class whose whole
        body is `if <test>: raise <Exc>(...)` guards: the extracted spelling of writing the guards in place.
        Returns the guards with the parameters replaced by the arguments, or None"""
        import copy

        if self.mod is None or not (isinstance(st, ast.Expr) and isinstance(st.value, ast.Call)):
            return None
        f = st.value.func
        if not (isinstance(f, ast.Attribute) and isinstance(f.value, ast.Name) and f.value.id in ("self", "cls") and f.attr.startswith("_")):
            return None
        r = find_method(self.mod, self.cls, f.attr)
        if not r or st.value.keywords:
            return None
        fn = r[2]
        params = [a.arg for a in fn.args.args if a.arg not in ("self", "cls")]
        if len(params) != len(st.value.args):
            return None
        body = [b for b in fn.body if not (isinstance(b, ast.Expr) and isinstance(b.value, ast.Constant))]
        if not body or not all(isinstance(b, ast.If) and not b.orelse and any(isinstance(x, ast.Raise) for x in b.body) for b in body):
            return None
        sub = _Subst(dict(zip(params, st.value.args)))
        return [ast.fix_missing_locations(sub.visit(copy.deepcopy(b))) for b in body]

    def expr_calls(self, node):
        """calls inside an expression in evaluation order (arguments before the call itself)"""
        for child in ast.iter_child_nodes(node):
            self.expr_calls(child)
        if isinstance(node, ast.Call):
            n = call_name(node)
            short = None
            if n in INTERESTING or n.endswith(".write") or n.endswith(".close"):
                short = n
            elif "_stormlib_wrapper." in n or n.startswith("func"):
                short = "stormlib." + n.split(".")[-1]
            elif n.startswith("self._") or n.startswith("cls._"):
                short = "self." + n.split(".")[-1]
            elif n.endswith("encode_chk_to_file") or n.endswith("encode_chk") or n.endswith("decode_chk") or n.endswith("decode_chk_file") or n.endswith("encode_chk_to_bytes"):
                short = n.split(".")[-1]
            elif n.endswith("save_chk_to_mpq") or n.endswith("read_chk_from_mpq") or n.endswith("extract_all_audio_files_metadata") or n.endswith("find_all_files_matching_pattern"):
                short = n.split(".")[-1]
            elif n in ("wave.open", "OggVorbis"):
                short = n
            if short:
                self.ev.append("call:" + short)

    def block(self, stmts):
        for st in stmts:
            if isinstance(st, ast.Expr) and isinstance(st.value, ast.Constant):
                continue
            inlined = self.guard_helper(st)
            if inlined is not None:
                self.block(inlined)
                continue
            if isinstance(st, ast.If):
                raises = [s for s in st.body if isinstance(s, ast.Raise)]
                if raises and not st.orelse:
                    exc = ast.unparse(raises[0].exc.func) if isinstance(raises[0].exc, ast.Call) else ast.unparse(raises[0].exc)
                    self.ev.append("guard:%s:%s" % (exc, ast.unparse(st.test)))
                    continue
                self.ev.append("if:" + ast.unparse(st.test))
                self.block(st.body)
                if st.orelse:
                    self.ev.append("else")
                    self.block(st.orelse)
                self.ev.append("endif")
            elif isinstance(st, ast.With):
                for it in st.items:
                    n = ast.unparse(it.context_expr.func) if isinstance(it.context_expr, ast.Call) else ast.unparse(it.context_expr)
                    if n == "open":
                        self.ev.append("with:open:" + ast.unparse(it.context_expr.args[1]) if len(it.context_expr.args) > 1 else "with:open")
                    else:
                        self.ev.append("with:" + n)
                self.block(st.body)
                self.ev.append("endwith")
            elif isinstance(st, ast.Try):
                self.ev.append("try")
                self.block(st.body)
                for h in st.handlers:
                    self.ev.append("except:" + (ast.unparse(h.type) if h.type else ""))
                    self.block(h.body)
                if st.finalbody:
                    self.ev.append("finally")
                    self.block(st.finalbody)
                self.ev.append("endtry")
            elif isinstance(st, ast.For):
                self.ev.append("for:" + ast.unparse(st.iter))
                self.block(st.body)
                self.ev.append("endfor")
            elif isinstance(st, ast.Return):
                if st.value is not None:
                    self.expr_calls(st.value)
                self.ev.append("return")
            elif isinstance(st, ast.Raise):
                self.ev.append("raise")
            elif isinstance(st, ast.Assert):
                self.ev.append("assert:" + ast.unparse(st.test))
            else:
                self.expr_calls(st)


def generate(gen_dir, build_dir, write_if_changed):
    gaps, apis = [], {}
    for label, modname, clsname, fname, flag in APIS:
        try:
            mod = load_module(modname)
            cls = mod.classes[clsname]
            r = find_method(mod, cls, fname)
            if not r:
                raise TranslatorGap(f"{clsname}.{fname} not found")
            fn = r[2]
            default = None
            if flag:
                args = fn.args.args
                defaults = fn.args.defaults
                names = [a.arg for a in args]
                if flag not in names:
                    raise TranslatorGap(f"{fname}: no parameter {flag}")
                i = names.index(flag) - (len(names) - len(defaults))
                if i < 0:
                    raise TranslatorGap(f"{fname}: {flag} has no default")
                default = ast.literal_eval(defaults[i])
            s = Seq(mod, cls)
            s.block(fn.body)
            apis[label] = {"flag": flag, "default": default, "events": s.ev}
        except TranslatorGap as e:
            gaps.append((label, str(e)))
        except Exception as e:  # noqa: BLE001
            gaps.append((label, f"reader error {type(e).__name__}: {e}"))

    def ls(s):
        return '"' + s.replace("\\", "\\\\").replace('"', '\\"') + '"'

    L = ["/- GENERATED by /verif/translator/tr_fileapis.py on every run.  Do not edit. -/", "namespace Richchk.Generated", "", f"def fileApiGaps : Nat := {len(gaps)}"]
    for g in gaps:
        L.append(f"-- TranslatorGap {g[0]}: {g[1]}")
    L.append("/-- (entry point, does it overwrite by default) -/")
    L.append("def overwriteDefaults : List (String × Bool) := [" + ", ".join(f"({ls(k)}, {'true' if v['default'] else 'false'})" for k, v in apis.items() if v["flag"]) + "]")
    for k, v in apis.items():
        L.append(f"def {k}Events : List String := [")
        L.append(",\n".join("  " + ls(e) for e in v["events"]))
        L.append("]")
    L.append("")
    L.append("end Richchk.Generated")
    write_if_changed(os.path.join(gen_dir, "FileApis.lean"), "\n".join(L) + "\n")
    with open(os.path.join(build_dir, "fileapis.json"), "w") as f:
        json.dump({"apis": apis, "gaps": gaps}, f, indent=1)
    return gaps, {"entry_points": len(apis), "gaps": len(gaps)}
