/- prints the hand-transcribed specification tables as JSON (independent of anything generated) -/
import RichchkModel.Model.Dump
import RichchkModel.Spec.Layouts
open Richchk

def jsonStr (s : String) : String := "\"" ++ s ++ "\""
def jsonRecFields (fs : List RecField) : String :=
  "[" ++ ",".intercalate (fs.map fun f => "[" ++ jsonStr f.name ++ "," ++ toString f.width ++ "]") ++ "]"
def jsonArrFields (fs : List ArrField) : String :=
  "[" ++ ",".intercalate (fs.map fun f => "[" ++ jsonStr f.name ++ "," ++ toString f.width ++ "," ++ toString f.count ++ "]") ++ "]"
def jsonLayout : SecLayout → String
  | .arrays fs => "{\"kind\":\"arrays\",\"fields\":" ++ jsonArrFields fs ++ "}"
  | .recsEof fs => "{\"kind\":\"recsEof\",\"fields\":" ++ jsonRecFields fs ++ "}"
  | .recsN n fs => "{\"kind\":\"recsN\",\"n\":" ++ toString n ++ ",\"fields\":" ++ jsonRecFields fs ++ "}"
  | .trig cf af nc na ew np pw cw ts => "{\"kind\":\"trig\",\"cf\":" ++ jsonRecFields cf ++ ",\"af\":" ++ jsonRecFields af ++
      ",\"nc\":" ++ toString nc ++ ",\"na\":" ++ toString na ++ ",\"ew\":" ++ toString ew ++ ",\"np\":" ++ toString np ++
      ",\"pw\":" ++ toString pw ++ ",\"cw\":" ++ toString cw ++ ",\"trigSize\":" ++ toString ts ++ "}"
  | .str w => "{\"kind\":\"str\",\"w\":" ++ toString w ++ "}"
def jsonTable (t : SecTable) : String :=
  "[" ++ ",".intercalate (t.map fun (n, L) => "{\"name\":" ++ jsonStr (hexOfBytes n) ++ ",\"layout\":" ++ jsonLayout L ++ "}") ++ "]"

def main : IO Unit := IO.println ("{\"layouts\":" ++ jsonTable Spec.specTable ++ "}")
