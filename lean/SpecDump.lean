/- prints the hand-transcribed specification tables as JSON (independent of anything generated) -/
import RichchkModel.Model.Dump
import RichchkModel.Spec.Layouts
import RichchkModel.Spec.TrigArgs
import RichchkModel.Spec.Flags
import RichchkModel.Spec.Consts
open Richchk

def jsonStr (s : String) : String := "\"" ++ s ++ "\""
def jsonRecFields (fs : List RecField) : String :=
  "[" ++ ",".intercalate (fs.map fun f => "[" ++ jsonStr f.name ++ "," ++ toString f.width ++ "]") ++ "]"
def jsonArrFields (fs : List ArrField) : String :=
  "[" ++ ",".intercalate (fs.map fun f => "[" ++ jsonStr f.name ++ "," ++ toString f.width ++ "," ++ toString f.count ++ "]") ++ "]"
def jsonLayout : SecLayout → String
  | .arrays fs => "{\"kind\":\"arrays\",\"fields\":" ++ jsonArrFields fs ++ "}"
  | .recsEof fs => "{\"kind\":\"recsEof\",\"fields\":" ++ jsonRecFields fs ++ "}"
  | .recsN n fs => "{\"kind\":\"recsN\",\"n\":" ++ toString n ++ ",\"fields\":" ++ jsonRecFields fs ++ "}"
  | .trig cf af nc na ew np pw cw ts => "{\"kind\":\"trig\",\"cf\":" ++ jsonRecFields cf ++ ",\"af\":" ++ jsonRecFields af ++
      ",\"nc\":" ++ toString nc ++ ",\"na\":" ++ toString na ++ ",\"ew\":" ++ toString ew ++ ",\"np\":" ++ toString np ++
      ",\"pw\":" ++ toString pw ++ ",\"cw\":" ++ toString cw ++ ",\"trigSize\":" ++ toString ts ++ "}"
  | .str w => "{\"kind\":\"str\",\"w\":" ++ toString w ++ "}"
def jsonTable (t : SecTable) : String :=
  "[" ++ ",".intercalate (t.map fun (n, L) => "{\"name\":" ++ jsonStr (hexOfBytes n) ++ ",\"layout\":" ++ jsonLayout L ++ "}") ++ "]"

def jsonStrList (l : List String) : String := "[" ++ ",".intercalate (l.map jsonStr) ++ "]"
def jsonSpecRows (rs : List SpecRow) : String :=
  "[" ++ ",".intercalate (rs.map fun r => "{\"id\":" ++ toString r.id ++ ",\"member\":" ++ jsonStr r.member ++ ",\"args\":[" ++
    ",".intercalate (r.args.map fun a => "[" ++ jsonStr a.1 ++ "," ++ jsonStr a.2 ++ "]") ++ "]}") ++ "]"
def jsonFlags : String :=
  "[" ++ ",".intercalate (Spec.flagBits.map fun p => "{\"name\":" ++ jsonStr p.1 ++ ",\"bits\":" ++ jsonStrList p.2 ++
    ",\"inverted\":" ++ (if Spec.invertedFlags.contains p.1 then "true" else "false") ++ "}") ++ "]"

def jsonCfg (c : AllocCfg) : String :=
  "{\"lo\":" ++ toString c.lo ++ ",\"hi\":" ++ toString c.hi ++ ",\"reserved\":" ++
    (match c.reserved with | some r => toString r | none => "null") ++ ",\"raise\":" ++
    (if c.raiseWhenFull then "true" else "false") ++ "}"

def main : IO Unit := IO.println ("{\"layouts\":" ++ jsonTable Spec.specTable ++
  ",\"actions\":" ++ jsonSpecRows Spec.actions ++ ",\"conditions\":" ++ jsonSpecRows Spec.conditions ++
  ",\"actionFields\":" ++ jsonStrList Spec.actionFields ++ ",\"conditionFields\":" ++ jsonStrList Spec.conditionFields ++
  ",\"flags\":" ++ jsonFlags ++
  ",\"slots\":{\"mrgn\":" ++ jsonCfg Spec.locationSlots ++ ",\"uprp\":" ++ jsonCfg Spec.cuwpSlots ++
  ",\"wav\":" ++ jsonCfg Spec.wavSlots ++ ",\"swnm\":" ++ jsonCfg Spec.switchSlots ++ "}}")
