import RichchkModel.Props.C09
namespace Richchk.Props.C09
open Richchk

/-- **a switch that has a number is written as that number**: with the id list the switch rebuild returned as the
encode context, a reference to a switch carrying number `i` is written as `i` or not at all (`KeyError`) — never as
another number, whatever names the table holds, whatever other switches the save places, with or without a stored
switch-name section, in every iteration order.  (`huid`: object identities are not shared by switches that differ in
their number.) -/
theorem c09_numbered_switch_written_as_its_number {cfg : RichCfg} {secs : List RSection} {order : Option (List Nat)}
    {tbl : List RSwitch} {ids : List (RSwitch × Nat)}
    (h : rebuildSwnm cfg secs order = .ok (tbl, ids))
    (ctx : EncCtx) (hctx : ctx.switchIds = ids) (s : RSwitch) (i : Nat) (hs : s.idx = some i)
    (huid : ∀ p ∈ ids, p.1.uid = s.uid → p.1.idx = s.idx)
    (j : Nat) (hj : switchId ctx s = some j) : j = i := by
  unfold switchId at hj
  rw [hctx] at hj
  cases hf : ids.find? (fun p => RSwitch.same p.1 s) with
  | none => simp [hf] at hj
  | some p =>
    simp only [hf, Option.map_some, Option.some.injEq] at hj
    have hp : p ∈ ids := List.mem_of_find?_eq_some hf
    have hsame : RSwitch.same p.1 s = true := by simpa using List.find?_some hf
    have hpi : p.1.idx = some i := by
      unfold RSwitch.same at hsame
      split at hsame
      · rw [huid p hp (by simpa using hsame), hs]
      · simp only [Bool.and_eq_true, beq_iff_eq] at hsame
        rw [hsame.2, hs]
    rw [← hj]
    exact (c09_new_switch_numbers_fresh h).2.1 p hp i hpi

end Richchk.Props.C09
#print axioms Richchk.Props.C09.c09_numbered_switch_written_as_its_number
