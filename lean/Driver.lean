/-
Line-protocol driver: runs the model's executable definitions.  One operation per input
line, one result line per operation.  Core Lean only (compiled as a lean_exe).
-/
import RichchkModel.Model.Dump
import RichchkModel.Generated.Layouts
import RichchkModel.Spec.Layouts
import RichchkModel.Generated.Codecs
import RichchkModel.Generated.TrigTable
import RichchkModel.Model.StrEdit
import RichchkModel.Model.Editors
import RichchkModel.Generated.Consts
import RichchkModel.Generated.Imports
import RichchkModel.Model.FileOps
import RichchkModel.Model.RichEdit
import RichchkModel.GenCfg
import RichchkModel.Model.RichEnc
open Richchk

def showR {α} (f : α → String) : R α → String
  | .ok a => "OK " ++ f a
  | .error e => "ERR " ++ toString e

def opDec (hex : String) : String :=
  match bytesOfHex hex with
  | none => "bad-op"
  | some bs => showR dumpChk (decodeChk Generated.decTable bs)

def opRt (hex : String) : String :=
  match bytesOfHex hex with
  | none => "bad-op"
  | some bs =>
    match decodeChk Generated.decTable bs with
    | .error e => "DERR " ++ toString e
    | .ok secs =>
      match encodeChk Generated.encTable secs with
      | .error e => "EERR " ++ toString e
      | .ok out =>
        -- C19: the written bytes must decode to the same model
        match decodeChk Generated.decTable out with
        | .error e => "OK " ++ hexOfBytes out ++ " REDEC-ERR " ++ toString e
        | .ok secs2 => "OK " ++ hexOfBytes out ++ (if secs2 = secs then " STABLE" else " UNSTABLE")

def opSec (nameHex hex : String) : String :=
  match bytesOfHex nameHex, bytesOfHex hex with
  | some n, some p =>
    match Generated.decTable.find? n with
    | none => "bad-op"
    | some L => showR dumpVal (decodeSection L p)
  | _, _ => "bad-op"

def opSecRt (nameHex hex : String) : String :=
  match bytesOfHex nameHex, bytesOfHex hex with
  | some n, some p =>
    match Generated.decTable.find? n, Generated.encTable.find? n with
    | some L, some L' =>
      match decodeSection L p with
      | .error e => "DERR " ++ toString e
      | .ok v => showR hexOfBytes (encodeSection L' v)
    | _, _ => "bad-op"
  | _, _ => "bad-op"

def jsonStr (s : String) : String := "\"" ++ s ++ "\""
def jsonRecFields (fs : List RecField) : String :=
  "[" ++ ",".intercalate (fs.map fun f => "[" ++ jsonStr f.name ++ "," ++ toString f.width ++ "]") ++ "]"
def jsonArrFields (fs : List ArrField) : String :=
  "[" ++ ",".intercalate (fs.map fun f => "[" ++ jsonStr f.name ++ "," ++ toString f.width ++ "," ++ toString f.count ++ "]") ++ "]"
def jsonLayout : SecLayout → String
  | .arrays fs => "{\"kind\":\"arrays\",\"fields\":" ++ jsonArrFields fs ++ "}"
  | .recsEof fs => "{\"kind\":\"recsEof\",\"fields\":" ++ jsonRecFields fs ++ "}"
  | .recsN n fs => "{\"kind\":\"recsN\",\"n\":" ++ toString n ++ ",\"fields\":" ++ jsonRecFields fs ++ "}"
  | .trig cf af nc na ew np pw cw ts => "{\"kind\":\"trig\",\"cf\":" ++ jsonRecFields cf ++ ",\"af\":" ++ jsonRecFields af ++
      ",\"nc\":" ++ toString nc ++ ",\"na\":" ++ toString na ++ ",\"ew\":" ++ toString ew ++ ",\"np\":" ++ toString np ++
      ",\"pw\":" ++ toString pw ++ ",\"cw\":" ++ toString cw ++ ",\"trigSize\":" ++ toString ts ++ "}"
  | .str w => "{\"kind\":\"str\",\"w\":" ++ toString w ++ "}"
def jsonTable (t : SecTable) : String :=
  "[" ++ ",".intercalate (t.map fun (n, L) => "{\"name\":" ++ jsonStr (hexOfBytes n) ++ ",\"layout\":" ++ jsonLayout L ++ "}") ++ "]"

def boolStr (bs : List Bool) : String := String.ofList (bs.map fun b => if b then '1' else '0')

def opFlags (name nStr : String) : String :=
  match Generated.flagCodecs.lookup name, nStr.toNat? with
  | some c, some n =>
    let d := c.decode n
    boolStr d ++ " " ++ toString (c.encode d)
  | _, _ => "bad-op"

def opFlagsEnc (name bits : String) : String :=
  match Generated.flagCodecs.lookup name with
  | some c =>
    let vals := bits.toList.map (· == '1')
    if vals.length ≠ c.fields.length then "bad-op" else
    let n := c.encode vals
    toString n ++ " " ++ boolStr (c.decode n)
  | none => "bad-op"

def opEnum (name nStr : String) : String :=
  match Generated.enums.lookup name, nStr.toNat? with
  | some e, some n =>
    match decodeEnum e n with
    | .ok m => "OK " ++ m.member ++ " " ++ toString (encodeEnum m)
    | .error err => "ERR " ++ toString err
  | _, _ => "bad-op"

def opAi (vStr : String) : String :=
  match vStr.toNat? with
  | some v =>
    match decodeAi (Generated.knownAiScripts.map (·.2)) v with
    | .error e => "ERR " ++ toString e
    | .ok (k, name) =>
      let member := if k then ((Generated.knownAiScripts.find? (·.2 == name)).map (·.1)).getD "?" else "UNKNOWN"
      "OK " ++ member ++ " " ++ hexOfBytes name ++ " " ++ showR toString (encodeAi name)
  | none => "bad-op"

def opHp (rawStr : String) : String :=
  match rawStr.toNat? with
  | some raw =>
    let h : Hp := ⟨raw, Generated.hpDecodeDivisor⟩
    toString h.num ++ "/" ++ toString h.den ++ " " ++ toString (h.num * Generated.hpEncodeMultiplier / h.den)
  | none => "bad-op"

def opHpEnc (numStr denStr : String) : String :=
  match numStr.toNat?, denStr.toNat? with
  | some num, some den => if den = 0 then "bad-op" else toString (num * Generated.hpEncodeMultiplier / den)
  | _, _ => "bad-op"

def parseNatList (s : String) : Option (List Nat) :=
  if s = "=" then some [] else (s.splitOn ",").mapM (·.toNat?)
def parseHexList (s : String) : Option (List Bytes) :=
  if s = "=" then some [] else (s.splitOn ",").mapM bytesOfHex

def dumpTable (t : StrTable) : String :=
  toString t.w ++ " " ++ toString t.n ++ " " ++ natList t.offs ++ " [" ++ ",".intercalate (t.strs.map hexOfBytes) ++ "]"

def dumpIds (t : StrTable) : String :=
  "{" ++ ",".intercalate ((List.range t.offs.length).map fun i =>
    match resolveId t (i + 1) with
    | some b => hexOfBytes b
    | none => "!") ++ "}"

/-- addstr w n offs strs req : table after adding, and every id resolved independently -/
def opAddStr (w n offs strs req : String) : String :=
  match w.toNat?, n.toNat?, parseNatList offs, parseHexList strs, parseHexList req with
  | some w, some n, some offs, some strs, some req =>
    match addStrings req ⟨w, n, offs, strs⟩ with
    | .error e => "ERR " ++ toString e
    | .ok t' => "OK " ++ dumpTable t' ++ " " ++ dumpIds t'
  | _, _, _, _, _ => "bad-op"

def opToStrx (n offs strs : String) : String :=
  match n.toNat?, parseNatList offs, parseHexList strs with
  | some n, some offs, some strs =>
    let t' := toStrx ⟨2, n, offs, strs⟩
    "OK " ++ dumpTable t' ++ " " ++ dumpIds t'
  | _, _, _ => "bad-op"

def parseEntries (s : String) : Option (List Entry) :=
  if s = "=" then some [] else (s.splitOn ",").mapM fun e =>
    match e.splitOn ":" with
    | [a, b] => do let x ← a.toNat?; let y ← b.toNat?; pure (x, y)
    | _ => none
def parseItems (s : String) : Option (List Item) :=
  if s = "=" then some [] else (s.splitOn ",").mapM fun e =>
    match e.splitOn ":" with
    | [a, b] => do
      let y ← b.toNat?
      if a = "-" then pure (none, y) else do let x ← a.toNat?; pure (some x, y)
    | _ => none
def dumpEntries (es : List Entry) : String :=
  "[" ++ ",".intercalate (es.map fun e => toString e.1 ++ ":" ++ toString e.2) ++ "]"

/-- alloc <mrgn|uprp|wav|swnm> <table> <batch> -/
def opAlloc (kind table batch : String) : String :=
  match kind, parseEntries table, parseItems batch with
  | "mrgn", some t, some b => showR dumpEntries (mrgnAdd Generated.mrgnCfg t b)
  | "uprp", some t, some b => showR dumpEntries (uprpAdd Generated.uprpCfg t b)
  | "wav", some t, some b => showR dumpEntries (wavAdd Generated.wavCfg t (b.map (·.2)))
  | "swnm", some _, some b => showR dumpEntries (swnmRebuild Generated.swnmCfg b)
  | _, _, _ => "bad-op"

def opImport1 (idxStr : String) : String :=
  match idxStr.toNat? with
  | some e =>
    match importFirst Generated.moduleGraph 40000 e with
    | .error err => "ERR " ++ toString err
    | .ok st => "OK " ++ " ".intercalate ((List.range 4).map fun r =>
        let f := Generated.factoryModules.getD r 0
        (if st.loaded.testBit f then "L" else "-") ++ natList (sortNats (registryKeys st r)))
  | none => "bad-op"

def opCycle (hex : String) : String :=
  match bytesOfHex hex with
  | none => "bad-op"
  | some bs =>
    match cycle richCfg Generated.encTable bs with
    | .error e => "ERR " ++ toString e
    | .ok out =>
      -- second cycle (idempotence)
      match cycle richCfg Generated.encTable out with
      | .error e => "OK " ++ hexOfBytes out ++ " CYCLE2-ERR " ++ toString e
      | .ok out2 => "OK " ++ hexOfBytes out ++ (if out2 = out then " IDEMPOTENT" else " CHANGES-AGAIN")


/-! ### `edit` op: token parser for edit histories (harness glue, not used in proofs) -/
namespace EditParse
abbrev P (α : Type) := List String → Option (α × List String)

def pNat : P Nat
  | t :: r => t.toNat?.map (·, r)
  | [] => none
def pOptNat : P (Option Nat)
  | "-" :: r => some (none, r)
  | t :: r => t.toNat?.map fun n => (some n, r)
  | [] => none
def pHex : P Bytes
  | t :: r => (bytesOfHex t).map (·, r)
  | [] => none
def pBits : P (List Bool)
  | t :: r => some (if t = "-" then [] else t.toList.map (· == '1'), r)
  | [] => none
def pBool : P Bool
  | "1" :: r => some (true, r)
  | "0" :: r => some (false, r)
  | _ => none
def pTok : P String
  | t :: r => some (t, r)
  | [] => none
def pRStr : P RStr
  | "null" :: r => some (.null, r)
  | "t" :: h :: r => (bytesOfHex h).map fun b => (.text b, r)
  | _ => none

def pMany {α} (p : P α) : Nat → P (List α)
  | 0, ts => some ([], ts)
  | n+1, ts => match p ts with
    | none => none
    | some (x, r) => match pMany p n r with
      | none => none
      | some (xs, r') => some (x :: xs, r')

def pCounted {α} (p : P α) : P (List α) := fun ts =>
  match pNat ts with
  | none => none
  | some (n, r) => pMany p n r

def pLoc : P RLoc := fun ts => do
  let (x1, r) ← pNat ts; let (y1, r) ← pNat r; let (x2, r) ← pNat r; let (y2, r) ← pNat r
  let (nm, r) ← pRStr r; let (idx, r) ← pOptNat r; let (el, r) ← pBits r; let (uid, r) ← pNat r
  pure (⟨x1, y1, x2, y2, nm, idx, el, uid⟩, r)

def pSwitch : P RSwitch := fun ts => do
  let (nm, r) ← pRStr ts; let (idx, r) ← pOptNat r; let (uid, r) ← pNat r
  pure (⟨nm, idx, uid⟩, r)

def pCuwp : P RCuwp := fun ts => do
  let (hp, r) ← pNat ts; let (sp, r) ← pNat r; let (ep, r) ← pNat r; let (res, r) ← pNat r; let (hg, r) ← pNat r
  let (fl, r) ← pBits r; let (vs, r) ← pBits r; let (vu, r) ← pBits r; let (unk, r) ← pBool r
  let (pad, r) ← pNat r; let (idx, r) ← pOptNat r
  pure (⟨hp, sp, ep, res, hg, fl, vs, vu, unk, pad, idx⟩, r)

def pVal : P RVal
  | "num" :: r => (pNat r).map fun (n, r) => (.num n, r)
  | "enum" :: r => (pNat r).map fun (n, r) => (.enumv n, r)
  | "loc" :: r => (pLoc r).map fun (l, r) => (.loc l, r)
  | "str" :: r => (pRStr r).map fun (s, r) => (.str s, r)
  | "text" :: r => (pHex r).map fun (b, r) => (.text b, r)
  | "sw" :: r => (pSwitch r).map fun (s, r) => (.sw s, r)
  | "cuwp" :: r => (pCuwp r).map fun (c, r) => (.cuwp c, r)
  | "ai" :: r => (pHex r).map fun (b, r) => (.ai b, r)
  | "optnum" :: r => (pOptNat r).map fun (n, r) => (.optNum n, r)
  | _ => none

def pArg : P (String × RVal) := fun ts => do
  let (nm, r) ← pTok ts; let (v, r) ← pVal r
  pure ((nm, v), r)

def pEntry : P REntry
  | "raw" :: r => (pCounted pNat r).map fun (vs, r) => (.raw vs, r)
  | "rich" :: r => do
    let (id, r) ← pNat r; let (args, r) ← pCounted pArg r; let (fl, r) ← pBits r
    pure (.rich id args fl, r)
  | _ => none

def pTrigger : P RTrigger
  | "trig" :: r => do
    let (ps, r) ← pCounted pNat r; let (cs, r) ← pCounted pEntry r; let (as, r) ← pCounted pEntry r
    pure (⟨cs, as, ps⟩, r)
  | _ => none

def pWeapon : P (Nat × Nat × Nat) := fun ts => do
  let (w, r) ← pNat ts; let (b, r) ← pNat r; let (u, r) ← pNat r
  pure ((w, b, u), r)

def pUnit : P RUnit := fun ts => do
  let (id, r) ← pNat ts; let (hn, r) ← pNat r; let (hd, r) ← pNat r; let (sh, r) ← pNat r; let (ar, r) ← pNat r
  let (bt, r) ← pNat r; let (mi, r) ← pNat r; let (ga, r) ← pNat r; let (nm, r) ← pRStr r
  let (ws, r) ← pCounted pWeapon r; let (ud, r) ← pBool r
  pure (⟨id, ⟨hn, hd⟩, sh, ar, bt, mi, ga, nm, ws, ud⟩, r)

def pEdit : P Edit
  | "addtrigs" :: r => (pCounted pTrigger r).map fun (ts, r) => (.addTriggers ts, r)
  | "upsert" :: r => (pUnit r).map fun (u, r) => (.upsertUnit u, r)
  | "addwavs" :: r => (pCounted pHex r).map fun (ps, r) => (.addWavs ps, r)
  | "setuprp" :: r => (pCounted pCuwp r).map fun (cs, r) => (.replaceUprp cs, r)
  | "setmrgn" :: r => (pCounted pLoc r).map fun (ls, r) => (.replaceMrgn ls, r)
  | "reload" :: r => some (.reload, r)
  | _ => none

partial def pEdits (ts : List String) (acc : List Edit) : Option (List Edit) :=
  match ts with
  | [] => some acc.reverse
  | _ => match pEdit ts with
    | none => none
    | some (e, r) => pEdits r (e :: acc)
end EditParse

def opEdit (hex : String) (toks : List String) : String :=
  match bytesOfHex hex, EditParse.pEdits toks [] with
  | some bs, some edits =>
    match editRun richCfg Generated.encTable bs edits with
    | .error e => "ERR " ++ toString e
    | .ok out => "OK " ++ hexOfBytes out
  | _, _ => "bad-op"

def opTrigRow (kind idStr : String) : String :=
  match idStr.toNat? with
  | some n =>
    let tbl := if kind = "a" then Generated.actionTable else Generated.conditionTable
    match tbl.find? (·.id = n) with
    | some r => "OK " ++ r.member ++ " D[" ++ ",".intercalate (r.decode.map fun d => d.arg ++ "<" ++ d.codec ++ "@" ++ d.field) ++
        "] E[" ++ ",".intercalate (r.encode.filterMap fun e => if e.codec = "zero" then none else some (e.field ++ "<" ++ e.codec ++ ":" ++ e.arg)) ++ "]"
    | none => "NONE"
  | none => "bad-op"

def step (line : String) : String :=
  match line.trimAscii.toString.splitOn " " with
  | ["dec", h] => opDec h
  | ["rt", h] => opRt h
  | ["sec", n, h] => opSec n h
  | ["secrt", n, h] => opSecRt n h
  | ["spec-layouts"] => jsonTable Spec.specTable
  | ["flags", nm, n] => opFlags nm n
  | ["trigrow", k, n] => opTrigRow k n
  | ["cycle", h] => opCycle h
  | "edit" :: h :: toks => opEdit h toks
  | ["import1", e] => opImport1 e
  | ["wavms", f, r] => (match f.toNat?, r.toNat? with | some f, some r => (if r = 0 then "ERR other" else toString (wavDurationMs f r)) | _, _ => "bad-op")
  | ["alloc", k, t, b] => opAlloc k t b
  | ["addstr", w, n, o, st, rq] => opAddStr w n o st rq
  | ["tostrx", n, o, st] => opToStrx n o st
  | ["trigids", k] => toString ((if k = "a" then Generated.actionTable else Generated.conditionTable).map (·.id))
  | ["flagsenc", nm, b] => opFlagsEnc nm b
  | ["enum", nm, n] => opEnum nm n
  | ["ai", v] => opAi v
  | ["hp", r] => opHp r
  | ["hpenc", a, b] => opHpEnc a b
  | ["gen-layouts"] => jsonTable Generated.decTable
  | _ => "bad-op"

partial def loop (h : IO.FS.Stream) (out : IO.FS.Stream) : IO Unit := do
  let line ← h.getLine
  if line.isEmpty then return ()
  out.putStrLn (step line)
  loop h out

def main : IO Unit := do
  let stdin ← IO.getStdin
  let stdout ← IO.getStdout
  loop stdin stdout
