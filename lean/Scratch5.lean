import RichchkModel.Props.C07
namespace Richchk.Props.C17w
open Richchk

theorem addWavsTo_go_lists (ps : List Bytes) :
    ∀ (free : List Nat) (present : List Bytes) (acc ws' : List RWav),
      addWavsTo.go ps free present acc = .ok ws' →
      (∀ q ∈ present, ∃ w ∈ acc, w.path.value = q) →
      ∀ p ∈ ps, ∃ w ∈ ws', w.path.value = p := by
  induction ps with
  | nil => intro _ _ _ _ _ _ p hp; simp at hp
  | cons p0 ps ih =>
    intro free present acc ws' h hinv p hp
    have hpre := Props.C07.addWavsTo_go_prefix _ _ _ _ _ h
    simp only [addWavsTo.go] at h
    split at h
    · rename_i hc
      rcases List.mem_cons.mp hp with e | e
      · subst e
        obtain ⟨w, hw, hv⟩ := hinv p (by simpa using hc)
        exact ⟨w, hpre.subset hw, hv⟩
      · exact ih _ _ _ _ h hinv p e
    · split at h
      · cases h
      · rename_i f fs
        have hpre' := Props.C07.addWavsTo_go_prefix _ _ _ _ _ h
        have hinv' : ∀ q ∈ p0 :: present, ∃ w ∈ acc ++ [(⟨.text p0, f⟩ : RWav)], w.path.value = q := by
          intro q hq
          rcases List.mem_cons.mp hq with e | e
          · subst e; exact ⟨⟨.text q, f⟩, by simp, rfl⟩
          · obtain ⟨w, hw, hv⟩ := hinv q e
            exact ⟨w, List.mem_append_left _ hw, hv⟩
        rcases List.mem_cons.mp hp with e | e
        · subst e
          exact ⟨⟨.text p, f⟩, hpre'.subset (by simp), rfl⟩
        · exact ih _ _ _ _ h hinv' p e

/-- **every sound of an import batch is listed afterwards**: when `add_wav_files` succeeds, each path of the batch
— new, already listed, or repeated within the batch, in whatever order they come — is the path of some entry of the
resulting sound table (and by `c07_add_wavs_keeps_existing` everything listed before is still there, in its slot).
For every table, every batch. -/
theorem c17_every_imported_path_is_listed {slots : Nat} {ws ws' : List RWav} {paths : List Bytes}
    (h : addWavsTo slots ws paths = .ok ws') : ∀ p ∈ paths, ∃ w ∈ ws', w.path.value = p := by
  refine addWavsTo_go_lists paths _ _ _ _ h ?_
  intro q hq
  obtain ⟨w, hw, hv⟩ := List.mem_map.mp hq
  exact ⟨w, hw, hv⟩

/-- non-vacuity, and the shape of the seeded change this guards against: a batch whose first path is already listed -/
example : addWavsTo 4 [⟨.text [1], 0⟩] [[1], [2], [2], [3]] = .ok [⟨.text [1], 0⟩, ⟨.text [2], 1⟩, ⟨.text [3], 2⟩] := by decide

end Richchk.Props.C17w
#print axioms Richchk.Props.C17w.c17_every_imported_path_is_listed
