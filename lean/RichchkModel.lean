import RichchkModel.Basic.LE
