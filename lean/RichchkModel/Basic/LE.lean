/-
Little-endian integers over byte lists.  Core Lean only.
`struct.pack("I"/"H"/"B", n)` on a little-endian host = `leBytes 4/2/1 n` when `n < 256^w`
(else `struct.error`); `struct.unpack` of exactly `w` bytes = `leVal`.
-/
namespace Richchk

abbrev Bytes := List UInt8

/-- value of a little-endian byte string -/
def leVal : Bytes → Nat
  | [] => 0
  | b :: bs => b.toNat + 256 * leVal bs

/-- `w` little-endian bytes of `n` (wraps modulo `256^w`; callers guard the range) -/
def leBytes : Nat → Nat → Bytes
  | 0, _ => []
  | w+1, n => UInt8.ofNat (n % 256) :: leBytes w (n / 256)

@[simp] theorem leBytes_length (w n : Nat) : (leBytes w n).length = w := by
  induction w generalizing n with
  | zero => rfl
  | succ w ih => simp [leBytes, ih]

theorem toNat_ofNat_mod (n : Nat) : (UInt8.ofNat (n % 256)).toNat = n % 256 := by
  simp [UInt8.toNat_ofNat']

theorem leVal_leBytes (w n : Nat) (h : n < 256 ^ w) : leVal (leBytes w n) = n := by
  induction w generalizing n with
  | zero => simp [leBytes, leVal]; simp at h; omega
  | succ w ih =>
    have h2 : n / 256 < 256 ^ w := by
      rw [Nat.pow_succ] at h
      exact Nat.div_lt_of_lt_mul (by rw [Nat.mul_comm]; exact h)
    simp only [leBytes, leVal, toNat_ofNat_mod, ih _ h2]
    omega

theorem leVal_lt (bs : Bytes) : leVal bs < 256 ^ bs.length := by
  induction bs with
  | nil => simp [leVal]
  | cons b bs ih =>
    simp only [leVal, List.length_cons, Nat.pow_succ]
    have := b.toNat_lt
    omega

theorem leBytes_leVal (bs : Bytes) : leBytes bs.length (leVal bs) = bs := by
  induction bs with
  | nil => rfl
  | cons b bs ih =>
    have hb := b.toNat_lt
    simp only [List.length_cons, leBytes, leVal]
    have h1 : (b.toNat + 256 * leVal bs) % 256 = b.toNat := by omega
    have h2 : (b.toNat + 256 * leVal bs) / 256 = leVal bs := by omega
    rw [h1, h2, ih]
    simp

/-- injectivity of `leBytes` on the representable range -/
theorem leBytes_inj (w a b : Nat) (ha : a < 256 ^ w) (hb : b < 256 ^ w)
    (h : leBytes w a = leBytes w b) : a = b := by
  have := congrArg leVal h
  rwa [leVal_leBytes _ _ ha, leVal_leBytes _ _ hb] at this

end Richchk
