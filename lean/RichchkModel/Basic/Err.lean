/-
Exceptions are values.  The harness maps Python exception classes onto this enum
(struct.error→struct, UnicodeError→unicode, ValueError→value, KeyError→key,
AssertionError→assert, IndexError→index, FileExistsError→exists,
FileNotFoundError→notfound, NotImplementedError→notimpl, TypeError/AttributeError→type).
-/
namespace Richchk

inductive Err
  | struct | unicode | value | key | assert | index | exists | notfound | notimpl | type | other
  deriving DecidableEq, Repr, Inhabited

def Err.toString : Err → String
  | .struct => "struct" | .unicode => "unicode" | .value => "value" | .key => "key"
  | .assert => "assert" | .index => "index" | .exists => "exists" | .notfound => "notfound"
  | .notimpl => "notimpl" | .type => "type" | .other => "other"

instance : ToString Err := ⟨Err.toString⟩

abbrev R := Except Err

deriving instance DecidableEq for Except

end Richchk
