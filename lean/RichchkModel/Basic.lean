def hello := "world"
