import RichchkModel.Model.Alloc
namespace Richchk

/-- invariant of the allocator state relative to the original occupancy `occ0` -/
structure AllocInv (cfg : AllocCfg) (occ0 : List Nat) (st : AllocSt) : Prop where
  nodup : st.free.Nodup
  freeOk : ∀ f ∈ st.free, f ∉ st.occ ∧ cfg.lo ≤ f ∧ f ≤ cfg.hi ∧ cfg.reserved ≠ some f
  mono : ∀ i ∈ occ0, i ∈ st.occ

theorem freeIds_inv (cfg : AllocCfg) (occ : List Nat) : AllocInv cfg occ ⟨occ, freeIds cfg occ⟩ := by
  refine ⟨?_, ?_, fun i hi => hi⟩
  · exact List.Nodup.sublist List.filter_sublist List.nodup_range
  · intro f hf
    simp only [freeIds, List.mem_filter, List.mem_range, decide_eq_true_eq] at hf
    exact ⟨hf.2.2.1, hf.2.1, by omega, hf.2.2.2⟩

theorem allocStep_inv {cfg : AllocCfg} {occ0 : List Nat} {st st' : AllocSt} {r : Req} {res : Res}
    (hinv : AllocInv cfg occ0 st) (h : allocStep cfg st r = .ok (res, st')) :
    AllocInv cfg occ0 st' ∧
    (∀ i, res = .placed i → i ∉ st.occ ∧ cfg.lo ≤ i ∧ i ≤ cfg.hi ∧ i ∈ st'.occ ∧ i ∉ st'.free ∧
      (r = .fresh → cfg.reserved ≠ some i)) ∧
    (∀ i ∈ st.occ, i ∈ st'.occ) := by
  cases r with
  | carry i =>
    simp only [allocStep] at h
    split at h
    · simp at h
    · rename_i hr
      split at h
      · simp at h; obtain ⟨h1, h2⟩ := h; subst h1 h2
        exact ⟨hinv, fun _ hc => (by cases hc), fun _ hi => hi⟩
      · rename_i hocc
        simp at h; obtain ⟨h1, h2⟩ := h; subst h1 h2
        refine ⟨⟨?_, ?_, ?_⟩, ?_, ?_⟩
        · exact hinv.nodup.erase i
        · intro f hf
          have hfm := List.mem_of_mem_erase hf
          have := hinv.freeOk f hfm
          refine ⟨?_, this.2⟩
          simp only [List.mem_cons, not_or]
          refine ⟨?_, this.1⟩
          intro hfi; subst hfi
          exact (List.Nodup.not_mem_erase hinv.nodup) hf
        · intro j hj; simp [hinv.mono j hj]
        · intro j hj; cases hj
          refine ⟨hocc, by omega, by omega, by simp, List.Nodup.not_mem_erase hinv.nodup, ?_⟩
          intro hc; cases hc
        · intro j hj; simp [hj]
  | fresh =>
    simp only [allocStep] at h
    split at h
    · split at h
      · simp at h
      · simp at h; obtain ⟨h1, h2⟩ := h; subst h1 h2
        exact ⟨hinv, fun _ hc => (by cases hc), fun _ hi => hi⟩
    · rename_i f fs hfree
      simp at h; obtain ⟨h1, h2⟩ := h; subst h1 h2
      have hnd := hinv.nodup
      rw [hfree] at hnd
      have hf := hinv.freeOk f (by rw [hfree]; simp)
      refine ⟨⟨?_, ?_, ?_⟩, ?_, ?_⟩
      · exact (List.nodup_cons.mp hnd).2
      · intro g hg
        have := hinv.freeOk g (by rw [hfree]; simp [hg])
        refine ⟨?_, this.2⟩
        simp only [List.mem_cons, not_or]
        refine ⟨?_, this.1⟩
        intro hgf; subst hgf
        exact (List.nodup_cons.mp hnd).1 hg
      · intro j hj; simp [hinv.mono j hj]
      · intro j hj; cases hj
        exact ⟨hf.1, hf.2.1, hf.2.2.1, by simp, (List.nodup_cons.mp hnd).1, fun _ => hf.2.2.2⟩
      · intro j hj; simp [hj]

/-- **Soundness of a whole run.**  Every slot handed out lies in the range, was not occupied
before the call, is different from every other slot handed out in the call, and stays
occupied; a slot given to an object that carried no index is never the reserved one. -/
theorem allocRun_sound {cfg : AllocCfg} {occ0 : List Nat} {st st' : AllocSt} {reqs : List Req}
    {ress : List Res} (hinv : AllocInv cfg occ0 st) (h : allocRun cfg st reqs = .ok (ress, st')) :
    AllocInv cfg occ0 st' ∧
    (placedSlots ress).Nodup ∧
    (∀ i ∈ placedSlots ress, i ∉ st.occ ∧ cfg.lo ≤ i ∧ i ≤ cfg.hi ∧ i ∈ st'.occ) ∧
    (∀ i ∈ st.occ, i ∈ st'.occ) ∧
    ress.length = reqs.length := by
  induction reqs generalizing st ress with
  | nil =>
    simp [allocRun] at h; obtain ⟨h1, h2⟩ := h; subst h1 h2
    exact ⟨hinv, by simp [placedSlots], by simp [placedSlots], fun _ hi => hi, rfl⟩
  | cons r rs ih =>
    simp only [allocRun] at h
    split at h
    · simp at h
    · rename_i res st1 h1
      split at h
      · simp at h
      · rename_i ress' st2 h2
        simp at h; obtain ⟨he1, he2⟩ := h; subst he1 he2
        obtain ⟨hinv1, hpl, hmono1⟩ := allocStep_inv hinv h1
        obtain ⟨hinv2, hnd2, hall2, hmono2, hlen2⟩ := ih hinv1 h2
        refine ⟨hinv2, ?_, ?_, fun i hi => hmono2 i (hmono1 i hi), by simp [hlen2]⟩
        · cases res with
          | skipped => simpa [placedSlots] using hnd2
          | placed i =>
            simp only [placedSlots, List.nodup_cons]
            refine ⟨?_, hnd2⟩
            intro hmem
            exact (hall2 i hmem).1 (hpl i rfl).2.2.2.1
        · intro i hi
          cases res with
          | skipped =>
            simp only [placedSlots] at hi
            have := hall2 i hi
            exact ⟨fun hc => this.1 (hmono1 i hc), this.2.1, this.2.2.1, this.2.2.2⟩
          | placed j =>
            simp only [placedSlots, List.mem_cons] at hi
            rcases hi with rfl | hi
            · have := hpl i rfl
              exact ⟨this.1, this.2.1, this.2.2.1, hmono2 i this.2.2.2.1⟩
            · have := hall2 i hi
              exact ⟨fun hc => this.1 (hmono1 i hc), this.2.1, this.2.2.1, this.2.2.2⟩

/-- fresh requests never receive the reserved slot -/
theorem allocRun_fresh_not_reserved {cfg : AllocCfg} {occ0 : List Nat} {st st' : AllocSt}
    {reqs : List Req} {ress : List Res} (hinv : AllocInv cfg occ0 st)
    (h : allocRun cfg st reqs = .ok (ress, st')) :
    ∀ k (hk : k < reqs.length) (hk' : k < ress.length) i, reqs[k] = .fresh → ress[k] = .placed i →
      cfg.reserved ≠ some i := by
  induction reqs generalizing st ress with
  | nil => intro k hk; simp at hk
  | cons r rs ih =>
    simp only [allocRun] at h
    split at h
    · simp at h
    · rename_i res st1 h1
      split at h
      · simp at h
      · rename_i ress' st2 h2
        simp at h; obtain ⟨he1, he2⟩ := h; subst he1 he2
        obtain ⟨hinv1, hpl, _⟩ := allocStep_inv hinv h1
        intro k hk hk' i hr hres
        cases k with
        | zero =>
          simp at hr hres
          exact (hpl i hres).2.2.2.2.2 hr
        | succ k =>
          simp at hr hres
          exact ih hinv1 h2 k (by simpa using hk) (by simpa using hk') i hr hres

/-- an object that carries an in-range index keeps it, unless that slot is already occupied -/
theorem allocStep_carry {cfg : AllocCfg} {st : AllocSt} {i : Nat}
    (hr : cfg.lo ≤ i ∧ i ≤ cfg.hi) (hocc : i ∉ st.occ) :
    allocStep cfg st (.carry i) = .ok (.placed i, ⟨i :: st.occ, st.free.erase i⟩) := by
  have : ¬ (i < cfg.lo ∨ cfg.hi < i) := by omega
  simp [allocStep, this, hocc]

/-- **a full table never blocks a call that needs no new slot**: with only index-carrying,
in-range requests the run cannot fail -/
theorem allocRun_carries_total (cfg : AllocCfg) (st : AllocSt) (reqs : List Req)
    (h : ∀ r ∈ reqs, ∃ i, r = .carry i ∧ cfg.lo ≤ i ∧ i ≤ cfg.hi) :
    ∃ out, allocRun cfg st reqs = .ok out := by
  induction reqs generalizing st with
  | nil => exact ⟨_, rfl⟩
  | cons r rs ih =>
    obtain ⟨i, hri, hlo, hhi⟩ := h r (by simp)
    subst hri
    have hn : ¬ (i < cfg.lo ∨ cfg.hi < i) := by omega
    by_cases hocc : i ∈ st.occ
    · obtain ⟨out, ho⟩ := ih st (fun r hr => h r (by simp [hr]))
      exact ⟨(.skipped :: out.1, out.2), by simp [allocRun, allocStep, hn, hocc, ho]⟩
    · obtain ⟨out, ho⟩ := ih ⟨i :: st.occ, st.free.erase i⟩ (fun r hr => h r (by simp [hr]))
      exact ⟨(.placed i :: out.1, out.2), by simp [allocRun, allocStep, hn, hocc, ho]⟩

/-- **exhaustion is loud** (raising tables): a fresh request on an empty free list fails -/
theorem allocStep_full_raises {cfg : AllocCfg} {st : AllocSt} (hr : cfg.raiseWhenFull = true)
    (hf : st.free = []) : allocStep cfg st .fresh = .error .value := by
  simp [allocStep, hf, hr]

end Richchk
