/- success of the readers on inputs that are long enough -/
import RichchkModel.Lemmas.TrigLemmas
namespace Richchk

theorem readInt_total {w : Nat} {bs : Bytes} (h : w ≤ bs.length) :
    readInt w bs = .ok (leVal (bs.take w), bs.drop w) := by
  rw [readInt_eq]; simp; omega

theorem readInts_total {w n : Nat} {bs : Bytes} (h : w * n ≤ bs.length) :
    ∃ vs, readInts w n bs = .ok (vs, bs.drop (w * n)) := by
  induction n generalizing bs with
  | zero => exact ⟨[], by simp [readInts]⟩
  | succ n ih =>
    rw [Nat.mul_succ] at h
    have h1 : w ≤ bs.length := by omega
    have h2 : w * n ≤ (bs.drop w).length := by simp; omega
    obtain ⟨vs, hvs⟩ := ih h2
    refine ⟨leVal (bs.take w) :: vs, ?_⟩
    simp only [readInts, readInt_total h1, hvs, List.drop_drop, Nat.mul_succ]
    rw [Nat.add_comm]

theorem readRec_total {ws : List Nat} {bs : Bytes} (h : sumList ws ≤ bs.length) :
    ∃ vs, readRec ws bs = .ok (vs, bs.drop (sumList ws)) := by
  induction ws generalizing bs with
  | nil => exact ⟨[], by simp [readRec, sumList]⟩
  | cons w ws ih =>
    simp only [sumList] at h
    have h1 : w ≤ bs.length := by omega
    have h2 : sumList ws ≤ (bs.drop w).length := by simp; omega
    obtain ⟨vs, hvs⟩ := ih h2
    refine ⟨leVal (bs.take w) :: vs, ?_⟩
    simp only [readRec, readInt_total h1, hvs, List.drop_drop, sumList]

theorem readRecs_total {ws : List Nat} {n : Nat} {bs : Bytes} (h : sumList ws * n ≤ bs.length) :
    ∃ rs, readRecs ws n bs = .ok (rs, bs.drop (sumList ws * n)) := by
  induction n generalizing bs with
  | zero => exact ⟨[], by simp [readRecs]⟩
  | succ n ih =>
    rw [Nat.mul_succ] at h
    have h1 : sumList ws ≤ bs.length := by omega
    have h2 : sumList ws * n ≤ (bs.drop (sumList ws)).length := by simp; omega
    obtain ⟨r, hr⟩ := readRec_total h1
    obtain ⟨rs, hrs⟩ := ih h2
    refine ⟨r :: rs, ?_⟩
    simp only [readRecs, hr, hrs, List.drop_drop, Nat.mul_succ]
    rw [Nat.add_comm]

theorem readArrays_total {fs : List ArrField} {bs : Bytes} (h : arraysSize fs ≤ bs.length) :
    ∃ vs, readArrays fs bs = .ok (vs, bs.drop (arraysSize fs)) := by
  induction fs generalizing bs with
  | nil => exact ⟨[], by simp [readArrays, arraysSize]⟩
  | cons f fs ih =>
    simp only [arraysSize] at h
    have h1 : f.width * f.count ≤ bs.length := by omega
    have h2 : arraysSize fs ≤ (bs.drop (f.width * f.count)).length := by simp; omega
    obtain ⟨v, hv⟩ := readInts_total h1
    obtain ⟨vs, hvs⟩ := ih h2
    refine ⟨v :: vs, ?_⟩
    simp only [readArrays, hv, hvs, List.drop_drop, arraysSize]

/-- records-until-EOF succeed exactly on whole multiples of the record size -/
theorem readRecsEof_total {ws : List Nat} (hpos : 0 < sumList ws) {bs : Bytes}
    (h : bs.length % sumList ws = 0) : ∃ rs, readRecsEof ws bs = .ok rs := by
  induction hn : bs.length using Nat.strongRecOn generalizing bs with
  | _ n ih =>
    rw [readRecsEof]
    have hz : ¬ sumList ws = 0 := by omega
    simp only [hz, dite_false]
    by_cases hb : bs = []
    · simp [hb]
    · simp only [hb, dite_false]
      have hlen : 0 < bs.length := List.length_pos_iff.mpr hb
      have hge : sumList ws ≤ bs.length := by
        rcases Nat.lt_or_ge bs.length (sumList ws) with hlt | hge
        · rw [Nat.mod_eq_of_lt hlt] at h; omega
        · exact hge
      obtain ⟨r, hr⟩ := readRec_total hge
      have hlt : (bs.drop (sumList ws)).length < n := by simp; omega
      have hmod : (bs.drop (sumList ws)).length % sumList ws = 0 := by
        simp
        have := Nat.sub_mod_eq_zero_of_mod_eq (m := bs.length) (n := sumList ws) (k := sumList ws)
          (by rw [h]; simp)
        exact this
      obtain ⟨rs, hrs⟩ := ih _ hlt hmod rfl
      refine ⟨r :: rs, ?_⟩
      split
      · rename_i e he; rw [hr] at he; simp at he
      · rename_i v rest he
        rw [hr] at he; simp at he
        obtain ⟨hv, hrest⟩ := he; subst hv hrest
        simp [hrs]

theorem readTrigger_total {cw aw : List Nat} {nc na ew np pw cw' : Nat} {bs : Bytes}
    (h : trigBodySize cw aw nc na ew np pw cw' ≤ bs.length) :
    ∃ t, readTrigger cw aw nc na ew np pw cw' bs = .ok t := by
  unfold trigBodySize at h
  have h1 : sumList cw * nc ≤ bs.length := by omega
  obtain ⟨c, hc⟩ := readRecs_total h1
  have h2 : sumList aw * na ≤ (bs.drop (sumList cw * nc)).length := by simp; omega
  obtain ⟨a, ha⟩ := readRecs_total h2
  have h3 : ew ≤ ((bs.drop (sumList cw * nc)).drop (sumList aw * na)).length := by simp; omega
  have h4 : pw * np ≤ (((bs.drop (sumList cw * nc)).drop (sumList aw * na)).drop ew).length := by
    simp; omega
  obtain ⟨p, hp⟩ := readInts_total h4
  have h5 : cw' ≤ ((((bs.drop (sumList cw * nc)).drop (sumList aw * na)).drop ew).drop (pw * np)).length := by
    simp; omega
  unfold readTrigger
  simp only [hc, ha, readInt_total h3, hp, readInt_total h5]
  exact ⟨_, rfl⟩

theorem readTriggers_total {cw aw : List Nat} {nc na ew np pw cw' tsz : Nat}
    (hsz : tsz = trigBodySize cw aw nc na ew np pw cw') (hpos : 0 < tsz) {bs : Bytes}
    (h : bs.length % tsz = 0) :
    ∃ ts, readTriggers cw aw nc na ew np pw cw' tsz bs = .ok ts := by
  induction hn : bs.length using Nat.strongRecOn generalizing bs with
  | _ n ih =>
    rw [readTriggers]
    have hz : ¬ tsz = 0 := by omega
    simp only [hz, dite_false]
    by_cases hb : bs = []
    · simp [hb]
    · simp only [hb, dite_false]
      have hlen : 0 < bs.length := List.length_pos_iff.mpr hb
      have hge : tsz ≤ bs.length := by
        rcases Nat.lt_or_ge bs.length tsz with hlt | hge
        · rw [Nat.mod_eq_of_lt hlt] at h; omega
        · exact hge
      have htl : trigBodySize cw aw nc na ew np pw cw' ≤ (bs.take tsz).length := by
        simp; omega
      obtain ⟨t, ht⟩ := readTrigger_total htl
      have hlt : (bs.drop tsz).length < n := by simp; omega
      have hmod : (bs.drop tsz).length % tsz = 0 := by
        simp
        exact Nat.sub_mod_eq_zero_of_mod_eq (by rw [h]; simp)
      obtain ⟨ts, hts⟩ := ih _ hlt hmod rfl
      exact ⟨t :: ts, by simp [ht, hts]⟩

end Richchk
