import RichchkModel.Lemmas.ChunkLemmas
namespace Richchk

/-- payload sizes/contents StarCraft accepts for a recognised section, per layout shape -/
def Exact (L : SecLayout) (p : Bytes) : Prop :=
  match L with
  | .arrays fs => p.length = arraysSize fs
  | .recsEof fs => p.length % recSize fs = 0
  | .recsN n fs => p.length = recSize fs * n
  | .trig _ _ _ _ _ _ _ _ ts => p.length % ts = 0
  | .str w => ∃ (n : Nat) (offs : List Nat) (ob : Bytes) (strs : List Bytes),
      offs.length = n ∧ n < 256 ^ w ∧ packInts w offs = .ok ob ∧ (∀ s ∈ strs, Str7 s) ∧
      p = leBytes w n ++ ob ++ joinStrings strs

theorem decodeStr_exact {w n : Nat} {offs : List Nat} {ob : Bytes} {strs : List Bytes}
    (hl : offs.length = n) (hn : n < 256 ^ w) (ho : packInts w offs = .ok ob)
    (hs : ∀ s ∈ strs, Str7 s) :
    decodeStr w (leBytes w n ++ ob ++ joinStrings strs) = .ok (.str n offs strs) := by
  have hp : packInt w n = .ok (leBytes w n) := by simp [packInt, hn]
  unfold decodeStr
  rw [List.append_assoc, readInt_packInt hp]
  have := readInts_packInts ho (joinStrings strs)
  rw [hl] at this
  simp only [this, splitStrings_join hs]

theorem exact_decode {L : SecLayout} (hL : LayoutOK L) {p : Bytes} (hE : Exact L p) :
    ∃ v, decodeSection L p = .ok v ∧ consumed L p = p.length := by
  cases L with
  | arrays fs =>
    simp only [Exact] at hE
    obtain ⟨vs, hvs⟩ := readArrays_total (fs := fs) (bs := p) (by omega)
    exact ⟨.arrays vs, by simp [decodeSection, hvs], by simp [consumed, hE]⟩
  | recsEof fs =>
    simp only [Exact] at hE
    obtain ⟨rs, hrs⟩ := readRecsEof_total (ws := widths fs) hL hE
    exact ⟨.recs rs, by simp [decodeSection, hrs], by simp [consumed]⟩
  | recsN n fs =>
    simp only [Exact] at hE
    obtain ⟨rs, hrs⟩ := readRecs_total (ws := widths fs) (n := n) (bs := p) (by simp [recSize] at hE; omega)
    exact ⟨.recs rs, by simp [decodeSection, hrs], by simp [consumed, hE]⟩
  | trig cf af nc na ew np pw cw ts =>
    simp only [Exact] at hE
    obtain ⟨hsz, hpos⟩ := hL
    obtain ⟨tr, htr⟩ := readTriggers_total hsz hpos hE
    exact ⟨.trigs tr, by simp [decodeSection, htr], by simp [consumed]⟩
  | str w =>
    obtain ⟨n, offs, ob, strs, hl, hn, ho, hs, hp⟩ := hE
    subst hp
    exact ⟨.str n offs strs, by simp only [decodeSection]; exact decodeStr_exact hl hn ho hs, by simp [consumed]⟩

def PayloadOK (tbl : SecTable) (name p : Bytes) : Prop :=
  match tbl.find? name with
  | none => True
  | some L => Exact L p

/-- a well-formed CHK: a concatenation of name(4 arbitrary bytes) + u32 size + payload chunks,
recognised sections having a legal payload.  `chunks` records (name, payload) in file order. -/
inductive WellFormed (tbl : SecTable) : List (Bytes × Bytes) → Bytes → Prop
  | nil : WellFormed tbl [] []
  | cons (name p : Bytes) {chunks : List (Bytes × Bytes)} {rest : Bytes} :
      name.length = 4 → p.length < 256 ^ 4 → PayloadOK tbl name p → WellFormed tbl chunks rest →
      WellFormed tbl ((name, p) :: chunks) (name ++ leBytes 4 p.length ++ p ++ rest)

theorem one_exact {tbl : SecTable} (hT : TableOK tbl) {name p : Bytes} (hp : p.length < 256 ^ 4)
    (hE : PayloadOK tbl name p) :
    ∃ s, decodeOne tbl name p = .ok s ∧ s.name = name ∧
      encodeOne tbl s = .ok (name ++ leBytes 4 p.length ++ p) := by
  unfold PayloadOK at hE
  cases hf : tbl.find? name with
  | none =>
    refine ⟨.unknown name p, by simp [decodeOne, hf], rfl, ?_⟩
    simp [encodeOne, encodeHeader, packInt, hp]
  | some L =>
    rw [hf] at hE
    obtain ⟨v, hv, hc⟩ := exact_decode (find_ok hT hf) hE
    have hd : decodeOne tbl name p = .ok (.known name v) := by simp [decodeOne, hf, hv]
    obtain ⟨he, _⟩ := one_decode_encode hT hp hd
    have hcp : canonPayload tbl name p = p := by simp [canonPayload, hf, hc]
    rw [hcp] at he
    exact ⟨_, hd, rfl, he⟩

/-- **C01, model level**: a well-formed CHK decodes, and the decoded sections encode back to
exactly the input bytes; names and order of sections are those of the file. -/
theorem wellFormed_roundtrip {tbl : SecTable} (hT : TableOK tbl) {chunks : List (Bytes × Bytes)}
    {bs : Bytes} (h : WellFormed tbl chunks bs) :
    ∃ secs, decodeChk tbl bs = .ok secs ∧ encodeChk tbl secs = .ok bs ∧
      secs.map DSection.name = chunks.map Prod.fst := by
  induction h with
  | nil => exact ⟨[], by rw [decodeChk]; simp, by simp [encodeChk], by simp⟩
  | cons name p hn hp hE _ ih =>
    obtain ⟨ss, hd, he, hnames⟩ := ih
    obtain ⟨s, hs, hsn, hse⟩ := one_exact hT hp hE
    refine ⟨s :: ss, ?_, ?_, ?_⟩
    · rw [decodeChk_chunk tbl hn hp, hs, hd]
    · simp only [encodeChk, hse, he]
    · simp [hsn, hnames]

end Richchk
