/-
Section-level round trips through the rich layer: decoding a fixed-size table into the sparse
rich list and encoding it back reproduces the table, record for record, when the records are in
the form map editors write (reference = last id of its text, reserved flag bits clear).
-/
import RichchkModel.Lemmas.RichLemmas
namespace Richchk

/-! ### generic list facts -/

theorem find?_reverse_of_unique {α} (p : α → Bool) (xs : List α)
    (huniq : ∀ a ∈ xs, ∀ b ∈ xs, p a = true → p b = true → a = b) :
    xs.reverse.find? p = xs.find? p := by
  induction xs with
  | nil => rfl
  | cons x xs ih =>
    have ih' := ih (fun a ha b hb => huniq a (List.mem_cons_of_mem _ ha) b (List.mem_cons_of_mem _ hb))
    rw [List.reverse_cons, List.find?_append, ih']
    by_cases hx : p x = true
    · simp only [List.find?_cons, hx]
      cases hf : xs.find? p with
      | none => simp
      | some y =>
        have hy := List.find?_some hf
        have hym := List.mem_of_find?_eq_some hf
        have : y = x := huniq y (List.mem_cons_of_mem _ hym) x (by simp) hy hx
        simp [this]
    · have hx' : p x = false := by simpa using hx
      simp [List.find?_cons, hx']

theorem mapR_of_forall {α β} (f : α → R β) (g : α → β) (xs : List α) (h : ∀ x ∈ xs, f x = .ok (g x)) :
    mapR f xs = .ok (xs.map g) := by
  induction xs with
  | nil => rfl
  | cons x xs ih =>
    simp only [mapR, h x (by simp), ih (fun y hy => h y (List.mem_cons_of_mem _ hy)), List.map_cons]

theorem range_map_getD {α} (l : List α) (d : α) : (List.range l.length).map (fun i => l.getD i d) = l := by
  apply List.ext_getElem
  · simp
  · intro i h1 h2
    simp at h1
    simp [List.getD, h1]

theorem allzero6 {r : List Nat} (hl : r.length = 6) (hz : r.all (· == 0) = true) : r = [0, 0, 0, 0, 0, 0] := by
  match r, hl with
  | [a, b, c, d, e, f], _ =>
    simp only [List.all_cons, List.all_nil, Bool.and_true, Bool.and_eq_true, beq_iff_eq] at hz
    obtain ⟨h1, h2, h3, h4, h5, h6⟩ := hz
    subst h1 h2 h3 h4 h5 h6; rfl

/-! ### MRGN -/

def mkLoc (cfg : RichCfg) (texts : List Bytes) (r : List Nat) (i : Nat) : RLoc :=
  ⟨r.getD 0 0, r.getD 1 0, r.getD 2 0, r.getD 3 0, strById texts (r.getD 4 0), some (i + 1),
   elevationDecode cfg (r.getD 5 0), 0⟩

theorem decodeMrgn_go_cons (cfg : RichCfg) (texts : List Bytes) (r : List Nat) (rs : List (List Nat)) (k : Nat) :
    decodeMrgn.go cfg texts (r :: rs) k =
      if r.all (· == 0) then decodeMrgn.go cfg texts rs (k + 1)
      else mkLoc cfg texts r k :: decodeMrgn.go cfg texts rs (k + 1) := by
  simp [decodeMrgn.go, mkLoc]

/-- every decoded location comes from a non-empty record and carries that record's slot number -/
theorem decodeMrgn_go_mem (cfg : RichCfg) (texts : List Bytes) (rs : List (List Nat)) (k : Nat) (l : RLoc)
    (h : l ∈ decodeMrgn.go cfg texts rs k) :
    ∃ j, ∃ hj : j < rs.length, rs[j].all (· == 0) = false ∧ l = mkLoc cfg texts rs[j] (k + j) := by
  induction rs generalizing k with
  | nil => simp [decodeMrgn.go] at h
  | cons r rs ih =>
    rw [decodeMrgn_go_cons] at h
    split at h
    · obtain ⟨j, hj, hz, hl⟩ := ih (k + 1) h
      exact ⟨j + 1, by simp; omega, by simpa using hz, by simp only [List.getElem_cons_succ]; rw [hl]; congr 1; omega⟩
    · rename_i hz
      rcases List.mem_cons.mp h with h | h
      · exact ⟨0, by simp, by simpa using hz, by simpa using h⟩
      · obtain ⟨j, hj, hz', hl⟩ := ih (k + 1) h
        exact ⟨j + 1, by simp; omega, by simpa using hz', by simp only [List.getElem_cons_succ]; rw [hl]; congr 1; omega⟩

theorem decodeMrgn_go_find (cfg : RichCfg) (texts : List Bytes) (rs : List (List Nat)) (k j : Nat) (hj : j < rs.length) :
    (decodeMrgn.go cfg texts rs k).find? (fun l => l.idx == some (k + j + 1)) =
      if rs[j].all (· == 0) then none else some (mkLoc cfg texts rs[j] (k + j)) := by
  induction rs generalizing k j with
  | nil => simp at hj
  | cons r rs ih =>
    rw [decodeMrgn_go_cons]
    cases j with
    | zero =>
      simp only [List.getElem_cons_zero, Nat.add_zero]
      split
      · -- the head record is empty: nothing later carries slot k+1
        rename_i hz
        cases hf : (decodeMrgn.go cfg texts rs (k + 1)).find? (fun l => l.idx == some (k + 1)) with
        | none => rfl
        | some l =>
          have hm := List.mem_of_find?_eq_some hf
          have hp := List.find?_some hf
          obtain ⟨j', _, _, hl⟩ := decodeMrgn_go_mem cfg texts rs (k + 1) l hm
          rw [hl] at hp
          simp [mkLoc] at hp
          omega
      · simp [List.find?_cons, mkLoc]
    | succ j =>
      have hj' : j < rs.length := by simpa using hj
      have := ih (k + 1) j hj'
      have he : k + 1 + j + 1 = k + (j + 1) + 1 := by omega
      have he2 : k + 1 + j = k + (j + 1) := by omega
      rw [he, he2] at this
      simp only [List.getElem_cons_succ]
      split
      · exact this
      · rw [List.find?_cons]
        have hne : ((mkLoc cfg texts r k).idx == some (k + (j + 1) + 1)) = false := by
          simp [mkLoc]
        simp only [hne]
        exact this

theorem decodeMrgn_unique (cfg : RichCfg) (texts : List Bytes) (rs : List (List Nat)) (m : Nat) :
    ∀ a ∈ decodeMrgn cfg texts rs, ∀ b ∈ decodeMrgn cfg texts rs,
      (a.idx == some m) = true → (b.idx == some m) = true → a = b := by
  intro a ha b hb pa pb
  obtain ⟨ja, _, _, hla⟩ := decodeMrgn_go_mem cfg texts rs 0 a ha
  obtain ⟨jb, _, _, hlb⟩ := decodeMrgn_go_mem cfg texts rs 0 b hb
  rw [hla] at pa; rw [hlb] at pb
  simp [mkLoc] at pa pb
  have : ja = jb := by omega
  subst this
  rw [hla, hlb]

/-- **MRGN through the rich layer is the identity on editor-form tables**: a location table of the
size the encoder emits, whose used records reference their name by the last id of its text and
keep the reserved elevation bits clear, decodes to rich locations that encode back to exactly the
same records -/
theorem mrgn_rich_roundtrip (cfg : RichCfg) (ctx : EncCtx) (recs : List (List Nat))
    (hlen : recs.length = cfg.mrgnSlots)
    (hw : ∀ r ∈ recs, r.length = 6)
    (hstr : ∀ r ∈ recs, idByStr ctx.texts (strById ctx.texts (r.getD 4 0)) = .ok (r.getD 4 0))
    (hel : ∀ r ∈ recs, elevationEncode cfg (elevationDecode cfg (r.getD 5 0)) = r.getD 5 0) :
    encodeMrgn cfg ctx (decodeMrgn cfg ctx.texts recs) = .ok recs := by
  unfold encodeMrgn
  rw [← hlen]
  have key : ∀ i ∈ List.range recs.length,
      (match (decodeMrgn cfg ctx.texts recs).reverse.find? (fun l => l.idx == some (i + 1)) with
        | none => (Except.ok [0, 0, 0, 0, 0, 0] : R (List Nat))
        | some l => encodeLoc cfg ctx l) = .ok (recs.getD i []) := by
    intro i hi
    have hi' : i < recs.length := by simpa using hi
    rw [find?_reverse_of_unique _ _ (decodeMrgn_unique cfg ctx.texts recs (i + 1))]
    have hf := decodeMrgn_go_find cfg ctx.texts recs 0 i hi'
    simp only [Nat.zero_add] at hf
    have hget : recs.getD i [] = recs[i] := by simp [List.getD, hi']
    have hmem : recs[i] ∈ recs := List.getElem_mem hi'
    unfold decodeMrgn
    rw [hf, hget]
    by_cases hz : recs[i].all (· == 0) = true
    · simp only [hz, if_true]
      rw [allzero6 (hw _ hmem) hz]
    · simp only [hz, if_false]
      have h1 := hstr _ hmem
      have h2 := hel _ hmem
      have hl := hw _ hmem
      generalize recs[i] = r at h1 h2 hl
      match r, hl with
      | [a, b, c, d, e, f], _ =>
        simp only [List.getD_cons_zero, List.getD_cons_succ] at h1 h2
        simp [encodeLoc, mkLoc, h1, h2]
  have := mapR_of_forall _ (fun i => recs.getD i []) _ key
  rw [range_map_getD] at this
  exact this


namespace Richchk

/-! ### UPRP -/

theorem decodeUprp_go_cons (cfg : RichCfg) (r : List Nat) (rs : List (List Nat)) (k : Nat) :
    decodeUprp.go cfg (r :: rs) k =
      if cuwpRecUnused r then decodeUprp.go cfg rs (k + 1) else decodeCuwp cfg r k :: decodeUprp.go cfg rs (k + 1) := by
  simp [decodeUprp.go]

theorem decodeCuwp_idx (cfg : RichCfg) (r : List Nat) (k : Nat) : (decodeCuwp cfg r k).idx = some (k + 1) := rfl

theorem decodeUprp_go_mem (cfg : RichCfg) (rs : List (List Nat)) (k : Nat) (c : RCuwp)
    (h : c ∈ decodeUprp.go cfg rs k) :
    ∃ j, ∃ hj : j < rs.length, cuwpRecUnused rs[j] = false ∧ c = decodeCuwp cfg rs[j] (k + j) := by
  induction rs generalizing k with
  | nil => simp [decodeUprp.go] at h
  | cons r rs ih =>
    rw [decodeUprp_go_cons] at h
    split at h
    · obtain ⟨j, hj, hz, hl⟩ := ih (k + 1) h
      exact ⟨j + 1, by simp; omega, by simpa using hz, by simp only [List.getElem_cons_succ]; rw [hl]; congr 1; omega⟩
    · rename_i hz
      rcases List.mem_cons.mp h with h | h
      · exact ⟨0, by simp, by simpa using hz, by simpa using h⟩
      · obtain ⟨j, hj, hz', hl⟩ := ih (k + 1) h
        exact ⟨j + 1, by simp; omega, by simpa using hz', by simp only [List.getElem_cons_succ]; rw [hl]; congr 1; omega⟩

theorem decodeUprp_go_find (cfg : RichCfg) (rs : List (List Nat)) (k j : Nat) (hj : j < rs.length) :
    (decodeUprp.go cfg rs k).find? (fun c => c.idx == some (k + j + 1)) =
      if cuwpRecUnused rs[j] then none else some (decodeCuwp cfg rs[j] (k + j)) := by
  induction rs generalizing k j with
  | nil => simp at hj
  | cons r rs ih =>
    rw [decodeUprp_go_cons]
    cases j with
    | zero =>
      simp only [List.getElem_cons_zero, Nat.add_zero]
      split
      · cases hf : (decodeUprp.go cfg rs (k + 1)).find? (fun c => c.idx == some (k + 1)) with
        | none => rfl
        | some c =>
          have hm := List.mem_of_find?_eq_some hf
          have hp := List.find?_some hf
          obtain ⟨j', _, _, hl⟩ := decodeUprp_go_mem cfg rs (k + 1) c hm
          rw [hl, decodeCuwp_idx] at hp
          simp at hp
          omega
      · simp [List.find?_cons, decodeCuwp_idx]
    | succ j =>
      have hj' : j < rs.length := by simpa using hj
      have := ih (k + 1) j hj'
      have he : k + 1 + j + 1 = k + (j + 1) + 1 := by omega
      have he2 : k + 1 + j = k + (j + 1) := by omega
      rw [he, he2] at this
      simp only [List.getElem_cons_succ]
      split
      · exact this
      · rw [List.find?_cons]
        have hne : ((decodeCuwp cfg r k).idx == some (k + (j + 1) + 1)) = false := by
          simp [decodeCuwp_idx]
        simp only [hne]
        exact this

theorem decodeUprp_unique (cfg : RichCfg) (rs : List (List Nat)) (m : Nat) :
    ∀ a ∈ decodeUprp cfg rs, ∀ b ∈ decodeUprp cfg rs,
      (a.idx == some m) = true → (b.idx == some m) = true → a = b := by
  intro a ha b hb pa pb
  obtain ⟨ja, _, _, hla⟩ := decodeUprp_go_mem cfg rs 0 a ha
  obtain ⟨jb, _, _, hlb⟩ := decodeUprp_go_mem cfg rs 0 b hb
  rw [hla, decodeCuwp_idx] at pa; rw [hlb, decodeCuwp_idx] at pb
  simp at pa pb
  have : ja = jb := by omega
  subst this
  rw [hla, hlb]

theorem allzero10 {r : List Nat} (hl : r.length = 10) (hz : r.all (· == 0) = true) : r = List.replicate 10 0 := by
  match r, hl with
  | [a, b, c, d, e, f, g, h, i, j], _ =>
    simp only [List.all_cons, List.all_nil, Bool.and_true, Bool.and_eq_true, beq_iff_eq] at hz
    obtain ⟨h1, h2, h3, h4, h5, h6, h7, h8, h9, h10⟩ := hz
    subst h1 h2 h3 h4 h5 h6 h7 h8 h9 h10; rfl

theorem cuwpRecUnused_eq_all {r : List Nat} (hl : r.length = 10) (h0 : r.getD 2 0 = 0) :
    cuwpRecUnused r = r.all (· == 0) := by
  match r, hl with
  | [a, b, c, d, e, f, g, h, i, j], _ =>
    simp only [List.getD_cons_zero, List.getD_cons_succ] at h0
    subst h0
    simp [cuwpRecUnused]

theorem take5_getD5 (l : List Bool) (h : l.length = 6) : l.take 5 ++ [l.getD 5 false] = l := by
  match l, h with
  | [a, b, c, d, e, f], _ => rfl

theorem take5_get5 (l : List Bool) (h : l.length = 6) : l.take 5 ++ [l[5]?.getD false] = l := by
  match l, h with
  | [a, b, c, d, e, f], _ => rfl

/-- **UPRP through the rich layer is the identity on editor-form tables**: 64 records of 10 fields
whose used records have the owner byte clear and only defined bits in the three flag words decode
to unit-property sets that encode back to exactly the same records -/
theorem uprp_rich_roundtrip (cfg : RichCfg) (recs : List (List Nat))
    (hlen : recs.length = cfg.cuwpSlots)
    (hw : ∀ r ∈ recs, r.length = 10)
    (howner : ∀ r ∈ recs, r.getD 2 0 = 0)
    (hvs : ∀ r ∈ recs, (cfg.flagsOf "cuwp_valid_special").encode ((cfg.flagsOf "cuwp_valid_special").decode (r.getD 0 0)) = r.getD 0 0)
    (hvu : ∀ r ∈ recs, (cfg.flagsOf "cuwp_valid_unit").encode ((cfg.flagsOf "cuwp_valid_unit").decode (r.getD 1 0)) = r.getD 1 0)
    (hfl : ∀ r ∈ recs, (cfg.flagsOf "cuwp_unit").encode ((cfg.flagsOf "cuwp_unit").decode (r.getD 8 0)) = r.getD 8 0)
    (h6 : ∀ n, ((cfg.flagsOf "cuwp_unit").decode n).length = 6) :
    encodeUprp cfg (decodeUprp cfg recs) = recs := by
  unfold encodeUprp
  rw [← hlen]
  have key : ∀ i ∈ List.range recs.length,
      (match (decodeUprp cfg recs).reverse.find? (fun c => c.idx == some (i + 1)) with
        | none => List.replicate 10 0
        | some c => encodeCuwp cfg c) = recs.getD i [] := by
    intro i hi
    have hi' : i < recs.length := by simpa using hi
    rw [find?_reverse_of_unique _ _ (decodeUprp_unique cfg recs (i + 1))]
    have hf := decodeUprp_go_find cfg recs 0 i hi'
    simp only [Nat.zero_add] at hf
    have hget : recs.getD i [] = recs[i] := by simp [List.getD, hi']
    have hmem : recs[i] ∈ recs := List.getElem_mem hi'
    unfold decodeUprp
    rw [hf, hget]
    by_cases hz : cuwpRecUnused recs[i] = true
    · simp only [hz, if_true]
      rw [cuwpRecUnused_eq_all (hw _ hmem) (howner _ hmem)] at hz
      rw [allzero10 (hw _ hmem) hz]
    · simp only [hz, if_false]
      have h0 := howner _ hmem
      have h1 := hvs _ hmem
      have h2 := hvu _ hmem
      have h3 := hfl _ hmem
      have hl := hw _ hmem
      generalize recs[i] = r at h0 h1 h2 h3 hl
      match r, hl with
      | [a, b, c, d, e, f, g, h, k, j], _ =>
        simp only [List.getD_cons_zero, List.getD_cons_succ] at h0 h1 h2 h3
        simp [encodeCuwp, decodeCuwp, take5_get5 _ (h6 k), h1, h2, h3, h0]
  have hm := List.map_congr_left key
  rw [range_map_getD] at hm
  exact hm

/-! ### WAV -/

theorem filterMap_range_mem {α} (f : Nat → Option α) (n : Nat) (a : α) (h : a ∈ (List.range n).filterMap f) :
    ∃ j, j < n ∧ f j = some a := by
  simp only [List.mem_filterMap, List.mem_range] at h
  exact h

theorem find?_filterMap_range {α} (f : Nat → Option α) (key : α → Nat) (hk : ∀ j a, f j = some a → key a = j)
    (n i : Nat) (hi : i < n) :
    ((List.range n).filterMap f).find? (fun a => key a == i) = f i := by
  induction n with
  | zero => omega
  | succ n ih =>
    rw [List.range_succ, List.filterMap_append, List.find?_append]
    by_cases hin : i < n
    · rw [ih hin]
      cases hf : f i with
      | some a => simp
      | none =>
        simp only [Option.none_or, List.filterMap_cons, List.filterMap_nil]
        cases hn : f n with
        | none => simp
        | some b =>
          have := hk n b hn
          simp only [List.find?_cons, List.find?_nil]
          have hne : (key b == i) = false := by simp [this]; omega
          simp [hne]
    · have hin' : i = n := by omega
      subst hin'
      have hleft : ((List.range i).filterMap f).find? (fun a => key a == i) = none := by
        cases hf : ((List.range i).filterMap f).find? (fun a => key a == i) with
        | none => rfl
        | some a =>
          obtain ⟨j, hj, hfj⟩ := filterMap_range_mem f i a (List.mem_of_find?_eq_some hf)
          have h1 := hk j a hfj
          have h2 := List.find?_some hf
          simp at h2
          omega
      rw [hleft]
      simp only [Option.none_or, List.filterMap_cons, List.filterMap_nil]
      cases hn : f i with
      | none => simp
      | some b => simp [hk i b hn]

/-- **the WAV table through the rich layer is the identity** when every entry references its path
by the last id of that text -/
theorem wav_rich_roundtrip (cfg : RichCfg) (ctx : EncCtx) (ids : List Nat)
    (hlen : ids.length = cfg.wavSlots)
    (hstr : ∀ v ∈ ids, idByStr ctx.texts (strById ctx.texts v) = .ok v) :
    encodeWav cfg ctx ((List.range ids.length).filterMap fun i =>
      if ids.getD i 0 ≠ 0 then some (⟨strById ctx.texts (ids.getD i 0), i⟩ : RWav) else none) = .ok ids := by
  unfold encodeWav
  rw [← hlen]
  let f : Nat → Option RWav := fun i =>
    if ids.getD i 0 ≠ 0 then some (⟨strById ctx.texts (ids.getD i 0), i⟩ : RWav) else none
  have hk : ∀ j a, f j = some a → a.idx = j := by
    intro j a h
    simp only [f] at h
    split at h
    · cases h; rfl
    · cases h
  have key : ∀ i ∈ List.range ids.length,
      (match ((List.range ids.length).filterMap f).reverse.find? (fun w => w.idx == i) with
        | none => (Except.ok 0 : R Nat)
        | some w => idByStr ctx.texts w.path) = .ok (ids.getD i 0) := by
    intro i hi
    have hi' : i < ids.length := by simpa using hi
    have huniq : ∀ a ∈ (List.range ids.length).filterMap f, ∀ b ∈ (List.range ids.length).filterMap f,
        (a.idx == i) = true → (b.idx == i) = true → a = b := by
      intro a ha b hb pa pb
      obtain ⟨ja, _, hfa⟩ := filterMap_range_mem f _ a ha
      obtain ⟨jb, _, hfb⟩ := filterMap_range_mem f _ b hb
      have h1 := hk ja a hfa
      have h2 := hk jb b hfb
      simp at pa pb
      have : ja = jb := by omega
      subst this
      rw [hfa] at hfb; cases hfb; rfl
    rw [find?_reverse_of_unique _ _ huniq, find?_filterMap_range f (·.idx) hk _ i hi']
    have hget : ids.getD i 0 = ids[i] := by simp [List.getD, hi']
    simp only [f]
    by_cases hz : ids.getD i 0 = 0
    · rw [if_neg (by simpa using hz), hz]
    · rw [if_pos hz]
      exact hstr _ (by rw [hget]; exact List.getElem_mem hi')
  have := mapR_of_forall _ (fun i => ids.getD i 0) _ key
  rw [range_map_getD] at this
  exact this

end Richchk
