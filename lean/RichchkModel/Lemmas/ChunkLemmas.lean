import RichchkModel.Model.Chunk
import RichchkModel.Lemmas.TotalLemmas
namespace Richchk

/-- side conditions a generated layout must satisfy (decidable; discharged by `decide`
for the table the translator produces) -/
def LayoutOK : SecLayout → Prop
  | .arrays _ => True
  | .recsEof fs => 0 < recSize fs
  | .recsN _ _ => True
  | .trig cf af nc na ew np pw cw ts =>
      ts = trigBodySize (widths cf) (widths af) nc na ew np pw cw ∧ 0 < ts
  | .str _ => True

instance : DecidablePred LayoutOK := fun L => by
  cases L <;> unfold LayoutOK <;> infer_instance

/-- number of payload bytes the decoder actually looks at -/
def consumed (L : SecLayout) (p : Bytes) : Nat :=
  match L with
  | .arrays fs => arraysSize fs
  | .recsN n fs => recSize fs * n
  | _ => p.length

theorem consumed_le {L : SecLayout} {p : Bytes} {v : SecVal}
    (h : decodeSection L p = .ok v) : consumed L p ≤ p.length := by
  cases L with
  | arrays fs =>
    simp only [decodeSection] at h
    split at h
    · simp at h
    · rename_i vs r h1; exact (packArrays_readArrays h1).1
  | recsN n fs =>
    simp only [decodeSection] at h
    split at h
    · simp at h
    · rename_i rs r h1; exact (packRecs_readRecs h1).2.1
  | recsEof fs => simp [consumed]
  | trig => simp [consumed]
  | str w => simp [consumed]

theorem encodeStr_decodeStr {w : Nat} {p : Bytes} {n : Nat} {offs : List Nat} {strs : List Bytes}
    (h : decodeStr w p = .ok (.str n offs strs)) : encodeStr w n offs strs = .ok p := by
  unfold decodeStr at h
  split at h
  · simp at h
  · rename_i n' r1 h1
    split at h
    · simp at h
    · rename_i offs' r2 h2
      split at h
      · simp at h
      · rename_i strs' h3
        simp at h; obtain ⟨e1, e2, e3⟩ := h; subst e1 e2 e3
        obtain ⟨p1, hsplit⟩ := packInt_readInt h1
        obtain ⟨_, _, hr1⟩ := readInt_ok h1
        obtain ⟨l2, _, p2, hr2⟩ := packInts_readInts h2
        obtain ⟨hj, _⟩ := join_splitStrings h3
        unfold encodeStr
        have ht : List.take n' offs' = offs' := by rw [← l2]; simp
        simp only [p1, ht, p2, hj, l2, Nat.lt_irrefl, if_false]
        subst hr1 hr2
        simp only [List.append_assoc]
        rw [List.take_append_drop, List.take_append_drop]

/-- **Section round trip.**  Whatever a byte transcoder decodes, it re-encodes to exactly the
bytes it looked at, and those bytes decode to the same value again. -/
theorem section_decode_encode {L : SecLayout} (hL : LayoutOK L) {p : Bytes} {v : SecVal}
    (h : decodeSection L p = .ok v) :
    encodeSection L v = .ok (p.take (consumed L p)) ∧
      decodeSection L (p.take (consumed L p)) = .ok v := by
  cases L with
  | arrays fs =>
    simp only [decodeSection] at h
    split at h
    · simp at h
    · rename_i vs r h1
      simp at h; subst h
      obtain ⟨_, hp, _⟩ := packArrays_readArrays h1
      refine ⟨by simpa [encodeSection, consumed] using hp, ?_⟩
      have := readArrays_packArrays hp []
      simp at this
      simp [decodeSection, consumed, this]
  | recsEof fs =>
    simp only [decodeSection] at h
    split at h
    · simp at h
    · rename_i rs h1
      simp at h; subst h
      simp [consumed, encodeSection, packRecs_readRecsEof h1, decodeSection, h1]
  | recsN n fs =>
    simp only [decodeSection] at h
    split at h
    · simp at h
    · rename_i rs r h1
      simp at h; subst h
      obtain ⟨hl, _, hp, _⟩ := packRecs_readRecs h1
      refine ⟨by simpa [encodeSection, consumed, recSize] using hp, ?_⟩
      have := readRecs_packRecs hp []
      rw [hl] at this
      simp at this
      simp [decodeSection, consumed, recSize, this]
  | trig cf af nc na ew np pw cw ts =>
    simp only [decodeSection] at h
    split at h
    · simp at h
    · rename_i tr h1
      simp at h; subst h
      obtain ⟨hsz, _⟩ := hL
      simp [consumed, encodeSection, (packTriggers_readTriggers hsz h1).1, decodeSection, h1]
  | str w =>
    simp only [decodeSection] at h
    cases v with
    | str n offs strs =>
      simp [consumed, encodeSection, encodeStr_decodeStr h, decodeSection, h]
    | arrays _ => unfold decodeStr at h; repeat (split at h <;> try simp at h)
    | recs _ => unfold decodeStr at h; repeat (split at h <;> try simp at h)
    | trigs _ => unfold decodeStr at h; repeat (split at h <;> try simp at h)

/-! ### the chunk loop -/

def TableOK (tbl : SecTable) : Prop := ∀ x ∈ tbl, LayoutOK x.2

theorem find_ok {tbl : SecTable} (hT : TableOK tbl) {name : Bytes} {L : SecLayout}
    (h : tbl.find? name = some L) : LayoutOK L := by
  induction tbl with
  | nil => simp [SecTable.find?] at h
  | cons x xs ih =>
    obtain ⟨n, L'⟩ := x
    simp only [SecTable.find?] at h
    split at h
    · simp at h; subst h; exact hT (n, L') (by simp)
    · exact ih (fun y hy => hT y (by simp [hy])) h

/-- canonical payload of a decoded chunk: the bytes its decoder looked at -/
def canonPayload (tbl : SecTable) (name p : Bytes) : Bytes :=
  match tbl.find? name with
  | none => p
  | some L => p.take (consumed L p)

theorem canonPayload_length_le (tbl : SecTable) (name p : Bytes) :
    (canonPayload tbl name p).length ≤ p.length := by
  unfold canonPayload; split <;> simp <;> omega

theorem one_decode_encode {tbl : SecTable} (hT : TableOK tbl) {name p : Bytes} {s : DSection}
    (hp : p.length < 256 ^ 4) (h : decodeOne tbl name p = .ok s) :
    encodeOne tbl s = .ok (name ++ leBytes 4 (canonPayload tbl name p).length ++ canonPayload tbl name p)
      ∧ decodeOne tbl name (canonPayload tbl name p) = .ok s := by
  have hcl := canonPayload_length_le tbl name p
  unfold decodeOne at h
  unfold canonPayload at hcl ⊢
  split at h
  · rename_i hf
    simp at h; subst h
    simp only [hf] at hcl ⊢
    simp [encodeOne, encodeHeader, packInt, hp, decodeOne, hf]
  · rename_i L hf
    split at h
    · simp at h
    · rename_i v hv
      simp at h; subst h
      simp only [hf] at hcl ⊢
      obtain ⟨he, hd⟩ := section_decode_encode (find_ok hT hf) hv
      have hlt : (List.take (consumed L p) p).length < 256 ^ 4 := by omega
      simp only [encodeOne, hf, he, encodeHeader, packInt, hlt, if_true, decodeOne, hd]
      simp

theorem decodeChk_chunk (tbl : SecTable) {name p rest : Bytes} (hn : name.length = 4)
    (hp : p.length < 256 ^ 4) :
    decodeChk tbl (name ++ leBytes 4 p.length ++ p ++ rest) =
      match decodeOne tbl name p with
      | .error e => .error e
      | .ok s => match decodeChk tbl rest with
        | .error e => .error e
        | .ok ss => .ok (s :: ss) := by
  rw [decodeChk]
  have hne : name ++ leBytes 4 p.length ++ p ++ rest ≠ [] := by
    intro hc; have := congrArg List.length hc; simp [hn] at this
  have hl : ¬ (name ++ leBytes 4 p.length ++ p ++ rest).length < 8 := by simp [hn]; omega
  simp only [hne, hl, dite_false]
  have e1 : List.take 4 (name ++ leBytes 4 p.length ++ p ++ rest) = name := by
    simp [List.append_assoc, hn]
  have e2 : List.take 4 (List.drop 4 (name ++ leBytes 4 p.length ++ p ++ rest)) = leBytes 4 p.length := by
    simp [List.append_assoc, hn]
  have e3 : List.drop 8 (name ++ leBytes 4 p.length ++ p ++ rest) = p ++ rest := by
    simp [List.append_assoc, List.drop_append, hn]
  simp only [e1, e2, e3, leVal_leBytes _ _ hp]
  simp only [List.take_left', List.drop_left']
  cases decodeOne tbl name p with
  | error e => rfl
  | ok s => cases decodeChk tbl rest <;> rfl

/-- **C19 (b), model level.**  Whatever `decodeChk` accepts can be written back, and the
written bytes decode to the same model. -/
theorem chk_decode_encode_stable {tbl : SecTable} (hT : TableOK tbl) {bs : Bytes}
    {secs : List DSection} (h : decodeChk tbl bs = .ok secs) :
    ∃ out, encodeChk tbl secs = .ok out ∧ decodeChk tbl out = .ok secs ∧ out.length ≤ bs.length := by
  induction hn : bs.length using Nat.strongRecOn generalizing bs secs with
  | _ n ih =>
    rw [decodeChk] at h
    split at h
    · rename_i hb; simp at h; subst h hb
      exact ⟨[], by simp [encodeChk], by rw [decodeChk]; simp, by simp⟩
    · split at h
      · simp at h
      · rename_i hb hl
        simp only at h
        split at h
        · simp at h
        · rename_i s hs
          split at h
          · simp at h
          · rename_i ss hss
            simp at h; subst h
            have hlt : (List.drop (leVal (List.take 4 (List.drop 4 bs))) (List.drop 8 bs)).length < n := by
              simp; omega
            obtain ⟨out', he', hd', hlen'⟩ := ih _ hlt hss rfl
            have hplen : (List.take (leVal (List.take 4 (List.drop 4 bs))) (List.drop 8 bs)).length < 256 ^ 4 := by
              have := leVal_lt (List.take 4 (List.drop 4 bs))
              have h4 : (List.take 4 (List.drop 4 bs)).length = 4 := by simp; omega
              rw [h4] at this
              simp; omega
            obtain ⟨he, hd⟩ := one_decode_encode hT hplen hs
            have hcl := canonPayload_length_le tbl (List.take 4 bs)
              (List.take (leVal (List.take 4 (List.drop 4 bs))) (List.drop 8 bs))
            refine ⟨_, by simp only [encodeChk, he, he']; rfl, ?_, ?_⟩
            · have hn4 : (List.take 4 bs).length = 4 := by simp; omega
              rw [decodeChk_chunk tbl hn4 (by omega), hd, hd']
            · have hn4 : (List.take 4 bs).length = 4 := by simp; omega
              simp only [List.length_append, hn4, leBytes_length]
              simp at hcl hlen'
              omega

end Richchk
