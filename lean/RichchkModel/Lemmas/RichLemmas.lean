import RichchkModel.Model.RichEnc
namespace Richchk

theorem mapR_ok {α β} {f : α → R β} {xs : List α} {ys : List β} (h : mapR f xs = .ok ys) :
    ys.length = xs.length ∧ ∀ i (hi : i < xs.length) (hj : i < ys.length), f xs[i] = .ok ys[i] := by
  induction xs generalizing ys with
  | nil => simp [mapR] at h; subst h; exact ⟨rfl, fun i hi => by simp at hi⟩
  | cons x xs ih =>
    simp only [mapR] at h
    split at h
    · simp at h
    · rename_i y hy
      split at h
      · simp at h
      · rename_i ys' hys
        simp at h; subst h
        obtain ⟨hl, hall⟩ := ih hys
        refine ⟨by simp [hl], ?_⟩
        intro i hi hj
        cases i with
        | zero => simpa using hy
        | succ i => simpa using hall i (by simpa using hi) (by simpa using hj)

theorem mapR_length {α β} {f : α → R β} {xs : List α} {ys : List β} (h : mapR f xs = .ok ys) :
    ys.length = xs.length := (mapR_ok h).1

/-! ### string references: the last-id lookup preserves the TEXT -/

theorem lastIndexOf_go_spec (texts : List Bytes) (t : Bytes) (i : Nat) (acc : Option Nat) :
    lastIndexOf.go t texts i acc =
      match (lastIndexOf.go t texts 0 none) with
      | some j => some (j + i)
      | none => acc := by
  induction texts generalizing i acc with
  | nil => simp [lastIndexOf.go]
  | cons x xs ih =>
    simp only [lastIndexOf.go]
    rw [ih (i + 1), ih (0 + 1)]
    by_cases hx : x = t
    · simp only [hx, if_true]
      cases lastIndexOf.go t xs 0 none with
      | none => simp
      | some j => simp; omega
    · simp only [hx, if_false]
      cases lastIndexOf.go t xs 0 none with
      | none => rfl
      | some j => simp; omega

theorem lastIndexOf_some_get {texts : List Bytes} {t : Bytes} {j : Nat}
    (h : lastIndexOf texts t = some j) : texts[j]? = some t := by
  unfold lastIndexOf at h
  induction texts generalizing j with
  | nil => simp [lastIndexOf.go] at h
  | cons x xs ih =>
    simp only [lastIndexOf.go] at h
    rw [lastIndexOf_go_spec] at h
    cases hr : lastIndexOf.go t xs 0 none with
    | some k =>
      rw [hr] at h
      simp at h; subst h
      simpa using ih hr
    | none =>
      rw [hr] at h
      by_cases hx : x = t
      · simp [hx] at h; subst h; simp [hx]
      · simp [hx] at h

theorem lastIndexOf_of_mem {texts : List Bytes} {t : Bytes} (h : t ∈ texts) :
    ∃ j, lastIndexOf texts t = some j := by
  unfold lastIndexOf
  induction texts with
  | nil => simp at h
  | cons x xs ih =>
    simp only [lastIndexOf.go]
    rw [lastIndexOf_go_spec]
    rcases List.mem_cons.mp h with rfl | hm
    · cases lastIndexOf.go t xs 0 none with
      | some k => exact ⟨k + 1, rfl⟩
      | none => exact ⟨0, by simp⟩
    · obtain ⟨j, hj⟩ := ih hm
      rw [hj]; exact ⟨j + 1, rfl⟩

/-- **Reference resolution (strings).**  Whatever id a string reference carried, the id it is
written back with resolves to exactly the same text (it may be a different id when the text is
stored under several ids: the last one). -/
theorem str_reference_preserved (texts : List Bytes) (id : Nat) :
    ∃ id', idByStr texts (strById texts id) = .ok id' ∧ strById texts id' = strById texts id := by
  unfold strById
  by_cases h0 : id = 0
  · exact ⟨0, by simp [h0, idByStr], by simp [h0]⟩
  · simp only [h0, if_false]
    cases hg : texts[id - 1]? with
    | none => exact ⟨0, by simp [idByStr], by simp⟩
    | some t =>
      have hm : t ∈ texts := List.mem_of_getElem? hg
      obtain ⟨j, hj⟩ := lastIndexOf_of_mem hm
      refine ⟨j + 1, by simp [idByStr, hj], ?_⟩
      simp [lastIndexOf_some_get hj]

/-! ### shapes of what the encoders emit (C11) -/

theorem encodeMrgn_length {cfg : RichCfg} {ctx : EncCtx} {locs : List RLoc} {recs : List (List Nat)}
    (h : encodeMrgn cfg ctx locs = .ok recs) : recs.length = cfg.mrgnSlots := by
  have := mapR_length h; simpa using this

theorem encodeMrgn_record_width {cfg : RichCfg} {ctx : EncCtx} {locs : List RLoc} {recs : List (List Nat)}
    (h : encodeMrgn cfg ctx locs = .ok recs) : ∀ r ∈ recs, r.length = 6 := by
  intro r hr
  obtain ⟨i, hi, hget⟩ := List.getElem_of_mem hr
  have hlen := mapR_length h
  have := (mapR_ok h).2 i (by rw [← hlen]; exact hi) hi
  rw [hget] at this
  split at this
  · simp at this; subst this; rfl
  · rename_i l _
    unfold encodeLoc at this
    split at this
    · simp at this
    · simp at this; subst this; rfl

theorem encodeUprp_shape (cfg : RichCfg) (cuwps : List RCuwp) :
    (encodeUprp cfg cuwps).length = cfg.cuwpSlots ∧ ∀ r ∈ encodeUprp cfg cuwps, r.length = 10 := by
  constructor
  · simp [encodeUprp]
  · intro r hr
    simp only [encodeUprp, List.mem_map] at hr
    obtain ⟨i, _, rfl⟩ := hr
    split
    · simp
    · simp [encodeCuwp]

theorem encodeWav_length {cfg : RichCfg} {ctx : EncCtx} {ws : List RWav} {ids : List Nat}
    (h : encodeWav cfg ctx ws = .ok ids) : ids.length = cfg.wavSlots := by
  have := mapR_length h; simpa using this

/-- **every emitted trigger has exactly 16 conditions and 64 actions, or the call raised** -/
theorem encodeTrigger_shape {cfg : RichCfg} {ctx : EncCtx} {t : RTrigger} {d : Trigger}
    (h : encodeTrigger cfg ctx t = .ok d) :
    d.conds.length = cfg.nConds ∧ d.acts.length = cfg.nActs ∧ d.execFlags = 0 ∧ d.cur = 0 ∧
    d.players.length = (cfg.enumOf "PlayerId").length ∧
    t.conds.length ≤ cfg.nConds ∧ t.acts.length ≤ cfg.nActs := by
  unfold encodeTrigger at h
  split at h
  · simp at h
  · rename_i cs hcs
    split at h
    · simp at h
    · rename_i hc
      split at h
      · simp at h
      · rename_i as has
        split at h
        · simp at h
        · rename_i ha
          simp at h; subst h
          have l1 := mapR_length hcs
          have l2 := mapR_length has
          simp only [List.length_append, List.length_replicate, List.length_map]
          refine ⟨by omega, by omega, trivial, trivial, trivial, by omega, by omega⟩

/-- a trigger with more than 16 conditions or 64 actions is refused -/
theorem encodeTrigger_oversize_raises (cfg : RichCfg) (ctx : EncCtx) (t : RTrigger)
    (h : cfg.nConds < t.conds.length ∨ cfg.nActs < t.acts.length) :
    ∃ e, encodeTrigger cfg ctx t = .error e := by
  cases hr : encodeTrigger cfg ctx t with
  | error e => exact ⟨e, rfl⟩
  | ok d =>
    have := encodeTrigger_shape hr
    omega

theorem rebuildUpus_length {cfg : RichCfg} {cuwps : List RCuwp} {u : List Nat}
    (h : rebuildUpus cfg cuwps = .ok u) : u.length = cfg.cuwpSlots := by
  unfold rebuildUpus at h
  have key : ∀ (cs : List RCuwp) (acc out : List Nat), rebuildUpus.go cs acc = .ok out → out.length = acc.length := by
    intro cs
    induction cs with
    | nil => intro acc out h; simp [rebuildUpus.go] at h; subst h; rfl
    | cons c cs ih =>
      intro acc out h
      simp only [rebuildUpus.go] at h
      split at h
      · simp at h
      · split at h
        · simp at h
        · split at h
          · have := ih _ _ h; simpa using this
          · simp at h
  have := key _ _ _ h
  simpa using this

end Richchk
