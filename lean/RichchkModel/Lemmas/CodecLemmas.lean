import RichchkModel.Model.Codecs
namespace Richchk

theorem natOfBits_bitsOf (k n : Nat) : natOfBits (bitsOf k n) = n % 2 ^ k := by
  induction k generalizing n with
  | zero => simp [bitsOf, natOfBits, Nat.mod_one]
  | succ k ih =>
    simp only [bitsOf, natOfBits, ih]
    have h2 : (n % 2 == 1).toNat = n % 2 := by
      rcases Nat.mod_two_eq_zero_or_one n with h | h <;> simp [h]
    rw [h2, Nat.pow_succ, Nat.mul_comm (2 ^ k) 2, Nat.mod_mul]

theorem bitsOf_length (k n : Nat) : (bitsOf k n).length = k := by
  induction k generalizing n with
  | zero => rfl
  | succ k ih => simp [bitsOf, ih]

theorem bitsOf_natOfBits (bs : List Bool) : bitsOf bs.length (natOfBits bs) = bs := by
  induction bs with
  | nil => rfl
  | cons b bs ih =>
    simp only [List.length_cons, bitsOf, natOfBits]
    have h1 : (b.toNat + 2 * natOfBits bs) % 2 = b.toNat := by
      cases b <;> simp <;> omega
    have h2 : (b.toNat + 2 * natOfBits bs) / 2 = natOfBits bs := by
      cases b <;> simp <;> omega
    rw [h1, h2, ih]
    cases b <;> simp

theorem natOfBits_lt (bs : List Bool) : natOfBits bs < 2 ^ bs.length := by
  induction bs with
  | nil => simp [natOfBits]
  | cons b bs ih =>
    simp only [natOfBits, List.length_cons, Nat.pow_succ]
    cases b <;> simp <;> omega

theorem bitAt_succ (n i : Nat) : bitAt n (i + 1) = bitAt (n / 2) i := by
  unfold bitAt
  rw [Nat.pow_succ, Nat.mul_comm, Nat.div_div_eq_div_mul]

theorem range_map_bitAt (k n : Nat) : (List.range k).map (bitAt n) = bitsOf k n := by
  induction k generalizing n with
  | zero => rfl
  | succ k ih =>
    rw [List.range_succ_eq_map, List.map_cons, List.map_map]
    simp only [bitsOf]
    congr 1
    · simp [bitAt]
    · rw [← ih (n / 2)]
      apply List.map_congr_left
      intro i _
      simp [bitAt_succ]

theorem placeBits_range (bs : List Bool) (s : Nat) :
    placeBits (((List.range bs.length).map (· + s)).zip bs) = 2 ^ s * natOfBits bs := by
  induction bs generalizing s with
  | nil => simp [placeBits, natOfBits]
  | cons b bs ih =>
    rw [List.length_cons, List.range_succ_eq_map, List.map_cons, List.map_map, List.zip_cons_cons]
    simp only [placeBits, natOfBits, Nat.zero_add]
    have : (List.map ((fun x => x + s) ∘ Nat.succ) (List.range bs.length)) =
        (List.range bs.length).map (· + (s + 1)) := by
      apply List.map_congr_left; intro i _; simp; omega
    rw [this, ih (s + 1), Nat.pow_succ]
    cases b
    · simp [Nat.mul_assoc]
    · simp [Nat.mul_add, Nat.mul_assoc]

/-- **flags, number → rich → number**: for every number, encoding the decoded flags gives the
number reduced to the bits the codec keeps (for the non-inverted codecs); hence exact iff the
bits above the kept ones are clear. -/
theorem flags_encode_decode (c : FlagCodec) (hc : c.OK) (n : Nat) :
    c.encode (c.decode n) = n % 2 ^ c.fields.length := by
  obtain ⟨hd, he, _⟩ := hc
  unfold FlagCodec.encode FlagCodec.decode
  rw [he]
  have hmap : (c.fields.map fun f => (bitAt n f.decodeBit) != c.inverted)
      = (bitsOf c.fields.length n).map (· != c.inverted) := by
    rw [← range_map_bitAt, ← hd, List.map_map, List.map_map]
    rfl
  rw [hmap, List.map_map]
  have hid : ((fun x => x != c.inverted) ∘ fun x => x != c.inverted) = id := by
    funext b; cases b <;> cases c.inverted <;> rfl
  rw [hid, List.map_id]
  have := placeBits_range (bitsOf c.fields.length n) 0
  simp only [bitsOf_length, Nat.add_zero, List.map_id', Nat.pow_zero, Nat.one_mul] at this
  rw [this, natOfBits_bitsOf]

/-- **flags, rich → number → rich**: every rich flag value survives the trip through its number -/
theorem flags_decode_encode (c : FlagCodec) (hc : c.OK) (vals : List Bool)
    (hl : vals.length = c.fields.length) : c.decode (c.encode vals) = vals := by
  obtain ⟨hd, he, _⟩ := hc
  unfold FlagCodec.encode FlagCodec.decode
  rw [he]
  have hp := placeBits_range (vals.map (· != c.inverted)) 0
  simp only [List.length_map, Nat.add_zero, List.map_id', Nat.pow_zero, Nat.one_mul, hl] at hp
  rw [hp]
  have hmap : (c.fields.map fun f =>
      (bitAt (natOfBits (vals.map (· != c.inverted))) f.decodeBit) != c.inverted)
      = ((List.range c.fields.length).map (bitAt (natOfBits (vals.map (· != c.inverted))))).map
          (· != c.inverted) := by
    rw [← hd, List.map_map, List.map_map]; rfl
  rw [hmap, range_map_bitAt]
  have hlen : c.fields.length = (vals.map (· != c.inverted)).length := by simp [hl]
  rw [hlen, bitsOf_natOfBits, List.map_map]
  have hid : ((fun x => x != c.inverted) ∘ fun x => x != c.inverted) = id := by
    funext b; cases b <;> cases c.inverted <;> rfl
  rw [hid, List.map_id]

/-- the encoded number always fits the field: `encode` is into `[0, 2^k)` -/
theorem flags_encode_lt (c : FlagCodec) (hc : c.OK) (vals : List Bool)
    (hl : vals.length = c.fields.length) : c.encode vals < 2 ^ c.fields.length := by
  obtain ⟨_, he, _⟩ := hc
  unfold FlagCodec.encode
  rw [he]
  have hp := placeBits_range (vals.map (· != c.inverted)) 0
  simp only [List.length_map, Nat.add_zero, List.map_id', Nat.pow_zero, Nat.one_mul, hl] at hp
  rw [hp]
  have := natOfBits_lt (vals.map (· != c.inverted))
  simpa [hl] using this

/-- distinct rich flag values never collide on one number -/
theorem flags_encode_injective (c : FlagCodec) (hc : c.OK) (a b : List Bool)
    (ha : a.length = c.fields.length) (hb : b.length = c.fields.length)
    (h : c.encode a = c.encode b) : a = b := by
  rw [← flags_decode_encode c hc a ha, ← flags_decode_encode c hc b hb, h]

/-! ### enumerations -/

def EnumOK (e : List EnumMember) : Prop := (e.map (·.id)).Nodup

/-- linear-time check used for the generated tables (members are emitted sorted by number):
numbers strictly increasing -/
def strictIncFrom : Nat → List EnumMember → Bool
  | _, [] => true
  | lo, m :: ms => lo < m.id + 1 && strictIncFrom (m.id + 1) ms

theorem strictIncFrom_sound (lo : Nat) (e : List EnumMember) (h : strictIncFrom lo e = true) :
    (∀ m ∈ e, lo ≤ m.id) ∧ (e.map (·.id)).Nodup := by
  induction e generalizing lo with
  | nil => simp
  | cons m ms ih =>
    simp only [strictIncFrom, Bool.and_eq_true, decide_eq_true_eq] at h
    obtain ⟨hlo, hnd⟩ := ih (m.id + 1) h.2
    refine ⟨?_, ?_⟩
    · intro x hx
      rcases List.mem_cons.mp hx with rfl | hx
      · omega
      · have := hlo x hx; omega
    · simp only [List.map_cons, List.nodup_cons]
      refine ⟨?_, hnd⟩
      intro hmem
      obtain ⟨x, hx, hid⟩ := List.mem_map.mp hmem
      have := hlo x hx
      omega

theorem enumOK_of_strictInc (e : List EnumMember) (h : strictIncFrom 0 e = true) : EnumOK e :=
  (strictIncFrom_sound 0 e h).2

theorem enumLookup_mem {e : List EnumMember} {n : Nat} {m : EnumMember}
    (h : enumLookup e n = some m) : m ∈ e ∧ m.id = n := by
  induction e with
  | nil => simp [enumLookup] at h
  | cons x xs ih =>
    simp only [enumLookup] at h
    split at h
    · rename_i y hy; simp at h; subst h
      exact ⟨List.mem_cons_of_mem _ (ih hy).1, (ih hy).2⟩
    · split at h
      · rename_i hid; simp at h; subst h; exact ⟨by simp, hid⟩
      · simp at h

theorem enumLookup_of_mem {e : List EnumMember} (hnd : (e.map (·.id)).Nodup) {x : EnumMember}
    (hx : x ∈ e) : enumLookup e x.id = some x := by
  induction e with
  | nil => simp at hx
  | cons y ys ih =>
    simp only [List.map_cons, List.nodup_cons] at hnd
    simp only [enumLookup]
    rcases List.mem_cons.mp hx with rfl | hmem
    · have : enumLookup ys x.id = none := by
        cases hl : enumLookup ys x.id with
        | none => rfl
        | some m =>
          obtain ⟨hm, hid⟩ := enumLookup_mem hl
          exact absurd (List.mem_map.mpr ⟨_, hm, hid⟩) hnd.1
      simp [this]
    · simp [ih hnd.2 hmem]

/-- **enums, member → number → member** (needs: no two members share a number) -/
theorem enum_decode_encode {e : List EnumMember} (h : EnumOK e) {x : EnumMember} (hx : x ∈ e) :
    decodeEnum e (encodeEnum x) = .ok x := by
  simp [decodeEnum, encodeEnum, enumLookup_of_mem h hx]

/-- **enums, non-member numbers are rejected**, for every natural number -/
theorem enum_nonmember_rejected {e : List EnumMember} {n : Nat} (hn : n ∉ e.map (·.id)) :
    decodeEnum e n = .error .key := by
  cases hl : enumLookup e n with
  | none => simp [decodeEnum, hl]
  | some m =>
    obtain ⟨hm, hid⟩ := enumLookup_mem hl
    exact absurd (List.mem_map.mpr ⟨_, hm, hid⟩) hn

/-- **enums, number → member → number**: whatever member a number decodes to is a member of
the enumeration carrying exactly that number -/
theorem enum_encode_decode {e : List EnumMember} {n : Nat} {m : EnumMember}
    (hd : decodeEnum e n = .ok m) : m ∈ e ∧ encodeEnum m = n := by
  unfold decodeEnum at hd
  split at hd
  · rename_i m' hl
    simp at hd; subst hd
    exact enumLookup_mem hl
  · simp at hd

/-- distinct members never collide on one number -/
theorem enum_injective {e : List EnumMember} (h : EnumOK e) {x y : EnumMember}
    (hx : x ∈ e) (hy : y ∈ e) (hid : encodeEnum x = encodeEnum y) : x = y := by
  have h1 := enum_decode_encode h hx
  have h2 := enum_decode_encode h hy
  rw [hid, h2] at h1
  cases h1; rfl

/-! ### AI scripts and hit points -/

/-- every u32 that decodes to a script re-encodes to exactly that u32 (known or unknown) -/
theorem ai_encode_decode {known : List Bytes} {v : Nat} {k : Bool} {name : Bytes}
    (h : decodeAi known v = .ok (k, name)) : encodeAi name = .ok v := by
  unfold decodeAi at h
  split at h
  · simp at h
  · rename_i hv
    simp only at h
    split at h
    · simp at h; obtain ⟨_, hn⟩ := h; subst hn
      simp [encodeAi, leVal_leBytes 4 v (by omega)]
    · simp at h

/-- a number is reported as a known script only if its 4 bytes are exactly that script's name -/
theorem ai_known_exact {known : List Bytes} {v : Nat} {name : Bytes}
    (h : decodeAi known v = .ok (true, name)) : name ∈ known ∧ name = leBytes 4 v := by
  unfold decodeAi at h
  split at h
  · simp at h
  · simp only at h
    split at h
    · simp at h; obtain ⟨hk, hn⟩ := h; subst hn; exact ⟨hk, rfl⟩
    · simp at h

/-- **hit points, number → rich → number**: exact for every raw value -/
theorem hp_encode_decode (raw : Nat) : encodeHp (decodeHp raw) = raw := by
  simp [encodeHp, decodeHp]

/-- **hit points, rich → number → rich** is exact precisely for multiples of 1/256 -/
theorem hp_decode_encode_iff (h : Hp) (_hd : 0 < h.den) :
    (decodeHp (encodeHp h)).eqv h ↔ h.den ∣ h.num * 256 := by
  unfold Hp.eqv decodeHp encodeHp
  simp only
  constructor
  · intro heq
    have : h.num * 256 = h.den * (h.num * 256 / h.den) := by rw [Nat.mul_comm h.den]; omega
    exact ⟨_, this⟩
  · intro hdiv
    rw [Nat.div_mul_cancel hdiv]

end Richchk
