/-
The slot-usage table (UPUS) written on save marks exactly the unit-property slots in use.
-/
import RichchkModel.Lemmas.RichLemmas
namespace Richchk

theorem rebuildUpus_go_spec (cs : List RCuwp) (acc u : List Nat) (h : rebuildUpus.go cs acc = .ok u) :
    u.length = acc.length ∧
    ∀ i, i < acc.length → (u.getD i 0 = 1 ↔ (acc.getD i 0 = 1 ∨ ∃ c ∈ cs, c.idx = some (i + 1))) := by
  induction cs generalizing acc with
  | nil =>
    simp [rebuildUpus.go] at h; subst h
    exact ⟨rfl, fun i _ => by simp⟩
  | cons c cs ih =>
    simp only [rebuildUpus.go] at h
    split at h
    · cases h
    · rename_i k hk
      split at h
      · cases h
      · split at h
        · rename_i hk0 hlt
          obtain ⟨hl, hspec⟩ := ih _ h
          refine ⟨by simpa using hl, fun i hi => ?_⟩
          have := hspec i (by simpa using hi)
          rw [this]
          by_cases hik : i = k - 1
          · subst hik
            have hk1 : k - 1 + 1 = k := by omega
            constructor
            · intro _; exact .inr ⟨c, by simp, by rw [hk1]; exact hk⟩
            · intro _; left; simp [List.getD, hlt]
          · have hne : (acc.set (k - 1) 1).getD i 0 = acc.getD i 0 := by
              have hne' : ¬ (k - 1 = i) := fun h' => hik h'.symm
              simp [List.getD, List.getElem?_set, hne']
            rw [hne]
            constructor
            · rintro (h1 | ⟨d, hd, hdi⟩)
              · exact .inl h1
              · exact .inr ⟨d, List.mem_cons_of_mem _ hd, hdi⟩
            · rintro (h1 | ⟨d, hd, hdi⟩)
              · exact .inl h1
              · rcases List.mem_cons.mp hd with hdc | hdc
                · subst hdc
                  rw [hk] at hdi
                  injection hdi with hdi
                  omega
                · exact .inr ⟨d, hdc, hdi⟩
        · cases h

/-- **UPUS agrees with the slots in use**: entry `i` of the emitted usage table is 1 exactly when
the rebuilt unit-property list holds a set at slot `i+1`, and 0 otherwise -/
theorem rebuildUpus_spec {cfg : RichCfg} {cuwps : List RCuwp} {u : List Nat}
    (h : rebuildUpus cfg cuwps = .ok u) :
    u.length = cfg.cuwpSlots ∧
    ∀ i, i < cfg.cuwpSlots → (u.getD i 0 = 1 ↔ ∃ c ∈ cuwps, c.idx = some (i + 1)) := by
  unfold rebuildUpus at h
  obtain ⟨hl, hs⟩ := rebuildUpus_go_spec _ _ _ h
  refine ⟨by simpa using hl, fun i hi => ?_⟩
  have := hs i (by simpa using hi)
  rw [this]
  simp [List.getD, hi]

end Richchk
