import RichchkModel.Lemmas.SectionLemmas
namespace Richchk

def trigBodySize (cw aw : List Nat) (nc na ew np pw cw' : Nat) : Nat :=
  sumList cw * nc + sumList aw * na + ew + pw * np + cw'

theorem packTrigger_readTrigger {cw aw : List Nat} {nc na ew np pw cw' : Nat} {bs : Bytes}
    {t : Trigger} (h : readTrigger cw aw nc na ew np pw cw' bs = .ok t) :
    trigBodySize cw aw nc na ew np pw cw' ≤ bs.length ∧
    packTrigger cw aw ew pw cw' t = .ok (bs.take (trigBodySize cw aw nc na ew np pw cw')) ∧
    t.conds.length = nc ∧ t.acts.length = na ∧ t.players.length = np := by
  unfold readTrigger at h
  split at h
  · simp at h
  · rename_i conds r1 h1
    split at h
    · simp at h
    · rename_i acts r2 h2
      split at h
      · simp at h
      · rename_i ef r3 h3
        split at h
        · simp at h
        · rename_i players r4 h4
          split at h
          · simp at h
          · rename_i cur r5 h5
            simp at h; subst h
            obtain ⟨l1, n1, p1, e1⟩ := packRecs_readRecs h1
            obtain ⟨l2, n2, p2, e2⟩ := packRecs_readRecs h2
            obtain ⟨p3, _⟩ := packInt_readInt h3
            obtain ⟨n3, _, e3⟩ := readInt_ok h3
            obtain ⟨l4, n4, p4, e4⟩ := packInts_readInts h4
            obtain ⟨p5, _⟩ := packInt_readInt h5
            obtain ⟨n5, _, _⟩ := readInt_ok h5
            subst e1 e2 e3 e4
            simp only [List.length_drop] at n2 n3 n4 n5
            refine ⟨by unfold trigBodySize; omega, ?_, l1, l2, l4⟩
            unfold packTrigger
            simp only [p1, p2, p3, p4, p5]
            congr 1
            unfold trigBodySize
            simp only [List.drop_drop]
            generalize sumList cw * nc = a
            generalize sumList aw * na = b
            generalize pw * np = d
            rw [show a + b + ew + d + cw' = a + (b + (ew + (d + cw'))) by omega]
            rw [List.take_add, List.take_add, List.take_add, List.take_add]
            simp only [List.drop_drop, List.append_assoc]

theorem readTrigger_packTrigger {cw aw : List Nat} {nc na ew np pw cw' : Nat} {b : Bytes}
    {t : Trigger} (h : packTrigger cw aw ew pw cw' t = .ok b)
    (hc : t.conds.length = nc) (ha : t.acts.length = na) (hp : t.players.length = np)
    (rest : Bytes) :
    readTrigger cw aw nc na ew np pw cw' (b ++ rest) = .ok t := by
  unfold packTrigger at h
  split at h
  · simp at h
  · rename_i b1 h1
    split at h
    · simp at h
    · rename_i b2 h2
      split at h
      · simp at h
      · rename_i b3 h3
        split at h
        · simp at h
        · rename_i b4 h4
          split at h
          · simp at h
          · rename_i b5 h5
            simp at h; subst h
            subst hc ha hp
            unfold readTrigger
            simp only [List.append_assoc, readRecs_packRecs h1, readRecs_packRecs h2,
              readInt_packInt h3, readInts_packInts h4, readInt_packInt h5]

theorem packTrigger_length {cw aw : List Nat} {ew pw cw' : Nat} {b : Bytes}
    {t : Trigger} (h : packTrigger cw aw ew pw cw' t = .ok b) :
    b.length = trigBodySize cw aw t.conds.length t.acts.length ew t.players.length pw cw' := by
  unfold packTrigger at h
  split at h
  · simp at h
  · rename_i b1 h1
    split at h
    · simp at h
    · rename_i b2 h2
      split at h
      · simp at h
      · rename_i b3 h3
        split at h
        · simp at h
        · rename_i b4 h4
          split at h
          · simp at h
          · rename_i b5 h5
            simp at h; subst h
            simp [trigBodySize, packRecs_length h1, packRecs_length h2, packInt_length h3,
              packInts_length h4, packInt_length h5]
            omega

/-- TRIG: what was read re-packs to exactly the input (needs the declared trigger size
to equal the sum of the field sizes — an instantiation obligation on the generated layout) -/
theorem packTriggers_readTriggers {cw aw : List Nat} {nc na ew np pw cw' tsz : Nat}
    (hsz : tsz = trigBodySize cw aw nc na ew np pw cw') {bs : Bytes} {ts : List Trigger}
    (h : readTriggers cw aw nc na ew np pw cw' tsz bs = .ok ts) :
    packTriggers cw aw ew pw cw' ts = .ok bs ∧
      ∀ t ∈ ts, t.conds.length = nc ∧ t.acts.length = na ∧ t.players.length = np := by
  induction hn : bs.length using Nat.strongRecOn generalizing bs ts with
  | _ n ih =>
    rw [readTriggers] at h
    split at h
    · simp at h
    · split at h
      · rename_i hb; simp at h; subst h hb; simp [packTriggers]
      · split at h
        · simp at h
        · rename_i t h1
          split at h
          · simp at h
          · rename_i ts' h2
            simp at h; subst h
            obtain ⟨hlen, hp, hl⟩ := packTrigger_readTrigger h1
            rw [← hsz] at hlen hp
            have hlen' : tsz ≤ bs.length := by
              simp at hlen; omega
            have hlt : (List.drop tsz bs).length < n := by
              simp; omega
            obtain ⟨ih1, ih2⟩ := ih _ hlt h2 rfl
            refine ⟨?_, ?_⟩
            · simp only [packTriggers, hp, ih1, List.take_take, Nat.min_self, List.take_append_drop]
            · intro t' ht'; simp at ht'
              rcases ht' with rfl | ht'
              · exact hl
              · exact ih2 t' ht'

theorem readTriggers_packTriggers {cw aw : List Nat} {nc na ew np pw cw' tsz : Nat}
    (hsz : tsz = trigBodySize cw aw nc na ew np pw cw') (hpos : 0 < tsz)
    {ts : List Trigger} {b : Bytes}
    (h : packTriggers cw aw ew pw cw' ts = .ok b)
    (hall : ∀ t ∈ ts, t.conds.length = nc ∧ t.acts.length = na ∧ t.players.length = np) :
    readTriggers cw aw nc na ew np pw cw' tsz b = .ok ts := by
  induction ts generalizing b with
  | nil =>
    simp [packTriggers] at h; subst h
    rw [readTriggers]; simp; omega
  | cons t ts ih =>
    simp only [packTriggers] at h
    split at h
    · simp at h
    · rename_i b1 h1
      split at h
      · simp at h
      · rename_i b2 h2
        simp at h; subst h
        obtain ⟨hc, ha, hp⟩ := hall t (by simp)
        have hl := packTrigger_length h1
        rw [hc, ha, hp, ← hsz] at hl
        rw [readTriggers]
        have hne : b1 ++ b2 ≠ [] := by
          intro hc; have := congrArg List.length hc
          simp only [List.length_append, List.length_nil] at this; omega
        have hz : ¬ tsz = 0 := by omega
        simp only [hz, hne, dite_false]
        have htake : List.take tsz (b1 ++ b2) = b1 := by
          rw [← hl]; simp
        have hdrop : List.drop tsz (b1 ++ b2) = b2 := by
          rw [← hl]; simp
        have hr := readTrigger_packTrigger h1 hc ha hp []
        simp at hr
        rw [htake, hdrop, hr]
        simp [ih h2 (fun t' ht' => hall t' (by simp [ht']))]

end Richchk
