import RichchkModel.Lemmas.AllocLemmas
namespace Richchk

theorem allocRun_append (cfg : AllocCfg) (st : AllocSt) (a b : List Req) :
    allocRun cfg st (a ++ b) =
      match allocRun cfg st a with
      | .error e => .error e
      | .ok (ra, st1) =>
        match allocRun cfg st1 b with
        | .error e => .error e
        | .ok (rb, st2) => .ok (ra ++ rb, st2) := by
  induction a generalizing st with
  | nil =>
    simp only [List.nil_append, allocRun]
    cases allocRun cfg st b with
    | error e => rfl
    | ok p => rfl
  | cons r rs ih =>
    simp only [List.cons_append, allocRun]
    cases h1 : allocStep cfg st r with
    | error e => rfl
    | ok p =>
      obtain ⟨res, st1⟩ := p
      simp only
      rw [ih st1]
      cases h2 : allocRun cfg st1 rs with
      | error e => rfl
      | ok q =>
        obtain ⟨ra, st2⟩ := q
        simp only
        cases allocRun cfg st2 b with
        | error e => rfl
        | ok z => rfl

def inRange (cfg : AllocCfg) (i : Nat) : Bool := decide (cfg.lo ≤ i ∧ i ≤ cfg.hi)

/-- the index-carrying phase: fails iff some index is out of range; otherwise the free list
loses exactly the carried indices, the occupied set gains exactly them, and the slots placed
are the carried indices that were not occupied -/
theorem runCarries {cfg : AllocCfg} {occ0 : List Nat} (is : List Nat) {st : AllocSt}
    (hinv : AllocInv cfg occ0 st) :
    (is.all (inRange cfg) = false → allocRun cfg st (is.map .carry) = .error .value) ∧
    (is.all (inRange cfg) = true → ∃ ress st', allocRun cfg st (is.map .carry) = .ok (ress, st') ∧
      st'.free = st.free.filter (fun f => !is.contains f) ∧
      (∀ j, j ∈ st'.occ ↔ j ∈ st.occ ∨ j ∈ is) ∧
      (∀ j, j ∈ placedSlots ress ↔ j ∈ is ∧ j ∉ st.occ)) := by
  induction is generalizing st with
  | nil =>
    refine ⟨by simp, fun _ => ⟨[], st, rfl, ?_, by simp, by simp [placedSlots]⟩⟩
    simp only [List.contains_nil, Bool.not_false]
    exact (List.filter_eq_self.mpr (fun _ _ => rfl)).symm
  | cons i is ih =>
    constructor
    · intro hall
      simp only [List.all_cons, Bool.and_eq_false_iff] at hall
      simp only [List.map_cons, allocRun]
      by_cases hr : inRange cfg i = true
      · have hr' : ¬ (i < cfg.lo ∨ cfg.hi < i) := by simp [inRange] at hr; omega
        have hrest : is.all (inRange cfg) = false := by
          rcases hall with h | h
          · rw [hr] at h; cases h
          · exact h
        by_cases hocc : i ∈ st.occ
        · simp [allocStep, hr', hocc, (ih hinv).1 hrest]
        · have hstep := allocStep_carry (cfg := cfg) (st := st) (i := i) (by simp [inRange] at hr; exact hr) hocc
          have hinv1 := (allocStep_inv hinv hstep).1
          simp [hstep, (ih hinv1).1 hrest]
      · have hr' : (i < cfg.lo ∨ cfg.hi < i) := by simp [inRange] at hr; omega
        simp [allocStep, hr']
    · intro hall
      simp only [List.all_cons, Bool.and_eq_true] at hall
      obtain ⟨hr, hrest⟩ := hall
      have hr2 : cfg.lo ≤ i ∧ i ≤ cfg.hi := by simpa [inRange] using hr
      have hr' : ¬ (i < cfg.lo ∨ cfg.hi < i) := by omega
      simp only [List.map_cons, allocRun]
      by_cases hocc : i ∈ st.occ
      · obtain ⟨ress, st', hrun, hfree, hoccs, hpl⟩ := (ih hinv).2 hrest
        refine ⟨.skipped :: ress, st', by simp [allocStep, hr', hocc, hrun], ?_, ?_, ?_⟩
        · rw [hfree]
          apply List.filter_congr
          intro f hf
          have hfi : f ≠ i := fun hc => (hinv.freeOk f hf).1 (hc ▸ hocc)
          simp [hfi]
        · intro j; rw [hoccs j]; simp only [List.mem_cons]
          constructor
          · rintro (h | h); exact .inl h; exact .inr (.inr h)
          · rintro (h | rfl | h); exact .inl h; exact .inl hocc; exact .inr h
        · intro j; simp only [placedSlots, hpl j, List.mem_cons]
          constructor
          · rintro ⟨h1, h2⟩; exact ⟨.inr h1, h2⟩
          · rintro ⟨rfl | h1, h2⟩
            · exact absurd hocc h2
            · exact ⟨h1, h2⟩
      · have hstep := allocStep_carry (cfg := cfg) (st := st) (i := i) hr2 hocc
        have hinv1 := (allocStep_inv hinv hstep).1
        obtain ⟨ress, st', hrun, hfree, hoccs, hpl⟩ := (ih hinv1).2 hrest
        refine ⟨.placed i :: ress, st', by simp [hstep, hrun], ?_, ?_, ?_⟩
        · rw [hfree]
          simp only
          rw [List.Nodup.erase_eq_filter hinv.nodup, List.filter_filter]
          apply List.filter_congr
          intro f _
          by_cases hfi : f = i
          · simp [hfi]
          · simp [hfi]
        · intro j; rw [hoccs j]; simp only [List.mem_cons]
          constructor
          · rintro ((rfl | h) | h); exact .inr (.inl rfl); exact .inl h; exact .inr (.inr h)
          · rintro (h | rfl | h); exact .inl (.inr h); exact .inl (.inl rfl); exact .inr h
        · intro j; simp only [placedSlots, List.mem_cons, hpl j]
          constructor
          · rintro (rfl | ⟨h1, h2⟩)
            · exact ⟨.inl rfl, hocc⟩
            · exact ⟨.inr h1, fun hc => h2 (by simp [hc])⟩
          · rintro ⟨rfl | h1, h2⟩
            · exact .inl rfl
            · by_cases hji : j = i
              · exact .inl hji
              · exact .inr ⟨h1, by simp [hji, h2]⟩

/-- the fresh phase hands out the first `k` free ids, in order -/
theorem runFresh (cfg : AllocCfg) (k : Nat) (st : AllocSt) :
    (cfg.raiseWhenFull = true ∧ st.free.length < k →
      allocRun cfg st (List.replicate k .fresh) = .error .value) ∧
    (¬ (cfg.raiseWhenFull = true ∧ st.free.length < k) →
      ∃ ress st', allocRun cfg st (List.replicate k .fresh) = .ok (ress, st') ∧
        st'.free = st.free.drop k ∧ placedSlots ress = st.free.take k ∧
        (∀ j, j ∈ st'.occ ↔ j ∈ st.occ ∨ j ∈ st.free.take k)) := by
  induction k generalizing st with
  | zero =>
    refine ⟨by simp, fun _ => ⟨[], st, rfl, by simp, by simp [placedSlots], by simp⟩⟩
  | succ k ih =>
    constructor
    · rintro ⟨hr, hlen⟩
      simp only [List.replicate_succ, allocRun]
      cases hf : st.free with
      | nil => simp [allocStep, hf, hr]
      | cons f fs =>
        simp only [allocStep, hf]
        have := (ih ⟨f :: st.occ, fs⟩).1 ⟨hr, by simp [hf] at hlen; simpa using hlen⟩
        simp [this]
    · intro hno
      simp only [List.replicate_succ, allocRun]
      cases hf : st.free with
      | nil =>
        have hr : ¬ cfg.raiseWhenFull = true := by
          intro hr; exact hno ⟨hr, by simp [hf]⟩
        obtain ⟨ress, st', hrun, hfree, hpl, hocc⟩ := (ih st).2 (by simp [hr])
        refine ⟨.skipped :: ress, st', by simp [allocStep, hf, hr, hrun], ?_, ?_, ?_⟩
        · rw [hfree, hf]; simp
        · simp only [placedSlots, hpl, hf]; simp
        · intro j; rw [hocc j, hf]; simp
      | cons f fs =>
        have hno' : ¬ (cfg.raiseWhenFull = true ∧ fs.length < k) := by
          intro ⟨h1, h2⟩; exact hno ⟨h1, by simp [hf]; omega⟩
        obtain ⟨ress, st', hrun, hfree, hpl, hocc⟩ := (ih ⟨f :: st.occ, fs⟩).2 hno'
        refine ⟨.placed f :: ress, st', by simp [allocStep, hf, hrun], ?_, ?_, ?_⟩
        · rw [hfree]; simp
        · simp [placedSlots, hpl]
        · intro j; rw [hocc j]; simp only [List.mem_cons, List.take_succ_cons]
          constructor
          · rintro ((rfl | h) | h); exact .inr (.inl rfl); exact .inl h; exact .inr (.inr h)
          · rintro (h | rfl | h); exact .inl (.inr h); exact .inl (.inl rfl); exact .inr h

theorem carriedIdx_perm {a b : List Req} (h : a.Perm b) : (carriedIdx a).Perm (carriedIdx b) := by
  induction h with
  | nil => exact .nil
  | cons x _ ih => cases x <;> simp [carriedIdx, ih]
  | swap x y l =>
    cases x <;> cases y <;> simp [carriedIdx]
    exact List.Perm.swap _ _ _
  | trans _ _ ih1 ih2 => exact ih1.trans ih2

theorem freshCount_perm {a b : List Req} (h : a.Perm b) : freshCount a = freshCount b := by
  induction h with
  | nil => rfl
  | cons x _ ih => cases x <;> simp [freshCount, ih]
  | swap x y l => cases x <;> cases y <;> simp [freshCount]
  | trans _ _ ih1 ih2 => exact ih1.trans ih2

/-- order-independent description of `allocate`: whether it fails, the final free list, the
final occupied set and the set of slots placed depend only on the SET of carried indices and
the NUMBER of index-less objects -/
theorem allocate_spec (cfg : AllocCfg) (occ : List Nat) (reqs : List Req) :
    let is := carriedIdx reqs
    let k := freshCount reqs
    let freeC := (freeIds cfg occ).filter (fun f => !is.contains f)
    ((is.all (inRange cfg) = false ∨ (cfg.raiseWhenFull = true ∧ freeC.length < k)) →
      ∃ e, allocate cfg occ reqs = .error e) ∧
    (¬ (is.all (inRange cfg) = false ∨ (cfg.raiseWhenFull = true ∧ freeC.length < k)) →
      ∃ ress st', allocate cfg occ reqs = .ok (ress, st') ∧
        st'.free = freeC.drop k ∧
        (∀ j, j ∈ st'.occ ↔ j ∈ occ ∨ j ∈ is ∨ j ∈ freeC.take k) ∧
        (∀ j, j ∈ placedSlots ress ↔ (j ∈ is ∧ j ∉ occ) ∨ j ∈ freeC.take k)) := by
  intro is k freeC
  have hinv := freeIds_inv cfg occ
  unfold allocate carriedFirst
  rw [allocRun_append]
  constructor
  · rintro (hbad | hfull)
    · rw [(runCarries is hinv).1 hbad]; exact ⟨_, rfl⟩
    · by_cases hall : is.all (inRange cfg) = true
      · obtain ⟨r1, s1, hrun, hfree, _, _⟩ := (runCarries is hinv).2 hall
        rw [hrun]; simp only
        have := (runFresh cfg k s1).1 ⟨hfull.1, by rw [hfree]; exact hfull.2⟩
        rw [this]; exact ⟨_, rfl⟩
      · have hbad : is.all (inRange cfg) = false := by simpa using hall
        rw [(runCarries is hinv).1 hbad]; exact ⟨_, rfl⟩
  · intro hok
    have hall : is.all (inRange cfg) = true := by
      cases h : is.all (inRange cfg) with
      | true => rfl
      | false => exact absurd (.inl h) hok
    obtain ⟨r1, s1, hrun, hfree, hocc1, hpl1⟩ := (runCarries is hinv).2 hall
    rw [hrun]; simp only
    have hno : ¬ (cfg.raiseWhenFull = true ∧ s1.free.length < k) := by
      intro h; exact hok (.inr ⟨h.1, by rw [hfree] at h; exact h.2⟩)
    obtain ⟨r2, s2, hrun2, hfree2, hpl2, hocc2⟩ := (runFresh cfg k s1).2 hno
    rw [hrun2]
    refine ⟨r1 ++ r2, s2, rfl, by rw [hfree2, hfree], ?_, ?_⟩
    · intro j; rw [hocc2 j, hocc1 j, hfree]
      constructor
      · rintro ((h | h) | h); exact .inl h; exact .inr (.inl h); exact .inr (.inr h)
      · rintro (h | h | h); exact .inl (.inl h); exact .inl (.inr h); exact .inr h
    · intro j
      have happ : ∀ (a b : List Res), placedSlots (a ++ b) = placedSlots a ++ placedSlots b := by
        intro a b
        induction a with
        | nil => rfl
        | cons x xs ih => cases x <;> simp [placedSlots, ih]
      rw [happ, List.mem_append, hpl1 j, hpl2, hfree]

/-- **C14 at the allocator**: two iteration orders of the same batch either both fail or both
succeed, and then leave the same free list, occupy the same set of slots and hand out the
same set of new slots — only WHICH new object sits in which new slot may differ. -/
theorem allocate_perm (cfg : AllocCfg) (occ : List Nat) {r1 r2 : List Req} (h : r1.Perm r2) :
    ((∃ e, allocate cfg occ r1 = .error e) ↔ (∃ e, allocate cfg occ r2 = .error e)) ∧
    ∀ a s b t, allocate cfg occ r1 = .ok (a, s) → allocate cfg occ r2 = .ok (b, t) →
      s.free = t.free ∧ (∀ j, j ∈ s.occ ↔ j ∈ t.occ) ∧ (placedSlots a).Perm (placedSlots b) := by
  have hp := carriedIdx_perm h
  have hk := freshCount_perm h
  have hcont : ∀ f, (carriedIdx r1).contains f = (carriedIdx r2).contains f := by
    intro f
    have := hp.mem_iff (a := f)
    by_cases h1 : f ∈ carriedIdx r1
    · simp [h1, this.mp h1]
    · have h2 : f ∉ carriedIdx r2 := fun hc => h1 (this.mpr hc)
      simp [h1, h2]
  have hfreeC : (freeIds cfg occ).filter (fun f => !(carriedIdx r1).contains f) =
      (freeIds cfg occ).filter (fun f => !(carriedIdx r2).contains f) := by
    apply List.filter_congr; intro f _; rw [hcont f]
  have hall : (carriedIdx r1).all (inRange cfg) = (carriedIdx r2).all (inRange cfg) := by
    cases h1 : (carriedIdx r1).all (inRange cfg) <;> cases h2 : (carriedIdx r2).all (inRange cfg) <;> try rfl
    · rw [List.all_eq_true] at h2; rw [List.all_eq_false] at h1
      obtain ⟨x, hx, hxf⟩ := h1
      exact absurd (h2 x (hp.mem_iff.mp hx)) hxf
    · rw [List.all_eq_true] at h1; rw [List.all_eq_false] at h2
      obtain ⟨x, hx, hxf⟩ := h2
      exact absurd (h1 x (hp.mem_iff.mpr hx)) hxf
  have s1 := allocate_spec cfg occ r1
  have s2 := allocate_spec cfg occ r2
  simp only at s1 s2
  rw [hfreeC, hall, hk] at s1
  constructor
  · constructor
    · rintro ⟨e, he⟩
      by_cases hc : ((carriedIdx r2).all (inRange cfg) = false ∨ (cfg.raiseWhenFull = true ∧
          ((freeIds cfg occ).filter (fun f => !(carriedIdx r2).contains f)).length < freshCount r2))
      · exact s2.1 hc
      · obtain ⟨_, _, hok, _⟩ := s1.2 hc; rw [he] at hok; cases hok
    · rintro ⟨e, he⟩
      by_cases hc : ((carriedIdx r2).all (inRange cfg) = false ∨ (cfg.raiseWhenFull = true ∧
          ((freeIds cfg occ).filter (fun f => !(carriedIdx r2).contains f)).length < freshCount r2))
      · exact s1.1 hc
      · obtain ⟨_, _, hok, _⟩ := s2.2 hc; rw [he] at hok; cases hok
  · intro a s b t ha hb
    by_cases hc : ((carriedIdx r2).all (inRange cfg) = false ∨ (cfg.raiseWhenFull = true ∧
        ((freeIds cfg occ).filter (fun f => !(carriedIdx r2).contains f)).length < freshCount r2))
    · obtain ⟨e, he⟩ := s1.1 hc; rw [ha] at he; cases he
    · obtain ⟨a', s', ha', hf1, ho1, hp1⟩ := s1.2 hc
      obtain ⟨b', t', hb', hf2, ho2, hp2⟩ := s2.2 hc
      rw [ha] at ha'; rw [hb] at hb'
      cases ha'; cases hb'
      refine ⟨by rw [hf1, hf2], ?_, ?_⟩
      · intro j; rw [ho1 j, ho2 j]
        have := hp.mem_iff (a := j)
        constructor
        · rintro (h | h | h); exact .inl h; exact .inr (.inl (this.mp h)); exact .inr (.inr h)
        · rintro (h | h | h); exact .inl h; exact .inr (.inl (this.mpr h)); exact .inr (.inr h)
      · have hn1 := (allocRun_sound (freeIds_inv cfg occ) ha).2.1
        have hn2 := (allocRun_sound (freeIds_inv cfg occ) hb).2.1
        rw [List.perm_ext_iff_of_nodup hn1 hn2]
        intro j; rw [hp1 j, hp2 j]
        have := hp.mem_iff (a := j)
        constructor
        · rintro (⟨h1, h2⟩ | h); exact .inl ⟨this.mp h1, h2⟩; exact .inr h
        · rintro (⟨h1, h2⟩ | h); exact .inl ⟨this.mpr h1, h2⟩; exact .inr h

end Richchk
