import RichchkModel.Model.StrEdit
import RichchkModel.Lemmas.SectionLemmas
namespace Richchk

/-! ### reading a NUL-terminated string at a position -/

theorem cstrAt_drop (bs : Bytes) (p : Nat) : cstrAt bs p = cstrAt (bs.drop p) 0 := by
  induction bs generalizing p with
  | nil => simp [cstrAt]
  | cons b bs ih =>
    cases p with
    | zero => simp
    | succ p => simp only [cstrAt, List.drop_succ_cons]; exact ih p

theorem cstrAt0_append_of_some {a : Bytes} {s : Bytes} (b : Bytes) (h : cstrAt a 0 = some s) :
    cstrAt (a ++ b) 0 = some s := by
  induction a generalizing s with
  | nil => simp [cstrAt] at h
  | cons x xs ih =>
    simp only [List.cons_append, cstrAt] at h ⊢
    by_cases h0 : x = 0
    · simp only [h0, if_true] at h ⊢; exact h
    · simp only [h0, if_false] at h ⊢
      by_cases h128 : 128 ≤ x.toNat
      · simp [h128] at h
      · simp only [h128, if_false] at h ⊢
        cases hx : cstrAt xs 0 with
        | none => simp [hx] at h
        | some r => simp [hx] at h; subst h; simp [ih hx]

theorem cstrAt_append_of_some {a : Bytes} {p : Nat} {s : Bytes} (b : Bytes)
    (h : cstrAt a p = some s) : cstrAt (a ++ b) p = some s := by
  rw [cstrAt_drop] at h ⊢
  have hp : p ≤ a.length := by
    rcases Nat.lt_or_ge a.length p with hlt | hge
    · rw [List.drop_eq_nil_of_le (by omega)] at h; simp [cstrAt] at h
    · exact hge
  rw [List.drop_append_of_le_length hp]
  exact cstrAt0_append_of_some b h

theorem cstrAt_append_right (hdr d : Bytes) (o : Nat) (h : hdr.length ≤ o) :
    cstrAt (hdr ++ d) o = cstrAt d (o - hdr.length) := by
  rw [cstrAt_drop, cstrAt_drop d]
  congr 1
  rw [List.drop_append]
  have : List.drop o hdr = [] := List.drop_eq_nil_of_le h
  simp [this]

theorem cstrAt0_str {s : Bytes} (hs : Str7 s) (rest : Bytes) :
    cstrAt (s ++ (0 : UInt8) :: rest) 0 = some s := by
  induction s with
  | nil => simp [cstrAt]
  | cons b bs ih =>
    have hb := hs b (by simp)
    have := ih (fun c hc => hs c (by simp [hc]))
    simp only [List.cons_append, cstrAt, hb.2, if_false, this]
    have : ¬ 128 ≤ b.toNat := by omega
    simp [this]

theorem str7_drop {s : Bytes} (hs : Str7 s) (k : Nat) : Str7 (s.drop k) :=
  fun c hc => hs c (List.mem_of_mem_drop hc)

/-- inside well-formed string data every position reaches a NUL through 7-bit bytes -/
theorem cstrAt_join_isSome {ss : List Bytes} (h : ∀ s ∈ ss, Str7 s) {p : Nat}
    (hp : p < (joinStrings ss).length) : (cstrAt (joinStrings ss) p).isSome := by
  induction ss generalizing p with
  | nil => simp [joinStrings] at hp
  | cons s ss ih =>
    simp only [joinStrings] at hp ⊢
    rcases Nat.lt_or_ge s.length p with hgt | hle
    · -- p lies after this string's terminator
      have e : cstrAt (s ++ (0 : UInt8) :: joinStrings ss) p
          = cstrAt (joinStrings ss) (p - (s.length + 1)) := by
        have := cstrAt_append_right (s ++ [0]) (joinStrings ss) p (by simp; omega)
        simpa using this
      rw [e]
      apply ih (fun t ht => h t (by simp [ht]))
      simp at hp; omega
    · rw [cstrAt_drop]
      have : List.drop p (s ++ (0 : UInt8) :: joinStrings ss) = s.drop p ++ (0 : UInt8) :: joinStrings ss := by
        rw [List.drop_append_of_le_length hle]
      rw [this, cstrAt0_str (str7_drop (h s (by simp)) p)]
      rfl

/-- the string starting right after a well-formed prefix is read back whole -/
theorem cstrAt_join_at_start {pre : List Bytes} {s : Bytes} {post : List Bytes} (hs : Str7 s) :
    cstrAt (joinStrings (pre ++ s :: post)) (joinStrings pre).length = some s := by
  induction pre with
  | nil => simp only [List.nil_append, joinStrings, List.length_nil]; exact cstrAt0_str hs _
  | cons x xs ih =>
    simp only [List.cons_append, joinStrings]
    have := cstrAt_append_right (x ++ [0]) (joinStrings (xs ++ s :: post))
      ((x ++ (0 : UInt8) :: joinStrings xs).length) (by simp)
    simp only [List.append_assoc, List.singleton_append] at this
    rw [this]
    have e : (x ++ (0 : UInt8) :: joinStrings xs).length - (x ++ [(0 : UInt8)]).length = (joinStrings xs).length := by
      simp; omega
    rw [e]; exact ih

theorem joinStrings_append (a b : List Bytes) : joinStrings (a ++ b) = joinStrings a ++ joinStrings b := by
  induction a with
  | nil => rfl
  | cons x xs ih => simp [joinStrings, ih]

/-! ### well-formed tables -/

def StrTable.base (t : StrTable) : Nat := t.w + t.w * t.n
def StrTable.data (t : StrTable) : Bytes := joinStrings t.strs

/-- well-formed: one offset per id, every offset inside the string data, 7-bit strings,
count and offsets representable in the field width -/
structure StrTable.WF (t : StrTable) : Prop where
  count : t.n = t.offs.length
  strs7 : ∀ s ∈ t.strs, Str7 s
  inside : ∀ o ∈ t.offs, t.base ≤ o ∧ o < t.base + t.data.length
  nfits : t.n < 256 ^ t.w
  ofits : ∀ o ∈ t.offs, o < 256 ^ t.w

theorem packInts_of_lt {w : Nat} {vs : List Nat} (h : ∀ v ∈ vs, v < 256 ^ w) :
    ∃ b, packInts w vs = .ok b ∧ b.length = w * vs.length := by
  induction vs with
  | nil => exact ⟨[], rfl, by simp⟩
  | cons v vs ih =>
    obtain ⟨b, hb, hl⟩ := ih (fun x hx => h x (by simp [hx]))
    have hv := h v (by simp)
    refine ⟨leBytes w v ++ b, ?_, ?_⟩
    · simp [packInts, packInt, hv, hb]
    · simp [hl, Nat.mul_succ]; omega

theorem payload_of_wf {t : StrTable} (h : t.WF) :
    ∃ hdr, t.payload = .ok (hdr ++ t.data) ∧ hdr.length = t.base := by
  obtain ⟨b, hb, hl⟩ := packInts_of_lt h.ofits
  refine ⟨leBytes t.w t.n ++ b, ?_, ?_⟩
  · unfold StrTable.payload encodeStr
    have ht : List.take t.n t.offs = t.offs := by rw [h.count]; simp
    have hn := h.nfits
    simp only [packInt, hn, if_true, ht, hb]
    have : ¬ t.offs.length < t.n := by rw [h.count]; omega
    simp only [this, if_false, StrTable.data]
  · simp [hl, StrTable.base, h.count]

/-- id -> text in data coordinates -/
def resolveData (t : StrTable) (id : Nat) : Option Bytes :=
  if id = 0 then none else
  match t.offs[id - 1]? with
  | none => none
  | some o => cstrAt t.data (o - t.base)

theorem resolveId_eq_data {t : StrTable} (h : t.WF) (id : Nat) : resolveId t id = resolveData t id := by
  obtain ⟨hdr, hp, hl⟩ := payload_of_wf h
  unfold resolveId resolveData
  rw [hp]
  by_cases h0 : id = 0
  · simp [h0]
  · simp only [h0, if_false]
    cases ho : t.offs[id - 1]? with
    | none => rfl
    | some o =>
      have hmem : o ∈ t.offs := List.mem_of_getElem? ho
      have := (h.inside o hmem).1
      simp only
      rw [cstrAt_append_right hdr t.data o (by omega), hl]

/-- in a well-formed table every id resolves -/
theorem resolveData_isSome {t : StrTable} (h : t.WF) {id : Nat} (h1 : 1 ≤ id) (h2 : id ≤ t.n) :
    (resolveData t id).isSome := by
  unfold resolveData
  have h0 : ¬ id = 0 := by omega
  simp only [h0, if_false]
  have hlt : id - 1 < t.offs.length := by rw [← h.count]; omega
  rw [List.getElem?_eq_getElem hlt]
  have hmem : t.offs[id - 1] ∈ t.offs := List.getElem_mem hlt
  have := h.inside _ hmem
  exact cstrAt_join_isSome h.strs7 (by unfold StrTable.data at this; omega)

end Richchk
