import RichchkModel.Model.Section
namespace Richchk

/-! ### arrays -/

theorem packArrays_readArrays {fs : List ArrField} {bs rest : Bytes} {vs : List (List Nat)}
    (h : readArrays fs bs = .ok (vs, rest)) :
    arraysSize fs ≤ bs.length ∧ packArrays fs vs = .ok (bs.take (arraysSize fs)) ∧
      rest = bs.drop (arraysSize fs) := by
  induction fs generalizing bs vs rest with
  | nil => simp [readArrays] at h; obtain ⟨h1, h2⟩ := h; subst h1 h2; simp [packArrays, arraysSize]
  | cons f fs ih =>
    simp only [readArrays] at h
    split at h
    · simp at h
    · rename_i v r1 h1
      split at h
      · simp at h
      · rename_i vs' r2 h2
        simp at h; obtain ⟨hv, hr⟩ := h; subst hv hr
        obtain ⟨hl, hlen, hp, hr1⟩ := packInts_readInts h1
        obtain ⟨hlen2, hps, hrest⟩ := ih h2
        subst hr1
        simp at hlen2
        have e1 : List.take (arraysSize (f :: fs)) bs =
            List.take (f.width * f.count) bs ++ List.take (arraysSize fs) (bs.drop (f.width * f.count)) := by
          simp only [arraysSize]; rw [List.take_add]
        refine ⟨by simp only [arraysSize]; omega, ?_, ?_⟩
        · simp only [packArrays, hl, ne_eq, not_true_eq_false, if_false, hp, hps, e1]
        · rw [hrest, List.drop_drop]; simp only [arraysSize]

theorem packArrays_length {fs : List ArrField} {vs : List (List Nat)} {b : Bytes}
    (h : packArrays fs vs = .ok b) : b.length = arraysSize fs := by
  induction fs generalizing vs b with
  | nil => cases vs <;> simp [packArrays] at h; subst h; simp [arraysSize]
  | cons f fs ih =>
    cases vs with
    | nil => simp [packArrays] at h
    | cons v vs =>
      simp only [packArrays] at h
      split at h
      · simp at h
      · rename_i hc
        split at h
        · simp at h
        · rename_i b1 h1
          split at h
          · simp at h
          · rename_i b2 h2
            simp at h; subst h
            simp at hc
            simp [arraysSize, packInts_length h1, ih h2, hc]

theorem readArrays_packArrays {fs : List ArrField} {vs : List (List Nat)} {b : Bytes}
    (h : packArrays fs vs = .ok b) (rest : Bytes) :
    readArrays fs (b ++ rest) = .ok (vs, rest) := by
  induction fs generalizing vs b with
  | nil => cases vs <;> simp [packArrays] at h; subst h; simp [readArrays]
  | cons f fs ih =>
    cases vs with
    | nil => simp [packArrays] at h
    | cons v vs =>
      simp only [packArrays] at h
      split at h
      · simp at h
      · rename_i hc
        split at h
        · simp at h
        · rename_i b1 h1
          split at h
          · simp at h
          · rename_i b2 h2
            simp at h; subst h
            simp at hc
            have := readInts_packInts h1 (b2 ++ rest)
            rw [hc] at this
            simp only [readArrays, List.append_assoc, this, ih h2]

/-! ### records -/

theorem packRecs_readRecs {ws : List Nat} {n : Nat} {bs rest : Bytes} {rs : List (List Nat)}
    (h : readRecs ws n bs = .ok (rs, rest)) :
    rs.length = n ∧ sumList ws * n ≤ bs.length ∧
      packRecs ws rs = .ok (bs.take (sumList ws * n)) ∧ rest = bs.drop (sumList ws * n) := by
  induction n generalizing bs rs rest with
  | zero => simp [readRecs] at h; obtain ⟨h1, h2⟩ := h; subst h1 h2; simp [packRecs]
  | succ n ih =>
    simp only [readRecs] at h
    split at h
    · simp at h
    · rename_i v r1 h1
      split at h
      · simp at h
      · rename_i vs' r2 h2
        simp at h; obtain ⟨hv, hr⟩ := h; subst hv hr
        obtain ⟨_, hlen, hp, hr1⟩ := packRec_readRec h1
        obtain ⟨hl, hlen2, hps, hrest⟩ := ih h2
        subst hr1
        simp at hlen2
        have e1 : List.take (sumList ws * (n+1)) bs =
            List.take (sumList ws) bs ++ List.take (sumList ws * n) (bs.drop (sumList ws)) := by
          rw [Nat.mul_succ, Nat.add_comm, List.take_add]
        refine ⟨by simp [hl], by rw [Nat.mul_succ]; omega, ?_, ?_⟩
        · simp only [packRecs, hp, hps, e1]
        · rw [hrest, List.drop_drop, Nat.mul_succ, Nat.add_comm]

theorem packRecs_length {ws : List Nat} {rs : List (List Nat)} {b : Bytes}
    (h : packRecs ws rs = .ok b) : b.length = sumList ws * rs.length := by
  induction rs generalizing b with
  | nil => simp [packRecs] at h; subst h; simp
  | cons r rs ih =>
    simp only [packRecs] at h
    split at h
    · simp at h
    · rename_i b1 h1
      split at h
      · simp at h
      · rename_i b2 h2
        simp at h; subst h
        simp [(packRec_length h1).1, ih h2, Nat.mul_succ]; omega

theorem readRecs_packRecs {ws : List Nat} {rs : List (List Nat)} {b : Bytes}
    (h : packRecs ws rs = .ok b) (rest : Bytes) :
    readRecs ws rs.length (b ++ rest) = .ok (rs, rest) := by
  induction rs generalizing b with
  | nil => simp [packRecs] at h; subst h; simp [readRecs]
  | cons r rs ih =>
    simp only [packRecs] at h
    split at h
    · simp at h
    · rename_i b1 h1
      split at h
      · simp at h
      · rename_i b2 h2
        simp at h; subst h
        simp only [List.length_cons, readRecs, List.append_assoc, readRec_packRec h1, ih h2]

/-- records-until-EOF: what was read re-packs to exactly the input -/
theorem packRecs_readRecsEof {ws : List Nat} {bs : Bytes} {rs : List (List Nat)}
    (h : readRecsEof ws bs = .ok rs) : packRecs ws rs = .ok bs := by
  induction hn : bs.length using Nat.strongRecOn generalizing bs rs with
  | _ n ih =>
    rw [readRecsEof] at h
    split at h
    · simp at h
    · split at h
      · rename_i hb; simp at h; subst h hb; simp [packRecs]
      · split at h
        · simp at h
        · rename_i v rest h1
          split at h
          · simp at h
          · rename_i vs h2
            simp at h; subst h
            obtain ⟨_, hlen, hp, hr⟩ := packRec_readRec h1
            subst hr
            have hlt : (List.drop (sumList ws) bs).length < n := by
              simp; omega
            have := ih _ hlt h2 rfl
            simp only [packRecs, hp, this]
            simp

theorem readRecsEof_packRecs {ws : List Nat} (hpos : 0 < sumList ws) {rs : List (List Nat)}
    {b : Bytes} (h : packRecs ws rs = .ok b) : readRecsEof ws b = .ok rs := by
  induction rs generalizing b with
  | nil =>
    simp [packRecs] at h; subst h
    rw [readRecsEof]; simp; omega
  | cons r rs ih =>
    simp only [packRecs] at h
    split at h
    · simp at h
    · rename_i b1 h1
      split at h
      · simp at h
      · rename_i b2 h2
        simp at h; subst h
        have hl := (packRec_length h1).1
        rw [readRecsEof]
        have hne : b1 ++ b2 ≠ [] := by
          intro hc; have := congrArg List.length hc
          simp only [List.length_append, List.length_nil] at this; omega
        have hz : ¬ sumList ws = 0 := by omega
        simp only [hz, hne, dite_false]
        split
        · rename_i e he; rw [readRec_packRec h1] at he; simp at he
        · rename_i v rest he
          rw [readRec_packRec h1] at he; simp at he
          obtain ⟨hv, hr⟩ := he; subst hv hr
          simp [ih h2]

/-! ### strings -/

def Str7 (s : Bytes) : Prop := ∀ b ∈ s, b.toNat < 128 ∧ b ≠ 0

theorem splitStrings_join {ss : List Bytes} (h : ∀ s ∈ ss, Str7 s) :
    splitStrings (joinStrings ss) = .ok ss := by
  induction ss with
  | nil => simp [joinStrings, splitStrings]
  | cons s ss ih =>
    have hs := h s (by simp)
    have ih' := ih (fun t ht => h t (by simp [ht]))
    induction s with
    | nil => simp [joinStrings, splitStrings, ih']
    | cons b s ihs =>
      have hb := hs b (by simp)
      have hs' : Str7 s := fun c hc => hs c (by simp [hc])
      have := ihs (fun t ht => by
        simp at ht; rcases ht with rfl | ht
        · exact hs'
        · exact h t (by simp [ht])) hs'
      simp only [joinStrings, List.cons_append, splitStrings] at this ⊢
      have hlt : ¬ 128 ≤ b.toNat := by omega
      simp only [hlt, if_false, this, hb.2]

theorem join_splitStrings {bs : Bytes} {ss : List Bytes} (h : splitStrings bs = .ok ss) :
    joinStrings ss = bs ∧ ∀ s ∈ ss, Str7 s := by
  induction bs generalizing ss with
  | nil => simp [splitStrings] at h; subst h; simp [joinStrings]
  | cons b bs ih =>
    simp only [splitStrings] at h
    split at h
    · simp at h
    · rename_i hb
      split at h
      · simp at h
      · rename_i ss' h1
        obtain ⟨hj, h7⟩ := ih h1
        split at h
        · rename_i hz
          simp at h; subst h hz
          refine ⟨by simp [joinStrings, hj], ?_⟩
          intro s hs; simp at hs
          rcases hs with rfl | hs
          · intro c hc; simp at hc
          · exact h7 s hs
        · rename_i hz
          split at h
          · simp at h
          · rename_i s ss''
            simp at h; subst h
            refine ⟨by simpa [joinStrings] using hj, ?_⟩
            intro t ht; simp at ht
            rcases ht with rfl | ht
            · intro c hc; simp at hc
              rcases hc with rfl | hc
              · exact ⟨by omega, hz⟩
              · exact h7 s (by simp) c hc
            · exact h7 t (by simp [ht])

end Richchk
