/-
When nothing new has to be placed, the location / unit-property rebuilds do not depend on the
iteration order of the sets they collect: every request carries an occupied slot number and is
skipped, so the rebuilt list is the existing table.
-/
import RichchkModel.Lemmas.RichLemmas
import RichchkModel.Lemmas.AllocLemmas
namespace Richchk

theorem allocRun_all_occupied (cfg : AllocCfg) (st : AllocSt) (is : List Nat)
    (hr : ∀ i ∈ is, ¬ (i < cfg.lo ∨ cfg.hi < i)) (ho : ∀ i ∈ is, i ∈ st.occ) :
    allocRun cfg st (is.map Req.carry) = .ok (is.map fun _ => Res.skipped, st) := by
  induction is with
  | nil => rfl
  | cons i is ih =>
    have h1 := hr i (by simp)
    have h2 := ho i (by simp)
    simp only [List.map_cons, allocRun, allocStep, h1, if_false, h2, if_true]
    rw [ih (fun j hj => hr j (List.mem_cons_of_mem _ hj)) (fun j hj => ho j (List.mem_cons_of_mem _ hj))]

theorem carriedIdx_all_carry (is : List Nat) : carriedIdx (is.map Req.carry) = is := by
  induction is with
  | nil => rfl
  | cons i is ih => simp [carriedIdx, ih]

theorem freshCount_all_carry (is : List Nat) : freshCount (is.map Req.carry) = 0 := by
  induction is with
  | nil => rfl
  | cons i is ih => simp [freshCount, ih]

theorem carriedFirst_all_carry (is : List Nat) : carriedFirst (is.map Req.carry) = is.map Req.carry := by
  simp [carriedFirst, carriedIdx_all_carry, freshCount_all_carry]

/-- all requests carry occupied in-range slot numbers: nothing is placed, whatever their order -/
theorem allocate_all_occupied (cfg : AllocCfg) (occ : List Nat) (is : List Nat)
    (hr : ∀ i ∈ is, ¬ (i < cfg.lo ∨ cfg.hi < i)) (ho : ∀ i ∈ is, i ∈ occ) :
    allocate cfg occ (is.map Req.carry) = .ok (is.map fun _ => Res.skipped, ⟨occ, freeIds cfg occ⟩) := by
  unfold allocate
  rw [carriedFirst_all_carry]
  exact allocRun_all_occupied cfg _ is hr ho

theorem zip_skipped_filterMap {α β} (xs : List α) (f : α → Nat → β) :
    ((xs.zip (xs.map fun _ => Res.skipped)).filterMap fun (p : α × Res) => match p.2 with
      | .placed s => some (f p.1 s)
      | .skipped => none) = [] := by
  induction xs with
  | nil => rfl
  | cons x xs ih => simp [List.zip_cons_cons, List.filterMap_cons, ih]


namespace Richchk

theorem dedupAux_subset {α} (same : α → α → Bool) (xs kept : List α) :
    ∀ x ∈ dedupAux same xs kept, x ∈ xs ∨ x ∈ kept := by
  induction xs generalizing kept with
  | nil => intro x hx; simp [dedupAux] at hx; exact .inr hx
  | cons y ys ih =>
    intro x hx
    simp only [dedupAux] at hx
    split at hx
    · rcases ih kept x hx with h | h
      · exact .inl (List.mem_cons_of_mem _ h)
      · exact .inr h
    · rcases ih (y :: kept) x hx with h | h
      · exact .inl (List.mem_cons_of_mem _ h)
      · rcases List.mem_cons.mp h with h | h
        · subst h; exact .inl (by simp)
        · exact .inr h

theorem dedupBy_subset {α} (same : α → α → Bool) (xs : List α) : ∀ x ∈ dedupBy same xs, x ∈ xs := by
  intro x hx
  rcases dedupAux_subset same xs [] x hx with h | h
  · exact h
  · simp at h

theorem allocOrder_subset {α} (order : Option (List Nat)) (xs : List α) : ∀ x ∈ allocOrder order xs, x ∈ xs := by
  intro x hx
  cases order with
  | none => exact hx
  | some o =>
    simp only [allocOrder, List.mem_filterMap] at hx
    obtain ⟨i, _, hi⟩ := hx
    exact List.mem_of_getElem? hi

/-- **the unit-property rebuild of a save that adds nothing is the existing table, for every
iteration order**: when every set the triggers reference either carries the slot number of a stored
entry or equals a stored set, nothing is allocated and the order in which the sets are visited is
irrelevant -/
theorem rebuildUprp_order_free (cfg : RichCfg) (secs : List RSection) (table : List RCuwp)
    (hsec : secs.filter (isSectionNamed nUPRP) = [.uprp table])
    (hidx : ∀ t ∈ table, t.idx.isSome)
    (hfound : ∀ c ∈ (secs.filter (fun s => !isSectionNamed nUPRP s)).flatMap (sectionCuwps cfg),
      (∃ i, c.idx = some i ∧ ¬ (i < cfg.uprpCfg.lo ∨ cfg.uprpCfg.hi < i) ∧ i ∈ table.filterMap (·.idx)) ∨
      (c.idx = none ∧ table.any (fun t => t.key == c.key) = true))
    (order : Option (List Nat)) : rebuildUprp cfg secs order = .ok table := by
  unfold rebuildUprp
  simp only [hsec]
  have hnone : table.any (·.idx.isNone) = false := by
    rw [List.any_eq_false]; intro t ht; have := hidx t ht; cases h : t.idx <;> simp_all
  simp only [hnone, Bool.false_eq_true, if_false]
  -- the requests
  generalize hb : allocOrder order (dedupBy (fun a b => a.key == b.key)
      ((secs.filter (fun s => !isSectionNamed nUPRP s)).flatMap (sectionCuwps cfg))) = batch
  have hbatch : ∀ c ∈ batch,
      (∃ i, c.idx = some i ∧ ¬ (i < cfg.uprpCfg.lo ∨ cfg.uprpCfg.hi < i) ∧ i ∈ table.filterMap (·.idx)) ∨
      (c.idx = none ∧ table.any (fun t => t.key == c.key) = true) := by
    intro c hc
    rw [← hb] at hc
    exact hfound c (dedupBy_subset _ _ c (allocOrder_subset _ _ c hc))
  -- everything that needs handling carries an occupied slot number
  have hneed : ∀ c ∈ batch.filter (fun c => c.idx.isSome || !(table.any fun t => t.key == c.key)),
      ∃ i, c.idx = some i ∧ ¬ (i < cfg.uprpCfg.lo ∨ cfg.uprpCfg.hi < i) ∧ i ∈ table.filterMap (·.idx) := by
    intro c hc
    simp only [List.mem_filter] at hc
    rcases hbatch c hc.1 with h | ⟨h1, h2⟩
    · exact h
    · simp [h1, h2] at hc
  generalize batch.filter (fun c => c.idx.isSome || !(table.any fun t => t.key == c.key)) = need at hneed
  have hfresh : need.filter (fun c => c.idx.isNone) = [] := by
    rw [List.filter_eq_nil_iff]; intro c hc
    obtain ⟨i, hi, _⟩ := hneed c hc; simp [hi]
  have hcar : need.filter (fun c => c.idx.isSome) = need := by
    rw [List.filter_eq_self]; intro c hc
    obtain ⟨i, hi, _⟩ := hneed c hc; simp [hi]
  have hreq : ∀ (f : RCuwp → Req), (∀ c i, c.idx = some i → f c = Req.carry i) →
      need.map f = (need.filterMap (·.idx)).map Req.carry := by
    intro f hf
    clear hfresh hcar
    induction need with
    | nil => rfl
    | cons c cs ih =>
      obtain ⟨i, hi, _⟩ := hneed c (by simp)
      simp only [List.map_cons, hi, List.filterMap_cons, hf c i hi]
      rw [ih (fun d hd => hneed d (List.mem_cons_of_mem _ hd))]
  have hlen : (need.filterMap (·.idx)).map (fun _ => Res.skipped) = need.map (fun _ => Res.skipped) := by
    clear hfresh hcar hreq
    induction need with
    | nil => rfl
    | cons c cs ih =>
      obtain ⟨i, hi, _⟩ := hneed c (by simp)
      simp only [List.map_cons, hi, List.filterMap_cons]
      rw [ih (fun d hd => hneed d (List.mem_cons_of_mem _ hd))]
  have hall := allocate_all_occupied cfg.uprpCfg (table.filterMap (·.idx)) (need.filterMap (·.idx))
    (by intro i hi; simp only [List.mem_filterMap] at hi; obtain ⟨c, hc, hci⟩ := hi
        obtain ⟨j, hj, hr, _⟩ := hneed c hc; rw [hj] at hci; cases hci; exact hr)
    (by intro i hi; simp only [List.mem_filterMap] at hi; obtain ⟨c, hc, hci⟩ := hi
        obtain ⟨j, hj, _, ho⟩ := hneed c hc; rw [hj] at hci; cases hci; exact ho)
  rw [hlen] at hall
  have hz : ∀ (g : RCuwp × Res → Option RCuwp), (∀ c, g (c, Res.skipped) = none) →
      (need.zip (need.map fun _ => Res.skipped)).filterMap g = [] := by
    intro g hg
    clear hfresh hcar hreq hlen hall hneed
    induction need with
    | nil => rfl
    | cons c cs ih => simp [List.zip_cons_cons, List.filterMap_cons, hg, ih]
  simp only [hfresh, hcar, List.append_nil]
  rw [hreq _ (fun c i hi => by simp [hi]), hall]
  simp only
  rw [hz _ (fun c => rfl), List.append_nil]

/-- **the location rebuild of a save that adds nothing is the existing table, for every iteration
order** -/
theorem rebuildMrgn_order_free (cfg : RichCfg) (secs : List RSection) (table : List RLoc)
    (hsec : secs.filter (isSectionNamed nMRGN) = [.mrgn table])
    (hidx : ∀ t ∈ table, t.idx.isSome)
    (hfound : ∀ l ∈ (secs.filter (fun s => !isSectionNamed nMRGN s)).flatMap (sectionLocs cfg),
      ∃ i, l.idx = some i ∧ ¬ (i < cfg.mrgnCfg.lo ∨ cfg.mrgnCfg.hi < i) ∧ i ∈ table.filterMap (·.idx))
    (order : Option (List Nat)) : rebuildMrgn cfg secs order = .ok (table, []) := by
  unfold rebuildMrgn
  simp only [hsec]
  have hnone : table.any (·.idx.isNone) = false := by
    rw [List.any_eq_false]; intro t ht; have := hidx t ht; cases h : t.idx <;> simp_all
  simp only [hnone, Bool.false_eq_true, if_false]
  generalize hb : allocOrder order (dedupBy RLoc.same
      ((secs.filter (fun s => !isSectionNamed nMRGN s)).flatMap (sectionLocs cfg))) = batch
  have hneed : ∀ l ∈ batch, ∃ i, l.idx = some i ∧ ¬ (i < cfg.mrgnCfg.lo ∨ cfg.mrgnCfg.hi < i) ∧ i ∈ table.filterMap (·.idx) := by
    intro l hl
    rw [← hb] at hl
    exact hfound l (dedupBy_subset _ _ l (allocOrder_subset _ _ l hl))
  have hfresh : batch.filter (fun l => l.idx.isNone) = [] := by
    rw [List.filter_eq_nil_iff]; intro l hl
    obtain ⟨i, hi, _⟩ := hneed l hl; simp [hi]
  have hcar : batch.filter (fun l => l.idx.isSome) = batch := by
    rw [List.filter_eq_self]; intro l hl
    obtain ⟨i, hi, _⟩ := hneed l hl; simp [hi]
  have hreq : ∀ (f : RLoc → Req), (∀ l i, l.idx = some i → f l = Req.carry i) →
      batch.map f = (batch.filterMap (·.idx)).map Req.carry := by
    intro f hf
    clear hfresh hcar hb
    induction batch with
    | nil => rfl
    | cons c cs ih =>
      obtain ⟨i, hi, _⟩ := hneed c (by simp)
      simp only [List.map_cons, hi, List.filterMap_cons, hf c i hi]
      rw [ih (fun d hd => hneed d (List.mem_cons_of_mem _ hd))]
  have hlen : (batch.filterMap (·.idx)).map (fun _ => Res.skipped) = batch.map (fun _ => Res.skipped) := by
    clear hfresh hcar hreq hb
    induction batch with
    | nil => rfl
    | cons c cs ih =>
      obtain ⟨i, hi, _⟩ := hneed c (by simp)
      simp only [List.map_cons, hi, List.filterMap_cons]
      rw [ih (fun d hd => hneed d (List.mem_cons_of_mem _ hd))]
  have hall := allocate_all_occupied cfg.mrgnCfg (table.filterMap (·.idx)) (batch.filterMap (·.idx))
    (by intro i hi; simp only [List.mem_filterMap] at hi; obtain ⟨c, hc, hci⟩ := hi
        obtain ⟨j, hj, hr, _⟩ := hneed c hc; rw [hj] at hci; cases hci; exact hr)
    (by intro i hi; simp only [List.mem_filterMap] at hi; obtain ⟨c, hc, hci⟩ := hi
        obtain ⟨j, hj, _, ho⟩ := hneed c hc; rw [hj] at hci; cases hci; exact ho)
  rw [hlen] at hall
  have hz : ∀ (g : RLoc × Res → Option (RLoc × Nat)), (∀ c, g (c, Res.skipped) = none) →
      (batch.zip (batch.map fun _ => Res.skipped)).filterMap g = [] := by
    intro g hg
    clear hfresh hcar hreq hlen hall hneed hb
    induction batch with
    | nil => rfl
    | cons c cs ih => simp [List.zip_cons_cons, List.filterMap_cons, hg, ih]
  simp only [hfresh, hcar, List.append_nil]
  rw [hreq _ (fun c i hi => by simp [hi]), hall]
  simp only
  rw [hz _ (fun c => rfl)]
  simp

end Richchk
