/-
Soundness of the alias check: if `check σ params owned body` holds then no execution of the body
changes any cell that existed before the call, except the cells the caller handed over (`owned`).
-/
import RichchkModel.Model.Alias
namespace Richchk.Alias

/-- ghost kind of a cell: `none` = not ours; `some k` = allocated by this call (or handed over) at
kind `k ∈ {fresh1, fresh2, deep}` -/
abbrev Kinds := Nat → Option AVal

/-- the invariant tying the declared kinds to a concrete state -/
structure Inv (n0 : Nat) (heap0 : Nat → List Nat) (O : Nat → Prop) (σ : AEnv) (K : Kinds) (st : St) : Prop where
  frame : ∀ c, c < n0 → ¬ O c → st.heap c = heap0 c
  next_ge : n0 ≤ st.next
  var_kind : ∀ x c, st.env x = some c → σ.get x ≠ .any → K c = some (σ.get x)
  kind_new : ∀ c k, K c = some k → k ≠ .any ∧ c < st.next ∧ (c < n0 → O c)
  kind2 : ∀ c, K c = some .fresh2 → ∀ d ∈ st.heap c, K d = some .fresh1
  kindD : ∀ c, K c = some .deep → ∀ d ∈ st.heap c, K d = some .deep

theorem cellsOf_mem {st : St} {ys : List Var} {d : Nat} (h : d ∈ cellsOf st ys) :
    ∃ y ∈ ys, st.env y = some d := by
  simpa [cellsOf, List.mem_filterMap] using h

/-- allocating a cell for `x` whose contents fit `x`'s declared kind -/
theorem Inv.alloc {n0 heap0 O σ K st} (I : Inv n0 heap0 O σ K st) (x : Var) (children : List Nat)
    (h2 : σ.get x = .fresh2 → ∀ d ∈ children, K d = some .fresh1)
    (hD : σ.get x = .deep → ∀ d ∈ children, K d = some .deep) :
    ∃ K', Inv n0 heap0 O σ K' (st.alloc x children) := by
  have hnone : K st.next = none := by
    cases hk : K st.next with
    | none => rfl
    | some k => have := (I.kind_new _ k hk).2.1; omega
  by_cases hx : σ.get x = .any
  · refine ⟨K, ?_⟩
    constructor
    · intro c hc ho
      have : c ≠ st.next := by have := I.next_ge; omega
      simp [St.alloc, this, I.frame c hc ho]
    · simp [St.alloc]; have := I.next_ge; omega
    · intro y c hy hv
      simp only [St.alloc] at hy
      split at hy
      · rename_i hyx; subst hyx; exact absurd hx hv
      · exact I.var_kind y c hy hv
    · intro c k hk
      have := I.kind_new c k hk
      exact ⟨this.1, by simp [St.alloc]; omega, this.2.2⟩
    · intro c hc d hd
      have hlt := (I.kind_new c _ hc).2.1
      have : c ≠ st.next := by omega
      simp only [St.alloc, this, if_false] at hd
      exact I.kind2 c hc d hd
    · intro c hc d hd
      have hlt := (I.kind_new c _ hc).2.1
      have : c ≠ st.next := by omega
      simp only [St.alloc, this, if_false] at hd
      exact I.kindD c hc d hd
  · -- the new cell gets the declared kind
    have hmono : ∀ d k, K d = some k → (fun c => if c = st.next then some (σ.get x) else K c) d = some k := by
      intro d k hk
      have : d ≠ st.next := by have := (I.kind_new d k hk).2.1; omega
      simp [this, hk]
    refine ⟨fun c => if c = st.next then some (σ.get x) else K c, ?_⟩
    constructor
    · intro c hc ho
      have : c ≠ st.next := by have := I.next_ge; omega
      simp [St.alloc, this, I.frame c hc ho]
    · simp [St.alloc]; have := I.next_ge; omega
    · intro y c hy hv
      simp only [St.alloc] at hy
      split at hy
      · rename_i hyx; subst hyx; cases hy; simp
      · exact hmono c _ (I.var_kind y c hy hv)
    · intro c k hk
      by_cases hc : c = st.next
      · subst hc
        simp at hk; subst hk
        refine ⟨hx, by simp [St.alloc], fun h => ?_⟩
        have := I.next_ge; omega
      · simp only [hc, if_false] at hk
        have := I.kind_new c k hk
        exact ⟨this.1, by simp [St.alloc]; omega, this.2.2⟩
    · intro c hc d hd
      by_cases hcn : c = st.next
      · subst hcn
        simp at hc
        simp only [St.alloc, if_true] at hd
        exact hmono d _ (h2 hc d hd)
      · simp only [hcn, if_false] at hc
        simp only [St.alloc, hcn, if_false] at hd
        exact hmono d _ (I.kind2 c hc d hd)
    · intro c hc d hd
      by_cases hcn : c = st.next
      · subst hcn
        simp at hc
        simp only [St.alloc, if_true] at hd
        exact hmono d _ (hD hc d hd)
      · simp only [hcn, if_false] at hc
        simp only [St.alloc, hcn, if_false] at hd
        exact hmono d _ (I.kindD c hc d hd)

/-- rebinding a variable to a cell of the variable's declared kind -/
theorem Inv.bind {n0 heap0 O σ K st} (I : Inv n0 heap0 O σ K st) (x : Var) (c : Nat)
    (hk : σ.get x ≠ .any → K c = some (σ.get x)) : Inv n0 heap0 O σ K (st.bind x c) := by
  constructor
  · exact I.frame
  · exact I.next_ge
  · intro y d hy hv
    simp only [St.bind] at hy
    split at hy
    · rename_i hyx; subst hyx; cases hy; exact hk hv
    · exact I.var_kind y d hy hv
  · exact I.kind_new
  · exact I.kind2
  · exact I.kindD

theorem step_preserves {n0 heap0 O σ params owned body} (hchk : check σ params owned body = true)
    {s : Stmt} (hs : s ∈ body) {st : St} (ch : Choice)
    (hI : ∃ K, Inv n0 heap0 O σ K st) : ∃ K, Inv n0 heap0 O σ K (step st ch s) := by
  obtain ⟨K, I⟩ := hI
  simp only [check, Bool.and_eq_true] at hchk
  have hok := List.all_eq_true.mp hchk.2 s hs
  cases s with
  | assign x r =>
    simp only [stmtOk] at hok
    cases r with
    | new ys =>
      simp only [step]
      refine I.alloc x _ ?_ ?_
      · intro hx d hd
        rw [hx] at hok
        simp only [rhsOk] at hok
        obtain ⟨y, hy, hey⟩ := cellsOf_mem hd
        have hyk : σ.get y = .fresh1 := by simpa using List.all_eq_true.mp hok y hy
        have := I.var_kind y d hey (by rw [hyk]; simp)
        rwa [hyk] at this
      · intro hx d hd
        rw [hx] at hok
        simp only [rhsOk] at hok
        obtain ⟨y, hy, hey⟩ := cellsOf_mem hd
        have hyk : σ.get y = .deep := by simpa using List.all_eq_true.mp hok y hy
        have := I.var_kind y d hey (by rw [hyk]; simp)
        rwa [hyk] at this
    | shallow y =>
      simp only [step]
      cases hy : st.env y with
      | none => exact ⟨K, I⟩
      | some c =>
        refine I.alloc x _ ?_ ?_
        · intro hx d hd
          rw [hx] at hok
          simp only [rhsOk] at hok
          have hyk : σ.get y = .fresh2 := by simpa using hok
          have := I.var_kind y c hy (by rw [hyk]; simp)
          rw [hyk] at this
          exact I.kind2 c this d hd
        · intro hx d hd
          rw [hx] at hok
          simp only [rhsOk] at hok
          have hyk : σ.get y = .deep := by simpa using hok
          have := I.var_kind y c hy (by rw [hyk]; simp)
          rw [hyk] at this
          exact I.kindD c this d hd
    | alias y =>
      simp only [step]
      cases hy : st.env y with
      | none => exact ⟨K, I⟩
      | some c =>
        refine ⟨K, I.bind x c ?_⟩
        intro hx
        simp only [rhsOk, Bool.or_eq_true] at hok
        rcases hok with h | h
        · exact absurd (by simpa using h) hx
        · have hyk : σ.get y = σ.get x := by simpa using h
          have := I.var_kind y c hy (by rw [hyk]; exact hx)
          rwa [hyk] at this
    | elem y =>
      simp only [step]
      cases hy : st.env y with
      | none => exact ⟨K, I⟩
      | some c =>
        simp only
        cases hk : (st.heap c)[ch.k]? with
        | none => exact ⟨K, I⟩
        | some d =>
          have hmem : d ∈ st.heap c := List.mem_of_getElem? hk
          refine ⟨K, I.bind x d ?_⟩
          intro hx
          cases hxv : σ.get x with
          | any => exact absurd hxv hx
          | fresh1 =>
            rw [hxv] at hok
            simp only [rhsOk] at hok
            have hyk : σ.get y = .fresh2 := by simpa using hok
            have := I.var_kind y c hy (by rw [hyk]; simp)
            rw [hyk] at this
            exact I.kind2 c this d hmem
          | fresh2 => rw [hxv] at hok; simp [rhsOk] at hok
          | deep =>
            rw [hxv] at hok
            simp only [rhsOk] at hok
            have hyk : σ.get y = .deep := by simpa using hok
            have := I.var_kind y c hy (by rw [hyk]; simp)
            rw [hyk] at this
            exact I.kindD c this d hmem
    | unknown =>
      simp only [step]
      refine ⟨K, I.bind x ch.cell ?_⟩
      intro hx
      simp only [rhsOk] at hok
      exact absurd (by simpa using hok) hx
  | mutate x ys =>
    simp only [stmtOk] at hok
    simp only [step]
    cases hx : st.env x with
    | none => exact ⟨K, I⟩
    | some c =>
      have hxa : σ.get x ≠ .any := by
        intro h; rw [h] at hok; simp at hok
      have hkc := I.var_kind x c hx hxa
      have hown : c < n0 → O c := (I.kind_new c _ hkc).2.2
      refine ⟨K, ?_⟩
      constructor
      · intro d hd hno
        have : d ≠ c := by
          intro e; subst e; exact hno (hown hd)
        simp [this, I.frame d hd hno]
      · exact I.next_ge
      · exact I.var_kind
      · exact I.kind_new
      · intro d hd e he
        by_cases hdc : d = c
        · subst hdc
          rw [hkc] at hd
          have hx2 : σ.get x = .fresh2 := by injection hd
          rw [hx2] at hok
          simp only [if_true] at he
          simp only [List.mem_filterMap] at he
          obtain ⟨p, _, hp⟩ := he
          split at hp
          · exact I.kind2 d (by rw [hkc, hx2]) e (List.mem_of_getElem? hp)
          · obtain ⟨y, hy, hey⟩ := cellsOf_mem (List.mem_of_getElem? hp)
            have hyk : σ.get y = .fresh1 := by simpa using List.all_eq_true.mp hok y hy
            have := I.var_kind y e hey (by rw [hyk]; simp)
            rwa [hyk] at this
        · simp only [hdc, if_false] at he
          exact I.kind2 d hd e he
      · intro d hd e he
        by_cases hdc : d = c
        · subst hdc
          rw [hkc] at hd
          have hx2 : σ.get x = .deep := by injection hd
          rw [hx2] at hok
          simp only [if_true] at he
          simp only [List.mem_filterMap] at he
          obtain ⟨p, _, hp⟩ := he
          split at hp
          · exact I.kindD d (by rw [hkc, hx2]) e (List.mem_of_getElem? hp)
          · obtain ⟨y, hy, hey⟩ := cellsOf_mem (List.mem_of_getElem? hp)
            have hyk : σ.get y = .deep := by simpa using List.all_eq_true.mp hok y hy
            have := I.var_kind y e hey (by rw [hyk]; simp)
            rwa [hyk] at this
        · simp only [hdc, if_false] at he
          exact I.kindD d hd e he

theorem run_preserves {n0 heap0 O σ params owned body} (hchk : check σ params owned body = true)
    (trace : List (Stmt × Choice)) (ht : ∀ p ∈ trace, p.1 ∈ body) {st : St}
    (hI : ∃ K, Inv n0 heap0 O σ K st) : ∃ K, Inv n0 heap0 O σ K (run st trace) := by
  induction trace generalizing st with
  | nil => exact hI
  | cons p ps ih =>
    obtain ⟨s, ch⟩ := p
    simp only [run]
    exact ih (fun q hq => ht q (List.mem_cons_of_mem _ hq))
      (step_preserves hchk (ht (s, ch) (by simp)) ch hI)

/-- **soundness**: a body that passes the check, started in a state where every bound variable is
either declared `any` or is an owned parameter bound to a cell the caller handed over (`O`),
leaves every other cell that existed before the call unchanged, along every execution (any order
and repetition of its statements, any choices) -/
theorem check_sound {σ : AEnv} {params owned : List Var} {body : List Stmt}
    (hchk : check σ params owned body = true) (st0 : St) (O : Nat → Prop)
    (hinit : ∀ x c, st0.env x = some c → σ.get x = .any ∨ (σ.get x = .fresh1 ∧ O c ∧ c < st0.next))
    (trace : List (Stmt × Choice)) (ht : ∀ p ∈ trace, p.1 ∈ body) :
    ∀ c, c < st0.next → ¬ O c → (run st0 trace).heap c = st0.heap c := by
  classical
  have I0 : Inv st0.next st0.heap O σ (fun c => if O c ∧ c < st0.next then some .fresh1 else none) st0 := by
    constructor
    · intro c _ _; rfl
    · exact Nat.le_refl _
    · intro x c hx hv
      rcases hinit x c hx with h | ⟨h1, h2, h3⟩
      · exact absurd h hv
      · simp [h1, h2, h3]
    · intro c k hk
      split at hk
      · rename_i h; cases hk; exact ⟨by simp, h.2, fun _ => h.1⟩
      · cases hk
    · intro c hc; split at hc <;> cases hc
    · intro c hc; split at hc <;> cases hc
  obtain ⟨K, I⟩ := run_preserves hchk trace ht ⟨_, I0⟩
  exact I.frame

/-- the special case of an operation that owns nothing: every pre-existing cell is unchanged -/
theorem check_sound_pure {σ : AEnv} {params : List Var} {body : List Stmt}
    (hchk : check σ params [] body = true) (st0 : St)
    (hinit : ∀ x c, st0.env x = some c → σ.get x = .any)
    (trace : List (Stmt × Choice)) (ht : ∀ p ∈ trace, p.1 ∈ body) :
    ∀ c, c < st0.next → (run st0 trace).heap c = st0.heap c := by
  intro c hc
  exact check_sound hchk st0 (fun _ => False) (fun x d hx => .inl (hinit x d hx)) trace ht c hc (by simp)

end Richchk.Alias
