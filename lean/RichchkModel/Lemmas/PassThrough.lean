import RichchkModel.Lemmas.RichLemmas
namespace Richchk

theorem richDecode_positions {cfg : RichCfg} {secs : List DSection} {rich : List RSection}
    (h : richDecode cfg secs = .ok rich) :
    rich.length = secs.length ∧
    ∀ i (hi : i < secs.length) (hj : i < rich.length),
      (∀ n p, secs[i] = .unknown n p → rich[i] = .pass (.unknown n p)) ∧
      (∀ n v, secs[i] = .known n v → n ≠ nMRGN → n ≠ nTRIG → n ≠ nUNIS → n ≠ nUNIx → n ≠ nUPRP →
        n ≠ nSWNM → n ≠ nWAV → rich[i] = .pass (.known n v)) := by
  unfold richDecode at h
  split at h
  · simp at h
  · rename_i ctx _
    obtain ⟨hl, hall⟩ := mapR_ok h
    refine ⟨hl, ?_⟩
    intro i hi hj
    have hi' := hall i hi hj
    constructor
    · intro n p hs
      rw [hs] at hi'
      simp [richDecodeSection] at hi'
      exact hi'.symm
    · intro n v hs h1 h2 h3 h4 h5 h6 h7
      rw [hs] at hi'
      simp [richDecodeSection, h1, h2, h3, h4, h5, h6, h7] at hi'
      exact hi'.symm

/-- **C10, sections.**  Through `richEncode`, every pass-through section — unknown name, or a
recognised section without rich model other than STR (rebuilt) and UPUS (recomputed) — comes
out at the same position, identical; everything the encoder adds is appended after the
original sections. -/
theorem richEncode_positions {cfg : RichCfg} {orders : Orders} {wmeta : List (Bytes × Nat)}
    {secs : List RSection} {out : List DSection} (h : richEncode cfg orders wmeta secs = .ok out) :
    secs.length ≤ out.length ∧
    ∀ i (hi : i < secs.length) (hj : i < out.length),
      (∀ n p, secs[i] = .pass (.unknown n p) → out[i] = .unknown n p) ∧
      (∀ n v, secs[i] = .pass (.known n v) → n ≠ nSTR → n ≠ nUPUS → out[i] = .known n v) := by
  unfold richEncode at h
  split at h
  · simp at h
  · rename_i rb _
    split at h
    · simp at h
    · rename_i out0 hout
      split at h
      · simp at h
      · rename_i extra _
        simp only [Except.ok.injEq] at h
        obtain ⟨hl, hall⟩ := mapR_ok hout
        subst h
        refine ⟨by simp only [List.length_append]; omega, ?_⟩
        intro i hi hj
        have hi0 : i < out0.length := by omega
        have hget : (out0 ++ extra)[i] = out0[i] := List.getElem_append_left hi0
        have := hall i hi hi0
        constructor
        · intro n p hs
          rw [hs] at this
          simp [encodeOneSection] at this
          rw [hget]; exact this.symm
        · intro n v hs h1 h2
          rw [hs] at this
          simp [encodeOneSection, h1, h2] at this
          rw [hget]; exact this.symm

end Richchk
