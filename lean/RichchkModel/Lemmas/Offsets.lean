/- "the value at the spec's offset": each decoded field is the little-endian integer found at
the offset obtained by summing the widths of everything before it. -/
import RichchkModel.Lemmas.WellFormed
namespace Richchk

/-- byte offset of the `i`-th field of a record with the given widths -/
def recOffset : List Nat → Nat → Nat
  | [], _ => 0
  | _ :: _, 0 => 0
  | w :: ws, i+1 => w + recOffset ws i

/-- byte offset of the `i`-th array of an arrays section -/
def arrOffset : List ArrField → Nat → Nat
  | [], _ => 0
  | _ :: _, 0 => 0
  | f :: fs, i+1 => f.width * f.count + arrOffset fs i

theorem readRec_at {ws : List Nat} {bs rest : Bytes} {vs : List Nat}
    (h : readRec ws bs = .ok (vs, rest)) (i : Nat) (hi : i < ws.length) :
    vs[i]? = some (leVal ((bs.drop (recOffset ws i)).take (ws[i]))) := by
  induction ws generalizing bs vs rest i with
  | nil => simp at hi
  | cons w ws ih =>
    simp only [readRec] at h
    split at h
    · simp at h
    · rename_i v r1 h1
      split at h
      · simp at h
      · rename_i vs' r2 h2
        simp at h; obtain ⟨hv, _⟩ := h; subst hv
        obtain ⟨_, hv, hr⟩ := readInt_ok h1
        cases i with
        | zero => simp [recOffset, hv]
        | succ i =>
          have := ih h2 i (by simpa using hi)
          simp only [List.getElem?_cons_succ, this, recOffset, List.getElem_cons_succ]
          subst hr
          rw [List.drop_drop]

theorem readInts_at {w n : Nat} {bs rest : Bytes} {vs : List Nat}
    (h : readInts w n bs = .ok (vs, rest)) (j : Nat) (hj : j < n) :
    vs[j]? = some (leVal ((bs.drop (w * j)).take w)) := by
  induction n generalizing bs vs rest j with
  | zero => simp at hj
  | succ n ih =>
    simp only [readInts] at h
    split at h
    · simp at h
    · rename_i v r1 h1
      split at h
      · simp at h
      · rename_i vs' r2 h2
        simp at h; obtain ⟨hv, _⟩ := h; subst hv
        obtain ⟨_, hv, hr⟩ := readInt_ok h1
        cases j with
        | zero => simp [hv]
        | succ j =>
          have := ih h2 j (by omega)
          simp only [List.getElem?_cons_succ, this]
          subst hr
          rw [List.drop_drop, Nat.mul_succ, Nat.add_comm]

theorem readArrays_at {fs : List ArrField} {bs rest : Bytes} {vs : List (List Nat)}
    (h : readArrays fs bs = .ok (vs, rest)) (i : Nat) (hi : i < fs.length) (j : Nat)
    (hj : j < (fs[i]).count) :
    (vs[i]?.bind (·[j]?)) =
      some (leVal ((bs.drop (arrOffset fs i + (fs[i]).width * j)).take (fs[i]).width)) := by
  induction fs generalizing bs vs rest i with
  | nil => simp at hi
  | cons f fs ih =>
    simp only [readArrays] at h
    split at h
    · simp at h
    · rename_i v r1 h1
      split at h
      · simp at h
      · rename_i vs' r2 h2
        simp at h; obtain ⟨hv, _⟩ := h; subst hv
        obtain ⟨_, _, _, hr⟩ := packInts_readInts h1
        cases i with
        | zero =>
          simp only [List.getElem_cons_zero] at hj
          simp [arrOffset, readInts_at h1 j hj]
        | succ i =>
          have := ih h2 i (by simpa using hi) (by simpa using hj)
          simp only [List.getElem?_cons_succ, this, arrOffset, List.getElem_cons_succ]
          subst hr
          rw [List.drop_drop, Nat.add_assoc]

theorem readRecs_at {ws : List Nat} {n : Nat} {bs rest : Bytes} {rs : List (List Nat)}
    (h : readRecs ws n bs = .ok (rs, rest)) (k : Nat) (hk : k < n) (i : Nat) (hi : i < ws.length) :
    (rs[k]?.bind (·[i]?)) =
      some (leVal ((bs.drop (sumList ws * k + recOffset ws i)).take (ws[i]))) := by
  induction n generalizing bs rs rest k with
  | zero => simp at hk
  | succ n ih =>
    simp only [readRecs] at h
    split at h
    · simp at h
    · rename_i v r1 h1
      split at h
      · simp at h
      · rename_i vs' r2 h2
        simp at h; obtain ⟨hv, _⟩ := h; subst hv
        obtain ⟨_, _, _, hr⟩ := packRec_readRec h1
        cases k with
        | zero => simp [readRec_at h1 i hi]
        | succ k =>
          have := ih h2 k (by omega)
          simp only [List.getElem?_cons_succ, this]
          subst hr
          rw [List.drop_drop, Nat.mul_succ]
          have e : sumList ws + (sumList ws * k + recOffset ws i)
              = sumList ws * k + sumList ws + recOffset ws i := by omega
          rw [e]

/-- records-until-EOF are `rs.length` consecutive records -/
theorem readRecsEof_as_readRecs {ws : List Nat} {bs : Bytes} {rs : List (List Nat)}
    (h : readRecsEof ws bs = .ok rs) : readRecs ws rs.length bs = .ok (rs, []) := by
  have := readRecs_packRecs (packRecs_readRecsEof h) []
  simpa using this

end Richchk
