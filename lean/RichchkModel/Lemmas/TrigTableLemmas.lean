import RichchkModel.Model.TrigTable
namespace Richchk

theorem lookup_map_of_mem {α : Type} (l : List α) (key : α → String) (val : α → Nat)
    (hnd : (l.map key).Nodup) {x : α} (hx : x ∈ l) :
    (l.map fun a => (key a, val a)).lookup (key x) = some (val x) := by
  induction l with
  | nil => simp at hx
  | cons y ys ih =>
    simp only [List.map_cons, List.nodup_cons] at hnd
    simp only [List.map_cons, List.lookup_cons]
    rcases List.mem_cons.mp hx with rfl | hmem
    · simp
    · have hne : key x ≠ key y := by
        intro hc
        exact hnd.1 (List.mem_map.mpr ⟨x, hmem, hc⟩)
      have : (key x == key y) = false := by simp [hne]
      rw [this]
      exact ih hnd.2 hmem

/-- **Encoding writes each argument to its own field.**  If the record fields a transcoder
writes are pairwise distinct, then the field an encode entry names holds exactly the value of
the argument the entry names (zero / the type's number for the constant entries). -/
theorem encodeFields_get (r : TrigRow) (argVal : String → Nat)
    (hnd : (r.encode.map (·.field)).Nodup) {e : EncEntry} (he : e ∈ r.encode) :
    assocGet (r.encodeFields argVal) e.field =
      if e.codec = "zero" then 0 else if e.codec = "typebyte" then r.id else argVal e.arg := by
  unfold assocGet TrigRow.encodeFields
  rw [lookup_map_of_mem r.encode (·.field) _ hnd he]
  rfl

/-- **Decoding reads each argument from its own field.** -/
theorem decodeArgs_get (r : TrigRow) (fieldVal : String → Nat)
    (hnd : (r.decode.map (·.arg)).Nodup) {d : DecEntry} (hd : d ∈ r.decode) :
    assocGet (r.decodeArgs fieldVal) d.arg = fieldVal d.field := by
  unfold assocGet TrigRow.decodeArgs
  rw [lookup_map_of_mem r.decode (·.arg) _ hnd hd]
  rfl

/-- **Round trip through the record**: if an argument is written to the field it is read from,
decoding the encoded record returns the argument's value. -/
theorem decode_encode_arg (r : TrigRow) (argVal : String → Nat)
    (hE : (r.encode.map (·.field)).Nodup) (hD : (r.decode.map (·.arg)).Nodup)
    {d : DecEntry} (hd : d ∈ r.decode) {e : EncEntry} (he : e ∈ r.encode)
    (hf : e.field = d.field) (ha : e.arg = d.arg) (hz : e.codec ≠ "zero") (ht : e.codec ≠ "typebyte") :
    assocGet (r.decodeArgs (assocGet (r.encodeFields argVal))) d.arg = argVal d.arg := by
  rw [decodeArgs_get r _ hD hd, ← hf, encodeFields_get r argVal hE he]
  simp [hz, ht, ha]

end Richchk
