import RichchkModel.Lemmas.StrEditLemmas
namespace Richchk

/-! ### the request filter -/

theorem dedupNew_mem {req seen : List Bytes} {s : Bytes} (h : s ∈ dedupNew req seen) :
    s ∈ req ∧ s ∉ seen := by
  induction req generalizing seen with
  | nil => simp [dedupNew] at h
  | cons r rest ih =>
    simp only [dedupNew] at h
    split at h
    · have := ih h; exact ⟨by simp [this.1], this.2⟩
    · rename_i hc
      rcases List.mem_cons.mp h with rfl | h'
      · exact ⟨by simp, by simpa using hc⟩
      · have := ih h'
        exact ⟨by simp [this.1], fun hm => this.2 (by simp [hm])⟩

theorem dedupNew_nodup (req seen : List Bytes) : (dedupNew req seen).Nodup := by
  induction req generalizing seen with
  | nil => simp [dedupNew]
  | cons r rest ih =>
    simp only [dedupNew]
    split
    · exact ih seen
    · refine List.nodup_cons.mpr ⟨?_, ih _⟩
      intro hm
      exact (dedupNew_mem hm).2 (by simp)

theorem dedupNew_cover {req seen : List Bytes} {s : Bytes} (h : s ∈ req) :
    s ∈ seen ∨ s ∈ dedupNew req seen := by
  induction req generalizing seen with
  | nil => simp at h
  | cons r rest ih =>
    simp only [dedupNew]
    rcases List.mem_cons.mp h with rfl | h'
    · split
      · rename_i hc; exact .inl (by simpa using hc)
      · exact .inr (by simp)
    · split
      · exact ih h'
      · rcases ih (seen := r :: seen) h' with hs | hd
        · rcases List.mem_cons.mp hs with rfl | hs'
          · exact .inr (by simp)
          · exact .inl hs'
        · exact .inr (by simp [hd])

theorem dedupNew_nil_of_all_seen {req seen : List Bytes} (h : ∀ s ∈ req, s ∈ seen) :
    dedupNew req seen = [] := by
  induction req generalizing seen with
  | nil => rfl
  | cons r rest ih =>
    simp only [dedupNew]
    have hr : seen.contains r = true := by simpa using h r (by simp)
    simp only [hr, if_true]
    exact ih (fun s hs => h s (by simp [hs]))

/-! ### new offsets -/

theorem newOffsets_length (o : Nat) (ss : List Bytes) : (newOffsets o ss).length = ss.length := by
  induction ss generalizing o with
  | nil => rfl
  | cons s ss ih => simp [newOffsets, ih]

theorem newOffsets_get (o : Nat) (ss : List Bytes) (j : Nat) (hj : j < ss.length) :
    (newOffsets o ss)[j]? = some (o + (joinStrings (ss.take j)).length) := by
  induction ss generalizing o j with
  | nil => simp at hj
  | cons s ss ih =>
    cases j with
    | zero => simp [newOffsets, joinStrings]
    | succ j =>
      simp only [newOffsets, List.getElem?_cons_succ, List.take_succ_cons, joinStrings]
      rw [ih (o + s.length + 1) j (by simpa using hj)]
      simp; omega

/-! ### resolvable texts of a well-formed table, in data coordinates -/

theorem resolvableTexts_wf {t : StrTable} (h : t.WF) :
    resolvableTexts t = .ok (t.offs.filterMap fun o => cstrAt t.data (o - t.base)) := by
  obtain ⟨hdr, hp, hl⟩ := payload_of_wf h
  unfold resolvableTexts
  rw [hp]
  simp only
  congr 1
  have key : ∀ (l : List Nat), (∀ o ∈ l, o ∈ t.offs) →
      (l.filterMap fun o => if o < (hdr ++ t.data).length then cstrAt (hdr ++ t.data) o else none)
        = l.filterMap fun o => cstrAt t.data (o - t.base) := by
    intro l
    induction l with
    | nil => intro _; rfl
    | cons o os ih =>
      intro hmem
      have := h.inside o (hmem o (by simp))
      have hlt : o < (hdr ++ t.data).length := by simp [hl]; omega
      simp only [List.filterMap_cons, hlt, if_true]
      rw [cstrAt_append_right hdr t.data o (by omega), hl, ih (fun x hx => hmem x (by simp [hx]))]
  exact key t.offs (fun o ho => ho)

theorem mem_resolvable_iff {t : StrTable} (h : t.WF) {s : Bytes} :
    s ∈ (t.offs.filterMap fun o => cstrAt t.data (o - t.base)) ↔
      ∃ id, 1 ≤ id ∧ id ≤ t.n ∧ resolveData t id = some s := by
  constructor
  · intro hm
    obtain ⟨o, ho, hs⟩ := List.mem_filterMap.mp hm
    obtain ⟨i, hi, hget⟩ := List.getElem_of_mem ho
    refine ⟨i + 1, by omega, by rw [h.count]; omega, ?_⟩
    unfold resolveData
    simp [List.getElem?_eq_getElem hi, hget, hs]
  · rintro ⟨id, h1, h2, hr⟩
    unfold resolveData at hr
    have h0 : ¬ id = 0 := by omega
    simp only [h0, if_false] at hr
    have hlt : id - 1 < t.offs.length := by rw [← h.count]; omega
    rw [List.getElem?_eq_getElem hlt] at hr
    exact List.mem_filterMap.mpr ⟨_, List.getElem_mem hlt, hr⟩

/-! ### the shape of the result -/

/-- the table `addStrings` builds when `uniq` must be appended -/
def grown (t : StrTable) (uniq : List Bytes) : StrTable :=
  ⟨t.w, t.n + uniq.length,
   t.offs.map (· + uniq.length * t.w) ++
     newOffsets (t.w + t.w * (t.n + uniq.length) + (joinStrings t.strs).length) uniq,
   t.strs ++ uniq⟩

theorem addStrings_shape {t t' : StrTable} (h : t.WF) {req : List Bytes}
    (ha : addStrings req t = .ok t') :
    let uniq := dedupNew req (t.offs.filterMap fun o => cstrAt t.data (o - t.base))
    (uniq = [] ∧ t' = t) ∨ (uniq ≠ [] ∧ t' = grown t uniq) := by
  unfold addStrings at ha
  rw [resolvableTexts_wf h] at ha
  simp only at ha
  split at ha
  · rename_i he
    simp at ha
    exact .inl ⟨by simpa using he, ha.symm⟩
  · rename_i he
    simp at ha
    exact .inr ⟨by simpa using he, ha.symm⟩

theorem grown_base (t : StrTable) (uniq : List Bytes) :
    (grown t uniq).base = t.base + uniq.length * t.w := by
  simp [grown, StrTable.base, Nat.mul_add, Nat.mul_comm]; omega

theorem grown_data (t : StrTable) (uniq : List Bytes) :
    (grown t uniq).data = t.data ++ joinStrings uniq := by
  simp [grown, StrTable.data, joinStrings_append]

/-- **(i) existing ids keep their text** -/
theorem grown_preserves {t : StrTable} (h : t.WF) (uniq : List Bytes) {id : Nat}
    (h1 : 1 ≤ id) (h2 : id ≤ t.n) : resolveData (grown t uniq) id = resolveData t id := by
  have hsome := resolveData_isSome h h1 h2
  unfold resolveData at hsome ⊢
  have h0 : ¬ id = 0 := by omega
  simp only [h0, if_false] at hsome ⊢
  have hlt : id - 1 < t.offs.length := by rw [← h.count]; omega
  have hget : (grown t uniq).offs[id - 1]? = some (t.offs[id - 1] + uniq.length * t.w) := by
    simp only [grown]
    rw [List.getElem?_append_left (by simpa using hlt)]
    simp [List.getElem?_eq_getElem hlt]
  rw [hget, List.getElem?_eq_getElem hlt] at *
  simp only at hsome ⊢
  rw [grown_base, grown_data]
  have e : t.offs[id - 1] + uniq.length * t.w - (t.base + uniq.length * t.w) = t.offs[id - 1] - t.base := by
    omega
  rw [e]
  obtain ⟨s, hs⟩ := Option.isSome_iff_exists.mp hsome
  rw [hs]
  exact cstrAt_append_of_some _ hs

/-- **(ii, new strings) the j-th appended string gets id `n + j + 1`, which resolves to it** -/
theorem grown_new_resolves {t : StrTable} (h : t.WF) {uniq : List Bytes}
    (hu : ∀ s ∈ uniq, Str7 s) (j : Nat) (hj : j < uniq.length) :
    resolveData (grown t uniq) (t.n + j + 1) = some uniq[j] := by
  unfold resolveData
  have h0 : ¬ t.n + j + 1 = 0 := by omega
  simp only [h0, if_false, Nat.add_sub_cancel]
  have hget : (grown t uniq).offs[t.n + j]? =
      some (t.w + t.w * (t.n + uniq.length) + (joinStrings t.strs).length +
        (joinStrings (uniq.take j)).length) := by
    simp only [grown]
    rw [List.getElem?_append_right (by simp [h.count])]
    simp only [List.length_map]
    rw [show t.n + j - t.offs.length = j by rw [h.count]; omega]
    exact newOffsets_get _ _ j hj
  rw [hget]
  simp only
  rw [grown_data]
  have hb : (grown t uniq).base = t.w + t.w * (t.n + uniq.length) := by simp [grown, StrTable.base]
  rw [hb]
  have e : t.w + t.w * (t.n + uniq.length) + (joinStrings t.strs).length + (joinStrings (uniq.take j)).length
      - (t.w + t.w * (t.n + uniq.length)) = (joinStrings (t.strs ++ uniq.take j)).length := by
    rw [joinStrings_append]; simp; omega
  rw [e]
  have hsplit : t.data ++ joinStrings uniq = joinStrings ((t.strs ++ uniq.take j) ++ uniq[j] :: uniq.drop (j + 1)) := by
    rw [joinStrings_append, joinStrings_append]
    simp only [StrTable.data, List.append_assoc]
    congr 1
    rw [← joinStrings_append]
    congr 1
    rw [← List.drop_eq_getElem_cons hj, List.take_append_drop]
  rw [hsplit]
  exact cstrAt_join_at_start (hu _ (List.getElem_mem hj))

end Richchk
