import RichchkModel.Model.FileOps
namespace Richchk

theorem lookup_filter_ne (fs : FS) (p q : Path) (h : p ≠ q) :
    List.lookup p (fs.filter (fun x => x.1 != q)) = List.lookup p fs := by
  induction fs with
  | nil => rfl
  | cons x xs ih =>
    obtain ⟨a, b⟩ := x
    simp only [List.filter_cons]
    by_cases hx : a = q
    · have hpx : (p == a) = false := by simp [hx, h]
      have hf : ((a, b).1 != q) = false := by simp [hx]
      rw [hf]
      simp only [Bool.false_eq_true, if_false, List.lookup, hpx, ih]
    · have hf : ((a, b).1 != q) = true := by simp [hx]
      rw [hf]
      simp only [if_true, List.lookup]
      cases hpx : (p == a)
      · simp only [ih]
      · rfl

theorem FS.get_set_ne (fs : FS) (p q : Path) (c : Content) (h : p ≠ q) :
    (fs.set q c).get p = fs.get p := by
  unfold FS.get FS.set
  have : (p == q) = false := by simp [h]
  rw [List.lookup_cons, this]
  exact lookup_filter_ne fs p q h

theorem FS.get_del_ne (fs : FS) (p q : Path) (h : p ≠ q) : (fs.del q).get p = fs.get p := by
  unfold FS.get FS.del
  exact lookup_filter_ne fs p q h

theorem FS.get_set_self (fs : FS) (q : Path) (c : Content) : (fs.set q c).get q = some c := by
  simp [FS.get, FS.set, List.lookup_cons]

end Richchk
