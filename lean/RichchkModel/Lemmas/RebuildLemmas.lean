/-
The location / unit-property rebuilds only ADD entries on slots no existing entry occupies, so the
slot table written on save shows every pre-existing slot exactly as the existing list defines it.
-/
import RichchkModel.Lemmas.RichLemmas
import RichchkModel.Lemmas.AllocLemmas
import RichchkModel.Props.C09
namespace Richchk

theorem placed_mem_placedSlots {ress : List Res} {s : Nat} (h : Res.placed s ∈ ress) : s ∈ placedSlots ress := by
  induction ress with
  | nil => simp at h
  | cons r rs ih =>
    rcases List.mem_cons.mp h with h1 | h1
    · subst h1; simp [placedSlots]
    · cases r with
      | placed i => simp [placedSlots]; exact .inr (ih h1)
      | skipped => simp [placedSlots]; exact ih h1

theorem find?_reverse_append_left {α} (p : α → Bool) (xs ys : List α) (h : ∀ y ∈ ys, p y = false) :
    (xs ++ ys).reverse.find? p = xs.reverse.find? p := by
  rw [List.reverse_append, List.find?_append]
  have : ys.reverse.find? p = none := by
    rw [List.find?_eq_none]; intro y hy; simp at hy; simp [h y hy]
  simp [this]

/-- **locations**: after the rebuild, looking a pre-existing slot up in the new list finds what the
old list held there (new locations never land on an occupied slot) -/
theorem rebuildMrgn_keeps_slots {cfg : RichCfg} {secs : List RSection} {order : Option (List Nat)}
    {locs : List RLoc} {ids : List (Nat × Nat)} (h : rebuildMrgn cfg secs order = .ok (locs, ids)) :
    ∃ table, secs.filter (isSectionNamed nMRGN) = [.mrgn table] ∧
      ∀ i, (∃ t ∈ table, t.idx = some i) →
        locs.reverse.find? (fun l => l.idx == some i) = table.reverse.find? (fun l => l.idx == some i) := by
  unfold rebuildMrgn at h
  split at h
  · rename_i table hf
    split at h
    · cases h
    · simp only at h
      split at h
      · cases h
      · rename_i ress st hal
        simp at h
        refine ⟨table, hf, fun i hi => ?_⟩
        rw [← h.1]
        apply find?_reverse_append_left
        intro y hy
        simp only [List.mem_map, List.mem_filterMap] at hy
        obtain ⟨⟨l', uid⟩, ⟨⟨l0, r⟩, hz, hm⟩, hy'⟩ := hy
        cases r with
        | skipped => simp at hm
        | placed s =>
          simp at hm
          obtain ⟨hm1, _⟩ := hm
          simp only at hy'
          subst hy'; subst hm1
          have hs : Res.placed s ∈ ress := (List.of_mem_zip hz).2
          have hnot := ((Richchk.Props.C09.c09_sound _ _ _ hal).2 s (placed_mem_placedSlots hs)).1
          obtain ⟨t, ht, hti⟩ := hi
          simp only [beq_eq_false_iff_ne, ne_eq, Option.some.injEq]
          intro hsi
          subst hsi
          exact hnot (List.mem_filterMap.mpr ⟨t, ht, hti⟩)
  · cases h

/-- **unit-property sets**: the same for the UPRP rebuild -/
theorem rebuildUprp_keeps_slots {cfg : RichCfg} {secs : List RSection} {order : Option (List Nat)}
    {cuwps : List RCuwp} (h : rebuildUprp cfg secs order = .ok cuwps) :
    ∃ table, (secs.filter (isSectionNamed nUPRP) = [] ∧ table = [] ∨ secs.filter (isSectionNamed nUPRP) = [.uprp table]) ∧
      ∀ i, (∃ t ∈ table, t.idx = some i) →
        cuwps.reverse.find? (fun c => c.idx == some i) = table.reverse.find? (fun c => c.idx == some i) := by
  unfold rebuildUprp at h
  simp only at h
  split at h
  · cases h
  · rename_i table ht
    split at h
    · cases h
    · split at h
      · cases h
      · rename_i ress st hal
        simp at h
        refine ⟨table, ?_, fun i hi => ?_⟩
        · split at ht
          · cases ht; exact .inl ⟨by assumption, rfl⟩
          · cases ht; exact .inr (by assumption)
          · cases ht
        · rw [← h]
          apply find?_reverse_append_left
          intro y hy
          simp only [List.mem_filterMap] at hy
          obtain ⟨⟨c0, r⟩, hz, hm⟩ := hy
          cases r with
          | skipped => simp at hm
          | placed s =>
            simp at hm
            subst hm
            have hs : Res.placed s ∈ ress := (List.of_mem_zip hz).2
            have hnot := ((Richchk.Props.C09.c09_sound _ _ _ hal).2 s (placed_mem_placedSlots hs)).1
            obtain ⟨t, ht', hti⟩ := hi
            simp only [beq_eq_false_iff_ne, ne_eq, Option.some.injEq]
            intro hsi
            subst hsi
            exact hnot (List.mem_filterMap.mpr ⟨t, ht', hti⟩)

end Richchk
