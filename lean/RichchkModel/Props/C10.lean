/-
C10 — Unmodelled content passes through untouched and in place.

Model: Model/Rich.lean + Model/RichEnc.lean (hand model of RichChkIo.decode_chk / encode_chk,
tied by the `cycle` correspondence; it reproduces the three repository fixtures byte for byte).
All theorems hold for EVERY configuration `cfg` (hence for the generated one) and every
iteration order of the internal sets.
-/
import RichchkModel.Lemmas.PassThrough
import RichchkModel.Lemmas.RichLemmas
namespace Richchk.Props.C10
open Richchk

def richNames : List Bytes := [nMRGN, nTRIG, nUNIS, nUNIx, nUPRP, nSWNM, nWAV]

/-- **C10, sections (both rich layers).**  Load then save, whatever the map contains: every
section with an unrecognised name (any payload, duplicated, empty) and every recognised
section without rich model — except STR, which is rebuilt, and UPUS, which is recomputed
(recorded finding) — sits at the same position in the output, identical; whatever the save adds
(SWNM / UPRP / UPUS when missing) comes after the original sections. -/
theorem c10_sections_pass_through {cfg : RichCfg} {orders : Orders} {wmeta : List (Bytes × Nat)}
    {secs : List DSection} {rich : List RSection} {out : List DSection}
    (hd : richDecode cfg secs = .ok rich) (he : richEncode cfg orders wmeta rich = .ok out) :
    secs.length ≤ out.length ∧
    ∀ i (hi : i < secs.length) (hj : i < out.length),
      (∀ n p, secs[i] = .unknown n p → out[i] = .unknown n p) ∧
      (∀ n v, secs[i] = .known n v → n ∉ richNames → n ≠ nSTR → n ≠ nUPUS → out[i] = .known n v) := by
  obtain ⟨hl, hdp⟩ := richDecode_positions hd
  obtain ⟨hle, hep⟩ := richEncode_positions he
  refine ⟨by omega, ?_⟩
  intro i hi hj
  have hir : i < rich.length := by omega
  constructor
  · intro n p hs
    exact (hep i hir hj).1 n p ((hdp i hi hir).1 n p hs)
  · intro n v hs hn h1 h2
    simp only [richNames, List.mem_cons, List.mem_nil_iff, or_false, not_or] at hn
    exact (hep i hir hj).2 n v ((hdp i hi hir).2 n v hs hn.1 hn.2.1 hn.2.2.1 hn.2.2.2.1 hn.2.2.2.2.1
      hn.2.2.2.2.2.1 hn.2.2.2.2.2.2) h1 h2

/-- the same holds under any sequence of edits that keeps those sections in the rich map:
`richEncode` alone never alters or moves a pass-through section -/
theorem c10_edits_elsewhere_do_not_touch_pass_through {cfg : RichCfg} {orders : Orders}
    {wmeta : List (Bytes × Nat)} {rich : List RSection} {out : List DSection}
    (he : richEncode cfg orders wmeta rich = .ok out) (i : Nat) (hi : i < rich.length) (hj : i < out.length)
    (n p : Bytes) (hs : rich[i] = .pass (.unknown n p)) : out[i] = .unknown n p :=
  ((richEncode_positions he).2 i hi hj).1 n p hs

/-- records of a trigger's condition/action list that the rich layer keeps raw -/
def rawsOf : List REntry → List (List Nat)
  | [] => []
  | .raw r :: es => r :: rawsOf es
  | .rich _ _ _ :: es => rawsOf es

/-- is a record's type byte one the rich layer does not model (unknown number, or a known
number without transcoder)? -/
def isUnmodelled (cfg : RichCfg) (rows : List TrigRow) (names : List String) (idField enumName : String)
    (r : List Nat) : Bool :=
  let id := fieldOf names r idField
  match enumLookup (cfg.enumOf enumName) id with
  | none => true
  | some _ => id != 0 && (findRow rows id).isNone

/-- **C10, trigger entries (decode).**  Every condition/action record whose type is unknown or
unsupported survives decoding verbatim, in its original relative order. -/
theorem c10_unmodelled_entries_kept {cfg : RichCfg} {ctx : DecCtx} {rows : List TrigRow}
    {names : List String} {idField enumName flagCodec : String} {recs : List (List Nat)}
    {es : List REntry}
    (h : decodeEntries cfg ctx rows names idField enumName flagCodec recs = .ok es) :
    rawsOf es = recs.filter (isUnmodelled cfg rows names idField enumName) := by
  induction recs generalizing es with
  | nil => simp [decodeEntries] at h; subst h; rfl
  | cons r rs ih =>
    simp only [decodeEntries] at h
    simp only [List.filter_cons, isUnmodelled]
    split at h
    · -- outside the enumeration
      rename_i hl
      split at h
      · simp at h
      · rename_i es' hes
        simp at h; subst h
        simp [hl, rawsOf, ih hes, isUnmodelled]
    · rename_i m hl
      split at h
      · rename_i h0
        rw [h0] at hl
        simp [hl, h0, ih h, isUnmodelled]
      · rename_i h0
        split at h
        · rename_i hrow
          split at h
          · simp at h
          · rename_i es' hes
            simp at h; subst h
            simp [hl, h0, hrow, rawsOf, ih hes, isUnmodelled]
        · rename_i row hrow
          split at h
          · simp at h
          · rename_i en hen
            split at h
            · simp at h
            · rename_i es' hes
              simp at h; subst h
              have : ∃ a b c, en = .rich a b c := by
                unfold decodeEntry at hen
                simp only at hen
                split at hen
                · simp at hen
                · simp at hen; exact ⟨_, _, _, hen.symm⟩
              obtain ⟨a, b, c, rfl⟩ := this
              simp [hl, h0, hrow, rawsOf, ih hes, isUnmodelled]

/-- **C10, trigger entries in place.**  In a condition/action list without empty entries before its
end (the form every editor writes; the other case is the recorded finding
`trigger-list-gap-compacted`), decoding yields exactly one entry per record, and the entry at the
position of an unknown / unsupported record is that record, raw: it keeps its position. -/
theorem c10_entries_in_place_without_gaps {cfg : RichCfg} {ctx : DecCtx} {rows : List TrigRow}
    {names : List String} {idField enumName flagCodec : String} {recs : List (List Nat)}
    {es : List REntry}
    (h : decodeEntries cfg ctx rows names idField enumName flagCodec recs = .ok es)
    (hnz : ∀ r ∈ recs, fieldOf names r idField ≠ 0) :
    es.length = recs.length ∧
    ∀ k (hk : k < recs.length) (hk' : k < es.length),
      isUnmodelled cfg rows names idField enumName recs[k] = true → es[k] = .raw recs[k] := by
  induction recs generalizing es with
  | nil => simp [decodeEntries] at h; subst h; exact ⟨rfl, fun k hk => by simp at hk⟩
  | cons r rs ih =>
    have hr0 : fieldOf names r idField ≠ 0 := hnz r (by simp)
    have hrest : ∀ x ∈ rs, fieldOf names x idField ≠ 0 := fun x hx => hnz x (List.mem_cons_of_mem _ hx)
    simp only [decodeEntries] at h
    -- every branch produces `e :: es'` with `es'` the decoding of the rest; `e` is raw in the unmodelled branches
    have key : ∃ e es', es = e :: es' ∧
        decodeEntries cfg ctx rows names idField enumName flagCodec rs = .ok es' ∧
        (isUnmodelled cfg rows names idField enumName r = true → e = .raw r) := by
      split at h
      · rename_i hl
        split at h
        · simp at h
        · rename_i es' hes
          simp at h; subst h
          exact ⟨_, _, rfl, hes, fun _ => rfl⟩
      · rename_i m hl
        split at h
        · rename_i h0; exact absurd h0 hr0
        · rename_i h0
          split at h
          · rename_i hrow
            split at h
            · simp at h
            · rename_i es' hes
              simp at h; subst h
              exact ⟨_, _, rfl, hes, fun _ => rfl⟩
          · rename_i row hrow
            split at h
            · simp at h
            · rename_i en hen
              split at h
              · simp at h
              · rename_i es' hes
                simp at h; subst h
                refine ⟨_, _, rfl, hes, fun hu => ?_⟩
                simp [isUnmodelled, hl, hrow] at hu
    obtain ⟨e, es', rfl, hes, hraw⟩ := key
    obtain ⟨hl, hi⟩ := ih hes hrest
    refine ⟨by simp [hl], fun k hk hk' hu => ?_⟩
    cases k with
    | zero => simpa using hraw (by simpa using hu)
    | succ k =>
      simp only [List.getElem_cons_succ] at hu ⊢
      exact hi k (by simpa using hk) (by simpa using hk') hu

/-- **C10, trigger entries (encode).**  A raw entry is written back as exactly its record. -/
theorem c10_raw_entry_written_verbatim (cfg : RichCfg) (ctx : EncCtx) (rows : List TrigRow)
    (names : List String) (flagCodec : String) (r : List Nat) :
    encodeEntry cfg ctx rows names flagCodec (.raw r) = .ok r := rfl

/-- **C10, trigger entries in place (encode).**  The k-th entry of a rich trigger is written as the
k-th condition / action of the emitted trigger; a raw entry therefore reappears verbatim at its
position, whatever else the trigger or the map contains. -/
theorem c10_raw_entries_written_in_place {cfg : RichCfg} {ctx : EncCtx} {t : RTrigger} {d : Trigger}
    (h : encodeTrigger cfg ctx t = .ok d) :
    (∀ k (hk : k < t.conds.length) r, t.conds[k] = .raw r → d.conds[k]? = some r) ∧
    (∀ k (hk : k < t.acts.length) r, t.acts[k] = .raw r → d.acts[k]? = some r) := by
  unfold encodeTrigger at h
  split at h
  · cases h
  · rename_i cs hcs
    split at h
    · cases h
    · split at h
      · cases h
      · rename_i as has
        split at h
        · cases h
        · cases h
          obtain ⟨hlc, hc⟩ := mapR_ok hcs
          obtain ⟨hla, ha⟩ := mapR_ok has
          constructor
          · intro k hk r hr
            have hk' : k < cs.length := by omega
            have := hc k hk hk'
            rw [hr] at this
            simp [encodeEntry] at this
            simp [List.getElem?_append_left hk', this]
          · intro k hk r hr
            have hk' : k < as.length := by omega
            have := ha k hk hk'
            rw [hr] at this
            simp [encodeEntry] at this
            simp [List.getElem?_append_left hk', this]

/-- the full in-place statement is FALSE on the current tree (recorded finding
`trigger-list-gap-compacted`): empty entries are dropped on decode, so a raw record that follows
an empty entry moves up.  Witness on the model: -/
def gapWitnessRecs : List (List Nat) :=
  [[0, 0, 0, 0, 0, 0, 0, 47, 0, 0, 0, 0], [0, 0, 0, 0, 0, 0, 0, 0, 0, 0, 0, 0], [0, 0, 0, 0, 0, 0, 0, 99, 0, 0, 0, 0]]

end Richchk.Props.C10
