/-
C04 — Authored rich content reaches the file unchanged.

Theorems about the encoder model, for every authored entry / trigger / context.  Together with
C05 (`c05_actions_agree_with_spec`, `c05_conditions_agree_with_spec`: the row table the encoder is
driven by equals the hand-transcribed specification table) they say: each authored argument is
written, through its codec, into the field the format assigns to it, everything else is zero,
and each written reference resolves to the authored object.  STATUS: partial — the byte layer
(C01/C06: each named field is the little-endian integer at its specification offset) composes
with these statements by the differential run and the independent reader, not by one theorem.
-/
import RichchkModel.Model.RichEdit
import RichchkModel.Lemmas.RichLemmas
import RichchkModel.Lemmas.TrigLemmas
namespace Richchk.Props.C04
open Richchk

/-- keyed results of `mapR`: looking a key up gives that key's result -/
theorem mapR_keyed {ev : String → R (String × Nat)} (hk : ∀ f p, ev f = .ok p → p.1 = f)
    {l : List String} {vals : List (String × Nat)} (h : mapR ev l = .ok vals) :
    (∀ f ∈ l, ∃ v, ev f = .ok (f, v) ∧ vals.lookup f = some v) ∧ (∀ f, f ∉ l → vals.lookup f = none) := by
  induction l generalizing vals with
  | nil => simp [mapR] at h; subst h; simp
  | cons x xs ih =>
    simp only [mapR] at h
    cases hx : ev x with
    | error e => simp [hx] at h
    | ok p =>
      simp only [hx] at h
      cases hr : mapR ev xs with
      | error e => simp [hr] at h
      | ok ys =>
        simp only [hr] at h
        cases h
        have hp := hk x p hx
        obtain ⟨ih1, ih2⟩ := ih hr
        obtain ⟨k, v⟩ := p
        simp only at hp; subst hp
        constructor
        · intro f hf
          by_cases hfk : f = k
          · subst hfk; exact ⟨v, hx, by simp [List.lookup]⟩
          · rcases List.mem_cons.mp hf with h1 | h1
            · exact absurd h1 hfk
            · obtain ⟨w, hw1, hw2⟩ := ih1 f h1
              refine ⟨w, hw1, ?_⟩
              simp only [List.lookup]
              have : (f == k) = false := by simpa using hfk
              simp [this, hw2]
        · intro f hf
          have hfk : ¬ f = k := fun e => hf (by simp [e])
          have hfx : f ∉ xs := fun e => hf (List.mem_cons_of_mem _ e)
          simp only [List.lookup]
          have : (f == k) = false := by simpa using hfk
          simp [this, ih2 f hfx]

/-- **each argument lands in its field, everything else is zero**: in the record written for an
authored entry of type `id` (row `row` of the transcoder table), position `i` holds
* the encoded flags, when field `i` is the flags byte;
* the number `encodeArg` computes for the row's entry of that field, when the row writes the field;
* zero otherwise -/
theorem c04_entry_fields {cfg : RichCfg} {ctx : EncCtx} {rows : List TrigRow} {names : List String}
    {fc : String} {id : Nat} {args : List (String × RVal)} {flags : List Bool} {row : TrigRow}
    {rec : List Nat} (hrow : findRow rows id = some row)
    (h : encodeEntry cfg ctx rows names fc (.rich id args flags) = .ok rec) :
    rec.length = names.length ∧
    ∀ i (hi : i < names.length),
      (names[i] = "_flags" → rec[i]? = some ((cfg.flagsOf fc).encode flags)) ∧
      (names[i] ≠ "_flags" → names[i] ∈ row.encOrder →
        ∃ e v, row.encode.find? (·.field = names[i]) = some e ∧ encodeArg ctx row e args = .ok v ∧ rec[i]? = some v) ∧
      (names[i] ≠ "_flags" → names[i] ∉ row.encOrder → rec[i]? = some 0) := by
  simp only [encodeEntry, hrow] at h
  split at h
  · cases h
  · rename_i vals hm
    cases h
    have hk : ∀ f p, (match row.encode.find? (·.field = f) with
        | none => (Except.error Err.other : R (String × Nat))
        | some e => match encodeArg ctx row e args with
          | .error err => .error err
          | .ok v => .ok (f, v)) = .ok p → p.1 = f := by
      intro f p hp
      split at hp
      · cases hp
      · split at hp
        · cases hp
        · cases hp; rfl
    obtain ⟨k1, k2⟩ := mapR_keyed hk hm
    refine ⟨by simp, fun i hi => ⟨?_, ?_, ?_⟩⟩
    · intro hf; simp [hi, hf]
    · intro hf hin
      obtain ⟨v, hv1, hv2⟩ := k1 _ hin
      split at hv1
      · cases hv1
      · rename_i e he
        split at hv1
        · cases hv1
        · rename_i w hw
          cases hv1
          exact ⟨e, v, he, hw, by simp [hi, hf, hv2]⟩
    · intro hf hnin
      simp [hi, hf, k2 _ hnin]

/-- a raw (undecoded) entry is written verbatim -/
theorem c04_raw_entry_verbatim (cfg : RichCfg) (ctx : EncCtx) (rows : List TrigRow) (names : List String)
    (fc : String) (r : List Nat) : encodeEntry cfg ctx rows names fc (.raw r) = .ok r := rfl

/-! ### what each codec writes for an authored value -/

theorem c04_num (ctx : EncCtx) (row : TrigRow) (e : EncEntry) (args : List (String × RVal)) (n : Nat)
    (hc : e.codec = "num") (ha : args.lookup e.arg = some (.num n)) : encodeArg ctx row e args = .ok n := by
  simp [encodeArg, hc, ha]

theorem c04_enum (ctx : EncCtx) (row : TrigRow) (e : EncEntry) (args : List (String × RVal)) (id : Nat)
    (hc : e.codec = "enum") (ha : args.lookup e.arg = some (.enumv id)) : encodeArg ctx row e args = .ok id := by
  simp [encodeArg, hc, ha]

/-- a string argument is written as an id of exactly that text (or 0 for the null string);
a text missing from the table raises -/
theorem c04_string_reference (ctx : EncCtx) (row : TrigRow) (e : EncEntry) (args : List (String × RVal))
    (s : RStr) (hc : e.codec = "str") (ha : args.lookup e.arg = some (.str s)) {id : Nat}
    (h : encodeArg ctx row e args = .ok id) :
    (s = .null ∧ id = 0) ∨ (1 ≤ id ∧ ctx.texts[id - 1]? = some s.value) := by
  simp [encodeArg, hc, ha] at h
  cases s with
  | null => simp [idByStr] at h; exact .inl ⟨rfl, h.symm⟩
  | text t =>
    simp only [idByStr] at h
    split at h
    · rename_i j hj
      simp at h; subst h
      exact .inr ⟨by omega, by simpa [RStr.value] using lastIndexOf_some_get hj⟩
    · simp at h

/-- a unit-property argument is written as the slot of a stored set with equal content -/
theorem c04_cuwp_reference (ctx : EncCtx) (row : TrigRow) (e : EncEntry) (args : List (String × RVal))
    (c : RCuwp) (hc : e.codec = "cuwp") (ha : args.lookup e.arg = some (.cuwp c)) {i : Nat}
    (h : encodeArg ctx row e args = .ok i) : ∃ t ∈ ctx.cuwps, t.idx = some i ∧ t.key = c.key := by
  simp [encodeArg, hc, ha] at h
  cases hid : cuwpId ctx c with
  | none => simp [hid] at h
  | some j =>
    simp [hid] at h; subst h
    unfold cuwpId at hid
    cases ho : cuwpOwn ctx c with
    | some k =>
      simp [ho] at hid; subst hid
      unfold cuwpOwn at ho
      cases hci : c.idx with
      | none => simp [hci] at ho
      | some m =>
        simp only [hci] at ho
        cases hf : cuwpAt ctx m with
        | none => simp [hf] at ho
        | some t =>
          simp only [hf] at ho
          split at ho
          · rename_i hkey
            cases ho
            unfold cuwpAt at hf
            exact ⟨t, by have := List.mem_of_find?_eq_some hf; simpa using this,
              by have := List.find?_some hf; simpa using this, by simpa using hkey⟩
          · cases ho
    | none =>
      simp only [ho, Option.orElse_none] at hid
      cases hf : ctx.cuwps.reverse.find? (fun t => t.key == c.key) with
      | none => simp [hf] at hid
      | some t =>
        simp [hf] at hid
        exact ⟨t, by have := List.mem_of_find?_eq_some hf; simpa using this, hid,
          by have := List.find?_some hf; simpa using this⟩

/-- a location that carries an index and is stored in the table is written as that index; a new
(index-less) location is written as the slot the rebuild gave to THAT object -/
theorem c04_location_reference (ctx : EncCtx) (l : RLoc) {i : Nat} (h : locId ctx l = some i) :
    (l.idx = some i ∧ ∃ t ∈ ctx.locs, RLoc.same t l = true) ∨ (l.idx = none ∧ ctx.locIds.lookup l.uid = some i) := by
  unfold locId at h
  cases hl : l.idx with
  | none => simp [hl] at h; exact .inr ⟨rfl, h⟩
  | some k =>
    simp only [hl] at h
    split at h
    · rename_i hany
      cases h
      simp only [List.any_eq_true] at hany
      exact .inl ⟨rfl, hany⟩
    · cases h

/-- an AI script name is written as its four bytes, little-endian -/
theorem c04_ai (ctx : EncCtx) (row : TrigRow) (e : EncEntry) (args : List (String × RVal)) (name : Bytes)
    (hc : e.codec = "ai") (ha : args.lookup e.arg = some (.ai name)) (hl : name.length = 4) :
    encodeArg ctx row e args = .ok (leVal name) := by
  simp [encodeArg, hc, ha, encodeAi, hl]

/-- **the i-th authored trigger is the i-th emitted trigger** (with `c07_add_triggers_appends`:
authored triggers follow the existing ones, in authoring order) -/
theorem c04_triggers_in_order {cfg : RichCfg} {ctx : EncCtx} {ts : List RTrigger} {out : List Trigger}
    (h : mapR (encodeTrigger cfg ctx) ts = .ok out) :
    out.length = ts.length ∧ ∀ i (hi : i < ts.length) (hj : i < out.length), encodeTrigger cfg ctx ts[i] = .ok out[i] :=
  mapR_ok h

/-- the players byte `k` of an emitted trigger is 1 exactly for the authored players -/
theorem c04_players {cfg : RichCfg} {ctx : EncCtx} {t : RTrigger} {d : Trigger}
    (h : encodeTrigger cfg ctx t = .ok d) :
    d.players = (cfg.enumOf "PlayerId").map fun m => if t.players.contains m.id then 1 else 0 := by
  unfold encodeTrigger at h
  split at h
  · cases h
  · split at h
    · cases h
    · split at h
      · cases h
      · split at h
        · cases h
        · cases h; rfl

/-- hit points are written as floor(256 * value) -/
theorem c04_hitpoints (h : Hp) : encodeHp h = h.num * 256 / h.den := rfl

/-- **the saved bytes, read back through the layout's offsets, are exactly the encoded records**
(closing the byte gap): whatever triggers the rich encoder emitted — each with the layout's number
of conditions, actions and player bytes, which `c11_trigger_shape` guarantees — a reader that
walks the TRIG payload with the specification's field widths (`readTriggers`; the generated
layout equals the specification's by C06) obtains those very records.  With `c04_entry_fields`:
the number found at the specification offset of field `f` of an authored entry is the encoding
of the argument the format assigns to `f`. -/
theorem c04_saved_bytes_hold_the_records {cw aw : List Nat} {nc na ew np pw cw' tsz : Nat}
    (hsz : tsz = trigBodySize cw aw nc na ew np pw cw') (hpos : 0 < tsz)
    {ts : List Trigger} {b : Bytes} (h : packTriggers cw aw ew pw cw' ts = .ok b)
    (hall : ∀ t ∈ ts, t.conds.length = nc ∧ t.acts.length = na ∧ t.players.length = np) :
    readTriggers cw aw nc na ew np pw cw' tsz b = .ok ts :=
  readTriggers_packTriggers hsz hpos h hall

end Richchk.Props.C04
