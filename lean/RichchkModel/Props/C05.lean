/-
C05 — Every trigger action and condition uses the CHK-spec fields.
-/
import RichchkModel.Generated.TrigTable
import RichchkModel.Spec.TrigArgs
import RichchkModel.Lemmas.TrigTableLemmas
namespace Richchk.Props.C05
open Richchk

theorem no_translator_gaps : Generated.trigGaps = 0 := by decide

/-- **C05, actions.**  Complete enumeration of the 51 registered action transcoders as read off
the source: each row has the specification's number under the specification's name (and
`_decode` asserts it), reads every argument from exactly the field the specification assigns
to it, writes it back to that same field through the same codec, writes the type's own
number to the action byte, zero to every other field, and no two arguments share a field.
The registered set is exactly the specification's supported set, one transcoder per type. -/
theorem c05_actions_agree_with_spec :
    tableAgrees "_action_id" Spec.actionFields Generated.actionTable Spec.actions = true := by
  decide +kernel

/-- **C05, conditions** (22 registered condition transcoders) -/
theorem c05_conditions_agree_with_spec :
    tableAgrees "_condition_id" Spec.conditionFields Generated.conditionTable Spec.conditions = true := by
  decide +kernel

/-- one transcoder per type: registered numbers are pairwise distinct (strictly increasing) -/
theorem c05_registered_ids_distinct :
    (Generated.actionTable.map (·.id)).Pairwise (· < ·) ∧
    (Generated.conditionTable.map (·.id)).Pairwise (· < ·) := by decide +kernel

/-- the generic reading of a row: what is written to a field is what is read from it.
(`encodeFields`/`decodeArgs` are the table-driven record construction; the codecs applied to
the values are the bijections of C12 and the id lookups of C02/C04.) -/
theorem c05_field_holds_argument (r : TrigRow) (argVal : String → Nat)
    (hE : (r.encode.map (·.field)).Nodup) (hD : (r.decode.map (·.arg)).Nodup)
    {d : DecEntry} (hd : d ∈ r.decode) {e : EncEntry} (he : e ∈ r.encode)
    (hf : e.field = d.field) (ha : e.arg = d.arg) (hz : e.codec ≠ "zero") (ht : e.codec ≠ "typebyte") :
    assocGet (r.encodeFields argVal) d.field = argVal d.arg ∧
    assocGet (r.decodeArgs (assocGet (r.encodeFields argVal))) d.arg = argVal d.arg := by
  refine ⟨?_, decode_encode_arg r argVal hE hD hd he hf ha hz ht⟩
  rw [← hf, encodeFields_get r argVal hE he]
  simp [hz, ht, ha]

/-! non-vacuity: Move Location keeps the moved location in the second-group field and the
search area in the location field -/
example : (Generated.actionTable.find? (·.id = 38)).map (fun r => r.decode.map fun d => (d.arg, d.field)) =
    some [("_source_location", "_second_group"), ("_unit", "_action_argument_type"),
      ("_group", "_first_group"), ("_destination_location", "_location_id")] := by decide +kernel

end Richchk.Props.C05
