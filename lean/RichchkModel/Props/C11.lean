/-
C11 — Every emitted CHK is structurally valid, or the call raises.
Theorems about the encoders of Model/RichEnc.lean, for every rich map, configuration and
iteration order ("raises" = the `error` branch of the model).
-/
import RichchkModel.Lemmas.RichLemmas
import RichchkModel.Lemmas.TrigLemmas
import RichchkModel.Lemmas.UpusLemmas
import RichchkModel.Lemmas.RebuildLemmas
namespace Richchk.Props.C11
open Richchk

/-- **triggers**: whatever conditions/actions a rich trigger holds (0..100, rich or raw), either
the encoder raises or the emitted trigger has exactly `nConds` conditions and `nActs` actions,
zero execution flags and action index, one byte per PlayerId member -/
theorem c11_trigger_shape {cfg : RichCfg} {ctx : EncCtx} {t : RTrigger} {d : Trigger}
    (h : encodeTrigger cfg ctx t = .ok d) :
    d.conds.length = cfg.nConds ∧ d.acts.length = cfg.nActs ∧ d.execFlags = 0 ∧ d.cur = 0 ∧
    d.players.length = (cfg.enumOf "PlayerId").length := by
  have := encodeTrigger_shape h
  exact ⟨this.1, this.2.1, this.2.2.1, this.2.2.2.1, this.2.2.2.2.1⟩

theorem c11_oversize_trigger_raises (cfg : RichCfg) (ctx : EncCtx) (t : RTrigger)
    (h : cfg.nConds < t.conds.length ∨ cfg.nActs < t.acts.length) :
    ∃ e, encodeTrigger cfg ctx t = .error e := encodeTrigger_oversize_raises cfg ctx t h

/-- the byte size of a packed trigger with 16 conditions, 64 actions and 27 player bytes is the
size the layout declares (2400 for the generated layout, by C01.generated_table_ok) -/
theorem c11_trigger_bytes {cw aw : List Nat} {ew pw cw' : Nat} {b : Bytes} {t : Trigger}
    (h : packTrigger cw aw ew pw cw' t = .ok b) :
    b.length = trigBodySize cw aw t.conds.length t.acts.length ew t.players.length pw cw' :=
  packTrigger_length h

/-- **fixed-size tables**: locations, unit-property slots, usage table, WAV table are emitted at
exactly their mandated length -/
theorem c11_mrgn_shape {cfg : RichCfg} {ctx : EncCtx} {locs : List RLoc} {recs : List (List Nat)}
    (h : encodeMrgn cfg ctx locs = .ok recs) : recs.length = cfg.mrgnSlots ∧ ∀ r ∈ recs, r.length = 6 :=
  ⟨encodeMrgn_length h, encodeMrgn_record_width h⟩

theorem c11_uprp_shape (cfg : RichCfg) (cuwps : List RCuwp) :
    (encodeUprp cfg cuwps).length = cfg.cuwpSlots ∧ ∀ r ∈ encodeUprp cfg cuwps, r.length = 10 :=
  encodeUprp_shape cfg cuwps

theorem c11_upus_shape {cfg : RichCfg} {cuwps : List RCuwp} {u : List Nat}
    (h : rebuildUpus cfg cuwps = .ok u) : u.length = cfg.cuwpSlots := rebuildUpus_length h

theorem c11_wav_shape {cfg : RichCfg} {ctx : EncCtx} {ws : List RWav} {ids : List Nat}
    (h : encodeWav cfg ctx ws = .ok ids) : ids.length = cfg.wavSlots := encodeWav_length h

/-- **no dangling string id**: an id written for a string is 0 (no string) or an existing id
whose text is exactly that string -/
theorem c11_string_ids_resolve {texts : List Bytes} {s : RStr} {id : Nat}
    (h : idByStr texts s = .ok id) :
    (s = .null ∧ id = 0) ∨ (1 ≤ id ∧ id ≤ texts.length ∧ texts[id - 1]? = some s.value) := by
  cases s with
  | null => simp [idByStr] at h; exact .inl ⟨rfl, h.symm⟩
  | text t =>
    simp only [idByStr] at h
    split at h
    · rename_i j hj
      simp at h; subst h
      have := lastIndexOf_some_get hj
      refine .inr ⟨by omega, ?_, by simpa [RStr.value] using this⟩
      have hlt : j < texts.length := by
        rcases Nat.lt_or_ge j texts.length with h | h
        · exact h
        · rw [List.getElem?_eq_none h] at this; cases this
      omega
    · simp at h

/-- **no dangling unit-property id**: the id written for a unit-property set is the slot of a
stored set with equal content -/
theorem cuwpOwn_resolves {ctx : EncCtx} {c : RCuwp} {i : Nat} (h : cuwpOwn ctx c = some i) :
    ∃ t ∈ ctx.cuwps, t.idx = some i ∧ t.key = c.key := by
  unfold cuwpOwn at h
  cases hc : c.idx with
  | none => simp [hc] at h
  | some k =>
    simp only [hc] at h
    cases hf : cuwpAt ctx k with
    | none => simp [hf] at h
    | some t =>
      simp only [hf] at h
      split at h
      · rename_i hkey
        cases h
        unfold cuwpAt at hf
        refine ⟨t, ?_, ?_, by simpa using hkey⟩
        · have := List.mem_of_find?_eq_some hf; simpa using this
        · have := List.find?_some hf; simpa using this
      · cases h

theorem c11_cuwp_ids_resolve {ctx : EncCtx} {c : RCuwp} {i : Nat} (h : cuwpId ctx c = some i) :
    ∃ t ∈ ctx.cuwps, t.idx = some i ∧ t.key = c.key := by
  unfold cuwpId at h
  cases ho : cuwpOwn ctx c with
  | some j => simp [ho] at h; subst h; exact cuwpOwn_resolves ho
  | none =>
    simp only [ho, Option.orElse_none] at h
    cases hf : ctx.cuwps.reverse.find? (fun t => t.key == c.key) with
    | none => simp [hf] at h
    | some t =>
      simp [hf] at h
      refine ⟨t, ?_, h, ?_⟩
      · have := List.mem_of_find?_eq_some hf; simpa using this
      · have := List.find?_some hf; simpa using this

/-- **a reference to a stored slot stays on that slot**: a set carrying index `i` that is the one
stored at `i` is written as `i`, whatever other slots hold equal content -/
theorem c11_cuwp_reference_keeps_slot {ctx : EncCtx} {c : RCuwp} {i : Nat} (hi : c.idx = some i)
    (hs : ∃ t, cuwpAt ctx i = some t ∧ t.key = c.key) : cuwpId ctx c = some i := by
  obtain ⟨t, ht, hk⟩ := hs
  simp [cuwpId, cuwpOwn, hi, ht, hk]

/-- a string that is not in the table makes the encoder raise (KeyError), never a wrong id -/
theorem c11_missing_string_raises (texts : List Bytes) (t : Bytes) (h : t ∉ texts) :
    idByStr texts (.text t) = .error .key := by
  simp only [idByStr]
  cases hl : lastIndexOf texts t with
  | none => rfl
  | some j => exact absurd (List.mem_of_getElem? (lastIndexOf_some_get hl)) h

/-- **the slot-usage table agrees with the slots in use**: entry `i` of the emitted UPUS is 1
exactly when the unit-property list written to UPRP holds a set at slot `i+1` -/
theorem c11_upus_agrees_with_slots {cfg : RichCfg} {cuwps : List RCuwp} {u : List Nat}
    (h : rebuildUpus cfg cuwps = .ok u) :
    u.length = cfg.cuwpSlots ∧
    ∀ i, i < cfg.cuwpSlots → (u.getD i 0 = 1 ↔ ∃ c ∈ cuwps, c.idx = some (i + 1)) :=
  rebuildUpus_spec h

/-- a set whose index is 0 or beyond the table makes the save raise (it cannot be marked in use) -/
theorem c11_out_of_range_slot_raises (cfg : RichCfg) (cuwps : List RCuwp) (c : RCuwp) (hc : c ∈ cuwps)
    (hbad : c.idx = none ∨ c.idx = some 0 ∨ ∃ k, c.idx = some k ∧ cfg.cuwpSlots < k) :
    ∃ e, rebuildUpus cfg cuwps = .error e := by
  cases hr : rebuildUpus cfg cuwps with
  | error e => exact ⟨e, rfl⟩
  | ok u =>
    exfalso
    unfold rebuildUpus at hr
    have key : ∀ (cs : List RCuwp) (acc out : List Nat), c ∈ cs → acc.length = cfg.cuwpSlots →
        rebuildUpus.go cs acc = .ok out → False := by
      intro cs
      induction cs with
      | nil => intro _ _ hm; simp at hm
      | cons d ds ih =>
        intro acc out hm hacc hgo
        simp only [rebuildUpus.go] at hgo
        rcases List.mem_cons.mp hm with hcd | hcd
        · subst hcd
          rcases hbad with h0 | h0 | ⟨k, hk, hgt⟩
          · simp [h0] at hgo
          · simp [h0] at hgo
          · simp only [hk] at hgo
            split at hgo
            · cases hgo
            · split at hgo
              · omega
              · cases hgo
        · split at hgo
          · cases hgo
          · split at hgo
            · cases hgo
            · split at hgo
              · exact ih _ _ hcd (by simpa using hacc) hgo
              · cases hgo
    exact key cuwps _ u hc (by simp) hr


/-! ### switch table and switch numbers -/

/-- the placement loop of the switch rebuild keeps the table's length, and every number it hands out or
accepts is a position of the table -/
theorem rebuildSwnm_go_spec (cfg : RichCfg) :
    ∀ (ss : List RSwitch) (free : List Nat) (tbl : List RSwitch) (ids : List (RSwitch × Nat))
      (out : List RSwitch) (oids : List (RSwitch × Nat)),
      (∀ f ∈ free, f < tbl.length) → (∀ p ∈ ids, p.2 < tbl.length) →
      rebuildSwnm.go ss free tbl ids = .ok (out, oids) →
      out.length = tbl.length ∧ ∀ p ∈ oids, p.2 < tbl.length := by
  intro ss
  induction ss with
  | nil =>
    intro free tbl ids out oids _ hids h
    simp only [rebuildSwnm.go, Except.ok.injEq, Prod.mk.injEq] at h
    obtain ⟨rfl, rfl⟩ := h
    exact ⟨rfl, fun p hp => hids p (List.mem_reverse.mp hp)⟩
  | cons s rest ih =>
    intro free tbl ids out oids hfree hids h
    simp only [rebuildSwnm.go] at h
    split at h
    · rename_i i _
      split at h
      · simp at h
      · rename_i cur hcur
        have hi : i < tbl.length := by
          rcases List.getElem?_eq_some_iff.mp hcur with ⟨hlt, _⟩; exact hlt
        split at h
        · have := ih free (tbl.set i s) ((s, i) :: ids) out oids
            (by simpa using hfree)
            (by intro p hp; rcases List.mem_cons.mp hp with rfl | hp
                · simpa using hi
                · simpa using hids p hp) h
          simpa using this
        · have := ih free tbl ((s, i) :: ids) out oids hfree
            (by intro p hp; rcases List.mem_cons.mp hp with rfl | hp
                · exact hi
                · exact hids p hp) h
          exact this
    · split at h
      · simp at h
      · rename_i f fs
        have hf : f < tbl.length := hfree f (by simp)
        have := ih fs (tbl.set f ⟨s.name, some f, 0⟩) ((s, f) :: ids) out oids
          (by intro x hx; simpa using hfree x (by simp [hx]))
          (by intro p hp; rcases List.mem_cons.mp hp with rfl | hp
              · simpa using hf
              · simpa using hids p hp) h
        simpa using this

/-- **switch table shape and switch numbers**: a successful switch rebuild yields exactly
`switchSlots` (256) entries, and every switch number the save will write is a position of that table -/
theorem c11_swnm_shape_and_ids {cfg : RichCfg} {secs : List RSection} {order : Option (List Nat)}
    {tbl : List RSwitch} {ids : List (RSwitch × Nat)}
    (h : rebuildSwnm cfg secs order = .ok (tbl, ids)) :
    tbl.length = cfg.switchSlots ∧ ∀ p ∈ ids, p.2 < cfg.switchSlots := by
  have fin : ∀ (ss : List RSwitch) (p : Nat → Bool),
      rebuildSwnm.go ss ((List.range cfg.switchSlots).filter p)
        ((List.range cfg.switchSlots).map fun i => (⟨.null, some i, 0⟩ : RSwitch)) [] = .ok (tbl, ids) →
      tbl.length = cfg.switchSlots ∧ ∀ p ∈ ids, p.2 < cfg.switchSlots := by
    intro ss p hgo
    have := rebuildSwnm_go_spec cfg ss _ _ [] tbl ids
      (by intro f hf; simp only [List.length_map, List.length_range]
          exact List.mem_range.mp (List.mem_filter.mp hf).1)
      (by simp) hgo
    simpa using this
  unfold rebuildSwnm at h
  simp only at h
  split at h
  · split at h
    · simp at h
    · exact fin _ _ h
  · split at h
    · simp at h
    · exact fin _ _ h

/-- **no dangling location id**: the number written for a location that carries an index is written
only if the location table the save emits holds that very location at that index (`hall`: every entry
of the emitted table carries its index — the rebuild's output invariant) -/
theorem c11_location_ids_resolve {ctx : EncCtx} {l : RLoc} {i k : Nat} (hk : l.idx = some k)
    (hall : ∀ t ∈ ctx.locs, t.idx.isSome = true)
    (h : locId ctx l = some i) : i = k ∧ ∃ t ∈ ctx.locs, RLoc.same t l = true ∧ t.idx = some k := by
  unfold locId at h
  rw [hk] at h
  simp only at h
  split at h
  · rename_i hany
    cases h
    refine ⟨rfl, ?_⟩
    obtain ⟨t, ht, hs⟩ := List.any_eq_true.mp hany
    refine ⟨t, ht, hs, ?_⟩
    have hsome := hall t ht
    cases hti : t.idx with
    | none => rw [hti] at hsome; simp at hsome
    | some a =>
      simp only [RLoc.same, hti, hk, Bool.and_eq_true, beq_iff_eq] at hs
      have := hs.1.2
      simpa using this
  · cases h

/-- every entry of the location table a save emits carries its index (the hypothesis `hall` of
`c11_location_ids_resolve` holds for the table the rebuild produces) -/
theorem c11_emitted_locations_carry_their_index {cfg : RichCfg} {secs : List RSection} {order : Option (List Nat)}
    {locs : List RLoc} {ids : List (Nat × Nat)} (h : rebuildMrgn cfg secs order = .ok (locs, ids)) :
    ∀ t ∈ locs, t.idx.isSome = true := by
  unfold rebuildMrgn at h
  split at h
  · rename_i table _
    split at h
    · simp at h
    · rename_i hno
      simp only at h
      split at h
      · simp at h
      · simp only [Except.ok.injEq, Prod.mk.injEq] at h
        obtain ⟨rfl, _⟩ := h
        intro t ht
        rcases List.mem_append.mp ht with ht | ht
        · have : ¬ (table.any (·.idx.isNone) = true) := hno
          rw [List.any_eq_true] at this
          cases hti : t.idx with
          | some _ => rfl
          | none => exact absurd ⟨t, ht, by simp [hti]⟩ this
        · obtain ⟨p, hp, rfl⟩ := List.mem_map.mp ht
          obtain ⟨q, _, hq⟩ := List.mem_filterMap.mp hp
          obtain ⟨l, r⟩ := q
          simp only at hq
          split at hq
          · cases hq; rfl
          · cases hq
  · simp at h

/-- the slots of the entries a rebuild appends are among the slots the allocator handed out, in order -/
theorem placed_idx_sublist (placement : List RLoc) (ress : List Res) :
    List.Sublist
      ((((placement.zip ress).filterMap fun (l, r) => match r with
          | .placed s => some (({ l with idx := some s } : RLoc), l.uid)
          | .skipped => none).map (·.1)).filterMap (·.idx))
      (placedSlots ress) := by
  induction placement generalizing ress with
  | nil => simp
  | cons l ls ih =>
    cases ress with
    | nil => simp
    | cons r rs =>
      cases r with
      | placed s =>
        simp only [List.zip_cons_cons, List.filterMap_cons, List.map_cons, placedSlots]
        exact List.Sublist.cons₂ _ (ih rs)
      | skipped =>
        simp only [List.zip_cons_cons, List.filterMap_cons, placedSlots]
        exact ih rs

/-- **no two entries of the emitted location table sit on one slot**, and no appended entry sits on a slot
the stored table already uses: composition of the rebuild with the allocator's soundness (C09), for every
rich map and every iteration order -/
theorem c11_emitted_location_slots_distinct {cfg : RichCfg} {secs : List RSection} {order : Option (List Nat)}
    {locs : List RLoc} {ids : List (Nat × Nat)} (h : rebuildMrgn cfg secs order = .ok (locs, ids))
    (table : List RLoc) (ht : secs.filter (isSectionNamed nMRGN) = [.mrgn table])
    (hnd : (table.filterMap (·.idx)).Nodup) :
    (locs.filterMap (·.idx)).Nodup := by
  unfold rebuildMrgn at h
  simp only [ht] at h
  split at h
  · simp at h
  · split at h
    · simp at h
    · rename_i ress st hal
      simp only [Except.ok.injEq, Prod.mk.injEq] at h
      obtain ⟨rfl, _⟩ := h
      obtain ⟨hnd2, hfresh⟩ := Props.C09.c09_sound _ _ _ hal
      rw [List.filterMap_append]
      refine List.nodup_append.mpr ⟨hnd, (placed_idx_sublist _ ress).nodup hnd2, ?_⟩
      intro a ha b hb hab
      subst hab
      exact (hfresh a ((placed_idx_sublist _ ress).subset hb)).1 ha

theorem placed_cuwp_idx_sublist (placement : List RCuwp) (ress : List Res) :
    List.Sublist
      (((placement.zip ress).filterMap fun (c, r) => match r with
          | .placed s => some ({ c with idx := some s } : RCuwp)
          | .skipped => none).filterMap (·.idx))
      (placedSlots ress) := by
  induction placement generalizing ress with
  | nil => simp
  | cons l ls ih =>
    cases ress with
    | nil => simp
    | cons r rs =>
      cases r with
      | placed s =>
        simp only [List.zip_cons_cons, List.filterMap_cons, placedSlots]
        exact List.Sublist.cons₂ _ (ih rs)
      | skipped =>
        simp only [List.zip_cons_cons, List.filterMap_cons, placedSlots]
        exact ih rs

/-- **no two unit-property sets of the emitted table sit on one slot**, for every rich map and every
iteration order (with the usage-table theorem above: the emitted UPRP / UPUS pair is consistent) -/
theorem c11_emitted_cuwp_slots_distinct {cfg : RichCfg} {secs : List RSection} {order : Option (List Nat)}
    {cuwps : List RCuwp} (h : rebuildUprp cfg secs order = .ok cuwps)
    (table : List RCuwp)
    (ht : secs.filter (isSectionNamed nUPRP) = [] ∧ table = [] ∨ secs.filter (isSectionNamed nUPRP) = [.uprp table])
    (hnd : (table.filterMap (·.idx)).Nodup) :
    (cuwps.filterMap (·.idx)).Nodup := by
  have main : ∀ (tbl : List RCuwp), (tbl.filterMap (·.idx)).Nodup →
      (if tbl.any (·.idx.isNone) then (.error .assert : R (List RCuwp)) else
        let found := (secs.filter (fun s => !isSectionNamed nUPRP s)).flatMap (sectionCuwps cfg)
        let batch := allocOrder order (dedupBy (fun a b => a.key == b.key) found)
        let need := batch.filter fun c => c.idx.isSome || !(tbl.any fun t => t.key == c.key)
        let placement := need.filter (·.idx.isSome) ++ need.filter (·.idx.isNone)
        match allocate cfg.uprpCfg (tbl.filterMap (·.idx)) (placement.map fun c => match c.idx with | some i => Req.carry i | none => Req.fresh) with
        | .error e => .error e
        | .ok (ress, _) =>
          .ok (tbl ++ (placement.zip ress).filterMap fun (c, r) => match r with
            | .placed s => some { c with idx := some s }
            | .skipped => none)) = .ok cuwps → (cuwps.filterMap (·.idx)).Nodup := by
    intro tbl hn hh
    split at hh
    · simp at hh
    · simp only at hh
      split at hh
      · simp at hh
      · rename_i ress st hal
        simp only [Except.ok.injEq] at hh
        subst hh
        obtain ⟨hnd2, hfresh⟩ := Props.C09.c09_sound _ _ _ hal
        rw [List.filterMap_append]
        refine List.nodup_append.mpr ⟨hn, (placed_cuwp_idx_sublist _ ress).nodup hnd2, ?_⟩
        intro a ha b hb hab
        subst hab
        exact (hfresh a ((placed_cuwp_idx_sublist _ ress).subset hb)).1 ha
  unfold rebuildUprp at h
  rcases ht with ⟨h0, rfl⟩ | h1
  · simp only [h0] at h
    exact main [] (by simp) h
  · simp only [h1] at h
    exact main table hnd h

/-- **no dangling switch number**: with the lookup the switch rebuild produced, the number written for a switch
argument is a position of the emitted 256-entry switch table -/
theorem c11_written_switch_number_in_table {cfg : RichCfg} {secs : List RSection} {order : Option (List Nat)}
    {tbl : List RSwitch} {ids : List (RSwitch × Nat)} (h : rebuildSwnm cfg secs order = .ok (tbl, ids))
    (ctx : EncCtx) (hctx : ctx.switchIds = ids) (s : RSwitch) (i : Nat) (hs : switchId ctx s = some i) :
    i < tbl.length := by
  obtain ⟨hl, hb⟩ := c11_swnm_shape_and_ids h
  unfold switchId at hs
  rw [hctx] at hs
  cases hf : ids.find? (fun p => RSwitch.same p.1 s) with
  | none => rw [hf] at hs; simp at hs
  | some p =>
    rw [hf] at hs
    simp only [Option.map_some, Option.some.injEq] at hs
    rw [← hs, hl]
    exact hb p (List.mem_of_find?_eq_some hf)

/-- in a list whose keys are pairwise different, an element is determined by its key -/
theorem eq_of_key_nodup {α} (key : α → Option Nat) :
    ∀ (xs : List α), (xs.filterMap key).Nodup → ∀ x ∈ xs, ∀ y ∈ xs, ∀ i, key x = some i → key y = some i → x = y := by
  intro xs
  induction xs with
  | nil => intro _ x hx; simp at hx
  | cons a as ih =>
    intro hnd x hx y hy i hxi hyi
    cases hka : key a with
    | none =>
      have hnd' : (as.filterMap key).Nodup := by simpa [List.filterMap_cons, hka] using hnd
      have hxa : x ∈ as := by
        rcases List.mem_cons.mp hx with rfl | h
        · rw [hka] at hxi; cases hxi
        · exact h
      have hya : y ∈ as := by
        rcases List.mem_cons.mp hy with rfl | h
        · rw [hka] at hyi; cases hyi
        · exact h
      exact ih hnd' x hxa y hya i hxi hyi
    | some k =>
      have hnd' : k ∉ as.filterMap key ∧ (as.filterMap key).Nodup := by
        simpa [List.filterMap_cons, hka] using hnd
      rcases List.mem_cons.mp hx with rfl | hxa
      · rcases List.mem_cons.mp hy with rfl | hya
        · rfl
        · exfalso
          rw [hka] at hxi; cases hxi
          exact hnd'.1 (List.mem_filterMap.mpr ⟨y, hya, hyi⟩)
      · rcases List.mem_cons.mp hy with rfl | hya
        · exfalso
          rw [hka] at hyi; cases hyi
          exact hnd'.1 (List.mem_filterMap.mpr ⟨x, hxa, hxi⟩)
        · exact ih hnd'.2 x hxa y hya i hxi hyi

/-- **every entry of the emitted location table is the one its slot number resolves to**: the lookup the MRGN
encoder performs for slot `i` (later entries win) returns exactly the entry that carries `i` — in particular a
location the save placed on a new slot is what that slot holds, and nothing else claims the slot -/
theorem c11_emitted_slot_holds_its_location {cfg : RichCfg} {secs : List RSection} {order : Option (List Nat)}
    {locs : List RLoc} {ids : List (Nat × Nat)} (h : rebuildMrgn cfg secs order = .ok (locs, ids))
    (table : List RLoc) (ht : secs.filter (isSectionNamed nMRGN) = [.mrgn table])
    (hnd : (table.filterMap (·.idx)).Nodup) :
    ∀ l ∈ locs, ∀ i, l.idx = some i → locs.reverse.find? (fun t => t.idx == some i) = some l := by
  have hN := c11_emitted_location_slots_distinct h table ht hnd
  intro l hl i hi
  cases hf : locs.reverse.find? (fun t => t.idx == some i) with
  | none =>
    have := List.find?_eq_none.mp hf l (List.mem_reverse.mpr hl)
    simp [hi] at this
  | some y =>
    have hy : y ∈ locs := List.mem_reverse.mp (List.mem_of_find?_eq_some hf)
    have hyi : y.idx = some i := by simpa using List.find?_some hf
    rw [eq_of_key_nodup (·.idx) locs hN y hy l hl i hyi hi]

/-- the same for the emitted unit-property table: the slot lookup (`cuwpAt`) for slot `i` returns exactly the set
that carries `i` -/
theorem c11_emitted_slot_holds_its_cuwp {cfg : RichCfg} {secs : List RSection} {order : Option (List Nat)}
    {cuwps : List RCuwp} (h : rebuildUprp cfg secs order = .ok cuwps)
    (table : List RCuwp)
    (ht : secs.filter (isSectionNamed nUPRP) = [] ∧ table = [] ∨ secs.filter (isSectionNamed nUPRP) = [.uprp table])
    (hnd : (table.filterMap (·.idx)).Nodup) :
    ∀ c ∈ cuwps, ∀ i, c.idx = some i → cuwps.reverse.find? (fun t => t.idx == some i) = some c := by
  have hN := c11_emitted_cuwp_slots_distinct h table ht hnd
  intro c hc i hi
  cases hf : cuwps.reverse.find? (fun t => t.idx == some i) with
  | none =>
    have := List.find?_eq_none.mp hf c (List.mem_reverse.mpr hc)
    simp [hi] at this
  | some y =>
    have hy : y ∈ cuwps := List.mem_reverse.mp (List.mem_of_find?_eq_some hf)
    have hyi : y.idx = some i := by simpa using List.find?_some hf
    rw [eq_of_key_nodup (·.idx) cuwps hN y hy c hc i hyi hi]

/-- **every set of the emitted unit-property table is written as its own slot number**: with the table the rebuild
produced as the encode context, a reference to a set that sits in the table at slot `i` — stored before, or placed
by this very save — is written as `i`, whatever other slots hold equal values (composition of the rebuild, the
allocator's soundness and the lookup rule of repository fix 8ebe6f0) -/
theorem c11_emitted_cuwp_reference_is_its_slot {cfg : RichCfg} {secs : List RSection} {order : Option (List Nat)}
    {cuwps : List RCuwp} (h : rebuildUprp cfg secs order = .ok cuwps)
    (table : List RCuwp)
    (ht : secs.filter (isSectionNamed nUPRP) = [] ∧ table = [] ∨ secs.filter (isSectionNamed nUPRP) = [.uprp table])
    (hnd : (table.filterMap (·.idx)).Nodup)
    (ctx : EncCtx) (hctx : ctx.cuwps = cuwps) (c : RCuwp) (hc : c ∈ cuwps) (i : Nat) (hi : c.idx = some i) :
    cuwpId ctx c = some i := by
  apply c11_cuwp_reference_keeps_slot hi
  refine ⟨c, ?_, rfl⟩
  unfold cuwpAt
  rw [hctx]
  exact c11_emitted_slot_holds_its_cuwp h table ht hnd c hc i hi

/-- **every location of the emitted table is written as its own slot number**: with the table the rebuild produced
as the encode context, a reference to a location that sits in it at slot `i` is written as `i` (and by
`c11_emitted_slot_holds_its_location` slot `i` holds exactly that location) -/
theorem c11_emitted_location_reference_is_its_slot (ctx : EncCtx) (l : RLoc) (hl : l ∈ ctx.locs) (i : Nat)
    (hi : l.idx = some i) : locId ctx l = some i := by
  unfold locId
  rw [hi]
  have hself : RLoc.same l l = true := by simp [RLoc.same, hi]
  have : ctx.locs.any (fun t => RLoc.same t l) = true := List.any_eq_true.mpr ⟨l, hl, hself⟩
  simp [this]

end Richchk.Props.C11
