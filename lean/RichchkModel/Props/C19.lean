/-
C19 — Decoding arbitrary bytes terminates with an error or a writable model.
-/
import RichchkModel.Props.C01
namespace Richchk.Props.C19
open Richchk

/-- **C19 (a): termination.**  `decodeChk` (and the per-section loops `readRecsEof`,
`readTriggers`, `splitStrings` it calls) are total Lean functions: the kernel accepted their
definitions only with a proof that every loop iteration strictly shortens the remaining
input (`termination_by bs.length`).  Totality is therefore a theorem about the model's
loops; this statement records that every input yields a value. -/
theorem c19_total (bs : Bytes) :
    (∃ e, decodeChk Generated.decTable bs = .error e) ∨
    (∃ secs, decodeChk Generated.decTable bs = .ok secs) := by
  cases h : decodeChk Generated.decTable bs with
  | error e => exact .inl ⟨e, rfl⟩
  | ok s => exact .inr ⟨s, rfl⟩

/-- **C19 (b): writable model.**  For *every* byte string (truncated, oversized, random…),
if decoding returns a model then encoding it succeeds, and the written bytes decode to an
equal model; the rewritten file is never longer than the input. -/
theorem c19_writable {bs : Bytes} {secs : List DSection}
    (h : decodeChk Generated.decTable bs = .ok secs) :
    ∃ out, encodeChk Generated.encTable secs = .ok out ∧
      decodeChk Generated.decTable out = .ok secs ∧ out.length ≤ bs.length := by
  rw [← C01.decode_layouts_eq_encode_layouts]
  exact chk_decode_encode_stable C01.generated_table_ok h

/-- the re-encoded bytes are a fixed point: decoding and encoding them again changes nothing -/
theorem c19_fixed_point {bs out : Bytes} {secs : List DSection}
    (h : decodeChk Generated.decTable bs = .ok secs)
    (he : encodeChk Generated.encTable secs = .ok out) :
    decodeChk Generated.decTable out = .ok secs := by
  obtain ⟨out', he', hd', _⟩ := c19_writable h
  rw [he] at he'
  cases he'
  exact hd'

/-! non-vacuity: a truncated chunk (size field larger than the data) decodes to a model,
a 3-byte tail and a non-7-bit string byte are errors. -/
example : decodeChk Generated.decTable ([65, 66, 67, 68] ++ leBytes 4 100 ++ [1, 2, 3]) =
    .ok [.unknown [65, 66, 67, 68] [1, 2, 3]] := by decide +kernel
example : decodeChk Generated.decTable [65, 66, 67] = .error .struct := by decide +kernel
example : decodeChk Generated.decTable ([83, 84, 82, 32] ++ leBytes 4 4 ++ [0, 0, 0xc3, 0]) =
    .error .unicode := by decide +kernel

end Richchk.Props.C19
