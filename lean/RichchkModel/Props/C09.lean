/-
C09 — Slot allocation is sound and fails loudly when full.

`allocate cfg occ reqs` is the allocator shared by the four slot tables (Model/Alloc.lean):
`occ` = occupied slots, `reqs` = the batch in ANY iteration order (each request carries an
index or asks for a fresh slot).  Model/Editors.lean expresses the four editors through it;
the `alloc` correspondence op ties those to the real editors with the observed set order.
-/
import RichchkModel.Generated.Consts
import RichchkModel.Spec.Consts
import RichchkModel.Lemmas.AllocPerm
import RichchkModel.Model.Editors
import RichchkModel.Model.RichEnc
namespace Richchk.Props.C09
open Richchk

theorem no_translator_gaps : Generated.constGaps = 0 := by decide

/-- instantiation obligation: each editor's id range, reserved id and exhaustion behaviour, as
read off the source, are the format's -/
theorem generated_configs_are_spec :
    Generated.mrgnCfg = Spec.locationSlots ∧ Generated.uprpCfg = Spec.cuwpSlots ∧
    Generated.wavCfg = Spec.wavSlots ∧ Generated.swnmCfg = Spec.switchSlots := by decide

/-- **C09 soundness**, for every occupancy pattern, every batch and every iteration order:
each slot handed out lies inside the range, was empty, is shared with no other object of the
batch, and stays occupied. -/
theorem c09_sound (cfg : AllocCfg) (occ : List Nat) (reqs : List Req) {ress : List Res} {st : AllocSt}
    (h : allocate cfg occ reqs = .ok (ress, st)) :
    (placedSlots ress).Nodup ∧
    ∀ i ∈ placedSlots ress, i ∉ occ ∧ cfg.lo ≤ i ∧ i ≤ cfg.hi ∧ i ∈ st.occ := by
  have := allocRun_sound (freeIds_inv cfg occ) h
  exact ⟨this.2.1, this.2.2.1⟩

/-- **C09: the reserved Anywhere slot is never given to an object that carried no index** -/
theorem c09_reserved_never_allocated (cfg : AllocCfg) (occ : List Nat) (reqs : List Req)
    {ress : List Res} {st : AllocSt} (h : allocate cfg occ reqs = .ok (ress, st))
    (k : Nat) (hk : k < (carriedFirst reqs).length) (hk' : k < ress.length) (i : Nat)
    (hr : (carriedFirst reqs)[k] = .fresh) (hp : ress[k] = .placed i) : cfg.reserved ≠ some i :=
  allocRun_fresh_not_reserved (freeIds_inv cfg occ) h k hk hk' i hr hp

/-- **C09: objects that already carry a free in-range slot keep it** (whatever else is in the
batch: index-carrying objects are placed before any fresh slot is handed out) -/
theorem c09_carried_index_kept (cfg : AllocCfg) (occ : List Nat) (reqs : List Req)
    {ress : List Res} {st : AllocSt} (h : allocate cfg occ reqs = .ok (ress, st))
    {i : Nat} (hi : i ∈ carriedIdx reqs) (hocc : i ∉ occ) : i ∈ placedSlots ress := by
  have spec := allocate_spec cfg occ reqs
  simp only at spec
  by_cases hc : ((carriedIdx reqs).all (inRange cfg) = false ∨ (cfg.raiseWhenFull = true ∧
      ((freeIds cfg occ).filter (fun f => !(carriedIdx reqs).contains f)).length < freshCount reqs))
  · obtain ⟨e, he⟩ := spec.1 hc; rw [h] at he; cases he
  · obtain ⟨r', s', h', _, _, hpl⟩ := spec.2 hc
    rw [h] at h'; cases h'
    exact (hpl i).mpr (.inl ⟨hi, hocc⟩)

/-- **C09: a full table never blocks a call that needs no new slot** -/
theorem c09_full_table_does_not_block (cfg : AllocCfg) (occ : List Nat) (reqs : List Req)
    (hnofresh : freshCount reqs = 0) (hrange : (carriedIdx reqs).all (inRange cfg) = true) :
    ∃ out, allocate cfg occ reqs = .ok out := by
  have spec := allocate_spec cfg occ reqs
  simp only at spec
  have hc : ¬ ((carriedIdx reqs).all (inRange cfg) = false ∨ (cfg.raiseWhenFull = true ∧
      ((freeIds cfg occ).filter (fun f => !(carriedIdx reqs).contains f)).length < freshCount reqs)) := by
    rw [hnofresh, hrange]; simp
  obtain ⟨r', s', h', _⟩ := spec.2 hc
  exact ⟨_, h'⟩

/-- **C09: exhaustion is loud** on the raising tables (unit properties, WAV, switches): more
index-less objects than free slots makes the call fail — nothing is dropped or overwritten -/
theorem c09_exhaustion_raises (cfg : AllocCfg) (occ : List Nat) (reqs : List Req)
    (hr : cfg.raiseWhenFull = true)
    (hfull : ((freeIds cfg occ).filter (fun f => !(carriedIdx reqs).contains f)).length < freshCount reqs) :
    ∃ e, allocate cfg occ reqs = .error e :=
  (allocate_spec cfg occ reqs).1 (.inr ⟨hr, hfull⟩)

/-- an index outside the format's range is rejected loudly -/
theorem c09_out_of_range_rejected (cfg : AllocCfg) (occ : List Nat) (reqs : List Req)
    (h : (carriedIdx reqs).all (inRange cfg) = false) : ∃ e, allocate cfg occ reqs = .error e :=
  (allocate_spec cfg occ reqs).1 (.inl h)

/-- equal WAV paths reuse one slot: the request filter never asks twice for the same path nor
for a path the table already holds -/
theorem c09_wav_paths_once (paths seen : List Nat) :
    (wavNew paths seen).Nodup ∧ ∀ p ∈ wavNew paths seen, p ∈ paths ∧ p ∉ seen := by
  induction paths generalizing seen with
  | nil => simp [wavNew]
  | cons p ps ih =>
    simp only [wavNew]
    split
    · have := ih seen
      exact ⟨this.1, fun q hq => ⟨by simp [(this.2 q hq).1], (this.2 q hq).2⟩⟩
    · rename_i hc
      have := ih (p :: seen)
      refine ⟨List.nodup_cons.mpr ⟨fun hm => (this.2 p hm).2 (by simp), this.1⟩, ?_⟩
      intro q hq
      rcases List.mem_cons.mp hq with rfl | hq'
      · exact ⟨by simp, by simpa using hc⟩
      · exact ⟨by simp [(this.2 q hq').1], fun hs => (this.2 q hq').2 (by simp [hs])⟩

/-! non-vacuity: a full location table except slot 7; a new location gets 7, never Anywhere -/
example : (allocate Generated.mrgnCfg ((List.range 256).filter (· ≠ 7)) [.fresh]).toOption.map (·.1) =
    some [.placed 7] := by decide +kernel
example : (allocate Generated.mrgnCfg ((List.range 256).filter (· ≠ 64)) [.fresh, .carry 3]).toOption.map (·.1) =
    some [.skipped, .skipped] := by decide +kernel

/-! ### switches (the fourth slot table; its rebuild is a loop of its own, `rebuildSwnm.go`) -/

/-- the numbers the switch rebuild handed to switches that carried none -/
def newSwitchNumbers (ids : List (RSwitch × Nat)) : List Nat :=
  (ids.filter (fun p => p.1.idx.isNone)).map (·.2)

theorem newSwitchNumbers_cons_none (s : RSwitch) (f : Nat) (ids : List (RSwitch × Nat)) (h : s.idx = none) :
    newSwitchNumbers ((s, f) :: ids) = f :: newSwitchNumbers ids := by
  simp [newSwitchNumbers, h]

theorem newSwitchNumbers_cons_some (s : RSwitch) (i f : Nat) (ids : List (RSwitch × Nat)) (h : s.idx = some i) :
    newSwitchNumbers ((s, f) :: ids) = newSwitchNumbers ids := by
  simp [newSwitchNumbers, h]

theorem newSwitchNumbers_reverse (ids : List (RSwitch × Nat)) :
    newSwitchNumbers ids.reverse = (newSwitchNumbers ids).reverse := by
  simp [newSwitchNumbers, List.filter_reverse, List.map_reverse]

/-- invariant of the placement loop, relative to the set `C` of numbers the switches of the batch carry -/
theorem rebuildSwnm_go_fresh (C : List Nat) :
    ∀ (ss : List RSwitch) (free : List Nat) (tbl : List RSwitch) (ids : List (RSwitch × Nat))
      (out : List RSwitch) (oids : List (RSwitch × Nat)),
      free.Nodup → (∀ f ∈ free, f ∉ C) → (∀ s ∈ ss, ∀ i, s.idx = some i → i ∈ C) →
      (newSwitchNumbers ids).Nodup → (∀ n ∈ newSwitchNumbers ids, n ∉ free ∧ n ∉ C) →
      (∀ p ∈ ids, ∀ i, p.1.idx = some i → p.2 = i ∧ i ∈ C) →
      rebuildSwnm.go ss free tbl ids = .ok (out, oids) →
      (newSwitchNumbers oids).Nodup ∧ (∀ n ∈ newSwitchNumbers oids, n ∉ C) ∧
        (∀ p ∈ oids, ∀ i, p.1.idx = some i → p.2 = i ∧ i ∈ C) := by
  intro ss
  induction ss with
  | nil =>
    intro free tbl ids out oids _ _ _ hnd hnew hcar h
    simp only [rebuildSwnm.go, Except.ok.injEq, Prod.mk.injEq] at h
    obtain ⟨_, rfl⟩ := h
    refine ⟨?_, ?_, ?_⟩
    · rw [newSwitchNumbers_reverse]; unfold List.Nodup at *; exact List.pairwise_reverse.mpr (hnd.imp Ne.symm)
    · intro n hn; rw [newSwitchNumbers_reverse] at hn; exact (hnew n (List.mem_reverse.mp hn)).2
    · intro p hp; exact hcar p (List.mem_reverse.mp hp)
  | cons s rest ih =>
    intro free tbl ids out oids hfn hfc hss hnd hnew hcar h
    have hss' : ∀ u ∈ rest, ∀ i, u.idx = some i → i ∈ C := fun u hu => hss u (List.mem_cons_of_mem _ hu)
    simp only [rebuildSwnm.go] at h
    split at h
    · rename_i i hi
      have hiC : i ∈ C := hss s (by simp) i hi
      have hcar' : ∀ p ∈ (s, i) :: ids, ∀ j, p.1.idx = some j → p.2 = j ∧ j ∈ C := by
        intro p hp j hj
        rcases List.mem_cons.mp hp with rfl | hp
        · simp only at hj; rw [hi] at hj; cases hj; exact ⟨rfl, hiC⟩
        · exact hcar p hp j hj
      split at h
      · simp at h
      · split at h
        · exact ih free _ _ out oids hfn hfc hss' (by rw [newSwitchNumbers_cons_some s i i ids hi]; exact hnd)
            (by rw [newSwitchNumbers_cons_some s i i ids hi]; exact hnew) hcar' h
        · exact ih free _ _ out oids hfn hfc hss' (by rw [newSwitchNumbers_cons_some s i i ids hi]; exact hnd)
            (by rw [newSwitchNumbers_cons_some s i i ids hi]; exact hnew) hcar' h
    · rename_i hnone
      split at h
      · simp at h
      · rename_i f fs
        have hf : f ∉ fs := (List.nodup_cons.mp hfn).1
        have hfs : fs.Nodup := (List.nodup_cons.mp hfn).2
        refine ih fs _ _ out oids hfs (fun x hx => hfc x (List.mem_cons_of_mem _ hx)) hss' ?_ ?_ ?_ h
        · rw [newSwitchNumbers_cons_none s f ids hnone]
          exact List.nodup_cons.mpr ⟨fun hm => (hnew f hm).1 (by simp), hnd⟩
        · intro n hn
          rw [newSwitchNumbers_cons_none s f ids hnone] at hn
          rcases List.mem_cons.mp hn with rfl | hn
          · exact ⟨hf, hfc _ (by simp)⟩
          · exact ⟨fun hm => (hnew n hn).1 (List.mem_cons_of_mem _ hm), (hnew n hn).2⟩
        · intro p hp j hj
          rcases List.mem_cons.mp hp with rfl | hp
          · simp only at hj; rw [hnone] at hj; cases hj
          · exact hcar p hp j hj

/-- **C09 for switches**: in a successful switch rebuild, the numbers handed to switches that carried none are
pairwise different, and none of them is the number of a switch that carries one (named in the stored table or
referred to by number) — for every rich map and every iteration order; a switch that carries a number keeps it -/
theorem c09_new_switch_numbers_fresh {cfg : RichCfg} {secs : List RSection} {order : Option (List Nat)}
    {tbl : List RSwitch} {ids : List (RSwitch × Nat)}
    (h : rebuildSwnm cfg secs order = .ok (tbl, ids)) :
    (newSwitchNumbers ids).Nodup ∧
    (∀ p ∈ ids, ∀ i, p.1.idx = some i → p.2 = i) ∧
    (∀ n ∈ newSwitchNumbers ids, ∀ p ∈ ids, ∀ i, p.1.idx = some i → n ≠ i) := by
  have fin : ∀ (ss : List RSwitch),
      rebuildSwnm.go ss ((List.range cfg.switchSlots).filter fun i => !(ss.filterMap (·.idx)).contains i)
        ((List.range cfg.switchSlots).map fun i => (⟨.null, some i, 0⟩ : RSwitch)) [] = .ok (tbl, ids) →
      (newSwitchNumbers ids).Nodup ∧ (∀ p ∈ ids, ∀ i, p.1.idx = some i → p.2 = i) ∧
        (∀ n ∈ newSwitchNumbers ids, ∀ p ∈ ids, ∀ i, p.1.idx = some i → n ≠ i) := by
    intro ss hgo
    obtain ⟨h1, h2, h3⟩ := rebuildSwnm_go_fresh (ss.filterMap (·.idx)) ss _ _ [] tbl ids
      (List.filter_sublist.nodup List.nodup_range)
      (by intro f hf hm
          have := (List.mem_filter.mp hf).2
          simp only [Bool.not_eq_true', List.contains_eq_mem, decide_eq_false_iff_not] at this
          exact this hm)
      (by intro s hs i hi; exact List.mem_filterMap.mpr ⟨s, hs, hi⟩)
      (by simp [newSwitchNumbers]) (by simp [newSwitchNumbers]) (by simp) hgo
    refine ⟨h1, fun p hp i hi => (h3 p hp i hi).1, fun n hn p hp i hi hni => ?_⟩
    exact h2 n hn (hni ▸ (h3 p hp i hi).2)
  unfold rebuildSwnm at h
  simp only at h
  split at h
  · split at h
    · simp at h
    · exact fin _ h
  · split at h
    · simp at h
    · exact fin _ h

/-- how many switches of a batch carry no number -/
def countUnnumbered (ss : List RSwitch) : Nat := (ss.filter (·.idx.isNone)).length

/-- the placement loop hands the free numbers out in order: the new numbers are the first `k` free numbers,
`k` = the number of switches that carried none — whatever the order of the batch -/
theorem rebuildSwnm_go_new_numbers :
    ∀ (ss : List RSwitch) (free : List Nat) (tbl : List RSwitch) (ids : List (RSwitch × Nat))
      (out : List RSwitch) (oids : List (RSwitch × Nat)),
      rebuildSwnm.go ss free tbl ids = .ok (out, oids) →
      newSwitchNumbers oids = (newSwitchNumbers ids).reverse ++ free.take (countUnnumbered ss) := by
  intro ss
  induction ss with
  | nil =>
    intro free tbl ids out oids h
    simp only [rebuildSwnm.go, Except.ok.injEq, Prod.mk.injEq] at h
    obtain ⟨_, rfl⟩ := h
    simp [newSwitchNumbers_reverse, countUnnumbered]
  | cons s rest ih =>
    intro free tbl ids out oids h
    simp only [rebuildSwnm.go] at h
    split at h
    · rename_i i hi
      have hc : countUnnumbered (s :: rest) = countUnnumbered rest := by simp [countUnnumbered, hi]
      split at h
      · simp at h
      · split at h
        · rw [ih _ _ _ _ _ h, newSwitchNumbers_cons_some s i i ids hi, hc]
        · rw [ih _ _ _ _ _ h, newSwitchNumbers_cons_some s i i ids hi, hc]
    · rename_i hnone
      have hc : countUnnumbered (s :: rest) = countUnnumbered rest + 1 := by simp [countUnnumbered, hnone]
      split at h
      · simp at h
      · rename_i f fs
        rw [ih _ _ _ _ _ h, newSwitchNumbers_cons_none s f ids hnone, hc]
        simp [List.take_succ_cons]

/-- invariant: the slot handed to a switch that carried no number holds that switch's name, and nothing placed
later disturbs it -/
theorem rebuildSwnm_go_new_slot_holds (C : List Nat) :
    ∀ (ss : List RSwitch) (free : List Nat) (tbl : List RSwitch) (ids : List (RSwitch × Nat))
      (out : List RSwitch) (oids : List (RSwitch × Nat)),
      free.Nodup → (∀ f ∈ free, f ∉ C ∧ f < tbl.length) → (∀ s ∈ ss, ∀ i, s.idx = some i → i ∈ C) →
      (∀ p ∈ ids, p.1.idx = none → tbl[p.2]? = some ⟨p.1.name, some p.2, 0⟩ ∧ p.2 ∉ free ∧ p.2 ∉ C) →
      rebuildSwnm.go ss free tbl ids = .ok (out, oids) →
      ∀ p ∈ oids, p.1.idx = none → out[p.2]? = some ⟨p.1.name, some p.2, 0⟩ := by
  intro ss
  induction ss with
  | nil =>
    intro free tbl ids out oids _ _ _ hinv h
    simp only [rebuildSwnm.go, Except.ok.injEq, Prod.mk.injEq] at h
    obtain ⟨rfl, rfl⟩ := h
    intro p hp hn
    exact (hinv p (List.mem_reverse.mp hp) hn).1
  | cons s rest ih =>
    intro free tbl ids out oids hfn hfree hss hinv h
    have hss' : ∀ u ∈ rest, ∀ i, u.idx = some i → i ∈ C := fun u hu => hss u (List.mem_cons_of_mem _ hu)
    simp only [rebuildSwnm.go] at h
    split at h
    · rename_i i hi
      have hiC : i ∈ C := hss s (by simp) i hi
      split at h
      · simp at h
      · split at h
        · refine ih free _ _ out oids hfn (by simpa using hfree) hss' ?_ h
          intro p hp hn
          rcases List.mem_cons.mp hp with rfl | hp
          · simp only at hn; rw [hi] at hn; cases hn
          · obtain ⟨h1, h2, h3⟩ := hinv p hp hn
            have hne : i ≠ p.2 := fun e => h3 (e ▸ hiC)
            exact ⟨by rw [List.getElem?_set_ne hne]; exact h1, h2, h3⟩
        · refine ih free _ _ out oids hfn hfree hss' ?_ h
          intro p hp hn
          rcases List.mem_cons.mp hp with rfl | hp
          · simp only at hn; rw [hi] at hn; cases hn
          · exact hinv p hp hn
    · rename_i hnone
      split at h
      · simp at h
      · rename_i f fs
        have hf : f ∉ fs := (List.nodup_cons.mp hfn).1
        have hfs : fs.Nodup := (List.nodup_cons.mp hfn).2
        obtain ⟨hfC, hfl⟩ := hfree f (by simp)
        refine ih fs _ _ out oids hfs (fun x hx => by simpa using hfree x (List.mem_cons_of_mem _ hx)) hss' ?_ h
        intro p hp hn
        rcases List.mem_cons.mp hp with rfl | hp
        · exact ⟨by simp [hfl], hf, hfC⟩
        · obtain ⟨h1, h2, h3⟩ := hinv p hp hn
          have hne : f ≠ p.2 := fun e => h2 (e ▸ List.mem_cons_self)
          exact ⟨by rw [List.getElem?_set_ne hne]; exact h1, fun hm => h2 (List.mem_cons_of_mem _ hm), h3⟩

/-- **a new switch's slot holds its name**: in a successful switch rebuild, the number handed to a switch that
carried none is the position of an entry of the emitted table that holds exactly that switch's name -/
theorem c09_new_switch_slot_holds_its_name {cfg : RichCfg} {secs : List RSection} {order : Option (List Nat)}
    {tbl : List RSwitch} {ids : List (RSwitch × Nat)}
    (h : rebuildSwnm cfg secs order = .ok (tbl, ids)) :
    ∀ p ∈ ids, p.1.idx = none → tbl[p.2]? = some ⟨p.1.name, some p.2, 0⟩ := by
  have fin : ∀ (ss : List RSwitch),
      rebuildSwnm.go ss ((List.range cfg.switchSlots).filter fun i => !(ss.filterMap (·.idx)).contains i)
        ((List.range cfg.switchSlots).map fun i => (⟨.null, some i, 0⟩ : RSwitch)) [] = .ok (tbl, ids) →
      ∀ p ∈ ids, p.1.idx = none → tbl[p.2]? = some ⟨p.1.name, some p.2, 0⟩ := by
    intro ss hgo
    exact rebuildSwnm_go_new_slot_holds (ss.filterMap (·.idx)) ss _ _ [] tbl ids
      (List.filter_sublist.nodup List.nodup_range)
      (by intro f hf
          have hm := List.mem_filter.mp hf
          refine ⟨?_, by simpa using List.mem_range.mp hm.1⟩
          have := hm.2
          simp only [Bool.not_eq_true', List.contains_eq_mem, decide_eq_false_iff_not] at this
          exact this)
      (by intro s hs i hi; exact List.mem_filterMap.mpr ⟨s, hs, hi⟩)
      (by simp) hgo
  unfold rebuildSwnm at h
  simp only at h
  split at h
  · split at h
    · simp at h
    · exact fin _ h
  · split at h
    · simp at h
    · exact fin _ h

/-- **a switch that has a number is written as that number**: with the id list the switch rebuild returned as the
encode context, a reference to a switch carrying number `i` is written as `i` or not at all (`KeyError`) — never as
another number, whatever names the table holds, whatever other switches the save places, with or without a stored
switch-name section, in every iteration order.  (`huid`: object identities are not shared by switches that differ in
their number.) -/
theorem c09_numbered_switch_written_as_its_number {cfg : RichCfg} {secs : List RSection} {order : Option (List Nat)}
    {tbl : List RSwitch} {ids : List (RSwitch × Nat)}
    (h : rebuildSwnm cfg secs order = .ok (tbl, ids))
    (ctx : EncCtx) (hctx : ctx.switchIds = ids) (s : RSwitch) (i : Nat) (hs : s.idx = some i)
    (huid : ∀ p ∈ ids, p.1.uid = s.uid → p.1.idx = s.idx)
    (j : Nat) (hj : switchId ctx s = some j) : j = i := by
  unfold switchId at hj
  rw [hctx] at hj
  cases hf : ids.find? (fun p => RSwitch.same p.1 s) with
  | none => simp [hf] at hj
  | some p =>
    simp only [hf, Option.map_some, Option.some.injEq] at hj
    have hp : p ∈ ids := List.mem_of_find?_eq_some hf
    have hsame : RSwitch.same p.1 s = true := by simpa using List.find?_some hf
    have hpi : p.1.idx = some i := by
      unfold RSwitch.same at hsame
      split at hsame
      · rw [huid p hp (by simpa using hsame), hs]
      · simp only [Bool.and_eq_true, beq_iff_eq] at hsame
        rw [hsame.2, hs]
    rw [← hj]
    exact (c09_new_switch_numbers_fresh h).2.1 p hp i hpi

end Richchk.Props.C09
