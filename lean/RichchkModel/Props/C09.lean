/-
C09 — Slot allocation is sound and fails loudly when full.

`allocate cfg occ reqs` is the allocator shared by the four slot tables (Model/Alloc.lean):
`occ` = occupied slots, `reqs` = the batch in ANY iteration order (each request carries an
index or asks for a fresh slot).  Model/Editors.lean expresses the four editors through it;
the `alloc` correspondence op ties those to the real editors with the observed set order.
-/
import RichchkModel.Generated.Consts
import RichchkModel.Spec.Consts
import RichchkModel.Lemmas.AllocPerm
import RichchkModel.Model.Editors
namespace Richchk.Props.C09
open Richchk

theorem no_translator_gaps : Generated.constGaps = 0 := by decide

/-- instantiation obligation: each editor's id range, reserved id and exhaustion behaviour, as
read off the source, are the format's -/
theorem generated_configs_are_spec :
    Generated.mrgnCfg = Spec.locationSlots ∧ Generated.uprpCfg = Spec.cuwpSlots ∧
    Generated.wavCfg = Spec.wavSlots ∧ Generated.swnmCfg = Spec.switchSlots := by decide

/-- **C09 soundness**, for every occupancy pattern, every batch and every iteration order:
each slot handed out lies inside the range, was empty, is shared with no other object of the
batch, and stays occupied. -/
theorem c09_sound (cfg : AllocCfg) (occ : List Nat) (reqs : List Req) {ress : List Res} {st : AllocSt}
    (h : allocate cfg occ reqs = .ok (ress, st)) :
    (placedSlots ress).Nodup ∧
    ∀ i ∈ placedSlots ress, i ∉ occ ∧ cfg.lo ≤ i ∧ i ≤ cfg.hi ∧ i ∈ st.occ := by
  have := allocRun_sound (freeIds_inv cfg occ) h
  exact ⟨this.2.1, this.2.2.1⟩

/-- **C09: the reserved Anywhere slot is never given to an object that carried no index** -/
theorem c09_reserved_never_allocated (cfg : AllocCfg) (occ : List Nat) (reqs : List Req)
    {ress : List Res} {st : AllocSt} (h : allocate cfg occ reqs = .ok (ress, st))
    (k : Nat) (hk : k < (carriedFirst reqs).length) (hk' : k < ress.length) (i : Nat)
    (hr : (carriedFirst reqs)[k] = .fresh) (hp : ress[k] = .placed i) : cfg.reserved ≠ some i :=
  allocRun_fresh_not_reserved (freeIds_inv cfg occ) h k hk hk' i hr hp

/-- **C09: objects that already carry a free in-range slot keep it** (whatever else is in the
batch: index-carrying objects are placed before any fresh slot is handed out) -/
theorem c09_carried_index_kept (cfg : AllocCfg) (occ : List Nat) (reqs : List Req)
    {ress : List Res} {st : AllocSt} (h : allocate cfg occ reqs = .ok (ress, st))
    {i : Nat} (hi : i ∈ carriedIdx reqs) (hocc : i ∉ occ) : i ∈ placedSlots ress := by
  have spec := allocate_spec cfg occ reqs
  simp only at spec
  by_cases hc : ((carriedIdx reqs).all (inRange cfg) = false ∨ (cfg.raiseWhenFull = true ∧
      ((freeIds cfg occ).filter (fun f => !(carriedIdx reqs).contains f)).length < freshCount reqs))
  · obtain ⟨e, he⟩ := spec.1 hc; rw [h] at he; cases he
  · obtain ⟨r', s', h', _, _, hpl⟩ := spec.2 hc
    rw [h] at h'; cases h'
    exact (hpl i).mpr (.inl ⟨hi, hocc⟩)

/-- **C09: a full table never blocks a call that needs no new slot** -/
theorem c09_full_table_does_not_block (cfg : AllocCfg) (occ : List Nat) (reqs : List Req)
    (hnofresh : freshCount reqs = 0) (hrange : (carriedIdx reqs).all (inRange cfg) = true) :
    ∃ out, allocate cfg occ reqs = .ok out := by
  have spec := allocate_spec cfg occ reqs
  simp only at spec
  have hc : ¬ ((carriedIdx reqs).all (inRange cfg) = false ∨ (cfg.raiseWhenFull = true ∧
      ((freeIds cfg occ).filter (fun f => !(carriedIdx reqs).contains f)).length < freshCount reqs)) := by
    rw [hnofresh, hrange]; simp
  obtain ⟨r', s', h', _⟩ := spec.2 hc
  exact ⟨_, h'⟩

/-- **C09: exhaustion is loud** on the raising tables (unit properties, WAV, switches): more
index-less objects than free slots makes the call fail — nothing is dropped or overwritten -/
theorem c09_exhaustion_raises (cfg : AllocCfg) (occ : List Nat) (reqs : List Req)
    (hr : cfg.raiseWhenFull = true)
    (hfull : ((freeIds cfg occ).filter (fun f => !(carriedIdx reqs).contains f)).length < freshCount reqs) :
    ∃ e, allocate cfg occ reqs = .error e :=
  (allocate_spec cfg occ reqs).1 (.inr ⟨hr, hfull⟩)

/-- an index outside the format's range is rejected loudly -/
theorem c09_out_of_range_rejected (cfg : AllocCfg) (occ : List Nat) (reqs : List Req)
    (h : (carriedIdx reqs).all (inRange cfg) = false) : ∃ e, allocate cfg occ reqs = .error e :=
  (allocate_spec cfg occ reqs).1 (.inl h)

/-- equal WAV paths reuse one slot: the request filter never asks twice for the same path nor
for a path the table already holds -/
theorem c09_wav_paths_once (paths seen : List Nat) :
    (wavNew paths seen).Nodup ∧ ∀ p ∈ wavNew paths seen, p ∈ paths ∧ p ∉ seen := by
  induction paths generalizing seen with
  | nil => simp [wavNew]
  | cons p ps ih =>
    simp only [wavNew]
    split
    · have := ih seen
      exact ⟨this.1, fun q hq => ⟨by simp [(this.2 q hq).1], (this.2 q hq).2⟩⟩
    · rename_i hc
      have := ih (p :: seen)
      refine ⟨List.nodup_cons.mpr ⟨fun hm => (this.2 p hm).2 (by simp), this.1⟩, ?_⟩
      intro q hq
      rcases List.mem_cons.mp hq with rfl | hq'
      · exact ⟨by simp, by simpa using hc⟩
      · exact ⟨by simp [(this.2 q hq').1], fun hs => (this.2 q hq').2 (by simp [hs])⟩

/-! non-vacuity: a full location table except slot 7; a new location gets 7, never Anywhere -/
example : (allocate Generated.mrgnCfg ((List.range 256).filter (· ≠ 7)) [.fresh]).toOption.map (·.1) =
    some [.placed 7] := by decide +kernel
example : (allocate Generated.mrgnCfg ((List.range 256).filter (· ≠ 64)) [.fresh, .carry 3]).toOption.map (·.1) =
    some [.skipped, .skipped] := by decide +kernel

end Richchk.Props.C09
