/-
C06 — Decoded sections expose the values at the spec's offsets.
-/
import RichchkModel.Generated.Layouts
import RichchkModel.Spec.Layouts
import RichchkModel.Lemmas.Offsets
namespace Richchk.Props.C06
open Richchk

/-- instantiation obligation (decode): the layout each `decode` reads — field NAMES, order,
widths, counts, loop shape, trigger size — is the specification's.  Two arrays exchanged in
both directions (e.g. mineral/gas) change a name's position and fail this. -/
theorem decode_layouts_are_spec : Generated.decTable = Spec.specTable := by decide +kernel

/-- instantiation obligation (encode) -/
theorem encode_layouts_are_spec : Generated.encTable = Spec.specTable := by decide +kernel

/-- **C06, record fields.**  In every record the decoder reads (locations, CUWP slots,
conditions, actions), field `i` is the little-endian integer of width `ws[i]` found at the
offset obtained by summing the widths before it. -/
theorem c06_record_field {ws : List Nat} {bs rest : Bytes} {vs : List Nat}
    (h : readRec ws bs = .ok (vs, rest)) (i : Nat) (hi : i < ws.length) :
    vs[i]? = some (leVal ((bs.drop (recOffset ws i)).take (ws[i]))) := readRec_at h i hi

/-- **C06, record tables.**  Record `k`, field `i` of a record table (MRGN, UPRP, the 16
conditions and 64 actions of a trigger) sits at `recordSize * k + fieldOffset i`. -/
theorem c06_table_field {ws : List Nat} {n : Nat} {bs rest : Bytes} {rs : List (List Nat)}
    (h : readRecs ws n bs = .ok (rs, rest)) (k : Nat) (hk : k < n) (i : Nat) (hi : i < ws.length) :
    (rs[k]?.bind (·[i]?)) =
      some (leVal ((bs.drop (sumList ws * k + recOffset ws i)).take (ws[i]))) :=
  readRecs_at h k hk i hi

/-- records-until-EOF (MRGN) are exactly `rs.length` such records -/
theorem c06_eof_table {ws : List Nat} {bs : Bytes} {rs : List (List Nat)}
    (h : readRecsEof ws bs = .ok rs) : readRecs ws rs.length bs = .ok (rs, []) :=
  readRecsEof_as_readRecs h

/-- **C06, array sections** (UNIS, UNIx, UPUS, SWNM, WAV): element `j` of array `i` is the
little-endian integer at `offset(array i) + width * j`. -/
theorem c06_array_element {fs : List ArrField} {bs rest : Bytes} {vs : List (List Nat)}
    (h : readArrays fs bs = .ok (vs, rest)) (i : Nat) (hi : i < fs.length) (j : Nat)
    (hj : j < (fs[i]).count) :
    (vs[i]?.bind (·[j]?)) =
      some (leVal ((bs.drop (arrOffset fs i + (fs[i]).width * j)).take (fs[i]).width)) :=
  readArrays_at h i hi j hj

/-- **C06, encode direction.**  Encoding any decoded value writes bytes from which the same
fields are read back at the same offsets (so each field is written to its own place). -/
theorem c06_encode_record {ws vs : List Nat} {b : Bytes} (h : packRec ws vs = .ok b)
    (i : Nat) (hi : i < ws.length) :
    vs[i]? = some (leVal ((b.drop (recOffset ws i)).take (ws[i]))) := by
  have := readRec_packRec h []
  simp only [List.append_nil] at this
  exact readRec_at this i hi

theorem c06_encode_arrays {fs : List ArrField} {vs : List (List Nat)} {b : Bytes}
    (h : packArrays fs vs = .ok b) (i : Nat) (hi : i < fs.length) (j : Nat)
    (hj : j < (fs[i]).count) :
    (vs[i]?.bind (·[j]?)) =
      some (leVal ((b.drop (arrOffset fs i + (fs[i]).width * j)).take (fs[i]).width)) := by
  have := readArrays_packArrays h []
  simp only [List.append_nil] at this
  exact readArrays_at this i hi j hj

/-- **C06, strings.**  STR/STRx: the count is at offset 0, offset `i` at `w + w*i`, and the
string data is the NUL-joined list of strings following the offset table. -/
theorem c06_str {w : Nat} {p : Bytes} {n : Nat} {offs : List Nat} {strs : List Bytes}
    (h : decodeStr w p = .ok (.str n offs strs)) :
    n = leVal (p.take w) ∧ offs.length = n ∧
    (∀ i, i < n → offs[i]? = some (leVal (((p.drop w).drop (w * i)).take w))) ∧
    joinStrings strs = (p.drop w).drop (w * n) ∧ (∀ s ∈ strs, Str7 s) := by
  unfold decodeStr at h
  split at h
  · simp at h
  · rename_i n' r1 h1
    split at h
    · simp at h
    · rename_i offs' r2 h2
      split at h
      · simp at h
      · rename_i strs' h3
        simp at h; obtain ⟨e1, e2, e3⟩ := h; subst e1 e2 e3
        obtain ⟨_, hv, hr1⟩ := readInt_ok h1
        obtain ⟨l2, _, _, hr2⟩ := packInts_readInts h2
        obtain ⟨hj, h7⟩ := join_splitStrings h3
        subst hr1 hr2
        exact ⟨hv, l2, fun i hi => readInts_at h2 i hi, hj, h7⟩

/-! non-vacuity / concrete reading of the spec offsets -/
example : arrOffset (Spec.unitArrays 100) 5 = 228 + 4*228 + 2*228 + 228 + 2*228 := by decide
example : recOffset (widths Spec.actionRec) 7 = 26 := by decide    -- the action byte
example : recOffset (widths Spec.conditionRec) 5 = 15 := by decide -- the condition byte
example : readRec (widths Spec.locationRec)
    (leBytes 4 7 ++ leBytes 4 8 ++ leBytes 4 9 ++ leBytes 4 10 ++ leBytes 2 11 ++ leBytes 2 12)
    = .ok ([7, 8, 9, 10, 11, 12], []) := by decide +kernel

end Richchk.Props.C06
