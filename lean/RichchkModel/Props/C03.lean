/-
C03 — Unedited maps are rewritten byte-identically; saving is idempotent.

STATUS: partial.  Both full statements are visible below as `Prop`s over the model's `cycle`.
`C03Identity` is false on the current tree for the two shapes the property names (64-slot MRGN,
editor-prefilled UPRP with zero UPUS) and for non-zero damage of weapons no unit carries
(recorded findings, replayed on the real code on every run).  `C03Idempotent` was false for a
unit-property slot whose only non-zero field is the owner byte; repaired in the repository
(21b171a: such a record is a placeholder, `cuwpRecUnused`), its witness stays in the corpus.
Section-level idempotence is proved for EVERY input table: `c03_mrgn_section_idempotent`,
`c03_uprp_section_idempotent`, `c03_wav_section_idempotent` (what the first cycle writes is a fixed
point of the second, whatever the first was given).  Proved: the fixed-point
ingredients that hold for all inputs.
-/
import RichchkModel.Lemmas.PassThrough
import RichchkModel.Lemmas.ChunkLemmas
import RichchkModel.Lemmas.RichRoundTrip
import RichchkModel.Lemmas.CodecLemmas
import RichchkModel.GenCfg
import RichchkModel.Props.C12
namespace Richchk.Props.C03
open Richchk

def C03Identity (cfg : RichCfg) (encTable : SecTable) (EditorForm : Bytes → Prop) : Prop :=
  ∀ bs, EditorForm bs → cycle cfg encTable bs = .ok bs

def C03Idempotent (cfg : RichCfg) (encTable : SecTable) : Prop :=
  ∀ bs c1, cycle cfg encTable bs = .ok c1 → cycle cfg encTable c1 = .ok c1

/-- the byte layer is idempotent for every input (C19): what `cycle` writes decodes to the
sections it encoded -/
theorem c03_byte_layer_fixed_point {tbl : SecTable} (hT : TableOK tbl) {bs : Bytes}
    {secs : List DSection} (h : decodeChk tbl bs = .ok secs) :
    ∃ out, encodeChk tbl secs = .ok out ∧ decodeChk tbl out = .ok secs ∧ out.length ≤ bs.length :=
  chk_decode_encode_stable hT h

/-- a string reference is a fixed point after one cycle: the id written is the LAST id of its
text, and looking that id up and writing it again gives the same id -/
theorem c03_string_reference_idempotent (texts : List Bytes) (id id' : Nat)
    (h : idByStr texts (strById texts id) = .ok id') :
    idByStr texts (strById texts id') = .ok id' := by
  unfold strById at h ⊢
  by_cases h0 : id = 0
  · simp [h0, idByStr] at h; subst h; simp [idByStr]
  · simp only [h0, if_false] at h
    cases hg : texts[id - 1]? with
    | none => rw [hg] at h; simp [idByStr] at h; subst h; simp [idByStr]
    | some t =>
      rw [hg] at h
      simp only [idByStr] at h
      cases hl : lastIndexOf texts t with
      | none => rw [hl] at h; simp at h
      | some j =>
        rw [hl] at h; simp at h; subst h
        have := lastIndexOf_some_get hl
        simp [this, idByStr, hl]

/-- pass-through sections are fixed points of the rich layer -/
theorem c03_pass_through_fixed {cfg : RichCfg} {orders : Orders} {wmeta : List (Bytes × Nat)}
    {rich : List RSection} {out : List DSection} (he : richEncode cfg orders wmeta rich = .ok out)
    (i : Nat) (hi : i < rich.length) (hj : i < out.length) (n p : Bytes)
    (hs : rich[i] = .pass (.unknown n p)) : out[i] = .unknown n p :=
  ((richEncode_positions he).2 i hi hj).1 n p hs

/-! ### section transcoders: decode then encode is the identity on editor-form sections
(the README's claim, section by section) -/

theorem FlagCodec.decode_length (c : FlagCodec) (n : Nat) : (c.decode n).length = c.fields.length := by
  simp [FlagCodec.decode]

/-- **MRGN**: a table of the emitted size whose used records name their string by the last id of
its text and use only the elevation bits the codec keeps is reproduced exactly -/
theorem c03_mrgn_section_identity (cfg : RichCfg) (ctx : EncCtx) (recs : List (List Nat))
    (hlen : recs.length = cfg.mrgnSlots) (hw : ∀ r ∈ recs, r.length = 6)
    (hstr : ∀ r ∈ recs, idByStr ctx.texts (strById ctx.texts (r.getD 4 0)) = .ok (r.getD 4 0))
    (hc : (cfg.flagsOf "mrgn_elevation").OK)
    (hbits : ∀ r ∈ recs, r.getD 5 0 < 2 ^ (cfg.flagsOf "mrgn_elevation").fields.length) :
    encodeMrgn cfg ctx (decodeMrgn cfg ctx.texts recs) = .ok recs :=
  mrgn_rich_roundtrip cfg ctx recs hlen hw hstr (fun r hr => by
    unfold elevationEncode elevationDecode
    rw [flags_encode_decode _ hc, Nat.mod_eq_of_lt (hbits r hr)])

/-- **UPRP**: 64 records whose owner byte is clear and whose flag words use only kept bits -/
theorem c03_uprp_section_identity (cfg : RichCfg) (recs : List (List Nat))
    (hlen : recs.length = cfg.cuwpSlots) (hw : ∀ r ∈ recs, r.length = 10)
    (howner : ∀ r ∈ recs, r.getD 2 0 = 0)
    (hc1 : (cfg.flagsOf "cuwp_valid_special").OK) (hc2 : (cfg.flagsOf "cuwp_valid_unit").OK)
    (hc3 : (cfg.flagsOf "cuwp_unit").OK) (h6 : (cfg.flagsOf "cuwp_unit").fields.length = 6)
    (hb1 : ∀ r ∈ recs, r.getD 0 0 < 2 ^ (cfg.flagsOf "cuwp_valid_special").fields.length)
    (hb2 : ∀ r ∈ recs, r.getD 1 0 < 2 ^ (cfg.flagsOf "cuwp_valid_unit").fields.length)
    (hb3 : ∀ r ∈ recs, r.getD 8 0 < 2 ^ (cfg.flagsOf "cuwp_unit").fields.length) :
    encodeUprp cfg (decodeUprp cfg recs) = recs :=
  uprp_rich_roundtrip cfg recs hlen hw howner
    (fun r hr => by rw [flags_encode_decode _ hc1, Nat.mod_eq_of_lt (hb1 r hr)])
    (fun r hr => by rw [flags_encode_decode _ hc2, Nat.mod_eq_of_lt (hb2 r hr)])
    (fun r hr => by rw [flags_encode_decode _ hc3, Nat.mod_eq_of_lt (hb3 r hr)])
    (fun n => by rw [FlagCodec.decode_length, h6])

/-- what the MRGN encoder writes for a decoded table: a placeholder, or the record of a decoded location
whose name id is the last id of the name's text -/
theorem mrgn_out_mem (cfg : RichCfg) (ctx : EncCtx) (recs out : List (List Nat))
    (h : encodeMrgn cfg ctx (decodeMrgn cfg ctx.texts recs) = .ok out) (r : List Nat) (hr : r ∈ out) :
    r = [0, 0, 0, 0, 0, 0] ∨ ∃ (x : List Nat) (sid : Nat), idByStr ctx.texts (strById ctx.texts (x.getD 4 0)) = .ok sid ∧
      r = [x.getD 0 0, x.getD 1 0, x.getD 2 0, x.getD 3 0, sid, elevationEncode cfg (elevationDecode cfg (x.getD 5 0))] := by
  unfold encodeMrgn at h
  obtain ⟨hl, hall⟩ := mapR_ok h
  obtain ⟨i, hi, rfl⟩ := List.getElem_of_mem hr
  have hi' : i < (List.range cfg.mrgnSlots).length := by rw [← hl]; exact hi
  have := hall i hi' hi
  split at this
  · left; simpa using this.symm
  · rename_i l hf
    have hm : l ∈ decodeMrgn cfg ctx.texts recs := List.mem_reverse.mp (List.mem_of_find?_eq_some hf)
    obtain ⟨j, hj, _, hlj⟩ := decodeMrgn_go_mem cfg ctx.texts recs 0 l hm
    right
    refine ⟨recs[j], ?_⟩
    subst hlj
    unfold encodeLoc mkLoc at this
    split at this
    · simp at this
    · rename_i sid hs
      exact ⟨sid, hs, by simpa using this.symm⟩

/-- **saving the location table is idempotent for EVERY input table** on which the first save succeeds
(any number of records, any name ids, any elevation bits): the second cycle reproduces the first
cycle's records exactly -/
theorem c03_mrgn_section_idempotent (cfg : RichCfg) (ctx : EncCtx) (recs out : List (List Nat))
    (hc : (cfg.flagsOf "mrgn_elevation").OK)
    (h : encodeMrgn cfg ctx (decodeMrgn cfg ctx.texts recs) = .ok out) :
    encodeMrgn cfg ctx (decodeMrgn cfg ctx.texts out) = .ok out := by
  have hlen : out.length = cfg.mrgnSlots := by
    have := mapR_length (by unfold encodeMrgn at h; exact h)
    simpa using this
  apply mrgn_rich_roundtrip cfg ctx out hlen
  · intro r hr
    rcases mrgn_out_mem cfg ctx recs out h r hr with h0 | ⟨x, sid, _, h1⟩
    · subst h0; rfl
    · subst h1; rfl
  · intro r hr
    rcases mrgn_out_mem cfg ctx recs out h r hr with h0 | ⟨x, sid, hs, h1⟩
    · subst h0
      simp only [List.getD_cons_zero, List.getD_cons_succ]
      simp [strById, idByStr]
    · subst h1
      simp only [List.getD_cons_zero, List.getD_cons_succ]
      exact c03_string_reference_idempotent ctx.texts _ sid hs
  · intro r hr
    rcases mrgn_out_mem cfg ctx recs out h r hr with h0 | ⟨x, sid, _, h1⟩
    · subst h0
      simp only [List.getD_cons_zero, List.getD_cons_succ]
      unfold elevationEncode elevationDecode
      rw [flags_encode_decode _ hc]; simp
    · subst h1
      simp only [List.getD_cons_zero, List.getD_cons_succ]
      unfold elevationEncode elevationDecode
      rw [flags_decode_encode _ hc _ (FlagCodec.decode_length _ _)]

/-- what the UPRP encoder writes for a decoded table: a placeholder, or the record of a decoded set -/
theorem uprp_out_mem (cfg : RichCfg) (recs : List (List Nat)) (r : List Nat)
    (hr : r ∈ encodeUprp cfg (decodeUprp cfg recs)) :
    r = List.replicate 10 0 ∨ ∃ x k, r = encodeCuwp cfg (decodeCuwp cfg x k) := by
  unfold encodeUprp at hr
  obtain ⟨i, _, hi⟩ := List.mem_map.mp hr
  split at hi
  · exact .inl hi.symm
  · rename_i c hf
    have hm : c ∈ decodeUprp cfg recs := List.mem_reverse.mp (List.mem_of_find?_eq_some hf)
    obtain ⟨j, hj, _, hc⟩ := decodeUprp_go_mem cfg recs 0 c hm
    exact .inr ⟨recs[j], 0 + j, by rw [← hi, hc]⟩

/-- **saving the unit-property table is idempotent for EVERY input table** (any number of records of any
length, owner bytes set, undefined flag bits set): what the first cycle writes is a fixed point of the
second.  (Before repository fix 21b171a this was false: an owner-only record was kept by the first cycle
and dropped by the second.) -/
theorem c03_uprp_section_idempotent (cfg : RichCfg) (recs : List (List Nat))
    (hc1 : (cfg.flagsOf "cuwp_valid_special").OK) (hc2 : (cfg.flagsOf "cuwp_valid_unit").OK)
    (hc3 : (cfg.flagsOf "cuwp_unit").OK) (h6 : (cfg.flagsOf "cuwp_unit").fields.length = 6) :
    encodeUprp cfg (decodeUprp cfg (encodeUprp cfg (decodeUprp cfg recs))) =
      encodeUprp cfg (decodeUprp cfg recs) := by
  have hlen6 : ∀ n, ((cfg.flagsOf "cuwp_unit").decode n).length = 6 := fun n => by
    rw [FlagCodec.decode_length, h6]
  apply c03_uprp_section_identity cfg _ (by simp [encodeUprp]) _ _ hc1 hc2 hc3 h6
  · intro r hr
    rcases uprp_out_mem cfg recs r hr with h | ⟨x, k, h⟩
    · subst h; simp; exact Nat.pos_of_neZero _
    · subst h
      simp only [encodeCuwp, decodeCuwp, List.getD_cons_zero]
      exact flags_encode_lt _ hc1 _ (FlagCodec.decode_length _ _)
  · intro r hr
    rcases uprp_out_mem cfg recs r hr with h | ⟨x, k, h⟩
    · subst h; simp; exact Nat.pos_of_neZero _
    · subst h
      simp only [encodeCuwp, decodeCuwp, List.getD_cons_zero, List.getD_cons_succ]
      exact flags_encode_lt _ hc2 _ (FlagCodec.decode_length _ _)
  · intro r hr
    rcases uprp_out_mem cfg recs r hr with h | ⟨x, k, h⟩
    · subst h; simp; exact Nat.pos_of_neZero _
    · subst h
      simp only [encodeCuwp, decodeCuwp, List.getD_cons_zero, List.getD_cons_succ]
      rw [take5_getD5 _ (hlen6 _)]
      exact flags_encode_lt _ hc3 _ (FlagCodec.decode_length _ _)
  · intro r hr
    rcases uprp_out_mem cfg recs r hr with h | ⟨x, k, h⟩
    · subst h; rfl
    · subst h; rfl
  · intro r hr
    rcases uprp_out_mem cfg recs r hr with h | ⟨x, k, h⟩
    · subst h; rfl
    · subst h; rfl

/-- **WAV**: every entry referencing its path by the last id of that text -/
theorem c03_wav_section_identity (cfg : RichCfg) (ctx : EncCtx) (ids : List Nat)
    (hlen : ids.length = cfg.wavSlots)
    (hstr : ∀ v ∈ ids, idByStr ctx.texts (strById ctx.texts v) = .ok v) :
    encodeWav cfg ctx ((List.range ids.length).filterMap fun i =>
      if ids.getD i 0 ≠ 0 then some (⟨strById ctx.texts (ids.getD i 0), i⟩ : RWav) else none) = .ok ids :=
  wav_rich_roundtrip cfg ctx ids hlen hstr

/-- **saving the sound table is idempotent for EVERY input table** on which the first save succeeds -/
theorem c03_wav_section_idempotent (cfg : RichCfg) (ctx : EncCtx) (ids out : List Nat)
    (h : encodeWav cfg ctx (decodeWavIds ctx.texts ids) = .ok out) :
    encodeWav cfg ctx (decodeWavIds ctx.texts out) = .ok out := by
  have hlen : out.length = cfg.wavSlots := by
    have := mapR_length (by unfold encodeWav at h; exact h)
    simpa using this
  apply wav_rich_roundtrip cfg ctx out hlen
  intro v hv
  unfold encodeWav at h
  obtain ⟨hl, hall⟩ := mapR_ok h
  obtain ⟨i, hi, rfl⟩ := List.getElem_of_mem hv
  have hi' : i < (List.range cfg.wavSlots).length := by rw [← hl]; exact hi
  have := hall i hi' hi
  split at this
  · have h0 : out[i] = 0 := by simpa using this.symm
    rw [h0]; simp [strById, idByStr]
  · rename_i w hf
    have hm : w ∈ decodeWavIds ctx.texts ids := List.mem_reverse.mp (List.mem_of_find?_eq_some hf)
    unfold decodeWavIds at hm
    obtain ⟨j, _, hj⟩ := filterMap_range_mem _ _ w hm
    split at hj
    · cases hj
      exact c03_string_reference_idempotent ctx.texts _ _ this
    · cases hj

/-! the same, for the configuration regenerated from the source (`richCfg`): the abstract
hypotheses become concrete numbers -/

theorem generated_codec_facts :
    (richCfg.flagsOf "mrgn_elevation").OK ∧ (richCfg.flagsOf "mrgn_elevation").fields.length = 6 ∧
    (richCfg.flagsOf "cuwp_valid_special").OK ∧ (richCfg.flagsOf "cuwp_valid_special").fields.length = 6 ∧
    (richCfg.flagsOf "cuwp_valid_unit").OK ∧ (richCfg.flagsOf "cuwp_valid_unit").fields.length = 7 ∧
    (richCfg.flagsOf "cuwp_unit").OK ∧ (richCfg.flagsOf "cuwp_unit").fields.length = 6 ∧
    richCfg.mrgnSlots = 255 ∧ richCfg.cuwpSlots = 64 ∧ richCfg.wavSlots = 512 := by
  decide +kernel

/-- a 255-slot MRGN with elevation words below 64 and last-id name references is rewritten
byte-identically by the code as it is now -/
theorem c03_mrgn_identity_generated (ctx : EncCtx) (recs : List (List Nat))
    (hlen : recs.length = 255) (hw : ∀ r ∈ recs, r.length = 6)
    (hstr : ∀ r ∈ recs, idByStr ctx.texts (strById ctx.texts (r.getD 4 0)) = .ok (r.getD 4 0))
    (hbits : ∀ r ∈ recs, r.getD 5 0 < 64) :
    encodeMrgn richCfg ctx (decodeMrgn richCfg ctx.texts recs) = .ok recs := by
  obtain ⟨h1, h2, _, _, _, _, _, _, h9, _, _⟩ := generated_codec_facts
  exact c03_mrgn_section_identity richCfg ctx recs (by rw [h9]; exact hlen) hw hstr h1
    (fun r hr => by rw [h2]; exact hbits r hr)

/-- a 64-slot UPRP with owner bytes clear, validity words below 64 / 128 and state word below 64 -/
theorem c03_uprp_identity_generated (recs : List (List Nat))
    (hlen : recs.length = 64) (hw : ∀ r ∈ recs, r.length = 10) (howner : ∀ r ∈ recs, r.getD 2 0 = 0)
    (hb1 : ∀ r ∈ recs, r.getD 0 0 < 64) (hb2 : ∀ r ∈ recs, r.getD 1 0 < 128) (hb3 : ∀ r ∈ recs, r.getD 8 0 < 64) :
    encodeUprp richCfg (decodeUprp richCfg recs) = recs := by
  obtain ⟨_, _, h3, h4, h5, h6, h7, h8, _, h10, _⟩ := generated_codec_facts
  exact c03_uprp_section_identity richCfg recs (by rw [h10]; exact hlen) hw howner h3 h5 h7 h8
    (fun r hr => by rw [h4]; exact hb1 r hr) (fun r hr => by rw [h6]; exact hb2 r hr)
    (fun r hr => by rw [h8]; exact hb3 r hr)

/-- the same for the configuration regenerated from the source -/
theorem c03_uprp_idempotent_generated (recs : List (List Nat)) :
    encodeUprp richCfg (decodeUprp richCfg (encodeUprp richCfg (decodeUprp richCfg recs))) =
      encodeUprp richCfg (decodeUprp richCfg recs) := by
  obtain ⟨_, _, h3, _, h5, _, h7, h8, _, _, _⟩ := generated_codec_facts
  exact c03_uprp_section_idempotent richCfg recs h3 h5 h7 h8

end Richchk.Props.C03
