/-
C03 — Unedited maps are rewritten byte-identically; saving is idempotent.

STATUS: partial.  Both full statements are visible below as `Prop`s over the model's `cycle`.
`C03Identity` is false on the current tree for the two shapes the property names (64-slot MRGN,
editor-prefilled UPRP with zero UPUS) and for non-zero damage of weapons no unit carries;
`C03Idempotent` is false for a unit-property slot whose only non-zero field is the owner byte
(all recorded findings, replayed on the real code on every run).  Proved: the fixed-point
ingredients that hold for all inputs.
-/
import RichchkModel.Lemmas.PassThrough
import RichchkModel.Lemmas.ChunkLemmas
namespace Richchk.Props.C03
open Richchk

def C03Identity (cfg : RichCfg) (encTable : SecTable) (EditorForm : Bytes → Prop) : Prop :=
  ∀ bs, EditorForm bs → cycle cfg encTable bs = .ok bs

def C03Idempotent (cfg : RichCfg) (encTable : SecTable) : Prop :=
  ∀ bs c1, cycle cfg encTable bs = .ok c1 → cycle cfg encTable c1 = .ok c1

/-- the byte layer is idempotent for every input (C19): what `cycle` writes decodes to the
sections it encoded -/
theorem c03_byte_layer_fixed_point {tbl : SecTable} (hT : TableOK tbl) {bs : Bytes}
    {secs : List DSection} (h : decodeChk tbl bs = .ok secs) :
    ∃ out, encodeChk tbl secs = .ok out ∧ decodeChk tbl out = .ok secs ∧ out.length ≤ bs.length :=
  chk_decode_encode_stable hT h

/-- a string reference is a fixed point after one cycle: the id written is the LAST id of its
text, and looking that id up and writing it again gives the same id -/
theorem c03_string_reference_idempotent (texts : List Bytes) (id id' : Nat)
    (h : idByStr texts (strById texts id) = .ok id') :
    idByStr texts (strById texts id') = .ok id' := by
  unfold strById at h ⊢
  by_cases h0 : id = 0
  · simp [h0, idByStr] at h; subst h; simp [idByStr]
  · simp only [h0, if_false] at h
    cases hg : texts[id - 1]? with
    | none => rw [hg] at h; simp [idByStr] at h; subst h; simp [idByStr]
    | some t =>
      rw [hg] at h
      simp only [idByStr] at h
      cases hl : lastIndexOf texts t with
      | none => rw [hl] at h; simp at h
      | some j =>
        rw [hl] at h; simp at h; subst h
        have := lastIndexOf_some_get hl
        simp [this, idByStr, hl]

/-- pass-through sections are fixed points of the rich layer -/
theorem c03_pass_through_fixed {cfg : RichCfg} {orders : Orders} {wmeta : List (Bytes × Nat)}
    {rich : List RSection} {out : List DSection} (he : richEncode cfg orders wmeta rich = .ok out)
    (i : Nat) (hi : i < rich.length) (hj : i < out.length) (n p : Bytes)
    (hs : rich[i] = .pass (.unknown n p)) : out[i] = .unknown n p :=
  ((richEncode_positions he).2 i hi hj).1 n p hs

end Richchk.Props.C03
