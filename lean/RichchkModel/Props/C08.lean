/-
C08 — String table growth keeps every string ID valid.

Model: Model/StrEdit.lean (`addStrings` = the STR (w=2) and STRx (w=4) editors, `toStrx` = the
generator, `resolveId` = an independent offset reader over the encoded section bytes), tied to
the code by the `addstr` / `tostrx` correspondence ops.
`resolveData` is `resolveId` in string-data coordinates; for well-formed tables they coincide
(`c08_resolveId_is_resolveData`).
-/
import RichchkModel.Lemmas.StrGrow
namespace Richchk.Props.C08
open Richchk

/-- for well-formed tables the byte-level reader and the data-coordinate reader agree -/
theorem c08_resolveId_is_resolveData {t : StrTable} (h : t.WF) (id : Nat) :
    resolveId t id = resolveData t id := resolveId_eq_data h id

/-- on a well-formed table the editor always succeeds -/
theorem c08_total {t : StrTable} (h : t.WF) (req : List Bytes) : ∃ t', addStrings req t = .ok t' := by
  unfold addStrings
  rw [resolvableTexts_wf h]
  simp only
  split <;> exact ⟨_, rfl⟩

/-- **C08 (i): every existing ID resolves to its previous text** — any well-formed table
(shared, unsorted, interior offsets, unreferenced entries, empty table), any request list. -/
theorem c08_existing_ids_preserved {t t' : StrTable} (h : t.WF) {req : List Bytes}
    (ha : addStrings req t = .ok t') {id : Nat} (h1 : 1 ≤ id) (h2 : id ≤ t.n) :
    resolveData t' id = resolveData t id := by
  rcases addStrings_shape h ha with ⟨_, rfl⟩ | ⟨_, rfl⟩
  · rfl
  · exact grown_preserves h _ h1 h2

/-- **C08 (ii): every requested string gets an ID that resolves to exactly that text** -/
theorem c08_requested_strings_get_ids {t t' : StrTable} (h : t.WF) {req : List Bytes}
    (hreq : ∀ s ∈ req, Str7 s) (ha : addStrings req t = .ok t') {s : Bytes} (hs : s ∈ req) :
    ∃ id, 1 ≤ id ∧ id ≤ t'.n ∧ resolveData t' id = some s := by
  have hcover := dedupNew_cover (seen := t.offs.filterMap fun o => cstrAt t.data (o - t.base)) hs
  rcases addStrings_shape h ha with ⟨hnil, rfl⟩ | ⟨_, rfl⟩
  · rcases hcover with hex | hd
    · exact (mem_resolvable_iff h).mp hex
    · rw [hnil] at hd; simp at hd
  · rcases hcover with hex | hd
    · obtain ⟨id, h1, h2, hr⟩ := (mem_resolvable_iff h).mp hex
      exact ⟨id, h1, by simp [grown]; omega, by rw [grown_preserves h _ h1 h2]; exact hr⟩
    · obtain ⟨j, hj, hget⟩ := List.getElem_of_mem hd
      refine ⟨t.n + j + 1, by omega, by simp [grown]; omega, ?_⟩
      rw [grown_new_resolves h (fun x hx => hreq x (dedupNew_mem hx).1) j hj, hget]

/-- **C08 (iii): each string is stored at most once.**  What is appended to the string data is
exactly the list of requests that no existing ID resolved to, without repetitions, in request
order; nothing else in the data changes. -/
theorem c08_stored_at_most_once {t t' : StrTable} (h : t.WF) {req : List Bytes}
    (ha : addStrings req t = .ok t') :
    ∃ uniq, t'.strs = t.strs ++ uniq ∧ uniq.Nodup ∧
      ∀ s ∈ uniq, s ∈ req ∧ ¬ ∃ id, 1 ≤ id ∧ id ≤ t.n ∧ resolveData t id = some s := by
  refine ⟨dedupNew req (t.offs.filterMap fun o => cstrAt t.data (o - t.base)), ?_, dedupNew_nodup _ _, ?_⟩
  · rcases addStrings_shape h ha with ⟨hnil, rfl⟩ | ⟨_, rfl⟩
    · simp [hnil]
    · rfl
  · intro s hs
    obtain ⟨h1, h2⟩ := dedupNew_mem hs
    exact ⟨h1, fun hex => h2 ((mem_resolvable_iff h).mpr hex)⟩

/-- the grown table's count and offsets still fit the field width -/
def Fits (t : StrTable) : Prop := t.n < 256 ^ t.w ∧ ∀ o ∈ t.offs, o < 256 ^ t.w

theorem joinStrings_length_pos {ss : List Bytes} (h : ss ≠ []) : 0 < (joinStrings ss).length := by
  cases ss with
  | nil => exact absurd rfl h
  | cons s ss => simp [joinStrings]; omega

/-- **C08 (iv): the result is a well-formed table** (whenever it is representable at all) -/
theorem c08_result_well_formed {t t' : StrTable} (h : t.WF) {req : List Bytes}
    (hreq : ∀ s ∈ req, Str7 s) (ha : addStrings req t = .ok t') (hf : Fits t') : t'.WF := by
  rcases addStrings_shape h ha with ⟨_, rfl⟩ | ⟨_, rfl⟩
  · exact h
  · generalize hu : dedupNew req (t.offs.filterMap fun o => cstrAt t.data (o - t.base)) = uniq at hf ⊢
    have hu7 : ∀ s ∈ uniq, Str7 s := fun s hs => hreq s (dedupNew_mem (hu ▸ hs)).1
    refine ⟨?_, ?_, ?_, hf.1, hf.2⟩
    · simp [grown, newOffsets_length, h.count]
    · intro s hs
      simp only [grown, List.mem_append] at hs
      rcases hs with hs | hs
      · exact h.strs7 s hs
      · exact hu7 s hs
    · intro o ho
      rw [grown_base, grown_data]
      simp only [grown, List.mem_append, List.mem_map] at ho
      rcases ho with ⟨o', ho', rfl⟩ | ho
      · have := h.inside o' ho'
        simp only [List.length_append]; omega
      · obtain ⟨j, hj, hget⟩ := List.getElem_of_mem ho
        rw [newOffsets_length] at hj
        have hg := newOffsets_get (t.w + t.w * (t.n + uniq.length) + (joinStrings t.strs).length) uniq j hj
        rw [List.getElem?_eq_getElem (by rw [newOffsets_length]; exact hj)] at hg
        simp only [Option.some.injEq] at hg
        rw [hget] at hg
        subst hg
        have hsplit : (joinStrings uniq).length =
            (joinStrings (uniq.take j)).length + (joinStrings (uniq.drop j)).length := by
          rw [← List.length_append, ← joinStrings_append, List.take_append_drop]
        have hpos : 0 < (joinStrings (uniq.drop j)).length :=
          joinStrings_length_pos (by simp; omega)
        simp only [StrTable.base, StrTable.data, List.length_append, Nat.mul_add]
        constructor
        · have : uniq.length * t.w = t.w * uniq.length := Nat.mul_comm _ _
          omega
        · have : uniq.length * t.w = t.w * uniq.length := Nat.mul_comm _ _
          omega

/-- **C08 (v): adding the same list twice changes nothing the second time** -/
theorem c08_idempotent {t t' : StrTable} (h : t.WF) {req : List Bytes}
    (hreq : ∀ s ∈ req, Str7 s) (ha : addStrings req t = .ok t') (hf : Fits t') :
    addStrings req t' = .ok t' := by
  have hwf' := c08_result_well_formed h hreq ha hf
  unfold addStrings
  rw [resolvableTexts_wf hwf']
  simp only
  have hall : ∀ s ∈ req, s ∈ (t'.offs.filterMap fun o => cstrAt t'.data (o - t'.base)) := by
    intro s hs
    exact (mem_resolvable_iff hwf').mpr (c08_requested_strings_get_ids h hreq ha hs)
  rw [dedupNew_nil_of_all_seen hall]
  simp

/-- when the grown table no longer fits the offset width, writing it fails loudly
(`struct.error`) instead of wrapping an offset -/
theorem c08_overflow_is_loud (t : StrTable) (hc : t.n = t.offs.length)
    (h : ¬ Fits t) : ∃ e, t.payload = .error e := by
  unfold StrTable.payload encodeStr
  by_cases hn : t.n < 256 ^ t.w
  · simp only [packInt, hn, if_true]
    have ht : List.take t.n t.offs = t.offs := by rw [hc]; simp
    rw [ht]
    cases hp : packInts t.w t.offs with
    | error e => exact ⟨e, rfl⟩
    | ok b =>
      exfalso
      apply h
      refine ⟨hn, ?_⟩
      have := readInts_packInts hp []
      have hv := readInts_vals_lt this
      exact hv
  · simp only [packInt, hn, if_false]
    exact ⟨_, rfl⟩

/-- **C08: converting STR to STRx preserves the whole ID-to-text mapping** -/
theorem c08_strx_preserves_mapping {t : StrTable} (h : t.WF) (hw : t.w = 2) (id : Nat) :
    resolveData (toStrx t) id = resolveData t id := by
  unfold resolveData
  by_cases h0 : id = 0
  · simp [h0]
  · simp only [h0, if_false]
    simp only [toStrx, List.getElem?_map]
    cases ho : t.offs[id - 1]? with
    | none => rfl
    | some o =>
      have hmem : o ∈ t.offs := List.mem_of_getElem? ho
      have := (h.inside o hmem).1
      simp only [Option.map_some, StrTable.base, StrTable.data, hw] at this ⊢
      have hc := h.count
      congr 1
      omega

/-! regression witness of the repaired defect F2, and non-vacuity of `WF` -/
def exT : StrTable := ⟨2, 2, [6, 10], [[0x66, 0x6f, 0x6f], [0x62, 0x61, 0x72], [0x7a, 0x7a, 0x7a]]⟩

theorem f2_witness_fixed :
    (addStrings [[0x6e, 0x65, 0x77]] exT).toOption.bind (fun t => resolveId t 3)
      = some [0x6e, 0x65, 0x77] := by decide +kernel

example : exT.WF := by
  refine ⟨rfl, ?_, ?_, by decide, ?_⟩
  · intro s hs
    simp only [exT, List.mem_cons, List.mem_nil_iff, or_false] at hs
    rcases hs with rfl | rfl | rfl <;> intro b hb <;>
      simp only [List.mem_cons, List.mem_nil_iff, or_false] at hb <;>
      rcases hb with rfl | rfl | rfl <;> decide
  · intro o ho
    simp only [exT, List.mem_cons, List.mem_nil_iff, or_false] at ho
    rcases ho with rfl | rfl <;> decide
  · intro o ho
    simp only [exT, List.mem_cons, List.mem_nil_iff, or_false] at ho
    rcases ho with rfl | rfl <;> decide

end Richchk.Props.C08
