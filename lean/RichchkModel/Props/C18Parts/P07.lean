import RichchkModel.Props.C18Parts.Common
namespace Richchk.Props.C18
theorem part7_good : partGood 7 = true := by decide +kernel
end Richchk.Props.C18
