import RichchkModel.Props.C18Parts.Common
namespace Richchk.Props.C18
theorem part8_good : partGood 8 = true := by decide +kernel
end Richchk.Props.C18
