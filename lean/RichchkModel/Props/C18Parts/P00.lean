import RichchkModel.Props.C18Parts.Common
namespace Richchk.Props.C18
theorem part0_good : partGood 0 = true := by decide +kernel
end Richchk.Props.C18
