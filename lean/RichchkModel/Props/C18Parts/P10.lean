import RichchkModel.Props.C18Parts.Common
namespace Richchk.Props.C18
theorem part10_good : partGood 10 = true := by decide +kernel
end Richchk.Props.C18
