import RichchkModel.Props.C18Parts.Common
namespace Richchk.Props.C18
theorem part12_good : partGood 12 = true := by decide +kernel
end Richchk.Props.C18
