import RichchkModel.Props.C18Parts.Common
namespace Richchk.Props.C18
theorem part1_good : partGood 1 = true := by decide +kernel
end Richchk.Props.C18
