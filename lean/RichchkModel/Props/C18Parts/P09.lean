import RichchkModel.Props.C18Parts.Common
namespace Richchk.Props.C18
theorem part9_good : partGood 9 = true := by decide +kernel
end Richchk.Props.C18
