import RichchkModel.Props.C18Parts.Common
namespace Richchk.Props.C18
theorem part6_good : partGood 6 = true := by decide +kernel
end Richchk.Props.C18
