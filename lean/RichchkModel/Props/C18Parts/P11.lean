import RichchkModel.Props.C18Parts.Common
namespace Richchk.Props.C18
theorem part11_good : partGood 11 = true := by decide +kernel
end Richchk.Props.C18
