import RichchkModel.Props.C18Parts.Common
namespace Richchk.Props.C18
theorem part3_good : partGood 3 = true := by decide +kernel
end Richchk.Props.C18
