import RichchkModel.Props.C18Parts.Common
namespace Richchk.Props.C18
theorem part14_good : partGood 14 = true := by decide +kernel
end Richchk.Props.C18
