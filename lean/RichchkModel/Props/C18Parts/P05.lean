import RichchkModel.Props.C18Parts.Common
namespace Richchk.Props.C18
theorem part5_good : partGood 5 = true := by decide +kernel
end Richchk.Props.C18
