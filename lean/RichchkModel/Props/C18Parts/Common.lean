import RichchkModel.Generated.Imports
namespace Richchk.Props.C18
open Richchk

/-- machine steps allowed per entry point (events + module entries/exits, with margin); running
out of fuel counts as failure -/
def fuel : Nat := 40000

def expectedKeys : List (List Nat) :=
  [Generated.modelKeys0, Generated.modelKeys1, Generated.modelKeys2, Generated.modelKeys3]

def entryGood (e : Nat) : Bool :=
  entryOK Generated.moduleGraph fuel Generated.factoryModules expectedKeys e

/-- the entry points congruent to `i` modulo 16 (the enumeration is split into 16 files so that
the kernel evaluation runs on all cores) -/
def partGood (i : Nat) : Bool :=
  ((List.range Generated.moduleCount).filter (fun e => e % 16 == i)).all entryGood

end Richchk.Props.C18
