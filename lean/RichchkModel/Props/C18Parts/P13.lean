import RichchkModel.Props.C18Parts.Common
namespace Richchk.Props.C18
theorem part13_good : partGood 13 = true := by decide +kernel
end Richchk.Props.C18
