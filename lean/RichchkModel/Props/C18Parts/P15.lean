import RichchkModel.Props.C18Parts.Common
namespace Richchk.Props.C18
theorem part15_good : partGood 15 = true := by decide +kernel
end Richchk.Props.C18
