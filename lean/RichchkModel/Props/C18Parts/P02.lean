import RichchkModel.Props.C18Parts.Common
namespace Richchk.Props.C18
theorem part2_good : partGood 2 = true := by decide +kernel
end Richchk.Props.C18
