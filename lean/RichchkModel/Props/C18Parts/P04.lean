import RichchkModel.Props.C18Parts.Common
namespace Richchk.Props.C18
theorem part4_good : partGood 4 = true := by decide +kernel
end Richchk.Props.C18
