/-
C14 — Saving is deterministic up to the numbering of new slots.
-/
import RichchkModel.Lemmas.AllocPerm
import RichchkModel.Model.Editors
import RichchkModel.Lemmas.StrGrow
import RichchkModel.Lemmas.OrderFree
import RichchkModel.Props.C07
import RichchkModel.Props.C11
import RichchkModel.Spec.Consts
namespace Richchk.Props.C14
open Richchk

/-- **C14 (allocator).**  For every occupancy and every two iteration orders of the same batch
(`Perm`): both runs fail or both succeed; when they succeed they leave the same free list,
occupy the same set of slots, and hand out the same set of new slots.  Index-carrying objects
keep their own slots in both runs (C09), so the two results differ at most in WHICH index-less
object received which of the new slots. -/
theorem c14_order_independent (cfg : AllocCfg) (occ : List Nat) {r1 r2 : List Req} (h : r1.Perm r2) :
    ((∃ e, allocate cfg occ r1 = .error e) ↔ (∃ e, allocate cfg occ r2 = .error e)) ∧
    ∀ a s b t, allocate cfg occ r1 = .ok (a, s) → allocate cfg occ r2 = .ok (b, t) →
      s.free = t.free ∧ (∀ j, j ∈ s.occ ↔ j ∈ t.occ) ∧ (placedSlots a).Perm (placedSlots b) :=
  allocate_perm cfg occ h

/-- the set of new slots is determined by the occupancy, the SET of carried indices and the
NUMBER of index-less objects alone -/
theorem c14_new_slots_determined (cfg : AllocCfg) (occ : List Nat) (reqs : List Req)
    {ress : List Res} {st : AllocSt} (h : allocate cfg occ reqs = .ok (ress, st)) (j : Nat) :
    j ∈ placedSlots ress ↔ (j ∈ carriedIdx reqs ∧ j ∉ occ) ∨
      j ∈ ((freeIds cfg occ).filter (fun f => !(carriedIdx reqs).contains f)).take (freshCount reqs) := by
  have spec := allocate_spec cfg occ reqs
  simp only at spec
  by_cases hc : ((carriedIdx reqs).all (inRange cfg) = false ∨ (cfg.raiseWhenFull = true ∧
      ((freeIds cfg occ).filter (fun f => !(carriedIdx reqs).contains f)).length < freshCount reqs))
  · obtain ⟨e, he⟩ := spec.1 hc; rw [h] at he; cases he
  · obtain ⟨r', s', h', _, _, hpl⟩ := spec.2 hc
    rw [h] at h'; cases h'
    exact hpl j

/-- string collection is an ordered walk (an `OrderedDict`), not a set: the request list handed
to the string editor is a function of the rich map alone, so the STR section does not depend on
hashing.  (Modelled fact; the cross-process correspondence run checks it on the real code.) -/
theorem c14_strings_order_is_input_order (req seen : List Bytes) :
    ∀ s ∈ dedupNew req seen, s ∈ req := fun _ hs => (dedupNew_mem hs).1

/-! non-vacuity: two orders of {new, carries 2} on a table where 2 is the smallest free slot -/
example : (allocate ⟨1, 64, none, true⟩ [1] [.fresh, .carry 2]).toOption.map (fun p => placedSlots p.1) = some [2, 3] ∧
    (allocate ⟨1, 64, none, true⟩ [1] [.carry 2, .fresh]).toOption.map (fun p => placedSlots p.1) = some [2, 3] := by
  decide +kernel

/-- **C14 (whole rebuilds, saves that add nothing).**  The model's rebuilders take the iteration
order of the sets they collect as a parameter.  When every location the triggers reference carries
the slot number of a stored location — which is the case for every map that was loaded and not given
new locations — the rebuilt location list is the existing table for EVERY order; hence two saves of
the same map under different hash seeds / memory layouts produce the same MRGN. -/
theorem c14_location_rebuild_order_free (cfg : RichCfg) (secs : List RSection) (table : List RLoc)
    (hsec : secs.filter (isSectionNamed nMRGN) = [.mrgn table]) (hidx : ∀ t ∈ table, t.idx.isSome)
    (hfound : ∀ l ∈ (secs.filter (fun s => !isSectionNamed nMRGN s)).flatMap (sectionLocs cfg),
      ∃ i, l.idx = some i ∧ ¬ (i < cfg.mrgnCfg.lo ∨ cfg.mrgnCfg.hi < i) ∧ i ∈ table.filterMap (·.idx))
    (o1 o2 : Option (List Nat)) : rebuildMrgn cfg secs o1 = rebuildMrgn cfg secs o2 := by
  rw [rebuildMrgn_order_free cfg secs table hsec hidx hfound o1,
    rebuildMrgn_order_free cfg secs table hsec hidx hfound o2]

/-- the same for unit-property sets: references that carry a stored slot number or equal a stored
set need no allocation, and the rebuilt table does not depend on the order -/
theorem c14_unit_property_rebuild_order_free (cfg : RichCfg) (secs : List RSection) (table : List RCuwp)
    (hsec : secs.filter (isSectionNamed nUPRP) = [.uprp table]) (hidx : ∀ t ∈ table, t.idx.isSome)
    (hfound : ∀ c ∈ (secs.filter (fun s => !isSectionNamed nUPRP s)).flatMap (sectionCuwps cfg),
      (∃ i, c.idx = some i ∧ ¬ (i < cfg.uprpCfg.lo ∨ cfg.uprpCfg.hi < i) ∧ i ∈ table.filterMap (·.idx)) ∨
      (c.idx = none ∧ table.any (fun t => t.key == c.key) = true))
    (o1 o2 : Option (List Nat)) : rebuildUprp cfg secs o1 = rebuildUprp cfg secs o2 := by
  rw [rebuildUprp_order_free cfg secs table hsec hidx hfound o1,
    rebuildUprp_order_free cfg secs table hsec hidx hfound o2]

/-- **the name a stored switch carries does not depend on the iteration order of a set**: under any two
orders in which the save succeeds, slot `i` of the rebuilt switch table holds the same named entry (this is
what repository fixes f7874f6 / d43c2ba established; before them the name was kept or erased depending on
the hash seed) -/
theorem c14_named_switch_order_free {cfg : RichCfg} {secs : List RSection} (o1 o2 : Option (List Nat))
    {t1 t2 : List RSwitch} {i1 i2 : List (RSwitch × Nat)}
    (h1 : rebuildSwnm cfg secs o1 = .ok (t1, i1)) (h2 : rebuildSwnm cfg secs o2 = .ok (t2, i2))
    (ss : List RSwitch) (hs : secs.filter (isSectionNamed nSWNM) = [.swnm ss])
    (x : RSwitch) (hx : x ∈ ss) (hxn : hasCustomName x = true) (i : Nat) (hxi : x.idx = some i)
    (hi : i < cfg.switchSlots)
    (huniq : ∀ u ∈ ss, u.idx = some i → hasCustomName u = true → u = x)
    (hused : ∀ u ∈ (secs.filter (fun s => !isSectionNamed nSWNM s)).flatMap (sectionSwitches cfg),
      u.idx = some i → hasCustomName u = true → RSwitch.same x u = true) :
    t1[i]? = t2[i]? := by
  rw [Props.C07.c07_named_switch_keeps_name h1 ss hs x hx hxn i hxi hi huniq hused,
    Props.C07.c07_named_switch_keeps_name h2 ss hs x hx hxn i hxi hi huniq hused]

/-! ### whole location rebuild, saves that ADD locations -/

theorem allocRun_length {cfg : AllocCfg} : ∀ (rs : List Req) (st : AllocSt) {ress : List Res} {st' : AllocSt},
    allocRun cfg st rs = .ok (ress, st') → ress.length = rs.length := by
  intro rs
  induction rs with
  | nil => intro st ress st' h; simp [allocRun] at h; simp [h.1.symm]
  | cons r rs ih =>
    intro st ress st' h
    simp only [allocRun] at h
    cases hs : allocStep cfg st r with
    | error e => simp [hs] at h
    | ok p =>
      obtain ⟨res, st1⟩ := p
      simp only [hs] at h
      cases hr : allocRun cfg st1 rs with
      | error e => simp [hr] at h
      | ok q =>
        obtain ⟨ress1, st2⟩ := q
        simp only [hr, Except.ok.injEq, Prod.mk.injEq] at h
        rw [← h.1]
        simp [ih st1 hr]

theorem carriedFirst_length (reqs : List Req) : (carriedFirst reqs).length = reqs.length := by
  induction reqs with
  | nil => rfl
  | cons r rs ih =>
    cases r <;> simp only [carriedFirst, carriedIdx, freshCount, List.length_append, List.length_map, List.length_replicate,
      List.length_cons] at ih ⊢ <;> omega

/-- the carried-first placement order of a batch and its request list (as in `rebuildMrgn`) -/
def placementOf (b : List RLoc) : List RLoc := b.filter (·.idx.isSome) ++ b.filter (·.idx.isNone)
def reqsOf (b : List RLoc) : List Req := (placementOf b).map fun l => match l.idx with | some i => Req.carry i | none => Req.fresh

def placedOf (placement : List RLoc) (ress : List Res) : List (RLoc × Nat) :=
  (placement.zip ress).filterMap fun (l, r) => match r with
    | .placed s => some ({ l with idx := some s }, l.uid)
    | .skipped => none

/-- the part of `rebuildMrgn` after the batch has been collected and ordered -/
def mrgnCore (cfg : RichCfg) (table : List RLoc) (b : List RLoc) : R (List RLoc × List (Nat × Nat)) :=
  match allocate cfg.mrgnCfg (table.filterMap (·.idx)) (reqsOf b) with
  | .error e => .error e
  | .ok (ress, _) =>
    .ok (table ++ (placedOf (placementOf b) ress).map (·.1), (placedOf (placementOf b) ress).filterMap fun (l, uid) => l.idx.map fun i => (uid, i))

theorem rebuildMrgn_eq_core (cfg : RichCfg) (secs : List RSection) (table : List RLoc) (o : Option (List Nat))
    (hsec : secs.filter (isSectionNamed nMRGN) = [.mrgn table]) (hany : table.any (·.idx.isNone) = false) :
    rebuildMrgn cfg secs o =
      mrgnCore cfg table (allocOrder o (dedupBy RLoc.same ((secs.filter (fun s => !isSectionNamed nMRGN s)).flatMap (sectionLocs cfg)))) := by
  unfold rebuildMrgn
  simp only [hsec, hany, Bool.false_eq_true, ↓reduceIte]
  rfl

/-- with one result per request, the slots of the appended entries are exactly the slots handed out -/
theorem placed_idx_eq (placement : List RLoc) (ress : List Res) (h : ress.length = placement.length) :
    ((placedOf placement ress).map (·.1)).filterMap (·.idx) = placedSlots ress := by
  unfold placedOf
  induction placement generalizing ress with
  | nil => cases ress with
    | nil => rfl
    | cons _ _ => simp at h
  | cons l ls ih =>
    cases ress with
    | nil => simp at h
    | cons r rs =>
      have h' : rs.length = ls.length := by simpa using h
      cases r with
      | placed s => simp only [List.zip_cons_cons, List.filterMap_cons, List.map_cons, placedSlots]; rw [ih rs h']
      | skipped => simp only [List.zip_cons_cons, List.filterMap_cons, placedSlots]; exact ih rs h'

theorem mrgnCore_perm (cfg : RichCfg) (table b1 b2 : List RLoc) (hb : b1.Perm b2) :
    ((∃ e, mrgnCore cfg table b1 = .error e) ↔ (∃ e, mrgnCore cfg table b2 = .error e)) ∧
    ∀ l1 i1 l2 i2, mrgnCore cfg table b1 = .ok (l1, i1) → mrgnCore cfg table b2 = .ok (l2, i2) →
      l1.take table.length = table ∧ l2.take table.length = table ∧
      (l1.filterMap (·.idx)).Perm (l2.filterMap (·.idx)) := by
  have hR : (reqsOf b1).Perm (reqsOf b2) := ((hb.filter _).append (hb.filter _)).map _
  have hA := allocate_perm cfg.mrgnCfg (table.filterMap (·.idx)) hR
  unfold mrgnCore
  cases ha1 : allocate cfg.mrgnCfg (table.filterMap (·.idx)) (reqsOf b1) with
  | error e1 =>
    obtain ⟨e2, h2⟩ := hA.1.mp ⟨e1, ha1⟩
    simp [h2]
  | ok p1 =>
    obtain ⟨r1, s1⟩ := p1
    cases ha2 : allocate cfg.mrgnCfg (table.filterMap (·.idx)) (reqsOf b2) with
    | error e2 =>
      obtain ⟨e1, h1⟩ := hA.1.mpr ⟨e2, ha2⟩
      rw [ha1] at h1; cases h1
    | ok p2 =>
      obtain ⟨r2, s2⟩ := p2
      refine ⟨by simp, ?_⟩
      intro l1 i1 l2 i2 h1 h2
      simp only [Except.ok.injEq, Prod.mk.injEq] at h1 h2
      obtain ⟨rfl, _⟩ := h1
      obtain ⟨rfl, _⟩ := h2
      have hp := (hA.2 r1 s1 r2 s2 ha1 ha2).2.2
      have hl1 : r1.length = (placementOf b1).length := by
        have := allocRun_length _ _ ha1
        rw [carriedFirst_length] at this; simpa [reqsOf] using this
      have hl2 : r2.length = (placementOf b2).length := by
        have := allocRun_length _ _ ha2
        rw [carriedFirst_length] at this; simpa [reqsOf] using this
      refine ⟨by simp, by simp, ?_⟩
      rw [List.filterMap_append, List.filterMap_append, placed_idx_eq _ r1 hl1, placed_idx_eq _ r2 hl2]
      exact (List.Perm.refl _).append hp

/-- **C14 for saves that add locations**: take any two iteration orders of the set of locations the sections
refer to (two permutations of one batch).  Either both rebuilds fail or both succeed; when they succeed, both new
tables begin with the stored table, unchanged, and occupy the SAME set of slots — the two saves differ at most in
which new location received which of the new slots -/
theorem c14_location_rebuild_order_independent (cfg : RichCfg) (secs : List RSection) (table : List RLoc)
    (hsec : secs.filter (isSectionNamed nMRGN) = [.mrgn table]) (hany : table.any (·.idx.isNone) = false)
    (o1 o2 : Option (List Nat))
    (hperm : (allocOrder o1 (dedupBy RLoc.same ((secs.filter (fun s => !isSectionNamed nMRGN s)).flatMap (sectionLocs cfg)))).Perm
             (allocOrder o2 (dedupBy RLoc.same ((secs.filter (fun s => !isSectionNamed nMRGN s)).flatMap (sectionLocs cfg))))) :
    ((∃ e, rebuildMrgn cfg secs o1 = .error e) ↔ (∃ e, rebuildMrgn cfg secs o2 = .error e)) ∧
    ∀ l1 i1 l2 i2, rebuildMrgn cfg secs o1 = .ok (l1, i1) → rebuildMrgn cfg secs o2 = .ok (l2, i2) →
      l1.take table.length = table ∧ l2.take table.length = table ∧
      (l1.filterMap (·.idx)).Perm (l2.filterMap (·.idx)) := by
  rw [rebuildMrgn_eq_core cfg secs table o1 hsec hany, rebuildMrgn_eq_core cfg secs table o2 hsec hany]
  exact mrgnCore_perm cfg table _ _ hperm

/-! ### the same for unit-property sets -/

def cuPlacementOf (b : List RCuwp) : List RCuwp := b.filter (·.idx.isSome) ++ b.filter (·.idx.isNone)
def cuReqsOf (b : List RCuwp) : List Req := (cuPlacementOf b).map fun c => match c.idx with | some i => Req.carry i | none => Req.fresh
def cuPlacedOf (placement : List RCuwp) (ress : List Res) : List RCuwp :=
  (placement.zip ress).filterMap fun (c, r) => match r with
    | .placed s => some { c with idx := some s }
    | .skipped => none

/-- the part of `rebuildUprp` after the sets that need a slot have been collected and ordered -/
def uprpCore (cfg : RichCfg) (table : List RCuwp) (need : List RCuwp) : R (List RCuwp) :=
  match allocate cfg.uprpCfg (table.filterMap (·.idx)) (cuReqsOf need) with
  | .error e => .error e
  | .ok (ress, _) => .ok (table ++ cuPlacedOf (cuPlacementOf need) ress)

theorem rebuildUprp_eq_core (cfg : RichCfg) (secs : List RSection) (table : List RCuwp) (o : Option (List Nat))
    (hsec : secs.filter (isSectionNamed nUPRP) = [.uprp table]) (hany : table.any (·.idx.isNone) = false) :
    rebuildUprp cfg secs o =
      uprpCore cfg table ((allocOrder o (dedupBy (fun a b => a.key == b.key)
        ((secs.filter (fun s => !isSectionNamed nUPRP s)).flatMap (sectionCuwps cfg)))).filter
          fun c => c.idx.isSome || !(table.any fun t => t.key == c.key)) := by
  unfold rebuildUprp
  simp only [hsec, hany, Bool.false_eq_true, ↓reduceIte]
  rfl

theorem cu_placed_idx_eq (placement : List RCuwp) (ress : List Res) (h : ress.length = placement.length) :
    (cuPlacedOf placement ress).filterMap (·.idx) = placedSlots ress := by
  unfold cuPlacedOf
  induction placement generalizing ress with
  | nil => cases ress with
    | nil => rfl
    | cons _ _ => simp at h
  | cons l ls ih =>
    cases ress with
    | nil => simp at h
    | cons r rs =>
      have h' : rs.length = ls.length := by simpa using h
      cases r with
      | placed s => simp only [List.zip_cons_cons, List.filterMap_cons, placedSlots]; rw [ih rs h']
      | skipped => simp only [List.zip_cons_cons, List.filterMap_cons, placedSlots]; exact ih rs h'

theorem uprpCore_perm (cfg : RichCfg) (table b1 b2 : List RCuwp) (hb : b1.Perm b2) :
    ((∃ e, uprpCore cfg table b1 = .error e) ↔ (∃ e, uprpCore cfg table b2 = .error e)) ∧
    ∀ l1 l2, uprpCore cfg table b1 = .ok l1 → uprpCore cfg table b2 = .ok l2 →
      l1.take table.length = table ∧ l2.take table.length = table ∧
      (l1.filterMap (·.idx)).Perm (l2.filterMap (·.idx)) := by
  have hR : (cuReqsOf b1).Perm (cuReqsOf b2) := ((hb.filter _).append (hb.filter _)).map _
  have hA := allocate_perm cfg.uprpCfg (table.filterMap (·.idx)) hR
  unfold uprpCore
  cases ha1 : allocate cfg.uprpCfg (table.filterMap (·.idx)) (cuReqsOf b1) with
  | error e1 =>
    obtain ⟨e2, h2⟩ := hA.1.mp ⟨e1, ha1⟩
    simp [h2]
  | ok p1 =>
    obtain ⟨r1, s1⟩ := p1
    cases ha2 : allocate cfg.uprpCfg (table.filterMap (·.idx)) (cuReqsOf b2) with
    | error e2 =>
      obtain ⟨e1, h1⟩ := hA.1.mpr ⟨e2, ha2⟩
      rw [ha1] at h1; cases h1
    | ok p2 =>
      obtain ⟨r2, s2⟩ := p2
      refine ⟨by simp, ?_⟩
      intro l1 l2 h1 h2
      simp only [Except.ok.injEq] at h1 h2
      subst h1; subst h2
      have hp := (hA.2 r1 s1 r2 s2 ha1 ha2).2.2
      have hl1 : r1.length = (cuPlacementOf b1).length := by
        have := allocRun_length _ _ ha1
        rw [carriedFirst_length] at this; simpa [cuReqsOf] using this
      have hl2 : r2.length = (cuPlacementOf b2).length := by
        have := allocRun_length _ _ ha2
        rw [carriedFirst_length] at this; simpa [cuReqsOf] using this
      refine ⟨by simp, by simp, ?_⟩
      rw [List.filterMap_append, List.filterMap_append, cu_placed_idx_eq _ r1 hl1, cu_placed_idx_eq _ r2 hl2]
      exact (List.Perm.refl _).append hp

/-- **C14 for saves that add unit-property sets**: under any two iteration orders of the same batch, both
rebuilds fail or both succeed, both keep the stored table as prefix, and both occupy the same set of slots -/
theorem c14_unit_property_rebuild_order_independent (cfg : RichCfg) (secs : List RSection) (table : List RCuwp)
    (hsec : secs.filter (isSectionNamed nUPRP) = [.uprp table]) (hany : table.any (·.idx.isNone) = false)
    (o1 o2 : Option (List Nat))
    (hperm : (allocOrder o1 (dedupBy (fun a b => a.key == b.key) ((secs.filter (fun s => !isSectionNamed nUPRP s)).flatMap (sectionCuwps cfg)))).Perm
             (allocOrder o2 (dedupBy (fun a b => a.key == b.key) ((secs.filter (fun s => !isSectionNamed nUPRP s)).flatMap (sectionCuwps cfg))))) :
    ((∃ e, rebuildUprp cfg secs o1 = .error e) ↔ (∃ e, rebuildUprp cfg secs o2 = .error e)) ∧
    ∀ l1 l2, rebuildUprp cfg secs o1 = .ok l1 → rebuildUprp cfg secs o2 = .ok l2 →
      l1.take table.length = table ∧ l2.take table.length = table ∧
      (l1.filterMap (·.idx)).Perm (l2.filterMap (·.idx)) := by
  rw [rebuildUprp_eq_core cfg secs table o1 hsec hany, rebuildUprp_eq_core cfg secs table o2 hsec hany]
  exact uprpCore_perm cfg table _ _ (hperm.filter _)

/-! ### switches: the numbers handed to new switches -/

/-- the part of `rebuildSwnm` after the switches in use have been collected, de-duplicated and ordered -/
def swnmCore (cfg : RichCfg) (swnm usedD : List RSwitch) : R (List RSwitch × List (RSwitch × Nat)) :=
  let named := swnm.filter hasCustomName
  let usedNew := usedD.filter fun u => !(named.any fun n => RSwitch.same n u)
  let allUsed := named ++ usedNew
  let given : List (Nat × Bytes) := usedNew.filterMap fun s =>
    if hasCustomName s then s.idx.map fun i => (i, s.name.value) else none
  if given.any (fun p => given.any fun q => p.1 == q.1 && p.2 != q.2) then .error .value else
  let carried := allUsed.filterMap (·.idx)
  let free := (List.range cfg.switchSlots).filter fun i => !carried.contains i
  rebuildSwnm.go allUsed free ((List.range cfg.switchSlots).map fun i => ⟨.null, some i, 0⟩) []

theorem rebuildSwnm_eq_core (cfg : RichCfg) (secs : List RSection) (o : Option (List Nat)) :
    rebuildSwnm cfg secs o =
      swnmCore cfg (match secs.filter (isSectionNamed nSWNM) with
          | [.swnm ss] => ss
          | _ => (List.range cfg.switchSlots).map fun i => ⟨.null, some i, 0⟩)
        (allocOrder o (dedupBy RSwitch.same ((secs.filter (fun s => !isSectionNamed nSWNM s)).flatMap (sectionSwitches cfg)))) := rfl

/-- **the numbers given to new switches do not depend on the iteration order**: under any two orders of the set of
switches in use (two permutations), when both saves succeed they hand out exactly the same new numbers, in the same
sequence (the first `k` free numbers, `k` = how many switches carry none); only WHICH new switch received which of
them may differ -/
theorem c14_new_switch_numbers_order_free (cfg : RichCfg) (swnm u1 u2 : List RSwitch) (hu : u1.Perm u2)
    {t1 t2 : List RSwitch} {i1 i2 : List (RSwitch × Nat)}
    (h1 : swnmCore cfg swnm u1 = .ok (t1, i1)) (h2 : swnmCore cfg swnm u2 = .ok (t2, i2)) :
    Props.C09.newSwitchNumbers i1 = Props.C09.newSwitchNumbers i2 := by
  unfold swnmCore at h1 h2
  simp only at h1 h2
  split at h1
  · simp at h1
  · split at h2
    · simp at h2
    · have e1 := Props.C09.rebuildSwnm_go_new_numbers _ _ _ _ _ _ h1
      have e2 := Props.C09.rebuildSwnm_go_new_numbers _ _ _ _ _ _ h2
      rw [e1, e2]
      have hN : ((swnm.filter hasCustomName) ++ u1.filter fun u => !((swnm.filter hasCustomName).any fun n => RSwitch.same n u)).Perm
                ((swnm.filter hasCustomName) ++ u2.filter fun u => !((swnm.filter hasCustomName).any fun n => RSwitch.same n u)) :=
        (List.Perm.refl _).append (hu.filter _)
      have hk : Props.C09.countUnnumbered ((swnm.filter hasCustomName) ++ u1.filter fun u => !((swnm.filter hasCustomName).any fun n => RSwitch.same n u)) =
                Props.C09.countUnnumbered ((swnm.filter hasCustomName) ++ u2.filter fun u => !((swnm.filter hasCustomName).any fun n => RSwitch.same n u)) := by
        unfold Props.C09.countUnnumbered
        exact (hN.filter _).length_eq
      have hc : ∀ i, (((swnm.filter hasCustomName) ++ u1.filter fun u => !((swnm.filter hasCustomName).any fun n => RSwitch.same n u)).filterMap (·.idx)).contains i =
                     (((swnm.filter hasCustomName) ++ u2.filter fun u => !((swnm.filter hasCustomName).any fun n => RSwitch.same n u)).filterMap (·.idx)).contains i := by
        intro i
        have hp := hN.filterMap (·.idx)
        have : (i ∈ _) ↔ (i ∈ _) := hp.mem_iff
        simp only [List.contains_eq_mem]
        exact decide_eq_decide.mpr this
      rw [hk]
      congr 2
      exact List.filter_congr (fun i _ => by rw [hc i])

/-- the same, stated for the whole switch rebuild under two iteration orders of the set of switches in use -/
theorem c14_switch_rebuild_new_numbers_order_free (cfg : RichCfg) (secs : List RSection) (o1 o2 : Option (List Nat))
    (hperm : (allocOrder o1 (dedupBy RSwitch.same ((secs.filter (fun s => !isSectionNamed nSWNM s)).flatMap (sectionSwitches cfg)))).Perm
             (allocOrder o2 (dedupBy RSwitch.same ((secs.filter (fun s => !isSectionNamed nSWNM s)).flatMap (sectionSwitches cfg)))))
    {t1 t2 : List RSwitch} {i1 i2 : List (RSwitch × Nat)}
    (h1 : rebuildSwnm cfg secs o1 = .ok (t1, i1)) (h2 : rebuildSwnm cfg secs o2 = .ok (t2, i2)) :
    Props.C09.newSwitchNumbers i1 = Props.C09.newSwitchNumbers i2 := by
  rw [rebuildSwnm_eq_core] at h1 h2
  exact c14_new_switch_numbers_order_free cfg _ _ _ hperm h1 h2

/-! ### the reserved slot ("Anywhere", 64) at the level of the whole location rebuild -/

theorem carriedIdx_append (a b : List Req) : carriedIdx (a ++ b) = carriedIdx a ++ carriedIdx b := by
  induction a with
  | nil => rfl
  | cons r rs ih => cases r <;> simp [carriedIdx, ih]

theorem freshCount_append (a b : List Req) : freshCount (a ++ b) = freshCount a + freshCount b := by
  induction a with
  | nil => simp [freshCount]
  | cons r rs ih => cases r <;> simp [freshCount, ih] <;> omega

/-- the request list the rebuild hands to the allocator is already in carried-first order -/
theorem carriedFirst_reqsOf (b : List RLoc) : carriedFirst (reqsOf b) = reqsOf b := by
  have hs : ∀ (l : List RLoc), (∀ x ∈ l, x.idx.isSome = true) →
      carriedIdx (l.map fun l => match l.idx with | some i => Req.carry i | none => Req.fresh) = l.filterMap (·.idx) ∧
      freshCount (l.map fun l => match l.idx with | some i => Req.carry i | none => Req.fresh) = 0 ∧
      (l.map fun l => match l.idx with | some i => Req.carry i | none => Req.fresh) = (l.filterMap (·.idx)).map Req.carry := by
    intro l
    induction l with
    | nil => intro _; simp [carriedIdx, freshCount]
    | cons x xs ih =>
      intro hall
      obtain ⟨h1, h2, h3⟩ := ih (fun y hy => hall y (List.mem_cons_of_mem _ hy))
      have hx := hall x (by simp)
      cases hxi : x.idx with
      | none => rw [hxi] at hx; simp at hx
      | some i => exact ⟨by simp [carriedIdx, hxi, h1], by simp [freshCount, hxi, h2], by simp [hxi, h3]⟩
  have hn : ∀ (l : List RLoc), (∀ x ∈ l, x.idx.isNone = true) →
      carriedIdx (l.map fun l => match l.idx with | some i => Req.carry i | none => Req.fresh) = [] ∧
      freshCount (l.map fun l => match l.idx with | some i => Req.carry i | none => Req.fresh) = l.length ∧
      (l.map fun l => match l.idx with | some i => Req.carry i | none => Req.fresh) = List.replicate l.length Req.fresh := by
    intro l
    induction l with
    | nil => intro _; simp [carriedIdx, freshCount]
    | cons x xs ih =>
      intro hall
      obtain ⟨h1, h2, h3⟩ := ih (fun y hy => hall y (List.mem_cons_of_mem _ hy))
      have hx := hall x (by simp)
      cases hxi : x.idx with
      | some i => rw [hxi] at hx; simp at hx
      | none => exact ⟨by simp [carriedIdx, hxi, h1], by simp [freshCount, hxi, h2], by simp [hxi, h3, List.replicate_succ]⟩
  obtain ⟨a1, a2, a3⟩ := hs (b.filter (·.idx.isSome)) (fun x hx => (List.mem_filter.mp hx).2)
  obtain ⟨b1, b2, b3⟩ := hn (b.filter (·.idx.isNone)) (fun x hx => (List.mem_filter.mp hx).2)
  unfold carriedFirst reqsOf placementOf
  rw [List.map_append, carriedIdx_append, freshCount_append, a1, a2, b1, b2, a3, b3]
  simp

/-- **the reserved slot is never given to a new location by a save**: in the location rebuild, an entry of the
batch that carried no index is never placed on the reserved number (64, "Anywhere") — for every map and order -/
theorem c09_rebuild_never_places_new_location_on_reserved (cfg : RichCfg) (table b : List RLoc)
    {ress : List Res} {st : AllocSt}
    (h : allocate cfg.mrgnCfg (table.filterMap (·.idx)) (reqsOf b) = .ok (ress, st))
    (k : Nat) (hk : k < (placementOf b).length) (hk' : k < ress.length) (s : Nat)
    (hnone : (placementOf b)[k].idx = none) (hp : ress[k] = .placed s) : cfg.mrgnCfg.reserved ≠ some s := by
  have hlen : k < (carriedFirst (reqsOf b)).length := by rw [carriedFirst_reqsOf]; simpa [reqsOf] using hk
  refine Props.C09.c09_reserved_never_allocated cfg.mrgnCfg _ (reqsOf b) h k hlen hk' s ?_ hp
  have : (carriedFirst (reqsOf b))[k] = (reqsOf b)[k]'(by simpa [reqsOf] using hk) := by
    congr 1; exact carriedFirst_reqsOf b
  rw [this]
  simp [reqsOf, hnone]

/-! ### a NEW (index-less) location: its reference is the slot the save put it on -/

/-- the uid ↦ slot list the rebuild returns, for placements whose uids are pairwise different: looking up the uid
of the `k`-th element of the placement gives the slot the allocator handed to it -/
theorem lookup_placed (placement : List RLoc) (ress : List Res) (hu : (placement.map (·.uid)).Nodup) :
    ∀ (k : Nat) (hk : k < placement.length) (hk' : k < ress.length) (s : Nat), ress[k] = .placed s →
      ((placedOf placement ress).filterMap fun (l, uid) => l.idx.map fun i => (uid, i)).lookup placement[k].uid = some s := by
  induction placement generalizing ress with
  | nil => intro k hk; simp at hk
  | cons l ls ih =>
    intro k hk hk' s hp
    cases ress with
    | nil => simp at hk'
    | cons r rs =>
      have hnd : l.uid ∉ ls.map (·.uid) ∧ (ls.map (·.uid)).Nodup := List.nodup_cons.mp (by rw [List.map_cons] at hu; exact hu)
      cases k with
      | zero =>
        simp only [List.getElem_cons_zero] at hp ⊢
        subst hp
        simp [placedOf, List.lookup]
      | succ k =>
        have hk1 : k < ls.length := by simpa using hk
        have hk2 : k < rs.length := by simpa using hk'
        have hrec := ih rs hnd.2 k hk1 hk2 s (by simpa using hp)
        have hne : (ls[k].uid == l.uid) = false := by
          have : ls[k].uid ∈ ls.map (·.uid) := List.mem_map.mpr ⟨ls[k], List.getElem_mem hk1, rfl⟩
          have hneq : ls[k].uid ≠ l.uid := fun e => hnd.1 (e ▸ this)
          simpa using hneq
        simp only [List.getElem_cons_succ]
        cases r with
        | placed s0 =>
          simp only [placedOf, List.zip_cons_cons, List.filterMap_cons, Option.map_some, List.lookup, hne]
          simpa [placedOf] using hrec
        | skipped =>
          simp only [placedOf, List.zip_cons_cons, List.filterMap_cons]
          simpa [placedOf] using hrec

theorem placed_mem (placement : List RLoc) (ress : List Res) :
    ∀ (k : Nat) (hk : k < placement.length) (hk' : k < ress.length) (s : Nat), ress[k] = .placed s →
      ({ placement[k] with idx := some s } : RLoc) ∈ (placedOf placement ress).map (·.1) := by
  induction placement generalizing ress with
  | nil => intro k hk; simp at hk
  | cons l ls ih =>
    intro k hk hk' s hp
    cases ress with
    | nil => simp at hk'
    | cons r rs =>
      cases k with
      | zero =>
        simp only [List.getElem_cons_zero] at hp ⊢
        subst hp
        simp [placedOf]
      | succ k =>
        have hrec := ih rs k (by simpa using hk) (by simpa using hk') s (by simpa using hp)
        simp only [List.getElem_cons_succ]
        cases r with
        | placed s0 =>
          simp only [placedOf, List.zip_cons_cons, List.filterMap_cons, List.map_cons]
          exact List.mem_cons_of_mem _ (by simpa [placedOf] using hrec)
        | skipped =>
          simp only [placedOf, List.zip_cons_cons, List.filterMap_cons]
          simpa [placedOf] using hrec

/-- **a new location is referred to by the slot the save put it on**: in the location rebuild (`mrgnCore`), if the
allocator placed the `k`-th element of the batch — an object that carried no index — on slot `s`, then with the
uid ↦ slot list the rebuild returns as the encode context, a reference to that object is written as `s`, and the
emitted table contains that object with index `s` (which, by `c11_emitted_slot_holds_its_location`, is what slot `s`
resolves to).  Objects of one batch have pairwise different identities (`hu`). -/
theorem c04_new_location_reference_is_its_slot (b : List RLoc) (ress : List Res)
    (hu : ((placementOf b).map (·.uid)).Nodup)
    (k : Nat) (hk : k < (placementOf b).length) (hk' : k < ress.length) (s : Nat) (hp : ress[k] = .placed s)
    (hnone : (placementOf b)[k].idx = none)
    (ctx : EncCtx)
    (hctx : ctx.locIds = (placedOf (placementOf b) ress).filterMap fun (l, uid) => l.idx.map fun i => (uid, i)) :
    locId ctx (placementOf b)[k] = some s ∧
    ({ (placementOf b)[k] with idx := some s } : RLoc) ∈ (placedOf (placementOf b) ress).map (·.1) := by
  refine ⟨?_, placed_mem _ _ k hk hk' s hp⟩
  unfold locId
  rw [hnone]
  simp only
  rw [hctx]
  exact lookup_placed _ _ hu k hk hk' s hp

/-! ### a NEW (index-less) unit-property set: its reference is the slot the save put it on -/

theorem dedupAux_keys_nodup (xs kept : List RCuwp) (hk : (kept.map (·.key)).Nodup) :
    ((dedupAux (fun a b : RCuwp => a.key == b.key) xs kept).map (·.key)).Nodup := by
  induction xs generalizing kept with
  | nil =>
    simp only [dedupAux, List.map_reverse]
    exact List.pairwise_reverse.mpr (hk.imp fun h => Ne.symm h)
  | cons x xs ih =>
    simp only [dedupAux]
    split
    · exact ih kept hk
    · rename_i hany
      apply ih
      rw [List.map_cons]
      refine List.nodup_cons.mpr ⟨?_, hk⟩
      intro hmem
      obtain ⟨t, ht, hkey⟩ := List.mem_map.mp hmem
      apply hany
      exact List.any_eq_true.mpr ⟨t, ht, by simp [hkey]⟩

/-- the batch the rebuild collects holds every value at most once (set semantics of `RichCuwpSlot.__eq__`) -/
theorem dedupBy_keys_nodup (xs : List RCuwp) :
    ((dedupBy (fun a b : RCuwp => a.key == b.key) xs).map (·.key)).Nodup :=
  dedupAux_keys_nodup xs [] (by simp)

theorem cuPlacementOf_perm (need : List RCuwp) : (cuPlacementOf need).Perm need := by
  unfold cuPlacementOf
  have : (fun c : RCuwp => c.idx.isNone) = fun c => !(c.idx.isSome) := by
    funext c; cases c.idx <;> rfl
  rw [this]
  exact List.filter_append_perm _ _

/-- membership in the placed part of the emitted table: an element is `placement[j]` with the slot the allocator
handed to request `j` -/
theorem cu_placed_mem_iff (placement : List RCuwp) (ress : List Res) (y : RCuwp) :
    y ∈ cuPlacedOf placement ress ↔
      ∃ (j : Nat) (hj : j < placement.length) (hj' : j < ress.length) (s : Nat),
        ress[j] = .placed s ∧ y = { placement[j] with idx := some s } := by
  induction placement generalizing ress with
  | nil => simp [cuPlacedOf]
  | cons l ls ih =>
    cases ress with
    | nil => simp [cuPlacedOf]
    | cons r rs =>
      have ih' := ih rs
      constructor
      · intro h
        cases r with
        | placed s0 =>
          simp only [cuPlacedOf, List.zip_cons_cons, List.filterMap_cons, List.mem_cons] at h
          rcases h with h | h
          · exact ⟨0, by simp, by simp, s0, by simp, h⟩
          · obtain ⟨j, hj, hj', s, hr, hy⟩ := ih'.mp (by simpa [cuPlacedOf] using h)
            exact ⟨j + 1, by simpa using hj, by simpa using hj', s, by simpa using hr, by simpa using hy⟩
        | skipped =>
          simp only [cuPlacedOf, List.zip_cons_cons, List.filterMap_cons] at h
          obtain ⟨j, hj, hj', s, hr, hy⟩ := ih'.mp (by simpa [cuPlacedOf] using h)
          exact ⟨j + 1, by simpa using hj, by simpa using hj', s, by simpa using hr, by simpa using hy⟩
      · rintro ⟨j, hj, hj', s, hr, hy⟩
        cases j with
        | zero =>
          simp only [List.getElem_cons_zero] at hr hy
          subst hr
          simp [cuPlacedOf, hy]
        | succ j =>
          have hrec : y ∈ cuPlacedOf ls rs :=
            ih'.mpr ⟨j, by simpa using hj, by simpa using hj', s, by simpa using hr, by simpa using hy⟩
          cases r with
          | placed s0 =>
            simp only [cuPlacedOf, List.zip_cons_cons, List.filterMap_cons, List.mem_cons]
            exact .inr (by simpa [cuPlacedOf] using hrec)
          | skipped =>
            simp only [cuPlacedOf, List.zip_cons_cons, List.filterMap_cons]
            simpa [cuPlacedOf] using hrec

/-- a list in which `x` is the only element satisfying `p`: searching it from the back finds `x` -/
theorem reverse_find_unique {α} (l : List α) (p : α → Bool) (x : α) (hx : x ∈ l) (hp : p x = true)
    (hu : ∀ y ∈ l, p y = true → y = x) : l.reverse.find? p = some x := by
  cases hf : l.reverse.find? p with
  | none =>
    have := List.find?_eq_none.mp hf x (List.mem_reverse.mpr hx)
    simp [hp] at this
  | some y =>
    have hy : y ∈ l := List.mem_reverse.mp (List.mem_of_find?_eq_some hf)
    rw [hu y hy (List.find?_some hf)]

/-- **a new unit-property set is referred to by the slot the save put it on**: in the unit-property rebuild
(`uprpCore`), if the allocator placed the `k`-th element of the placement — a set that carried no index and whose
values no stored slot holds (exactly the index-less sets the rebuild asks slots for) — on slot `s`, then with the
emitted table as the encode context a reference to that set is written as `s`, and the emitted table contains that
set with index `s` (which, by `c11_emitted_slot_holds_its_cuwp`, is what slot `s` resolves to).  The batch holds
every value at most once (`hkeys`; `dedupBy_keys_nodup` and `c04_need_keys_nodup` discharge it for the rebuild). -/
theorem c04_new_cuwp_reference_is_its_slot (table need : List RCuwp) (ress : List Res)
    (hkeys : ((cuPlacementOf need).map (·.key)).Nodup)
    (k : Nat) (hk : k < (cuPlacementOf need).length) (hk' : k < ress.length) (s : Nat) (hp : ress[k] = .placed s)
    (hnone : (cuPlacementOf need)[k].idx = none)
    (hnew : ∀ t ∈ table, t.key ≠ (cuPlacementOf need)[k].key)
    (ctx : EncCtx) (hctx : ctx.cuwps = table ++ cuPlacedOf (cuPlacementOf need) ress) :
    cuwpId ctx (cuPlacementOf need)[k] = some s ∧
    ({ (cuPlacementOf need)[k] with idx := some s } : RCuwp) ∈ ctx.cuwps := by
  have hmem : ({ (cuPlacementOf need)[k] with idx := some s } : RCuwp) ∈ cuPlacedOf (cuPlacementOf need) ress :=
    (cu_placed_mem_iff _ _ _).mpr ⟨k, hk, hk', s, hp, rfl⟩
  refine ⟨?_, by rw [hctx]; exact List.mem_append_right _ hmem⟩
  have hown : cuwpOwn ctx (cuPlacementOf need)[k] = none := by simp [cuwpOwn, hnone]
  unfold cuwpId
  rw [hown, hctx]
  simp only [Option.orElse_none]
  rw [reverse_find_unique (table ++ cuPlacedOf (cuPlacementOf need) ress) _
    ({ (cuPlacementOf need)[k] with idx := some s } : RCuwp) (List.mem_append_right _ hmem) (by simp [RCuwp.key])]
  · rfl
  · intro y hy hkey
    have hkey' : y.key = (cuPlacementOf need)[k].key := by simpa using hkey
    rcases List.mem_append.mp hy with hy | hy
    · exact absurd hkey' (hnew y hy)
    · obtain ⟨j, hj, hj', sj, hr, hyj⟩ := (cu_placed_mem_iff _ _ _).mp hy
      have hkj : (cuPlacementOf need)[j].key = (cuPlacementOf need)[k].key := by
        rw [← hkey', hyj]; rfl
      have hjk : j = k := by
        have h1 : ((cuPlacementOf need).map (·.key))[j]'(by simpa using hj) = ((cuPlacementOf need).map (·.key))[k]'(by simpa using hk) := by
          simpa using hkj
        exact (List.getElem_inj hkeys).mp h1
      subst hjk
      rw [hp] at hr
      cases hr
      exact hyj

/-- the sets the rebuild asks slots for hold every value at most once, whatever iteration order the set of found
objects has (`hperm`: the order is a permutation of the collected batch) -/
theorem c04_need_keys_nodup (found table : List RCuwp) (o : Option (List Nat))
    (hperm : (allocOrder o (dedupBy (fun a b : RCuwp => a.key == b.key) found)).Perm
      (dedupBy (fun a b : RCuwp => a.key == b.key) found)) :
    ((cuPlacementOf ((allocOrder o (dedupBy (fun a b : RCuwp => a.key == b.key) found)).filter
      fun c => c.idx.isSome || !(table.any fun t => t.key == c.key))).map (·.key)).Nodup := by
  have h0 := dedupBy_keys_nodup found
  have h1 : ((allocOrder o (dedupBy (fun a b : RCuwp => a.key == b.key) found)).map (·.key)).Nodup :=
    (hperm.map _).nodup_iff.mpr h0
  have h2 := h1.sublist ((List.filter_sublist (l := allocOrder o (dedupBy (fun a b : RCuwp => a.key == b.key) found))
    (p := fun c => c.idx.isSome || !(table.any fun t => t.key == c.key))).map (·.key))
  exact ((cuPlacementOf_perm _).map _).nodup_iff.mpr h2

/-- an index-less set the rebuild asks a slot for has values no stored slot holds -/
theorem c04_need_indexless_is_new (batch table : List RCuwp) (c : RCuwp)
    (hc : c ∈ cuPlacementOf (batch.filter fun c => c.idx.isSome || !(table.any fun t => t.key == c.key)))
    (hnone : c.idx = none) : ∀ t ∈ table, t.key ≠ c.key := by
  have hc' := (cuPlacementOf_perm _).subset hc
  have hf := (List.mem_filter.mp hc').2
  simp only [hnone, Option.isSome_none, Bool.false_or, Bool.not_eq_eq_eq_not, Bool.not_true] at hf
  intro t ht hk
  have := List.any_eq_false.mp hf t ht
  simp [hk] at this

/-- with a raising allocator (`raiseWhenFull`; unit-property sets, sounds, switches), a run that succeeds has placed
every request that asked for a fresh slot -/
theorem allocRun_fresh_placed {cfg : AllocCfg} (hr : cfg.raiseWhenFull = true) :
    ∀ (reqs : List Req) (st : AllocSt) {ress : List Res} {st' : AllocSt}, allocRun cfg st reqs = .ok (ress, st') →
      ∀ (k : Nat) (hk : k < reqs.length) (hk' : k < ress.length), reqs[k] = .fresh → ∃ s, ress[k] = .placed s := by
  intro reqs
  induction reqs with
  | nil => intro st ress st' _ k hk; simp at hk
  | cons r rs ih =>
    intro st ress st' h k hk hk' hf
    simp only [allocRun] at h
    cases hs : allocStep cfg st r with
    | error e => simp [hs] at h
    | ok p =>
      obtain ⟨res, st1⟩ := p
      cases hrr : allocRun cfg st1 rs with
      | error e => simp [hs, hrr] at h
      | ok q =>
        obtain ⟨ress', st2⟩ := q
        simp only [hs, hrr, Except.ok.injEq, Prod.mk.injEq] at h
        obtain ⟨h1, _⟩ := h
        subst h1
        cases k with
        | zero =>
          simp only [List.getElem_cons_zero] at hf ⊢
          subst hf
          simp only [allocStep] at hs
          cases hfree : st.free with
          | nil => simp [hfree, hr] at hs
          | cons f fs =>
            simp only [hfree, Except.ok.injEq, Prod.mk.injEq] at hs
            exact ⟨f, hs.1.symm⟩
        | succ k =>
          simp only [List.getElem_cons_succ] at hf ⊢
          exact ih st1 hrr k (by simpa using hk) (by simpa using hk') hf

theorem carriedFirst_placement_generic {α} (idx : α → Option Nat) (b : List α) :
    carriedFirst ((b.filter (fun x => (idx x).isSome) ++ b.filter (fun x => (idx x).isNone)).map
        fun l => match idx l with | some i => Req.carry i | none => Req.fresh) =
      (b.filter (fun x => (idx x).isSome) ++ b.filter (fun x => (idx x).isNone)).map
        fun l => match idx l with | some i => Req.carry i | none => Req.fresh := by
  have hs : ∀ (l : List α), (∀ x ∈ l, (idx x).isSome = true) →
      carriedIdx (l.map fun l => match idx l with | some i => Req.carry i | none => Req.fresh) = l.filterMap idx ∧
      freshCount (l.map fun l => match idx l with | some i => Req.carry i | none => Req.fresh) = 0 ∧
      (l.map fun l => match idx l with | some i => Req.carry i | none => Req.fresh) = (l.filterMap idx).map Req.carry := by
    intro l
    induction l with
    | nil => intro _; simp [carriedIdx, freshCount]
    | cons x xs ih =>
      intro hall
      obtain ⟨h1, h2, h3⟩ := ih (fun y hy => hall y (List.mem_cons_of_mem _ hy))
      have hx := hall x (by simp)
      cases hxi : idx x with
      | none => rw [hxi] at hx; simp at hx
      | some i => exact ⟨by simp [carriedIdx, hxi, h1], by simp [freshCount, hxi, h2], by simp [hxi, h3]⟩
  have hn : ∀ (l : List α), (∀ x ∈ l, (idx x).isNone = true) →
      carriedIdx (l.map fun l => match idx l with | some i => Req.carry i | none => Req.fresh) = [] ∧
      freshCount (l.map fun l => match idx l with | some i => Req.carry i | none => Req.fresh) = l.length ∧
      (l.map fun l => match idx l with | some i => Req.carry i | none => Req.fresh) = List.replicate l.length Req.fresh := by
    intro l
    induction l with
    | nil => intro _; simp [carriedIdx, freshCount]
    | cons x xs ih =>
      intro hall
      obtain ⟨h1, h2, h3⟩ := ih (fun y hy => hall y (List.mem_cons_of_mem _ hy))
      have hx := hall x (by simp)
      cases hxi : idx x with
      | some i => rw [hxi] at hx; simp at hx
      | none => exact ⟨by simp [carriedIdx, hxi, h1], by simp [freshCount, hxi, h2], by simp [hxi, h3, List.replicate_succ]⟩
  obtain ⟨a1, a2, a3⟩ := hs (b.filter (fun x => (idx x).isSome)) (fun x hx => by simpa using (List.mem_filter.mp hx).2)
  obtain ⟨b1, b2, b3⟩ := hn (b.filter (fun x => (idx x).isNone)) (fun x hx => by simpa using (List.mem_filter.mp hx).2)
  unfold carriedFirst
  rw [List.map_append, carriedIdx_append, freshCount_append, a1, a2, b1, b2, a3, b3]
  simp

theorem carriedFirst_cuReqsOf (need : List RCuwp) : carriedFirst (cuReqsOf need) = cuReqsOf need :=
  carriedFirst_placement_generic (fun c : RCuwp => c.idx) need

/-- **C04, end to end for a new unit-property set**: whenever the unit-property rebuild succeeds (`uprpCore … = .ok
cuwps`, allocator raising when full as the generated configuration says), EVERY set of the batch that carried no
index and whose values no stored slot holds has been given a slot `s`; with the emitted table as the encode context
a reference to it is written as `s`, and the emitted table holds exactly that set, with index `s`.  For every
stored table, every batch holding each value once, every iteration order. -/
theorem c04_new_cuwp_is_placed_and_referred_by_its_slot (cfg : RichCfg) (hr : cfg.uprpCfg.raiseWhenFull = true)
    (table need cuwps : List RCuwp) (h : uprpCore cfg table need = .ok cuwps)
    (hkeys : ((cuPlacementOf need).map (·.key)).Nodup)
    (k : Nat) (hk : k < (cuPlacementOf need).length) (hnone : (cuPlacementOf need)[k].idx = none)
    (hnew : ∀ t ∈ table, t.key ≠ (cuPlacementOf need)[k].key)
    (ctx : EncCtx) (hctx : ctx.cuwps = cuwps) :
    ∃ s, cuwpId ctx (cuPlacementOf need)[k] = some s ∧
      ({ (cuPlacementOf need)[k] with idx := some s } : RCuwp) ∈ cuwps := by
  unfold uprpCore at h
  cases ha : allocate cfg.uprpCfg (table.filterMap (·.idx)) (cuReqsOf need) with
  | error e => simp [ha] at h
  | ok p =>
    obtain ⟨ress, st⟩ := p
    simp only [ha, Except.ok.injEq] at h
    have hrun : allocRun cfg.uprpCfg ⟨table.filterMap (·.idx), freeIds cfg.uprpCfg (table.filterMap (·.idx))⟩ (cuReqsOf need) = .ok (ress, st) := by
      have := ha
      unfold allocate at this
      rwa [carriedFirst_cuReqsOf] at this
    have hlen : ress.length = (cuReqsOf need).length := allocRun_length _ _ hrun
    have hk1 : k < (cuReqsOf need).length := by simpa [cuReqsOf] using hk
    have hk' : k < ress.length := by omega
    obtain ⟨s, hs⟩ := allocRun_fresh_placed hr _ _ hrun k hk1 hk' (by simp [cuReqsOf, hnone])
    have := c04_new_cuwp_reference_is_its_slot table need ress hkeys k hk hk' s hs hnone hnew ctx (by rw [hctx, ← h])
    exact ⟨s, this.1, by rw [← hctx]; exact this.2⟩

/-- the premise `raiseWhenFull` holds for the specification's unit-property slot range, which the regenerated
constants are proved equal to in `Props/C09.lean` (`c09_generated_consts_eq_spec`) -/
example : Spec.cuwpSlots.raiseWhenFull = true := by decide


/-! ### what the triggers refer to, under two iteration orders -/

/-- the batch of sets the unit-property rebuild asks slots for, under iteration order `o` -/
def cuNeed (cfg : RichCfg) (secs : List RSection) (table : List RCuwp) (o : Option (List Nat)) : List RCuwp :=
  (allocOrder o (dedupBy (fun a b => a.key == b.key)
    ((secs.filter (fun s => !isSectionNamed nUPRP s)).flatMap (sectionCuwps cfg)))).filter
      fun c => c.idx.isSome || !(table.any fun t => t.key == c.key)

/-- **C14 for the references a save writes to unit-property sets** ("deterministic up to the numbering of new
slots", at the level of what the triggers refer to).  Take one map and any two iteration orders `o1`, `o2` of the
set of unit-property sets found in its triggers (each a permutation of the collected batch), and let both saves
succeed.  Then
* a reference to a STORED set (one the table holds at slot `i`) is written as `i` in both saves;
* a reference to a NEW set (no index, values no stored slot holds) is written, in each save, as a slot that the
  stored table does not occupy, and the emitted table of that save holds exactly that set there;
* within one save two new sets with different values are never written as the same number.
So the two outputs differ at most by a renaming of the new slots, applied consistently to the table and to every
reference. -/
theorem c14_unit_property_references_order_free (cfg : RichCfg) (hr : cfg.uprpCfg.raiseWhenFull = true)
    (secs : List RSection) (table : List RCuwp)
    (hsec : secs.filter (isSectionNamed nUPRP) = [.uprp table]) (hany : table.any (·.idx.isNone) = false)
    (hnd : (table.filterMap (·.idx)).Nodup)
    (o1 o2 : Option (List Nat))
    (hp1 : (allocOrder o1 (dedupBy (fun a b : RCuwp => a.key == b.key) ((secs.filter (fun s => !isSectionNamed nUPRP s)).flatMap (sectionCuwps cfg)))).Perm
      (dedupBy (fun a b : RCuwp => a.key == b.key) ((secs.filter (fun s => !isSectionNamed nUPRP s)).flatMap (sectionCuwps cfg))))
    (hp2 : (allocOrder o2 (dedupBy (fun a b : RCuwp => a.key == b.key) ((secs.filter (fun s => !isSectionNamed nUPRP s)).flatMap (sectionCuwps cfg)))).Perm
      (dedupBy (fun a b : RCuwp => a.key == b.key) ((secs.filter (fun s => !isSectionNamed nUPRP s)).flatMap (sectionCuwps cfg))))
    (l1 l2 : List RCuwp) (h1 : rebuildUprp cfg secs o1 = .ok l1) (h2 : rebuildUprp cfg secs o2 = .ok l2)
    (ctx1 ctx2 : EncCtx) (hc1 : ctx1.cuwps = l1) (hc2 : ctx2.cuwps = l2) :
    (∀ c ∈ table, ∀ i, c.idx = some i → cuwpId ctx1 c = some i ∧ cuwpId ctx2 c = some i) ∧
    (∀ c ∈ cuNeed cfg secs table o1, c.idx = none →
      ∃ s1 s2, cuwpId ctx1 c = some s1 ∧ cuwpId ctx2 c = some s2 ∧
        ({ c with idx := some s1 } : RCuwp) ∈ l1 ∧ ({ c with idx := some s2 } : RCuwp) ∈ l2 ∧
        s1 ∉ table.filterMap (·.idx) ∧ s2 ∉ table.filterMap (·.idx)) ∧
    (∀ c ∈ cuNeed cfg secs table o1, ∀ c' ∈ cuNeed cfg secs table o1, c.idx = none → c'.idx = none →
      ∀ s, cuwpId ctx1 c = some s → cuwpId ctx1 c' = some s → c.key = c'.key) := by
  have e1 := rebuildUprp_eq_core cfg secs table o1 hsec hany
  have e2 := rebuildUprp_eq_core cfg secs table o2 hsec hany
  have k1 := c04_need_keys_nodup ((secs.filter (fun s => !isSectionNamed nUPRP s)).flatMap (sectionCuwps cfg)) table o1 hp1
  have k2 := c04_need_keys_nodup ((secs.filter (fun s => !isSectionNamed nUPRP s)).flatMap (sectionCuwps cfg)) table o2 hp2
  have hcore1 : uprpCore cfg table (cuNeed cfg secs table o1) = .ok l1 := by rw [← h1, e1]; rfl
  have hcore2 : uprpCore cfg table (cuNeed cfg secs table o2) = .ok l2 := by rw [← h2, e2]; rfl
  have hN1 := Props.C11.c11_emitted_cuwp_slots_distinct h1 table (.inr hsec) hnd
  have hN2 := Props.C11.c11_emitted_cuwp_slots_distinct h2 table (.inr hsec) hnd
  have hpre1 : ∀ c ∈ table, c ∈ l1 := by
    intro c hc
    unfold uprpCore at hcore1
    cases ha : allocate cfg.uprpCfg (table.filterMap (·.idx)) (cuReqsOf (cuNeed cfg secs table o1)) with
    | error e => simp [ha] at hcore1
    | ok p => simp only [ha, Except.ok.injEq] at hcore1; rw [← hcore1]; exact List.mem_append_left _ hc
  have hpre2 : ∀ c ∈ table, c ∈ l2 := by
    intro c hc
    unfold uprpCore at hcore2
    cases ha : allocate cfg.uprpCfg (table.filterMap (·.idx)) (cuReqsOf (cuNeed cfg secs table o2)) with
    | error e => simp [ha] at hcore2
    | ok p => simp only [ha, Except.ok.injEq] at hcore2; rw [← hcore2]; exact List.mem_append_left _ hc
  -- a new set of order 1's batch is also in order 2's batch (the orders are permutations of one batch)
  have hneed : ∀ c ∈ cuNeed cfg secs table o1, c ∈ cuNeed cfg secs table o2 := by
    intro c hc
    have := List.mem_filter.mp hc
    exact List.mem_filter.mpr ⟨(hp2.symm.subset (hp1.subset this.1)), this.2⟩
  -- the slot a new set is written as, in one save
  have one : ∀ (o : Option (List Nat)) (l : List RCuwp) (ctx : EncCtx),
      uprpCore cfg table (cuNeed cfg secs table o) = .ok l → ctx.cuwps = l →
      ((cuPlacementOf (cuNeed cfg secs table o)).map (·.key)).Nodup → (l.filterMap (·.idx)).Nodup → (∀ c ∈ table, c ∈ l) →
      ∀ c ∈ cuNeed cfg secs table o, c.idx = none →
        ∃ s, cuwpId ctx c = some s ∧ ({ c with idx := some s } : RCuwp) ∈ l ∧ s ∉ table.filterMap (·.idx) := by
    intro o l ctx hcore hctx hk hN hpre c hc hnone
    have hcp : c ∈ cuPlacementOf (cuNeed cfg secs table o) := (cuPlacementOf_perm _).symm.subset hc
    obtain ⟨k, hk', hget⟩ := List.getElem_of_mem hcp
    have hnew := c04_need_indexless_is_new _ table c (by unfold cuNeed at hcp; exact hcp) hnone
    obtain ⟨s, hs1, hs2⟩ := c04_new_cuwp_is_placed_and_referred_by_its_slot cfg hr table _ l hcore hk k hk'
      (by rw [hget]; exact hnone) (by rw [hget]; exact hnew) ctx hctx
    rw [hget] at hs1 hs2
    refine ⟨s, hs1, hs2, ?_⟩
    intro hmem
    obtain ⟨t, ht, hti⟩ := List.mem_filterMap.mp hmem
    have := Props.C11.eq_of_key_nodup (·.idx) l hN t (hpre t ht) _ hs2 s hti rfl
    exact hnew t ht (by rw [this]; rfl)
  refine ⟨?_, ?_, ?_⟩
  · intro c hc i hi
    exact ⟨Props.C11.c11_emitted_cuwp_reference_is_its_slot h1 table (.inr hsec) hnd ctx1 hc1 c (hpre1 c hc) i hi,
           Props.C11.c11_emitted_cuwp_reference_is_its_slot h2 table (.inr hsec) hnd ctx2 hc2 c (hpre2 c hc) i hi⟩
  · intro c hc hnone
    obtain ⟨s1, a1, b1, c1⟩ := one o1 l1 ctx1 hcore1 hc1 k1 hN1 hpre1 c hc hnone
    obtain ⟨s2, a2, b2, c2⟩ := one o2 l2 ctx2 hcore2 hc2 k2 hN2 hpre2 c (hneed c hc) hnone
    exact ⟨s1, s2, a1, a2, b1, b2, c1, c2⟩
  · intro c hc c' hc' hnone hnone' s hs hs'
    obtain ⟨s1, a1, b1, _⟩ := one o1 l1 ctx1 hcore1 hc1 k1 hN1 hpre1 c hc hnone
    obtain ⟨s2, a2, b2, _⟩ := one o1 l1 ctx1 hcore1 hc1 k1 hN1 hpre1 c' hc' hnone'
    rw [hs] at a1; rw [hs'] at a2
    cases a1; cases a2
    have := Props.C11.eq_of_key_nodup (·.idx) l1 hN1 _ b1 _ b2 s rfl rfl
    have hk := congrArg RCuwp.key this
    simpa [RCuwp.key] using hk

/-! ### a new location the full table had no room for: the reference raises, it is never a wrong number -/

/-- every uid of the uid ↦ slot list belongs to a placement element the allocator PLACED -/
theorem placed_uid_mem (placement : List RLoc) (ress : List Res) (u : Nat)
    (h : u ∈ ((placedOf placement ress).filterMap fun (l, uid) => l.idx.map fun i => (uid, i)).map (·.1)) :
    ∃ (j : Nat) (hj : j < placement.length) (hj' : j < ress.length) (s : Nat),
      ress[j] = .placed s ∧ placement[j].uid = u := by
  induction placement generalizing ress with
  | nil => simp [placedOf] at h
  | cons l ls ih =>
    cases ress with
    | nil => simp [placedOf] at h
    | cons r rs =>
      cases r with
      | placed s0 =>
        simp only [placedOf, List.zip_cons_cons, List.filterMap_cons, Option.map_some, List.map_cons, List.mem_cons] at h
        rcases h with h | h
        · exact ⟨0, by simp, by simp, s0, by simp, by simp [h]⟩
        · obtain ⟨j, hj, hj', s, hr, hu⟩ := ih rs (by simpa [placedOf] using h)
          exact ⟨j + 1, by simpa using hj, by simpa using hj', s, by simpa using hr, by simpa using hu⟩
      | skipped =>
        simp only [placedOf, List.zip_cons_cons, List.filterMap_cons] at h
        obtain ⟨j, hj, hj', s, hr, hu⟩ := ih rs (by simpa [placedOf] using h)
        exact ⟨j + 1, by simpa using hj, by simpa using hj', s, by simpa using hr, by simpa using hu⟩

theorem lookup_none_of_not_mem {β} (l : List (Nat × β)) (u : Nat) (h : u ∉ l.map (·.1)) : l.lookup u = none := by
  induction l with
  | nil => rfl
  | cons p ps ih =>
    obtain ⟨a, b⟩ := p
    simp only [List.map_cons, List.mem_cons, not_or] at h
    have hne : (u == a) = false := by simpa using h.1
    simp only [List.lookup, hne]
    exact ih h.2

/-- **a new location the save could not place is never written as a number**: the location editor skips an
index-less location when the table is full (`raiseWhenFull = false`); a trigger that refers to such a location
then finds no number for it (`locId … = none`, the encoder's `KeyError`) — the save raises instead of emitting a
reference to some other slot.  For every batch with pairwise different identities, every allocator outcome. -/
theorem c11_unplaced_new_location_has_no_number (b : List RLoc) (ress : List Res)
    (hu : ((placementOf b).map (·.uid)).Nodup)
    (k : Nat) (hk : k < (placementOf b).length) (hk' : k < ress.length) (hs : ress[k] = .skipped)
    (hnone : (placementOf b)[k].idx = none)
    (ctx : EncCtx)
    (hctx : ctx.locIds = (placedOf (placementOf b) ress).filterMap fun (l, uid) => l.idx.map fun i => (uid, i)) :
    locId ctx (placementOf b)[k] = none := by
  unfold locId
  rw [hnone]
  simp only
  rw [hctx]
  apply lookup_none_of_not_mem
  intro hmem
  obtain ⟨j, hj, hj', s, hr, hju⟩ := placed_uid_mem _ _ _ hmem
  have hjk : j = k := by
    have h1 : ((placementOf b).map (·.uid))[j]'(by simpa using hj) = ((placementOf b).map (·.uid))[k]'(by simpa using hk) := by
      simpa using hju
    exact (List.getElem_inj hu).mp h1
  subst hjk
  rw [hs] at hr
  cases hr

/-! ### new locations: slot or raise, fresh and pairwise different -/

/-- **a new location is written as the slot holding it, or the save raises — under every allocator outcome**: for
every batch with pairwise different identities, every result list the allocator can return for it, and every new
(index-less) location of the batch, the encoder either writes the slot `s` the rebuild put that very location on
(and the emitted table holds it there), or finds no number at all (`KeyError`: the location table was full and the
editor skipped it).  There is no third outcome — in particular no iteration order can make a reference to a new
location come out as the number of another location. -/
theorem c14_new_location_its_slot_or_raises (b : List RLoc) (ress : List Res)
    (hu : ((placementOf b).map (·.uid)).Nodup)
    (k : Nat) (hk : k < (placementOf b).length) (hk' : k < ress.length)
    (hnone : (placementOf b)[k].idx = none)
    (ctx : EncCtx)
    (hctx : ctx.locIds = (placedOf (placementOf b) ress).filterMap fun (l, uid) => l.idx.map fun i => (uid, i)) :
    (∃ s, ress[k] = .placed s ∧ locId ctx (placementOf b)[k] = some s ∧
        ({ (placementOf b)[k] with idx := some s } : RLoc) ∈ (placedOf (placementOf b) ress).map (·.1)) ∨
    (ress[k] = .skipped ∧ locId ctx (placementOf b)[k] = none) := by
  cases hr : ress[k] with
  | placed s =>
    have := c04_new_location_reference_is_its_slot b ress hu k hk hk' s hr hnone ctx hctx
    exact .inl ⟨s, rfl, this.1, this.2⟩
  | skipped =>
    exact .inr ⟨rfl, c11_unplaced_new_location_has_no_number b ress hu k hk hk' hr hnone ctx hctx⟩


theorem placed_mem_placedSlots : ∀ (ress : List Res) (k : Nat) (hk : k < ress.length) (s : Nat),
    ress[k] = .placed s → s ∈ placedSlots ress := by
  intro ress
  induction ress with
  | nil => intro k hk; simp at hk
  | cons r rs ih =>
    intro k hk s h
    cases k with
    | zero => simp only [List.getElem_cons_zero] at h; subst h; simp [placedSlots]
    | succ k =>
      have := ih k (by simpa using hk) s (by simpa using h)
      cases r <;> simp [placedSlots, this]

theorem placedSlots_position_unique : ∀ (ress : List Res), (placedSlots ress).Nodup →
    ∀ (k k' : Nat) (hk : k < ress.length) (hk' : k' < ress.length) (s : Nat),
      ress[k] = .placed s → ress[k'] = .placed s → k = k' := by
  intro ress
  induction ress with
  | nil => intro _ k _ hk; simp at hk
  | cons r rs ih =>
    intro hnd k k' hk hk' s h h'
    have hnd' : (placedSlots rs).Nodup := by
      cases r with
      | placed i => simp only [placedSlots] at hnd; exact (List.nodup_cons.mp hnd).2
      | skipped => simpa [placedSlots] using hnd
    cases k with
    | zero =>
      cases k' with
      | zero => rfl
      | succ k' =>
        simp only [List.getElem_cons_zero] at h
        subst h
        have hm := placed_mem_placedSlots rs k' (by simpa using hk') s (by simpa using h')
        simp only [placedSlots] at hnd
        exact absurd hm (List.nodup_cons.mp hnd).1
    | succ k =>
      cases k' with
      | zero =>
        simp only [List.getElem_cons_zero] at h'
        subst h'
        have hm := placed_mem_placedSlots rs k (by simpa using hk) s (by simpa using h)
        simp only [placedSlots] at hnd
        exact absurd hm (List.nodup_cons.mp hnd).1
      | succ k' =>
        have := ih hnd' k k' (by simpa using hk) (by simpa using hk') s (by simpa using h) (by simpa using h')
        omega

/-- **new locations get fresh, pairwise different slots** (the allocator's soundness, read position by position at the
level of the location rebuild): whenever the allocation of a save succeeds, the slot handed to any element of the
batch is not a slot the stored table occupies, and two different elements of the batch never receive the same slot.
With `c14_new_location_its_slot_or_raises` and `c11_emitted_location_reference_is_its_slot`: two saves of one map
under different iteration orders differ at most by a renaming of the new slots, applied to the table and to every
reference alike. -/
theorem c14_new_location_slots_fresh_and_distinct (cfg : RichCfg) (table b : List RLoc)
    {ress : List Res} {st : AllocSt}
    (h : allocate cfg.mrgnCfg (table.filterMap (·.idx)) (reqsOf b) = .ok (ress, st))
    (k : Nat) (hk : k < ress.length) (s : Nat) (hp : ress[k] = .placed s) :
    s ∉ table.filterMap (·.idx) ∧
    ∀ (k' : Nat) (hk' : k' < ress.length), ress[k'] = .placed s → k' = k := by
  have hs := Props.C09.c09_sound cfg.mrgnCfg _ _ h
  refine ⟨(hs.2 s (placed_mem_placedSlots ress k hk s hp)).1, ?_⟩
  intro k' hk' hp'
  exact placedSlots_position_unique ress hs.1 k' k hk' hk s hp' hp

/-- **references to switches that have a number do not depend on the iteration order**: in two saves of one map under
any two iteration orders, a reference to a switch carrying number `i` that both saves can write is written as the
same number in both (namely `i`).  Together with `c14_switch_rebuild_new_numbers_order_free` (the numbers handed to
new switches are the first k free numbers under every order) the two outputs differ at most in which new switch got
which of those k numbers. -/
theorem c14_numbered_switch_reference_order_free {cfg : RichCfg} {secs : List RSection} (o1 o2 : Option (List Nat))
    {tbl1 tbl2 : List RSwitch} {ids1 ids2 : List (RSwitch × Nat)}
    (h1 : rebuildSwnm cfg secs o1 = .ok (tbl1, ids1)) (h2 : rebuildSwnm cfg secs o2 = .ok (tbl2, ids2))
    (ctx1 ctx2 : EncCtx) (hc1 : ctx1.switchIds = ids1) (hc2 : ctx2.switchIds = ids2)
    (s : RSwitch) (i : Nat) (hs : s.idx = some i)
    (hu1 : ∀ p ∈ ids1, p.1.uid = s.uid → p.1.idx = s.idx) (hu2 : ∀ p ∈ ids2, p.1.uid = s.uid → p.1.idx = s.idx)
    (j1 j2 : Nat) (hj1 : switchId ctx1 s = some j1) (hj2 : switchId ctx2 s = some j2) : j1 = j2 := by
  rw [Props.C09.c09_numbered_switch_written_as_its_number h1 ctx1 hc1 s i hs hu1 j1 hj1,
      Props.C09.c09_numbered_switch_written_as_its_number h2 ctx2 hc2 s i hs hu2 j2 hj2]

/-! ### every switch a save uses gets a number -/

/-- the placement loop records every switch it is given, in order -/
theorem rebuildSwnm_go_ids_cover :
    ∀ (ss : List RSwitch) (free : List Nat) (tbl : List RSwitch) (ids : List (RSwitch × Nat))
      (out : List RSwitch) (oids : List (RSwitch × Nat)),
      rebuildSwnm.go ss free tbl ids = .ok (out, oids) →
      oids.map (·.1) = ids.reverse.map (·.1) ++ ss := by
  intro ss
  induction ss with
  | nil =>
    intro free tbl ids out oids h
    simp only [rebuildSwnm.go, Except.ok.injEq, Prod.mk.injEq] at h
    rw [← h.2]; simp
  | cons s rest ih =>
    intro free tbl ids out oids h
    simp only [rebuildSwnm.go] at h
    cases hj : s.idx with
    | some j =>
      simp only [hj] at h
      cases hcur : tbl[j]? with
      | none => simp [hcur] at h
      | some cur =>
        simp only [hcur] at h
        split at h
        · rw [ih _ _ _ _ _ h]; simp
        · rw [ih _ _ _ _ _ h]; simp
    | none =>
      simp only [hj] at h
      cases free with
      | nil => simp at h
      | cons f fs =>
        simp only at h
        rw [ih _ _ _ _ _ h]; simp

theorem RSwitch.same_refl (s : RSwitch) : RSwitch.same s s = true := by
  unfold RSwitch.same
  split <;> simp

/-- **every switch a save uses gets a number**: when the switch rebuild succeeds, each switch of the (deduplicated)
batch collected from the triggers can be written — the encoder's lookup finds a number for it (`switchId … ≠ none`).
With `c09_numbered_switch_written_as_its_number` (a switch that carries a number is written as that number) and
`c09_new_switch_numbers_fresh` (new numbers are fresh and pairwise different): a successful save writes every
switch reference, and writes it correctly. -/
theorem c09_every_used_switch_has_a_number {cfg : RichCfg} {secs : List RSection} {order : Option (List Nat)}
    {tbl : List RSwitch} {ids : List (RSwitch × Nat)}
    (h : rebuildSwnm cfg secs order = .ok (tbl, ids))
    (ctx : EncCtx) (hctx : ctx.switchIds = ids) :
    ∀ u ∈ allocOrder order (dedupBy RSwitch.same ((secs.filter (fun s => !isSectionNamed nSWNM s)).flatMap (sectionSwitches cfg))),
      (switchId ctx u).isSome = true := by
  intro u hu
  rw [rebuildSwnm_eq_core] at h
  obtain ⟨swnm, h⟩ : ∃ swnm, swnmCore cfg swnm (allocOrder order (dedupBy RSwitch.same
      ((secs.filter (fun s => !isSectionNamed nSWNM s)).flatMap (sectionSwitches cfg)))) = .ok (tbl, ids) := ⟨_, h⟩
  unfold swnmCore at h
  simp only at h
  split at h
  · simp at h
  · have hcov := rebuildSwnm_go_ids_cover _ _ _ _ _ _ h
    simp only [List.reverse_nil, List.map_nil, List.nil_append] at hcov
    unfold switchId
    rw [hctx]
    have hex : ∃ p ∈ ids, RSwitch.same p.1 u = true := by
      cases hany : ((swnm.filter hasCustomName).any fun n => RSwitch.same n u) with
      | true =>
        obtain ⟨n, hn, hsame⟩ := List.any_eq_true.mp hany
        have : n ∈ ids.map (·.1) := by rw [hcov]; exact List.mem_append_left _ hn
        obtain ⟨p, hp, hpn⟩ := List.mem_map.mp this
        exact ⟨p, hp, by rw [hpn]; exact hsame⟩
      | false =>
        have : u ∈ ids.map (·.1) := by
          rw [hcov]
          exact List.mem_append_right _ (List.mem_filter.mpr ⟨hu, by simp [hany]⟩)
        obtain ⟨p, hp, hpu⟩ := List.mem_map.mp this
        exact ⟨p, hp, by rw [hpu]; exact RSwitch.same_refl u⟩
    obtain ⟨p, hp, hps⟩ := hex
    cases hfind : ids.find? (fun p => RSwitch.same p.1 u) with
    | none =>
      have := List.find?_eq_none.mp hfind p hp
      simp [hps] at this
    | some q => simp

end Richchk.Props.C14
