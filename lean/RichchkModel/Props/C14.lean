/-
C14 — Saving is deterministic up to the numbering of new slots.
-/
import RichchkModel.Lemmas.AllocPerm
import RichchkModel.Model.Editors
import RichchkModel.Lemmas.StrGrow
import RichchkModel.Lemmas.OrderFree
import RichchkModel.Props.C07
namespace Richchk.Props.C14
open Richchk

/-- **C14 (allocator).**  For every occupancy and every two iteration orders of the same batch
(`Perm`): both runs fail or both succeed; when they succeed they leave the same free list,
occupy the same set of slots, and hand out the same set of new slots.  Index-carrying objects
keep their own slots in both runs (C09), so the two results differ at most in WHICH index-less
object received which of the new slots. -/
theorem c14_order_independent (cfg : AllocCfg) (occ : List Nat) {r1 r2 : List Req} (h : r1.Perm r2) :
    ((∃ e, allocate cfg occ r1 = .error e) ↔ (∃ e, allocate cfg occ r2 = .error e)) ∧
    ∀ a s b t, allocate cfg occ r1 = .ok (a, s) → allocate cfg occ r2 = .ok (b, t) →
      s.free = t.free ∧ (∀ j, j ∈ s.occ ↔ j ∈ t.occ) ∧ (placedSlots a).Perm (placedSlots b) :=
  allocate_perm cfg occ h

/-- the set of new slots is determined by the occupancy, the SET of carried indices and the
NUMBER of index-less objects alone -/
theorem c14_new_slots_determined (cfg : AllocCfg) (occ : List Nat) (reqs : List Req)
    {ress : List Res} {st : AllocSt} (h : allocate cfg occ reqs = .ok (ress, st)) (j : Nat) :
    j ∈ placedSlots ress ↔ (j ∈ carriedIdx reqs ∧ j ∉ occ) ∨
      j ∈ ((freeIds cfg occ).filter (fun f => !(carriedIdx reqs).contains f)).take (freshCount reqs) := by
  have spec := allocate_spec cfg occ reqs
  simp only at spec
  by_cases hc : ((carriedIdx reqs).all (inRange cfg) = false ∨ (cfg.raiseWhenFull = true ∧
      ((freeIds cfg occ).filter (fun f => !(carriedIdx reqs).contains f)).length < freshCount reqs))
  · obtain ⟨e, he⟩ := spec.1 hc; rw [h] at he; cases he
  · obtain ⟨r', s', h', _, _, hpl⟩ := spec.2 hc
    rw [h] at h'; cases h'
    exact hpl j

/-- string collection is an ordered walk (an `OrderedDict`), not a set: the request list handed
to the string editor is a function of the rich map alone, so the STR section does not depend on
hashing.  (Modelled fact; the cross-process correspondence run checks it on the real code.) -/
theorem c14_strings_order_is_input_order (req seen : List Bytes) :
    ∀ s ∈ dedupNew req seen, s ∈ req := fun _ hs => (dedupNew_mem hs).1

/-! non-vacuity: two orders of {new, carries 2} on a table where 2 is the smallest free slot -/
example : (allocate ⟨1, 64, none, true⟩ [1] [.fresh, .carry 2]).toOption.map (fun p => placedSlots p.1) = some [2, 3] ∧
    (allocate ⟨1, 64, none, true⟩ [1] [.carry 2, .fresh]).toOption.map (fun p => placedSlots p.1) = some [2, 3] := by
  decide +kernel

/-- **C14 (whole rebuilds, saves that add nothing).**  The model's rebuilders take the iteration
order of the sets they collect as a parameter.  When every location the triggers reference carries
the slot number of a stored location — which is the case for every map that was loaded and not given
new locations — the rebuilt location list is the existing table for EVERY order; hence two saves of
the same map under different hash seeds / memory layouts produce the same MRGN. -/
theorem c14_location_rebuild_order_free (cfg : RichCfg) (secs : List RSection) (table : List RLoc)
    (hsec : secs.filter (isSectionNamed nMRGN) = [.mrgn table]) (hidx : ∀ t ∈ table, t.idx.isSome)
    (hfound : ∀ l ∈ (secs.filter (fun s => !isSectionNamed nMRGN s)).flatMap (sectionLocs cfg),
      ∃ i, l.idx = some i ∧ ¬ (i < cfg.mrgnCfg.lo ∨ cfg.mrgnCfg.hi < i) ∧ i ∈ table.filterMap (·.idx))
    (o1 o2 : Option (List Nat)) : rebuildMrgn cfg secs o1 = rebuildMrgn cfg secs o2 := by
  rw [rebuildMrgn_order_free cfg secs table hsec hidx hfound o1,
    rebuildMrgn_order_free cfg secs table hsec hidx hfound o2]

/-- the same for unit-property sets: references that carry a stored slot number or equal a stored
set need no allocation, and the rebuilt table does not depend on the order -/
theorem c14_unit_property_rebuild_order_free (cfg : RichCfg) (secs : List RSection) (table : List RCuwp)
    (hsec : secs.filter (isSectionNamed nUPRP) = [.uprp table]) (hidx : ∀ t ∈ table, t.idx.isSome)
    (hfound : ∀ c ∈ (secs.filter (fun s => !isSectionNamed nUPRP s)).flatMap (sectionCuwps cfg),
      (∃ i, c.idx = some i ∧ ¬ (i < cfg.uprpCfg.lo ∨ cfg.uprpCfg.hi < i) ∧ i ∈ table.filterMap (·.idx)) ∨
      (c.idx = none ∧ table.any (fun t => t.key == c.key) = true))
    (o1 o2 : Option (List Nat)) : rebuildUprp cfg secs o1 = rebuildUprp cfg secs o2 := by
  rw [rebuildUprp_order_free cfg secs table hsec hidx hfound o1,
    rebuildUprp_order_free cfg secs table hsec hidx hfound o2]

/-- **the name a stored switch carries does not depend on the iteration order of a set**: under any two
orders in which the save succeeds, slot `i` of the rebuilt switch table holds the same named entry (this is
what repository fixes f7874f6 / d43c2ba established; before them the name was kept or erased depending on
the hash seed) -/
theorem c14_named_switch_order_free {cfg : RichCfg} {secs : List RSection} (o1 o2 : Option (List Nat))
    {t1 t2 : List RSwitch} {i1 i2 : List (RSwitch × Nat)}
    (h1 : rebuildSwnm cfg secs o1 = .ok (t1, i1)) (h2 : rebuildSwnm cfg secs o2 = .ok (t2, i2))
    (ss : List RSwitch) (hs : secs.filter (isSectionNamed nSWNM) = [.swnm ss])
    (x : RSwitch) (hx : x ∈ ss) (hxn : hasCustomName x = true) (i : Nat) (hxi : x.idx = some i)
    (hi : i < cfg.switchSlots)
    (huniq : ∀ u ∈ ss, u.idx = some i → hasCustomName u = true → u = x)
    (hused : ∀ u ∈ (secs.filter (fun s => !isSectionNamed nSWNM s)).flatMap (sectionSwitches cfg),
      u.idx = some i → hasCustomName u = true → RSwitch.same x u = true) :
    t1[i]? = t2[i]? := by
  rw [Props.C07.c07_named_switch_keeps_name h1 ss hs x hx hxn i hxi hi huniq hused,
    Props.C07.c07_named_switch_keeps_name h2 ss hs x hx hxn i hxi hi huniq hused]

end Richchk.Props.C14
