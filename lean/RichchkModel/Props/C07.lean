/-
C07 — Edits never disturb what already exists in the map.

Theorems about the editor model (Model/RichEdit.lean) and the rebuilders, for every rich map and
every edit.  Slot tables: the allocator theorems of C09 (occupied slots are never handed out,
carried indices are kept) and C08 (every existing string id keeps its text) are the other half of
the argument and are cited, not repeated.  STATUS: partial — the composition "bytes of section X
are identical after the edit history" is validated by the differential run (`edit` op) and by the
independent reader, not proved end to end.
-/
import RichchkModel.Model.RichEdit
import RichchkModel.Lemmas.PassThrough
import RichchkModel.Lemmas.RebuildLemmas
import RichchkModel.Lemmas.OrderFree
namespace Richchk.Props.C07
open Richchk

/-- **adding triggers**: the section list keeps its length and order; every section that is not a
trigger section is unchanged; the trigger section becomes `old ++ new` — every pre-existing
trigger is unchanged and in its original position, new triggers come after -/
theorem c07_add_triggers_appends {new : List RTrigger} {secs secs' : List RSection}
    (h : addTriggers new secs = .ok secs') :
    secs'.length = secs.length ∧
    (∀ i (hi : i < secs.length) (hj : i < secs'.length), isTrig secs[i] = false → secs'[i] = secs[i]) ∧
    ∃ ts, secs.find? isTrig = some (.trig ts) ∧
      ∀ i (hi : i < secs.length) (hj : i < secs'.length), isTrig secs[i] = true → secs'[i] = .trig (ts ++ new) := by
  unfold addTriggers at h
  split at h
  · rename_i ts hf
    cases h
    refine ⟨by simp [replaceSections], ?_, ts, hf, ?_⟩
    · intro i hi hj hn; simp [replaceSections, hn]
    · intro i hi hj hy; simp [replaceSections, hy]
  · cases h

/-- the old triggers are a prefix of the new trigger list -/
theorem c07_old_triggers_are_prefix (ts new : List RTrigger) : ts <+: ts ++ new := List.prefix_append ts new

theorem map_replace_filter (u : RUnit) (us : List RUnit) :
    (us.map fun o => if o.unit == u.unit then u else o).filter (fun o => o.unit != u.unit) =
      us.filter (fun o => o.unit != u.unit) := by
  induction us with
  | nil => rfl
  | cons o os ih =>
    by_cases ho : o.unit = u.unit
    · simp only [List.map_cons, ho, beq_self_eq_true, if_true, List.filter_cons, bne_self_eq_false, Bool.false_eq_true, if_false]
      exact ih
    · have hb : (o.unit == u.unit) = false := by simpa using ho
      have hn : (o.unit != u.unit) = true := by simp [bne, hb]
      simp only [List.map_cons, hb, Bool.false_eq_true, if_false, List.filter_cons, hn, if_true]
      rw [ih]

/-- **upserting a unit**: settings of every other unit are unchanged, in the same order -/
theorem c07_upsert_keeps_other_units (u : RUnit) (us : List RUnit) :
    (upsertInto u us).filter (fun o => o.unit != u.unit) = us.filter (fun o => o.unit != u.unit) := by
  unfold upsertInto
  split
  · exact map_replace_filter u us
  · simp [List.filter_append]

/-- the upserted unit's setting is the authored one -/
theorem c07_upsert_holds_authored (u : RUnit) (us : List RUnit) : u ∈ upsertInto u us := by
  unfold upsertInto
  split
  · rename_i h
    simp only [List.any_eq_true] at h
    obtain ⟨o, ho, he⟩ := h
    simp only [List.mem_map]
    exact ⟨o, ho, by simp [he]⟩
  · simp

theorem addWavsTo_go_prefix (ps : List Bytes) (free : List Nat) (present : List Bytes) (acc ws' : List RWav)
    (h : addWavsTo.go ps free present acc = .ok ws') : acc <+: ws' := by
  induction ps generalizing free present acc with
  | nil => simp [addWavsTo.go] at h; subst h; exact List.prefix_refl _
  | cons p ps ih =>
    simp only [addWavsTo.go] at h
    split at h
    · exact ih _ _ _ h
    · split at h
      · cases h
      · exact (List.prefix_append acc _).trans (ih _ _ _ h)

/-- **adding WAV entries**: every existing entry keeps its slot and path; new entries come after -/
theorem c07_add_wavs_keeps_existing {slots : Nat} {ws ws' : List RWav} {paths : List Bytes}
    (h : addWavsTo slots ws paths = .ok ws') : ws <+: ws' :=
  addWavsTo_go_prefix _ _ _ _ _ h

theorem addWavsTo_go_free (ps : List Bytes) (free : List Nat) (present : List Bytes) (acc ws' : List RWav)
    (h : addWavsTo.go ps free present acc = .ok ws') :
    ∀ w ∈ ws', w ∈ acc ∨ w.idx ∈ free := by
  induction ps generalizing free present acc with
  | nil => simp [addWavsTo.go] at h; subst h; intro w hw; exact .inl hw
  | cons p ps ih =>
    simp only [addWavsTo.go] at h
    split at h
    · exact ih _ _ _ h
    · split at h
      · cases h
      · rename_i f fs
        intro w hw
        rcases ih _ _ _ h w hw with hm | hm
        · rcases List.mem_append.mp hm with hm | hm
          · exact .inl hm
          · simp at hm; subst hm; exact .inr (by simp)
        · exact .inr (List.mem_cons_of_mem _ hm)

/-- a new WAV entry never takes a slot an existing entry occupies -/
theorem c07_new_wavs_take_free_slots {slots : Nat} {ws ws' : List RWav} {paths : List Bytes}
    (h : addWavsTo slots ws paths = .ok ws') :
    ∀ w ∈ ws', w ∈ ws ∨ (w.idx < slots ∧ ∀ o ∈ ws, o.idx ≠ w.idx) := by
  intro w hw
  rcases addWavsTo_go_free _ _ _ _ _ h w hw with hm | hm
  · exact .inl hm
  · refine .inr ?_
    simp only [List.mem_filter, List.mem_range, Bool.not_eq_true', List.any_eq_false] at hm
    refine ⟨hm.1, fun o ho he => ?_⟩
    have := hm.2 o ho
    simp [he] at this

/-- **replacing a section** touches only sections of that kind, in place -/
theorem c07_replace_in_place (isTarget : RSection → Bool) (new : RSection) (secs : List RSection) :
    (replaceSections isTarget new secs).length = secs.length ∧
    ∀ i (hi : i < secs.length), isTarget secs[i] = false →
      (replaceSections isTarget new secs)[i]'(by simp [replaceSections, hi]) = secs[i] := by
  refine ⟨by simp [replaceSections], fun i hi hn => by simp [replaceSections, hn]⟩

/-- **the location rebuild keeps the existing table as a prefix** (new locations are appended) -/
theorem c07_mrgn_rebuild_keeps_table {cfg : RichCfg} {secs : List RSection} {order : Option (List Nat)}
    {locs : List RLoc} {ids : List (Nat × Nat)} (h : rebuildMrgn cfg secs order = .ok (locs, ids)) :
    ∃ table, secs.filter (isSectionNamed nMRGN) = [.mrgn table] ∧ table <+: locs := by
  unfold rebuildMrgn at h
  split at h
  · rename_i table hf
    split at h
    · cases h
    · simp only at h
      split at h
      · cases h
      · simp at h
        refine ⟨table, hf, ?_⟩
        rw [← h.1]; exact List.prefix_append _ _
  · cases h

/-- **the unit-property rebuild keeps the existing table as a prefix** -/
theorem c07_uprp_rebuild_keeps_table {cfg : RichCfg} {secs : List RSection} {order : Option (List Nat)}
    {cuwps : List RCuwp} (h : rebuildUprp cfg secs order = .ok cuwps) :
    ∃ table, (secs.filter (isSectionNamed nUPRP) = [] ∧ table = [] ∨ secs.filter (isSectionNamed nUPRP) = [.uprp table]) ∧
      table <+: cuwps := by
  unfold rebuildUprp at h
  simp only at h
  split at h
  · cases h
  · rename_i table ht
    split at h
    · cases h
    · split at h
      · cases h
      · simp at h
        refine ⟨table, ?_, by rw [← h]; exact List.prefix_append _ _⟩
        split at ht
        · cases ht; exact .inl ⟨by assumption, rfl⟩
        · cases ht; exact .inr (by assumption)
        · cases ht

/-- **pass-through sections are byte-identical and in place after any edit history + save** -/
theorem c07_untouched_sections_in_place {cfg : RichCfg} {orders : Orders} {wmeta : List (Bytes × Nat)}
    {rich : List RSection} {out : List DSection} (he : richEncode cfg orders wmeta rich = .ok out)
    (i : Nat) (hi : i < rich.length) (hj : i < out.length) (n p : Bytes)
    (hs : rich[i] = .pass (.unknown n p)) : out[i] = .unknown n p :=
  ((richEncode_positions he).2 i hi hj).1 n p hs

/-- **every pre-existing location slot still resolves to the location it held**: the rebuild adds
new locations only on slots no existing location occupies (C09 soundness), so the lookup the MRGN
encoder performs for an existing slot finds the same location as before the edits -/
theorem c07_existing_location_slots_unchanged {cfg : RichCfg} {secs : List RSection} {order : Option (List Nat)}
    {locs : List RLoc} {ids : List (Nat × Nat)} (h : rebuildMrgn cfg secs order = .ok (locs, ids)) :
    ∃ table, secs.filter (isSectionNamed nMRGN) = [.mrgn table] ∧
      ∀ i, (∃ t ∈ table, t.idx = some i) →
        locs.reverse.find? (fun l => l.idx == some i) = table.reverse.find? (fun l => l.idx == some i) :=
  rebuildMrgn_keeps_slots h

/-- **every pre-existing unit-property slot is written with the same record**, whatever sets the
edits added -/
theorem c07_existing_cuwp_records_unchanged {cfg : RichCfg} {secs : List RSection} {order : Option (List Nat)}
    {cuwps : List RCuwp} (h : rebuildUprp cfg secs order = .ok cuwps) :
    ∃ table, (secs.filter (isSectionNamed nUPRP) = [] ∧ table = [] ∨ secs.filter (isSectionNamed nUPRP) = [.uprp table]) ∧
      ∀ i, i < cfg.cuwpSlots → (∃ t ∈ table, t.idx = some (i + 1)) →
        (encodeUprp cfg cuwps)[i]? = (encodeUprp cfg table)[i]? := by
  obtain ⟨table, ht, hfind⟩ := rebuildUprp_keeps_slots h
  refine ⟨table, ht, fun i hi hex => ?_⟩
  simp only [encodeUprp, List.getElem?_map, List.getElem?_range hi, Option.map_some]
  rw [hfind (i + 1) hex]

/-! ### switch names -/

/-- the placement loop of the switch rebuild, seen from one slot `i` that is to hold the named switch `x`:
once `x` is there it stays; while it is still to come, the slot holds an unnamed entry -/
theorem rebuildSwnm_go_keeps (i : Nat) (x : RSwitch) (hxi : x.idx = some i) (hxn : hasCustomName x = true) :
    ∀ (ss : List RSwitch) (free : List Nat) (tbl : List RSwitch) (ids : List (RSwitch × Nat))
      (out : List RSwitch) (oids : List (RSwitch × Nat)),
      i ∉ free →
      (∀ u ∈ ss, u.idx = some i → hasCustomName u = true → u = x) →
      (tbl[i]? = some x ∨ (x ∈ ss ∧ ∃ cur, tbl[i]? = some cur ∧ hasCustomName cur = false)) →
      rebuildSwnm.go ss free tbl ids = .ok (out, oids) → out[i]? = some x := by
  intro ss
  induction ss with
  | nil =>
    intro free tbl ids out oids _ _ hP h
    simp only [rebuildSwnm.go, Except.ok.injEq, Prod.mk.injEq] at h
    obtain ⟨rfl, _⟩ := h
    rcases hP with hP | ⟨hm, _⟩
    · exact hP
    · simp at hm
  | cons s rest ih =>
    intro free tbl ids out oids hfree hss hP h
    have hss' : ∀ u ∈ rest, u.idx = some i → hasCustomName u = true → u = x :=
      fun u hu => hss u (List.mem_cons_of_mem _ hu)
    simp only [rebuildSwnm.go] at h
    split at h
    · rename_i j hj
      split at h
      · simp at h
      · rename_i cur hcur
        have hjlt : j < tbl.length := (List.getElem?_eq_some_iff.mp hcur).1
        by_cases hji : j = i
        · subst hji
          split at h
          · rename_i hcond
            -- the slot is overwritten by `s`
            refine ih free _ _ out oids hfree hss' ?_ h
            rcases hP with hP | ⟨hm, cur', hc', hu'⟩
            · -- x is there: cur = x is named, so s must be named, hence s = x
              rw [hcur] at hP
              have hcx : cur = x := Option.some.inj hP
              have hsn : hasCustomName s = true := by
                rw [hcx, hxn] at hcond
                simpa using hcond
              have hsx : s = x := hss s (by simp) hj hsn
              left; rw [hsx]; simp [hjlt]
            · by_cases hsn : hasCustomName s = true
              · have hsx : s = x := hss s (by simp) hj hsn
                left; rw [hsx]; simp [hjlt]
              · right
                have hne : s ≠ x := fun e => hsn (e ▸ hxn)
                refine ⟨?_, s, by simp [hjlt], by simpa using hsn⟩
                rcases List.mem_cons.mp hm with e | e
                · exact absurd e.symm hne
                · exact e
          · rename_i hcond
            -- not overwritten: the slot holds a named entry and `s` is unnamed
            refine ih free _ _ out oids hfree hss' ?_ h
            rcases hP with hP | ⟨hm, cur', hc', hu'⟩
            · exact .inl hP
            · rw [hcur] at hc'; cases hc'
              simp [hu'] at hcond
        · -- another slot
          have hne : s ≠ x := fun e => hji (by rw [e, hxi] at hj; cases hj; rfl)
          have hrest : x ∈ s :: rest → x ∈ rest := fun hm => by
            rcases List.mem_cons.mp hm with e | e
            · exact absurd e.symm hne
            · exact e
          split at h
          · refine ih free _ _ out oids hfree hss' ?_ h
            rcases hP with hP | ⟨hm, cur', hc', hu'⟩
            · left; rw [List.getElem?_set_ne hji]; exact hP
            · right; exact ⟨hrest hm, cur', by rw [List.getElem?_set_ne hji]; exact hc', hu'⟩
          · refine ih free _ _ out oids hfree hss' ?_ h
            rcases hP with hP | ⟨hm, cur', hc', hu'⟩
            · exact .inl hP
            · exact .inr ⟨hrest hm, cur', hc', hu'⟩
    · rename_i hnone
      split at h
      · simp at h
      · rename_i f fs
        have hfi : f ≠ i := fun e => hfree (by simp [e])
        have hne : s ≠ x := fun e => by rw [e, hxi] at hnone; cases hnone
        refine ih fs _ _ out oids (fun hm => hfree (List.mem_cons_of_mem _ hm)) hss' ?_ h
        rcases hP with hP | ⟨hm, cur', hc', hu'⟩
        · left; rw [List.getElem?_set_ne hfi]; exact hP
        · right
          refine ⟨?_, cur', by rw [List.getElem?_set_ne hfi]; exact hc', hu'⟩
          rcases List.mem_cons.mp hm with e | e
          · exact absurd e.symm hne
          · exact e

/-- **a switch the map names keeps its name through any save**: if the stored switch table names
switch `i` (once), and whatever the rich sections say about switch `i` by name agrees with that name
(they may also refer to it by number alone, or not at all), then slot `i` of the rebuilt table is that
very entry — whatever else the edits added, in whatever order a set hands the switches over -/
theorem c07_named_switch_keeps_name {cfg : RichCfg} {secs : List RSection} {order : Option (List Nat)}
    {tbl : List RSwitch} {ids : List (RSwitch × Nat)}
    (h : rebuildSwnm cfg secs order = .ok (tbl, ids))
    (ss : List RSwitch) (hs : secs.filter (isSectionNamed nSWNM) = [.swnm ss])
    (x : RSwitch) (hx : x ∈ ss) (hxn : hasCustomName x = true) (i : Nat) (hxi : x.idx = some i)
    (hi : i < cfg.switchSlots)
    (huniq : ∀ u ∈ ss, u.idx = some i → hasCustomName u = true → u = x)
    (hused : ∀ u ∈ (secs.filter (fun s => !isSectionNamed nSWNM s)).flatMap (sectionSwitches cfg),
      u.idx = some i → hasCustomName u = true → RSwitch.same x u = true) :
    tbl[i]? = some x := by
  unfold rebuildSwnm at h
  simp only [hs] at h
  split at h
  · simp at h
  · have hxnamed : x ∈ ss.filter hasCustomName := List.mem_filter.mpr ⟨hx, hxn⟩
    refine rebuildSwnm_go_keeps i x hxi hxn _ _ _ [] tbl ids ?_ ?_ ?_ h
    · -- i is carried by x, so it is not a free number
      intro hm
      have h2 := (List.mem_filter.mp hm).2
      simp only [Bool.not_eq_true', List.contains_eq_mem, decide_eq_false_iff_not] at h2
      exact h2 (List.mem_filterMap.mpr ⟨x, List.mem_append_left _ hxnamed, hxi⟩)
    · intro u hu hui hun
      rcases List.mem_append.mp hu with hu | hu
      · exact huniq u (List.mem_filter.mp hu).1 hui hun
      · exfalso
        obtain ⟨hu1, hu2⟩ := List.mem_filter.mp hu
        have hmem := dedupBy_subset RSwitch.same _ u (allocOrder_subset order _ u hu1)
        have hsame := hused u hmem hui hun
        simp only [Bool.not_eq_true', List.any_eq_false] at hu2
        exact absurd hsame (by simpa using hu2 x hxnamed)
    · right
      refine ⟨List.mem_append_left _ hxnamed, ⟨.null, some i, 0⟩, ?_, rfl⟩
      simp [hi]

end Richchk.Props.C07
