/-
C18 — Dispatch registries are complete from any entry point.

The model (Model/Imports.lean) is Python's import execution — depth first, a module enters
`sys.modules` before its body runs, so a cycle sees a partially initialised module and a
from-import of a name that is not defined yet is an ImportError — over the import graph,
registration sites and `import_all_modules_in_subpackage` expansions the translator reads
off all modules of the package on every run.
-/
import RichchkModel.Props.C18Parts.P00
import RichchkModel.Props.C18Parts.P01
import RichchkModel.Props.C18Parts.P02
import RichchkModel.Props.C18Parts.P03
import RichchkModel.Props.C18Parts.P04
import RichchkModel.Props.C18Parts.P05
import RichchkModel.Props.C18Parts.P06
import RichchkModel.Props.C18Parts.P07
import RichchkModel.Props.C18Parts.P08
import RichchkModel.Props.C18Parts.P09
import RichchkModel.Props.C18Parts.P10
import RichchkModel.Props.C18Parts.P11
import RichchkModel.Props.C18Parts.P12
import RichchkModel.Props.C18Parts.P13
import RichchkModel.Props.C18Parts.P14
import RichchkModel.Props.C18Parts.P15
namespace Richchk.Props.C18
open Richchk

theorem no_translator_gaps : Generated.importGaps = 0 := by decide

/-- **C18.**  Complete enumeration of the quantified domain: for EVERY module of the package
taken as the first and only import of a fresh interpreter, the import terminates without
ImportError, and each of the four registries whose factory module was loaded holds exactly
the ids of the model classes of its kind (10 byte transcoders, 7 rich section transcoders,
51 actions, 22 conditions), every key registered exactly once (so nothing was silently
replaced); a registry whose factory was not loaded is untouched. -/
theorem c18_registries_complete_from_every_entry {entry : Nat} (h : entry < Generated.moduleCount) :
    entryOK Generated.moduleGraph fuel Generated.factoryModules expectedKeys entry = true := by
  have hparts : ∀ i, i < 16 → partGood i = true := by
    intro i hi
    have : i = 0 ∨ i = 1 ∨ i = 2 ∨ i = 3 ∨ i = 4 ∨ i = 5 ∨ i = 6 ∨ i = 7 ∨ i = 8 ∨ i = 9 ∨ i = 10 ∨
        i = 11 ∨ i = 12 ∨ i = 13 ∨ i = 14 ∨ i = 15 := by omega
    rcases this with rfl | rfl | rfl | rfl | rfl | rfl | rfl | rfl | rfl | rfl | rfl | rfl | rfl | rfl | rfl | rfl
    · exact part0_good
    · exact part1_good
    · exact part2_good
    · exact part3_good
    · exact part4_good
    · exact part5_good
    · exact part6_good
    · exact part7_good
    · exact part8_good
    · exact part9_good
    · exact part10_good
    · exact part11_good
    · exact part12_good
    · exact part13_good
    · exact part14_good
    · exact part15_good
  have hp := hparts (entry % 16) (Nat.mod_lt _ (by decide))
  unfold partGood at hp
  rw [List.all_eq_true] at hp
  exact hp entry (List.mem_filter.mpr ⟨List.mem_range.mpr h, by simp⟩)

/-- the number of keys per registry (documentation of what "complete" means today) -/
theorem c18_registry_sizes :
    expectedKeys.map List.length = [10, 7, 51, 22] := by decide +kernel

/-! non-vacuity: importing the rich section factory first loads three registries completely and
leaves the byte-transcoder registry untouched -/
example : (importFirst Generated.moduleGraph fuel (Generated.factoryModules.getD 1 0)).toOption.map
    (fun st => (List.range 4).map fun r => (registryKeys st r).length) = some [0, 7, 51, 22] := by
  decide +kernel

end Richchk.Props.C18
