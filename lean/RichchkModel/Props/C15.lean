/-
C15 — No file is overwritten without explicit opt-in.
-/
import RichchkModel.Generated.FileApis
import RichchkModel.Spec.FileApis
import RichchkModel.Lemmas.FsLemmas
namespace Richchk.Props.C15
open Richchk

theorem no_translator_gaps : Generated.fileApiGaps = 0 := by decide

/-- instantiation obligation: the default of every overwrite flag is "do not overwrite" -/
theorem defaults_refuse_overwrite : Generated.overwriteDefaults = Spec.overwriteDefaults := by
  decide +kernel

/-- instantiation obligation: each entry point still has the statement sequence the model was
written against — in particular the exists-guard comes before the first write -/
theorem bodies_have_modelled_shape :
    Generated.chkExportEvents = Spec.chkExportEvents ∧
    Generated.extractChkEvents = Spec.extractChkEvents ∧
    Generated.extractFileEvents = Spec.extractFileEvents ∧
    Generated.saveMapEvents = Spec.saveMapEvents ∧
    Generated.copyAtomicallyEvents = Spec.copyAtomicallyEvents ∧
    Generated.importAudioEvents = Spec.importAudioEvents ∧
    Generated.addAudioToMpqEvents = Spec.addAudioToMpqEvents := by decide +kernel

/-- the destination states the property quantifies over -/
def fsWith (dest : Option Content) : FS :=
  (pBase, 100) :: (match dest with | some c => [(pDest, c)] | none => [])

/-- **C15 refusal.**  For every file system in which the destination exists, every entry point
called without opt-in fails with `FileExistsError` and leaves the file system — in particular
the existing file — exactly as it was.  (Proved for arbitrary `fs`, not enumerated.) -/
theorem c15_chk_export_refuses (fs : FS) (chk : Content) (h : fs.has pOut = true) :
    runFM (chkExport none false chk pOut) fs = (.error .exists, fs, 0) := by
  simp [runFM, chkExport, seq, guard, h]

theorem c15_save_refuses (fs : FS) (n : Nat) (chk : Option Content)
    (hb : fs.has pBase = true) (hd : fs.has pDest = true) :
    runFM (saveMap none false n chk pBase pDest pTempChk pTempMpq pWork) fs = (.error .exists, fs, 0) := by
  simp [runFM, saveMap, seq, guard, hb, hd]

theorem c15_import_refuses (fs : FS) (audio : List Content) (chk : Option Content)
    (hb : fs.has pBase = true) (hd : fs.has pDest = true) :
    runFM (importAudio none false audio true chk pBase pDest) fs = (.error .exists, fs, 0) := by
  simp [runFM, importAudio, seq, guard, hb, hd]

theorem c15_extract_refuses (fs : FS) (member : Content)
    (ha : fs.has pBase = true) (ho : fs.has pOut = true) :
    (runFM (extractMember none false pBase pOut member) fs).1 = .error .exists ∧
    (runFM (extractMember none false pBase pOut member) fs).2.1 = fs := by
  simp [runFM, extractMember, seq, guard, ha, ho, roCall, prim]

/-- **C15 opt-in.**  With opt-in only the named destination changes (all three destination
states: absent, existing, and an unrelated file next to it is untouched). -/
theorem c15_export_optin_touches_only_dest (fs : FS) (chk : Content) (p : Path) (hp : p ≠ pOut) :
    ((runFM (chkExport none true chk pOut) fs).2.1).get p = fs.get p := by
  simp only [runFM, chkExport, seq, guard, prim, Bool.true_or, if_true]
  exact FS.get_set_ne fs p pOut chk hp

/-! non-vacuity and the three destination states, executed on the model -/
example : (runFM (saveMap none false 0 (some 400) pBase pDest pTempChk pTempMpq pWork) (fsWith (some 200))).1 = .error .exists := by decide +kernel
example : (runFM (saveMap none true 0 (some 400) pBase pDest pTempChk pTempMpq pWork) (fsWith (some 200))).1 = .ok () := by decide +kernel
example : (runFM (saveMap none false 0 (some 400) pBase pDest pTempChk pTempMpq pWork) (fsWith none)).1 = .ok () := by decide +kernel

end Richchk.Props.C15
