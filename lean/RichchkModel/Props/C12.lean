/-
C12 — Flag, enum and fixed-point codecs are exact on their whole domain.
-/
import RichchkModel.Generated.Codecs
import RichchkModel.Spec.Flags
import RichchkModel.Lemmas.CodecLemmas
namespace Richchk.Props.C12
open Richchk

theorem no_translator_gaps : Generated.codecGaps = 0 := by decide

/-! ## flags -/

/-- instantiation obligation: every flag codec in the source reads field `j` from bit `j` and
writes it back to bit `j`, contiguously from bit 0, inside the formatted width -/
theorem generated_flag_codecs_ok : ∀ p ∈ Generated.flagCodecs, p.2.OK := by decide +kernel

/-- instantiation obligation: every bit the specification defines is kept, under the
specification's meaning (name and polarity); the library may keep further "unknown" bits -/
theorem generated_flags_cover_spec :
    Generated.flagCodecs.map (fun p => (p.1, (p.2.fields.map (·.name)).take
        ((Spec.flagBits.lookup p.1).getD []).length, p.2.inverted)) =
    Spec.flagBits.map (fun q => (q.1, q.2, Spec.invertedFlags.contains q.1)) := by
  decide +kernel

/-- **C12 flags (number → rich → number)**, for every codec in the source and EVERY number
(all 256 bytes, all 65536 words, and beyond): the bits the codec keeps — which include every
bit the specification defines — come back unchanged, and nothing else is introduced.  In
particular the round trip is exact for every number whose reserved bits are clear. -/
theorem c12_flags_num_rich_num {p : String × FlagCodec} (hp : p ∈ Generated.flagCodecs) (n : Nat) :
    p.2.encode (p.2.decode n) = n % 2 ^ p.2.fields.length :=
  flags_encode_decode p.2 (generated_flag_codecs_ok p hp) n

theorem c12_flags_exact_on_defined_bits {p : String × FlagCodec} (hp : p ∈ Generated.flagCodecs)
    (n : Nat) (hn : n < 2 ^ p.2.fields.length) : p.2.encode (p.2.decode n) = n := by
  rw [c12_flags_num_rich_num hp, Nat.mod_eq_of_lt hn]

/-- **C12 flags (rich → number → rich)**: every rich value survives -/
theorem c12_flags_rich_num_rich {p : String × FlagCodec} (hp : p ∈ Generated.flagCodecs)
    (vals : List Bool) (hl : vals.length = p.2.fields.length) :
    p.2.decode (p.2.encode vals) = vals :=
  flags_decode_encode p.2 (generated_flag_codecs_ok p hp) vals hl

/-- **C12 flags: distinct rich values never collide on one number**, and the number fits -/
theorem c12_flags_injective {p : String × FlagCodec} (hp : p ∈ Generated.flagCodecs)
    (a b : List Bool) (ha : a.length = p.2.fields.length) (hb : b.length = p.2.fields.length)
    (h : p.2.encode a = p.2.encode b) : a = b :=
  flags_encode_injective p.2 (generated_flag_codecs_ok p hp) a b ha hb h

theorem c12_flags_in_range {p : String × FlagCodec} (hp : p ∈ Generated.flagCodecs)
    (vals : List Bool) (hl : vals.length = p.2.fields.length) :
    p.2.encode vals < 2 ^ p.2.width := by
  have h1 := flags_encode_lt p.2 (generated_flag_codecs_ok p hp) vals hl
  have h2 := (generated_flag_codecs_ok p hp).2.2
  exact Nat.lt_of_lt_of_le h1 (Nat.pow_le_pow_right (by decide) h2)

/-! ## enumerations -/

/-- instantiation obligation: in every enumeration of the source no two members share a
number and no two members share a name (complete enumeration of the generated tables) -/
theorem generated_enums_strictly_increasing :
    (Generated.enums.all fun p => strictIncFrom 0 p.2) = true := by decide +kernel

theorem generated_enums_ok : ∀ p ∈ Generated.enums, EnumOK p.2 := by
  intro p hp
  exact enumOK_of_strictInc p.2 (List.all_eq_true.mp generated_enums_strictly_increasing p hp)

/-- **C12 enums**: member → number → the same member -/
theorem c12_enum_member_roundtrip {p : String × List EnumMember} (hp : p ∈ Generated.enums)
    {x : EnumMember} (hx : x ∈ p.2) : decodeEnum p.2 (encodeEnum x) = .ok x :=
  enum_decode_encode (generated_enums_ok p hp) hx

/-- **C12 enums**: distinct members never collide on one number -/
theorem c12_enum_no_collision {p : String × List EnumMember} (hp : p ∈ Generated.enums)
    {x y : EnumMember} (hx : x ∈ p.2) (hy : y ∈ p.2) (h : encodeEnum x = encodeEnum y) : x = y :=
  enum_injective (generated_enums_ok p hp) hx hy h

/-- **C12 enums**: every number outside the enumeration is rejected (never a wrong member) —
for all natural numbers, not a sample -/
theorem c12_enum_nonmember_rejected {p : String × List EnumMember} (n : Nat)
    (hn : n ∉ p.2.map (·.id)) : decodeEnum p.2 n = .error .key :=
  enum_nonmember_rejected hn

/-- **C12 enums**: number → member → the same number -/
theorem c12_enum_number_roundtrip {p : String × List EnumMember}
    {n : Nat} {m : EnumMember} (hd : decodeEnum p.2 n = .ok m) : m ∈ p.2 ∧ encodeEnum m = n :=
  enum_encode_decode hd

/-! ## AI scripts -/

/-- instantiation obligation: known script names are pairwise distinct 4-byte valid UTF-8 tags -/
theorem generated_ai_scripts_ok :
    (Generated.knownAiScripts.map (·.2)).Nodup ∧
    ∀ p ∈ Generated.knownAiScripts, p.2.length = 4 ∧ validUtf8 p.2 = true := by decide +kernel

/-- **C12 AI scripts**: every u32 that decodes (known or unknown script) encodes back to
itself; a u32 is reported as a known script only if its bytes are exactly that script's tag -/
theorem c12_ai_roundtrip {v : Nat} {k : Bool} {name : Bytes}
    (h : decodeAi (Generated.knownAiScripts.map (·.2)) v = .ok (k, name)) :
    encodeAi name = .ok v := ai_encode_decode h

theorem c12_ai_no_wrong_member {v : Nat} {name : Bytes}
    (h : decodeAi (Generated.knownAiScripts.map (·.2)) v = .ok (true, name)) :
    name ∈ Generated.knownAiScripts.map (·.2) ∧ name = leBytes 4 v := ai_known_exact h

/-! ## hit points -/

theorem generated_hp_constants :
    Generated.hpDecodeDivisor = 256 ∧ Generated.hpEncodeMultiplier = 256 := by decide

/-- **C12 hit points (number → rich → number)**: exact for every raw value (all of u32 and beyond) -/
theorem c12_hp_raw_roundtrip (raw : Nat) : encodeHp (decodeHp raw) = raw := hp_encode_decode raw

/-- **C12 hit points (rich → number → rich)**: exact iff the value is a multiple of 1/256 —
the format cannot represent anything else (truncation toward zero otherwise) -/
theorem c12_hp_rich_roundtrip_iff (h : Hp) (hd : 0 < h.den) :
    (decodeHp (encodeHp h)).eqv h ↔ h.den ∣ h.num * 256 := hp_decode_encode_iff h hd

/-! non-vacuity -/
example : ((Generated.flagCodecs.lookup "mrgn_elevation").map (·.decode 0b100101)) =
    some [false, true, false, true, true, false] := by decide +kernel
example : decodeEnum ((Generated.enums.lookup "SwitchAction").getD []) 11 = .ok ⟨"RANDOMIZE", 11⟩ := by
  decide +kernel
example : decodeEnum ((Generated.enums.lookup "SwitchAction").getD []) 7 = .error .key := by
  decide +kernel
example : decodeAi (Generated.knownAiScripts.map (·.2)) (leVal [74, 89, 68, 103]) =
    .ok (true, [74, 89, 68, 103]) := by decide +kernel
example : ¬ (decodeHp (encodeHp ⟨1, 3⟩)).eqv ⟨1, 3⟩ := by simp [Hp.eqv, decodeHp, encodeHp]

end Richchk.Props.C12
