/-
C17 — Map archives round-trip: CHK exact, other members preserved.

StormLib is not verified: its observable behaviour is the hypothesis made explicit by the
member-map model below (`put` replaces exactly one member; compact / close / open / extract
do not change any member).  TRUSTED, validated by the harness on the real library.
-/
import RichchkModel.Lemmas.FsLemmas
import RichchkModel.Props.C07
namespace Richchk.Props.C17
open Richchk

/-- an archive as member ↦ bytes -/
abbrev Archive := List (Nat × Content)
def Archive.put (a : Archive) (m : Nat) (c : Content) : Archive := FS.set a m c
def Archive.member (a : Archive) (m : Nat) : Option Content := FS.get a m

def scenario : Nat := 0   -- staredit\scenario.chk

/-- what `save_chk_to_mpq` stores in the new archive -/
def savedArchive (base : Archive) (chk : Content) : Archive := base.put scenario chk

/-- what `add_audio_files_to_mpq` stores: every file under its canonical member
(`staredit\wav\<basename>`), then the re-saved scenario -/
def importedArchive (base : Archive) (files : List (Nat × Content)) (chk : Content) : Archive :=
  (files.foldl (fun a f => a.put f.1 f.2) base).put scenario chk

/-- **C17: the stored scenario file is exactly the encoder's bytes** -/
theorem c17_scenario_is_encoder_output (base : Archive) (chk : Content) :
    (savedArchive base chk).member scenario = some chk := FS.get_set_self base scenario chk

/-- **C17: every other member (sounds, listfile) is present with identical content** -/
theorem c17_other_members_preserved (base : Archive) (chk : Content) (m : Nat) (h : m ≠ scenario) :
    (savedArchive base chk).member m = base.member m := FS.get_set_ne base m scenario chk h

theorem foldl_put_other (files : List (Nat × Content)) (a : Archive) (m : Nat)
    (h : ∀ f ∈ files, f.1 ≠ m) :
    (files.foldl (fun a f => a.put f.1 f.2) a).member m = a.member m := by
  induction files generalizing a with
  | nil => rfl
  | cons f fs ih =>
    simp only [List.foldl_cons]
    rw [ih _ (fun g hg => h g (by simp [hg]))]
    exact FS.get_set_ne a m f.1 f.2 (fun hc => h f (by simp) hc.symm)

/-- **C17 import: each file is stored under its canonical member with identical bytes**
(distinct member names; a repeated name keeps the last file) and everything else is kept -/
theorem c17_import_stores_each_file (base : Archive) (pre post : List (Nat × Content))
    (f : Nat × Content) (chk : Content) (hf : f.1 ≠ scenario) (hpost : ∀ g ∈ post, g.1 ≠ f.1) :
    (importedArchive base (pre ++ f :: post) chk).member f.1 = some f.2 := by
  unfold importedArchive
  rw [show ((List.foldl (fun a f => Archive.put a f.1 f.2) base (pre ++ f :: post)).put scenario chk).member f.1
      = (List.foldl (fun a f => Archive.put a f.1 f.2) base (pre ++ f :: post)).member f.1 from
      FS.get_set_ne _ f.1 scenario chk hf]
  rw [List.foldl_append, List.foldl_cons, foldl_put_other post _ f.1 hpost]
  exact FS.get_set_self _ f.1 f.2

theorem c17_import_preserves_others (base : Archive) (files : List (Nat × Content)) (chk : Content)
    (m : Nat) (hm : m ≠ scenario) (h : ∀ f ∈ files, f.1 ≠ m) :
    (importedArchive base files chk).member m = base.member m := by
  unfold importedArchive
  rw [show ((List.foldl (fun a f => Archive.put a f.1 f.2) base files).put scenario chk).member m
      = (List.foldl (fun a f => Archive.put a f.1 f.2) base files).member m from
      FS.get_set_ne _ m scenario chk hm]
  exact foldl_put_other files base m h

/-- **C17 durations: a sound-playing trigger without explicit duration gets the file's true
duration in whole milliseconds**: `wavDurationMs` is exactly `⌊1000·frames / rate⌋` -/
theorem c17_wav_duration_is_floor (frames rate : Nat) (hr : 0 < rate) :
    wavDurationMs frames rate * rate ≤ frames * 1000 ∧
    frames * 1000 < (wavDurationMs frames rate + 1) * rate := by
  unfold wavDurationMs
  constructor
  · exact Nat.div_mul_le_self _ _
  · have := Nat.lt_div_mul_add (a := frames * 1000) (b := rate) hr
    rw [Nat.add_mul]; simpa [Nat.mul_comm] using this

/-- the repaired defect F11's witness: 8008 frames at 8000 Hz last 1001 ms (the float formula
`int(frames / float(rate) * 1000)` gave 1000) -/
example : wavDurationMs 8008 8000 = 1001 := by decide

/-! ### the sound table after an import batch -/

theorem addWavsTo_go_lists (ps : List Bytes) :
    ∀ (free : List Nat) (present : List Bytes) (acc ws' : List RWav),
      addWavsTo.go ps free present acc = .ok ws' →
      (∀ q ∈ present, ∃ w ∈ acc, w.path.value = q) →
      ∀ p ∈ ps, ∃ w ∈ ws', w.path.value = p := by
  induction ps with
  | nil => intro _ _ _ _ _ _ p hp; simp at hp
  | cons p0 ps ih =>
    intro free present acc ws' h hinv p hp
    have hpre := Props.C07.addWavsTo_go_prefix _ _ _ _ _ h
    simp only [addWavsTo.go] at h
    split at h
    · rename_i hc
      rcases List.mem_cons.mp hp with e | e
      · subst e
        obtain ⟨w, hw, hv⟩ := hinv p (by simpa using hc)
        exact ⟨w, hpre.subset hw, hv⟩
      · exact ih _ _ _ _ h hinv p e
    · split at h
      · cases h
      · rename_i f fs
        have hpre' := Props.C07.addWavsTo_go_prefix _ _ _ _ _ h
        have hinv' : ∀ q ∈ p0 :: present, ∃ w ∈ acc ++ [(⟨.text p0, f⟩ : RWav)], w.path.value = q := by
          intro q hq
          rcases List.mem_cons.mp hq with e | e
          · subst e; exact ⟨⟨.text q, f⟩, by simp, rfl⟩
          · obtain ⟨w, hw, hv⟩ := hinv q e
            exact ⟨w, List.mem_append_left _ hw, hv⟩
        rcases List.mem_cons.mp hp with e | e
        · subst e
          exact ⟨⟨.text p, f⟩, hpre'.subset (by simp), rfl⟩
        · exact ih _ _ _ _ h hinv' p e

/-- **every sound of an import batch is listed afterwards**: when `add_wav_files` succeeds, each path of the batch
— new, already listed, or repeated within the batch, in whatever order they come — is the path of some entry of the
resulting sound table (and by `c07_add_wavs_keeps_existing` everything listed before is still there, in its slot).
For every table, every batch. -/
theorem c17_every_imported_path_is_listed {slots : Nat} {ws ws' : List RWav} {paths : List Bytes}
    (h : addWavsTo slots ws paths = .ok ws') : ∀ p ∈ paths, ∃ w ∈ ws', w.path.value = p := by
  refine addWavsTo_go_lists paths _ _ _ _ h ?_
  intro q hq
  obtain ⟨w, hw, hv⟩ := List.mem_map.mp hq
  exact ⟨w, hw, hv⟩

/-- non-vacuity, and the shape of the seeded change this guards against: a batch whose first path is already listed -/
example : addWavsTo 4 [⟨.text [1], 0⟩] [[1], [2], [2], [3]] = .ok [⟨.text [1], 0⟩, ⟨.text [2], 1⟩, ⟨.text [3], 2⟩] := by decide

end Richchk.Props.C17
