/-
C02 — Unedited load/save preserves every value the game reads.

STATUS: partial.  The full statement (`C02Full` below) quantifies over the whole cycle
`decodeChk >=> richDecode >=> richEncode >=> encodeChk` of Model/Rich*.lean; it is FALSE on the
current tree (recorded findings: 64-slot MRGN expanded, UPUS recomputed, gaps compacted,
unreachable weapon damage zeroed, EUD mask dropped) and its proof for the remaining inputs is
not finished.  Proved here: the building blocks the preservation argument rests on, each for
all inputs.  The cycle itself is validated against the real code (it reproduces the three
fixtures byte for byte) and checked with an independent reader on every run.
-/
import RichchkModel.Lemmas.PassThrough
import RichchkModel.Lemmas.CodecLemmas
import RichchkModel.Lemmas.RichRoundTrip
import RichchkModel.Lemmas.RebuildLemmas
import RichchkModel.Lemmas.OrderFree
namespace Richchk.Props.C02
open Richchk

/-- the full property, as a statement about the model (`view` is any function of the bytes that
reads them through the specification only) -/
def C02Full (cfg : RichCfg) (encTable : SecTable) (view : Bytes → Option Nat) : Prop :=
  ∀ bs out, cycle cfg encTable bs = .ok out → view out = view bs

/-- **string references keep their text** (locations, unit names, switch names, WAV paths,
trigger texts): whatever id a reference carried — including an id that is not the last one of
its text, an id beyond the table, or 0 — it is written back with an id resolving to the same
text -/
theorem c02_string_reference_keeps_text (texts : List Bytes) (id : Nat) :
    ∃ id', idByStr texts (strById texts id) = .ok id' ∧ strById texts id' = strById texts id :=
  str_reference_preserved texts id

/-- **sections keep their position**: every section of the input is at the same index in the
output (pass-through sections identical), additions are appended -/
theorem c02_sections_keep_position {cfg : RichCfg} {orders : Orders} {wmeta : List (Bytes × Nat)}
    {secs : List DSection} {rich : List RSection} {out : List DSection}
    (hd : richDecode cfg secs = .ok rich) (he : richEncode cfg orders wmeta rich = .ok out) :
    rich.length = secs.length ∧ secs.length ≤ out.length :=
  ⟨(richDecode_positions hd).1, by have := (richEncode_positions he).1; have := (richDecode_positions hd).1; omega⟩

/-- **numeric flag words keep every defined bit** (C12), **hit points are exact** (C12) -/
theorem c02_hitpoints_exact (raw : Nat) : encodeHp (decodeHp raw) = raw := hp_encode_decode raw

theorem c02_flags_keep_defined_bits (c : FlagCodec) (hc : c.OK) (n : Nat) :
    c.encode (c.decode n) = n % 2 ^ c.fields.length := flags_encode_decode c hc n

/-- **the trigger section keeps its number of triggers** (hence, with `c11_trigger_shape` and the
byte layer, its size): every decoded trigger becomes one rich trigger, every rich trigger one
emitted trigger, in order -/
theorem c02_trigger_count_preserved {cfg : RichCfg} {dctx : DecCtx} {ectx : EncCtx} {ts : List Trigger}
    {rts : List RTrigger} {out : List Trigger}
    (hd : mapR (decodeTrigger cfg dctx) ts = .ok rts) (he : mapR (encodeTrigger cfg ectx) rts = .ok out) :
    out.length = ts.length := by
  rw [mapR_length he, mapR_length hd]

/-- **every location keeps what the game reads of it, for EVERY 255-slot table on which the save
succeeds** (not only editor-form ones): slot `i` of the output is empty exactly when slot `i` of the
input is; otherwise it holds the same four coordinates, the elevation word restricted to the bits the
format defines, and a name id that resolves to the SAME TEXT as the input's name id (the id itself may
change when several ids share the text) -/
theorem c02_mrgn_values_kept (cfg : RichCfg) (ctx : EncCtx) (recs out : List (List Nat))
    (hlen : recs.length = cfg.mrgnSlots)
    (h : encodeMrgn cfg ctx (decodeMrgn cfg ctx.texts recs) = .ok out)
    (i : Nat) (hi : i < recs.length) :
    (recs[i].all (· == 0) = true → out.getD i [] = [0, 0, 0, 0, 0, 0]) ∧
    (recs[i].all (· == 0) = false → ∃ sid,
      idByStr ctx.texts (strById ctx.texts (recs[i].getD 4 0)) = .ok sid ∧
      strById ctx.texts sid = strById ctx.texts (recs[i].getD 4 0) ∧
      out.getD i [] = [recs[i].getD 0 0, recs[i].getD 1 0, recs[i].getD 2 0, recs[i].getD 3 0, sid,
        elevationEncode cfg (elevationDecode cfg (recs[i].getD 5 0))]) := by
  unfold encodeMrgn at h
  obtain ⟨hl, hall⟩ := mapR_ok h
  have hir : i < (List.range cfg.mrgnSlots).length := by simpa [hlen] using hi
  have hio : i < out.length := by rw [hl]; exact hir
  have hget : out.getD i [] = out[i] := by simp [List.getD, hio]
  have hk := hall i hir hio
  simp only [List.getElem_range] at hk
  rw [find?_reverse_of_unique _ _ (decodeMrgn_unique cfg ctx.texts recs (i + 1))] at hk
  have hf := decodeMrgn_go_find cfg ctx.texts recs 0 i hi
  simp only [Nat.zero_add] at hf
  unfold decodeMrgn at hk
  rw [hf] at hk
  constructor
  · intro hz
    simp only [hz, if_true] at hk
    rw [hget]; simpa using hk.symm
  · intro hz
    simp only [hz, Bool.false_eq_true, ↓reduceIte] at hk
    unfold encodeLoc mkLoc at hk
    split at hk
    · simp at hk
    · rename_i sid hs
      simp only at hs
      obtain ⟨id', h1, h2⟩ := str_reference_preserved ctx.texts (recs[i].getD 4 0)
      have : id' = sid := by rw [h1] at hs; cases hs; rfl
      subst this
      exact ⟨id', h1, h2, by rw [hget]; simpa using hk.symm⟩

/-- **every unit-property slot keeps what the game reads of it, for EVERY 64-record table**: slot `i` of
the output is the placeholder exactly when the input record holds nothing but (possibly) an owner byte;
otherwise it holds the same percentages, resource amount, hangar count and padding, the owner byte 0
(the format says it is always 0), and the three flag words restricted to the bits the format defines -/
theorem c02_uprp_values_kept_any (cfg : RichCfg) (recs : List (List Nat))
    (hlen : recs.length = cfg.cuwpSlots)
    (h6 : ∀ n, ((cfg.flagsOf "cuwp_unit").decode n).length = 6)
    (i : Nat) (hi : i < recs.length) :
    (encodeUprp cfg (decodeUprp cfg recs)).getD i [] =
      if cuwpRecUnused recs[i] then List.replicate 10 0
      else [(cfg.flagsOf "cuwp_valid_special").encode ((cfg.flagsOf "cuwp_valid_special").decode (recs[i].getD 0 0)),
            (cfg.flagsOf "cuwp_valid_unit").encode ((cfg.flagsOf "cuwp_valid_unit").decode (recs[i].getD 1 0)),
            0, recs[i].getD 3 0, recs[i].getD 4 0, recs[i].getD 5 0, recs[i].getD 6 0, recs[i].getD 7 0,
            (cfg.flagsOf "cuwp_unit").encode ((cfg.flagsOf "cuwp_unit").decode (recs[i].getD 8 0)),
            recs[i].getD 9 0] := by
  unfold encodeUprp
  rw [← hlen]
  have hg : ∀ (f : Nat → List Nat), ((List.range recs.length).map f).getD i [] = f i := by
    intro f; simp [List.getD, hi]
  rw [hg]
  rw [find?_reverse_of_unique _ _ (decodeUprp_unique cfg recs (i + 1))]
  have hf := decodeUprp_go_find cfg recs 0 i hi
  simp only [Nat.zero_add] at hf
  unfold decodeUprp
  rw [hf]
  by_cases hz : cuwpRecUnused recs[i] = true
  · simp only [hz, if_true]
  · simp only [hz, Bool.false_eq_true, ↓reduceIte]
    simp only [encodeCuwp, decodeCuwp, take5_getD5 _ (h6 _)]

/-- **every entry of the sound table keeps what the game reads of it, for EVERY 512-entry table on which the save
succeeds**: entry `i` of the output is 0 exactly when entry `i` of the input is 0, and otherwise is an id that resolves
to the SAME path text as the input's id -/
theorem c02_wav_values_kept (cfg : RichCfg) (ctx : EncCtx) (ids out : List Nat)
    (hlen : ids.length = cfg.wavSlots)
    (h : encodeWav cfg ctx (decodeWavIds ctx.texts ids) = .ok out)
    (i : Nat) (hi : i < ids.length) :
    (ids[i] = 0 → out.getD i 0 = 0) ∧
    (ids[i] ≠ 0 → idByStr ctx.texts (strById ctx.texts ids[i]) = .ok (out.getD i 0) ∧
      strById ctx.texts (out.getD i 0) = strById ctx.texts ids[i]) := by
  unfold encodeWav at h
  obtain ⟨hl, hall⟩ := mapR_ok h
  have hir : i < (List.range cfg.wavSlots).length := by simpa [hlen] using hi
  have hio : i < out.length := by rw [hl]; exact hir
  have hgo : out.getD i 0 = out[i] := by simp [List.getD, hio]
  have hk := hall i hir hio
  simp only [List.getElem_range] at hk
  let f : Nat → Option RWav := fun j =>
    if ids.getD j 0 ≠ 0 then some (⟨strById ctx.texts (ids.getD j 0), j⟩ : RWav) else none
  have hkey : ∀ j a, f j = some a → a.idx = j := by
    intro j a hfa
    simp only [f] at hfa
    split at hfa
    · cases hfa; rfl
    · cases hfa
  have huniq : ∀ a ∈ (List.range ids.length).filterMap f, ∀ b ∈ (List.range ids.length).filterMap f,
      (a.idx == i) = true → (b.idx == i) = true → a = b := by
    intro a ha b hb pa pb
    obtain ⟨ja, _, hfa⟩ := filterMap_range_mem f _ a ha
    obtain ⟨jb, _, hfb⟩ := filterMap_range_mem f _ b hb
    have h1 := hkey ja a hfa
    have h2 := hkey jb b hfb
    simp at pa pb
    have : ja = jb := by omega
    subst this
    rw [hfa] at hfb; cases hfb; rfl
  have hfind : (decodeWavIds ctx.texts ids).reverse.find? (fun w => w.idx == i) = f i := by
    unfold decodeWavIds
    rw [find?_reverse_of_unique _ _ huniq, find?_filterMap_range f (·.idx) hkey _ i hi]
  rw [hfind] at hk
  have hget : ids.getD i 0 = ids[i] := by simp [List.getD, hi]
  simp only [f, hget] at hk
  constructor
  · intro hz
    rw [hz] at hk
    simp at hk
    rw [hgo]; exact hk.symm
  · intro hz
    rw [if_pos hz] at hk
    simp only at hk
    obtain ⟨id', h1, h2⟩ := str_reference_preserved ctx.texts ids[i]
    have : id' = out[i] := by rw [h1] at hk; cases hk; rfl
    subst this
    rw [hgo]
    exact ⟨h1, h2⟩

/-- **the location table, unit-property table and sound table are rewritten exactly** when they are
in editor form (C03 section identities): restated here because "every section keeps its size, every
numeric setting its value" is the C02 reading of the same facts -/
theorem c02_uprp_values_kept (cfg : RichCfg) (recs : List (List Nat))
    (hlen : recs.length = cfg.cuwpSlots) (hw : ∀ r ∈ recs, r.length = 10) (howner : ∀ r ∈ recs, r.getD 2 0 = 0)
    (hvs : ∀ r ∈ recs, (cfg.flagsOf "cuwp_valid_special").encode ((cfg.flagsOf "cuwp_valid_special").decode (r.getD 0 0)) = r.getD 0 0)
    (hvu : ∀ r ∈ recs, (cfg.flagsOf "cuwp_valid_unit").encode ((cfg.flagsOf "cuwp_valid_unit").decode (r.getD 1 0)) = r.getD 1 0)
    (hfl : ∀ r ∈ recs, (cfg.flagsOf "cuwp_unit").encode ((cfg.flagsOf "cuwp_unit").decode (r.getD 8 0)) = r.getD 8 0)
    (h6 : ∀ n, ((cfg.flagsOf "cuwp_unit").decode n).length = 6) :
    encodeUprp cfg (decodeUprp cfg recs) = recs :=
  uprp_rich_roundtrip cfg recs hlen hw howner hvs hvu hfl h6

theorem RLoc.same_refl_indexed (l : RLoc) (h : l.idx.isSome) : RLoc.same l l = true := by
  unfold RLoc.same
  cases hi : l.idx with
  | none => simp [hi] at h
  | some i => simp

/-- **a location reference keeps its slot**: a trigger argument that was decoded as the location
stored at slot `v` is written back as `v`, whatever locations the save adds (the rebuilt list
extends the existing one) -/
theorem c02_location_reference_keeps_slot {cfg : RichCfg} {secs : List RSection} {order : Option (List Nat)}
    {locs : List RLoc} {ids : List (Nat × Nat)} (h : rebuildMrgn cfg secs order = .ok (locs, ids))
    (ctx : EncCtx) (hctx : ctx.locs = locs) (l : RLoc) (v : Nat) (hv : l.idx = some v)
    (hmem : ∀ table, secs.filter (isSectionNamed nMRGN) = [.mrgn table] → l ∈ table) :
    locId ctx l = some v := by
  obtain ⟨table, hf, _⟩ := rebuildMrgn_keeps_slots h
  have hl : l ∈ table := hmem table hf
  have hpre : table <+: locs := by
    unfold rebuildMrgn at h
    rw [hf] at h
    simp only at h
    split at h
    · cases h
    · split at h
      · cases h
      · simp at h; rw [← h.1]; exact List.prefix_append _ _
  have hin : l ∈ ctx.locs := by rw [hctx]; exact hpre.subset hl
  unfold locId
  simp only [hv]
  have : ctx.locs.any (fun t => RLoc.same t l) = true :=
    List.any_eq_true.mpr ⟨l, hin, RLoc.same_refl_indexed l (by simp [hv])⟩
  simp [this]

/-! ### switch names through an unedited save -/

/-- invariant of the placement loop for a slot `i` nobody names: as long as every switch of the batch that sits on
`i` is unnamed and every switch of the batch carries a number, slot `i` never receives a name -/
theorem rebuildSwnm_go_unnamed_stays (i : Nat) :
    ∀ (ss : List RSwitch) (free : List Nat) (tbl : List RSwitch) (ids : List (RSwitch × Nat))
      (out : List RSwitch) (oids : List (RSwitch × Nat)),
      (∀ s ∈ ss, s.idx ≠ none) →
      (∀ s ∈ ss, s.idx = some i → hasCustomName s = false) →
      (∀ cur, tbl[i]? = some cur → hasCustomName cur = false) →
      rebuildSwnm.go ss free tbl ids = .ok (out, oids) →
      ∀ cur, out[i]? = some cur → hasCustomName cur = false := by
  intro ss
  induction ss with
  | nil =>
    intro free tbl ids out oids _ _ hP h
    simp only [rebuildSwnm.go, Except.ok.injEq, Prod.mk.injEq] at h
    rw [← h.1]; exact hP
  | cons s rest ih =>
    intro free tbl ids out oids hidx hun hP h
    have hidx' : ∀ t ∈ rest, t.idx ≠ none := fun t ht => hidx t (List.mem_cons_of_mem _ ht)
    have hun' : ∀ t ∈ rest, t.idx = some i → hasCustomName t = false := fun t ht => hun t (List.mem_cons_of_mem _ ht)
    simp only [rebuildSwnm.go] at h
    cases hj : s.idx with
    | none => exact absurd hj (hidx s (by simp))
    | some j =>
      simp only [hj] at h
      cases hcur : tbl[j]? with
      | none => simp [hcur] at h
      | some cur =>
        simp only [hcur] at h
        split at h
        · refine ih free _ _ out oids hidx' hun' ?_ h
          intro c hc
          by_cases hji : j = i
          · subst hji
            have hjlt : j < tbl.length := (List.getElem?_eq_some_iff.mp hcur).1
            rw [List.getElem?_set_self hjlt] at hc
            cases hc
            exact hun s (by simp) hj
          · rw [List.getElem?_set_ne hji] at hc
            exact hP c hc
        · exact ih free _ _ out oids hidx' hun' hP h

/-- **C02 for switch names, the unnamed half**: in a save in which every switch the triggers use carries its number
(an unedited load/save: the decoder hands out the table's own entries, or number-only switches), a switch number
`i` that the stored table leaves unnamed and that no trigger names is still unnamed in the rebuilt table — for every
map and every iteration order.  With `c07_named_switch_keeps_name` (a named switch keeps exactly its entry) this is
value preservation of the whole switch-name table through an unedited save. -/
theorem c02_unnamed_switch_stays_unnamed {cfg : RichCfg} {secs : List RSection} {order : Option (List Nat)}
    {tbl : List RSwitch} {ids : List (RSwitch × Nat)}
    (h : rebuildSwnm cfg secs order = .ok (tbl, ids))
    (ss : List RSwitch) (hs : secs.filter (isSectionNamed nSWNM) = [.swnm ss])
    (hstored : ∀ u ∈ ss, u.idx ≠ none)
    (i : Nat)
    (hfree : ∀ u ∈ ss, u.idx = some i → hasCustomName u = false)
    (hused : ∀ u ∈ (secs.filter (fun s => !isSectionNamed nSWNM s)).flatMap (sectionSwitches cfg),
      u.idx ≠ none ∧ (u.idx = some i → hasCustomName u = false)) :
    ∀ cur, tbl[i]? = some cur → hasCustomName cur = false := by
  unfold rebuildSwnm at h
  simp only [hs] at h
  split at h
  · simp at h
  · have hall : ∀ u ∈ ss.filter hasCustomName ++
        (allocOrder order (dedupBy RSwitch.same ((secs.filter (fun s => !isSectionNamed nSWNM s)).flatMap (sectionSwitches cfg)))).filter
          (fun u => !((ss.filter hasCustomName).any fun n => RSwitch.same n u)),
        u.idx ≠ none ∧ (u.idx = some i → hasCustomName u = false) := by
      intro u hu
      rcases List.mem_append.mp hu with hu | hu
      · have hm := (List.mem_filter.mp hu).1
        exact ⟨hstored u hm, hfree u hm⟩
      · have hu1 := (List.mem_filter.mp hu).1
        exact hused u (dedupBy_subset RSwitch.same _ u (allocOrder_subset order _ u hu1))
    refine rebuildSwnm_go_unnamed_stays i _ _ _ [] tbl ids (fun u hu => (hall u hu).1) (fun u hu => (hall u hu).2) ?_ h
    intro cur hc
    by_cases hi : i < cfg.switchSlots
    · simp [hi] at hc
      rw [← hc]; rfl
    · simp [hi] at hc

end Richchk.Props.C02
