/-
C01 — Binary CHK round trip is byte-exact.
Property theorems only.  The model is `decodeChk Generated.decTable` / `encodeChk
Generated.encTable`, i.e. the chunk loop (hand model, tied by correspondence) over the
layouts the translator reads off the transcoder source on every run.
-/
import RichchkModel.Generated.Layouts
import RichchkModel.Spec.Layouts
import RichchkModel.Lemmas.WellFormed
namespace Richchk.Props.C01
open Richchk

/-- instantiation obligation: the translator understood every transcoder -/
theorem no_translator_gaps : Generated.layoutGaps = 0 := by decide

/-- instantiation obligation: every transcoder's `_encode` writes the fields its `decode` reads,
same names, same order, same widths -/
theorem decode_layouts_eq_encode_layouts : Generated.decTable = Generated.encTable := by
  decide +kernel

/-- instantiation obligation: side conditions of the generic lemmas (record sizes positive,
declared trigger size = sum of the trigger's fields) -/
theorem generated_table_ok : TableOK Generated.decTable := by
  intro x hx
  simp only [Generated.decTable, List.mem_cons, List.mem_nil_iff, or_false] at hx
  rcases hx with rfl | rfl | rfl | rfl | rfl | rfl | rfl | rfl | rfl | rfl <;> decide

/-- instantiation obligation: the sizes accepted for recognised sections are the ones the
specification (and StarCraft) mandates -/
theorem generated_sizes_are_spec_sizes : Generated.decTable = Spec.specTable := by
  decide +kernel

/-- **C01.**  For every well-formed CHK byte string — any number, order and duplication of
chunks, arbitrary 4-byte names, arbitrary payloads for unrecognised names, and for recognised
names any payload of a size StarCraft accepts (STR/STRx: any count, any offsets, 7-bit
NUL-terminated strings) — decoding succeeds and encoding the result reproduces the input
bytes exactly; the decoded sections carry the file's names in the file's order. -/
theorem c01_roundtrip {chunks : List (Bytes × Bytes)} {bs : Bytes}
    (h : WellFormed Generated.decTable chunks bs) :
    ∃ secs, decodeChk Generated.decTable bs = .ok secs ∧
      encodeChk Generated.encTable secs = .ok bs ∧
      secs.map DSection.name = chunks.map Prod.fst := by
  rw [← decode_layouts_eq_encode_layouts]
  exact wellFormed_roundtrip generated_table_ok h

/-! non-vacuity: a concrete well-formed file with a duplicated unknown section carrying a
non-UTF-8 name, an empty TRIG, and a 3-string STR whose offsets are shared and unsorted. -/
def exName : Bytes := [0xff, 0xfe, 0x00, 0x01]
def nTRIG : Bytes := [84, 82, 73, 71]
def nSTR : Bytes := [83, 84, 82, 32]
def exStr : Bytes := leBytes 2 3 ++ (leBytes 2 12 ++ leBytes 2 8 ++ leBytes 2 12) ++
  joinStrings [[0x61, 0x62, 0x63], [0x7a]]

theorem exName_unknown : SecTable.find? Generated.decTable exName = none := by decide +kernel
theorem trig_known : SecTable.find? Generated.decTable nTRIG =
    some (.trig Spec.conditionRec Spec.actionRec 16 64 4 27 1 1 2400) := by decide +kernel
theorem str_known : SecTable.find? Generated.decTable nSTR = some (.str 2) := by
  decide +kernel

example : WellFormed Generated.decTable
    [(exName, [1, 2]), (nTRIG, []), (nSTR, exStr), (exName, [1, 2])]
    (exName ++ leBytes 4 ([1, 2] : Bytes).length ++ [1, 2] ++
      (nTRIG ++ leBytes 4 ([] : Bytes).length ++ [] ++
        (nSTR ++ leBytes 4 exStr.length ++ exStr ++
          (exName ++ leBytes 4 ([1, 2] : Bytes).length ++ [1, 2] ++ [])))) := by
  have hU : PayloadOK Generated.decTable exName [1, 2] := by
    simp only [PayloadOK, exName_unknown]
  have hT : PayloadOK Generated.decTable nTRIG [] := by
    simp only [PayloadOK, trig_known, Exact]
    decide
  have hS : PayloadOK Generated.decTable nSTR exStr := by
    simp only [PayloadOK, str_known, Exact]
    refine ⟨3, [12, 8, 12], leBytes 2 12 ++ leBytes 2 8 ++ leBytes 2 12,
      [[0x61, 0x62, 0x63], [0x7a]], rfl, by decide, by rfl, ?_, rfl⟩
    intro s hs
    simp only [List.mem_cons, List.mem_nil_iff, or_false] at hs
    rcases hs with rfl | rfl <;> intro b hb <;>
      simp only [List.mem_cons, List.mem_nil_iff, or_false] at hb
    · rcases hb with rfl | rfl | rfl <;> decide
    · subst hb; decide
  exact .cons exName [1, 2] (by decide +kernel) (by decide +kernel) hU
    (.cons _ [] (by decide +kernel) (by decide +kernel) hT
      (.cons _ exStr (by decide +kernel) (by decide +kernel) hS
        (.cons exName [1, 2] (by decide +kernel) (by decide +kernel) hU .nil)))

end Richchk.Props.C01
