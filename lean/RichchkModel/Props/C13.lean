/-
C13 — Operations never mutate their inputs.

The theorem is about the alias model (Model/Alias.lean): every function body of the library's
operation layers (editor/, io/ without the archive layer, transcoder/, util/, model/), abstracted
by translator/tr_effects.py into the alias IR and regenerated from the working tree on every run,
passes the kernel-evaluated type check; by soundness (Lemmas/AliasSound.lean) no execution of such
a body changes any container cell that existed before the call.  STATUS: partial — the reading of
Python into the IR (which calls allocate, which copy shallowly, which mutate; inlining of private
helpers; frozen dataclasses; caches) is the trusted part, tied by the deep-snapshot harness.
-/
import RichchkModel.Lemmas.AliasSound
import RichchkModel.Generated.Effects
namespace Richchk.Props.C13
open Richchk Richchk.Alias

theorem no_translator_gaps : Generated.effectGaps = 0 := by decide

/-- every emitted function body type-checks with the kinds the translator proposes -/
theorem c13_every_body_checks : Generated.effects.all Fn.ok = true := by decide +kernel

/-- **no operation mutates what it was given**: for every analysed function, every initial heap,
every execution of its body (any order / repetition of its statements, any choices), every cell
that existed before the call holds the same contents afterwards -/
theorem c13_no_input_mutation (f : Fn) (hf : f ∈ Generated.effects) (hown : f.owned = [])
    (st0 : St) (hinit : ∀ x c, st0.env x = some c → f.sigma.get x = .any)
    (trace : List (Stmt × Choice)) (ht : ∀ p ∈ trace, p.1 ∈ f.body) :
    ∀ c, c < st0.next → (run st0 trace).heap c = st0.heap c := by
  have hok : f.ok = true := List.all_eq_true.mp c13_every_body_checks f hf
  unfold Fn.ok at hok
  rw [hown] at hok
  exact check_sound_pure hok st0 hinit trace ht

/-- no emitted function uses the hand-over mechanism (so the statement above covers all of them) -/
theorem c13_nothing_owned : Generated.effects.all (fun f => f.owned == []) = true := by decide +kernel

/-! ### the check is not vacuous: a body that appends to a list it was given is rejected, and its
execution does change a pre-existing cell -/

def leaky : Fn := { name := "leaky", params := [0], sigma := [], body := [.assign 1 (.elem 0), .mutate 1 [0]] }

example : leaky.ok = false := by decide

example :
    let st0 : St := { heap := fun c => if c = 0 then [1] else [], next := 2, env := fun v => if v = 0 then some 0 else none }
    (run st0 [(.assign 1 (.elem 0), {}), (.mutate 1 [0], { sel := [(false, 0)] })]).heap 1 ≠ st0.heap 1 := by
  decide

/-- and a copy-then-append body is accepted -/
def copying : Fn := { name := "copying", params := [0, 1], sigma := [(2, .fresh1)], body := [.assign 2 (.shallow 0), .mutate 2 [1]] }

example : copying.ok = true := by decide

end Richchk.Props.C13
