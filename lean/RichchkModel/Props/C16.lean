/-
C16 — Map saving is failure-atomic and never touches the base map.

The quantifier ("every archive-library call and every file-system call made during
save_chk_to_mpq / add_audio_files_to_mpq, each failing before or after taking effect, copies
failing part-way, destination absent or pre-existing") is a FINITE set once the call
sequence is fixed; `Generated.*Events = Spec.*Events` (C15.bodies_have_modelled_shape) fixes
the sequence, and the theorems below enumerate every fault point of the model of that
sequence in the kernel.
-/
import RichchkModel.Props.C15
namespace Richchk.Props.C16
open Richchk

/-- every single fault over the first `n` operations, plus the fault-free run -/
def allFaults (n : Nat) : List (Option Fault) :=
  none :: (List.range n).flatMap fun k =>
    [some ⟨k, .before⟩, some ⟨k, .after⟩, some ⟨k, .midway⟩]

def baseC : Content := 100
def oldDest : Content := 200
def chkC : Content := 400

def fs0 (dest : Option Content) : FS :=
  (pBase, baseC) :: (match dest with | some c => [(pDest, c)] | none => [])

def tempPaths : List Path := [pTempChk, pTempMpq, pWork, pTempWav, pTempMpq2]

/-- the outcome the property allows after ANY run: base byte-identical; destination absent-as-
before / its complete previous content / the complete new map; no work file left; and a run
that reports success produced the complete new map -/
def acceptable (destBefore : Option Content) (newMap : Content) (r : Except Err Unit) (fs : FS) : Bool :=
  fs.get pBase == some baseC &&
  (fs.get pDest == destBefore || fs.get pDest == some newMap) &&
  tempPaths.all (fun t => !(fs.has t)) &&
  (match r with | .ok _ => fs.get pDest == some newMap | .error _ => true)

def saveRun (f : Option Fault) (ow : Bool) (nAudio : Nat) (chk : Option Content) (dest : Option Content) :=
  runFM (saveMap f ow nAudio chk pBase pDest pTempChk pTempMpq pWork) (fs0 dest)

/-- the model executes fewer operations than the fault range covers (so every operation of
every run is a fault point) -/
theorem c16_fault_range_covers_save :
    ([none, some oldDest].all fun dest => [0, 1, 2, 3].all fun n =>
      (saveRun none true n (some chkC) dest).2.2 < 40) = true := by decide +kernel

/-- **C16, save_chk_to_mpq.**  Every fault point × fault mode × destination state × flag ×
number of audio members scanned × (encoding succeeds / raises). -/
theorem c16_save_failure_atomic :
    ([none, some oldDest].all fun dest => [true, false].all fun ow => [0, 1, 2, 3].all fun n =>
      [none, some chkC].all fun chk => (allFaults 40).all fun f =>
        let out := saveRun f ow n chk dest
        acceptable dest (archAdd baseC chkC) out.1 out.2.1) = true := by decide +kernel

def importRun (f : Option Fault) (ow : Bool) (audio : List Content) (chk : Option Content) (dest : Option Content) :=
  runFM (importAudio f ow audio true chk pBase pDest) (fs0 dest)

def importedArchive (audio : List Content) : Content :=
  archAdd (audio.foldl archAdd baseC) chkC

theorem c16_fault_range_covers_import :
    ([none, some oldDest].all fun dest => [[], [7], [7, 8], [7, 8, 9]].all fun audio =>
      (importRun none true audio (some chkC) dest).2.2 < 70) = true := by decide +kernel

/-- **C16, add_audio_files_to_mpq.**  Same enumeration for the audio import (0..3 files). -/
theorem c16_import_failure_atomic :
    ([none, some oldDest].all fun dest => [true, false].all fun ow =>
      [[], [7], [7, 8], [7, 8, 9]].all fun audio => [none, some chkC].all fun chk =>
        (allFaults 70).all fun f =>
          let out := importRun f ow audio chk dest
          acceptable dest (importedArchive audio) out.1 out.2.1) = true := by decide +kernel

/-- reading a map never writes anything but its own temporary file, which it removes -/
theorem c16_read_leaves_nothing :
    ((allFaults 6).all fun f =>
      let out := runFM (withTemp f pTempChk (roCall f >>> copyFile f pBase pTempChk >>> roCall f >>> roCall f)) (fs0 (some oldDest))
      out.2.1.get pBase == some baseC && out.2.1.get pDest == some oldDest && !(out.2.1.has pTempChk)) = true := by
  decide +kernel

/-- the defect repaired by `fix: save_chk_to_mpq writes the destination atomically`: a final
`shutil.copyfile(temp, dest)` straight onto the destination is NOT failure-atomic — a part-way
copy leaves a truncated destination and destroys a pre-existing one -/
theorem f10_direct_copy_is_not_atomic :
    let out := runFM (copyFile (some ⟨0, .midway⟩) pBase pDest) (fs0 (some oldDest))
    out.2.1.get pDest = some (partialOf baseC) := by decide +kernel

end Richchk.Props.C16
