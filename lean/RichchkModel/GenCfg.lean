/-
The configuration of the rich-layer model assembled from the generated tables: what `cycle` /
`editRun` are run with by the driver, and what the instantiated theorems are stated about.
-/
import RichchkModel.Model.Rich
import RichchkModel.Generated.Layouts
import RichchkModel.Generated.Codecs
import RichchkModel.Generated.TrigTable
import RichchkModel.Generated.Consts
namespace Richchk

def trigFieldNames : List String × List String :=
  match Generated.decTable.find? nTRIG with
  | some (.trig cf af _ _ _ _ _ _ _) => (cf.map (·.name), af.map (·.name))
  | _ => ([], [])

def richCfg : RichCfg := {
  decTable := Generated.decTable
  actionRows := Generated.actionTable
  condRows := Generated.conditionTable
  actionFields := trigFieldNames.2
  condFields := trigFieldNames.1
  enums := Generated.enums
  flagCodecs := Generated.flagCodecs
  unitWeapons := Generated.unitWeapons
  knownAi := Generated.knownAiScripts.map (·.2)
  mrgnCfg := Generated.mrgnCfg
  uprpCfg := Generated.uprpCfg
  swnmCfg := Generated.swnmCfg
  mrgnSlots := Generated.mrgnEncodeSlots
  cuwpSlots := Generated.maxCuwpSlots
  wavSlots := Generated.maxWavFiles
  switchSlots := Generated.maxSwitches
  nConds := Generated.condsPerTrigger
  nActs := Generated.actionsPerTrigger
  nUnits := 228
}

end Richchk
