/-
The call sequences of the file-level entry points that Model/FileOps.lean was WRITTEN AGAINST
(frozen by hand from a reading of the source).  `Generated.*Events = Spec.*Events` is the
obligation that the code still has this shape: a guard moved after a write, a step added,
dropped or reordered, a changed default — all change the generated side.
-/
namespace Richchk.Spec

/-- every file-writing entry point refuses to overwrite by default -/
def overwriteDefaults : List (String × Bool) := [("chkExport", false), ("extractChk", false),
  ("saveMap", false), ("importAudio", false), ("extractFile", false)]

def chkExportEvents : List String := [
  "guard:FileExistsError:not force_create and os.path.exists(chk_output_file_path)",
  "with:open:'wb'",
  "call:encode_chk_to_bytes",
  "call:f.write",
  "endwith"
]
def extractChkEvents : List String := [
  "guard:FileNotFoundError:not os.path.exists(path_to_starcraft_mpq_file)",
  "call:stormlib.open_archive",
  "call:stormlib.extract_file",
  "call:stormlib.close_archive"
]
def readChkEvents : List String := [
  "guard:FileNotFoundError:not os.path.exists(path_to_starcraft_mpq_file)",
  "with:CrossPlatformSafeTemporaryNamedFile",
  "call:stormlib.open_archive",
  "call:stormlib.extract_file",
  "call:decode_chk_file",
  "call:decode_chk",
  "call:stormlib.close_archive",
  "return",
  "endwith"
]
def saveMapEvents : List String := [
  "guard:FileNotFoundError:not os.path.exists(path_to_base_mpq_file)",
  "guard:FileExistsError:os.path.exists(path_to_new_mpq_file) and (not overwrite_existing)",
  "with:CrossPlatformSafeTemporaryNamedFile",
  "with:CrossPlatformSafeTemporaryNamedFile",
  "call:self._build_wav_metadata_lookup",
  "call:encode_chk",
  "call:encode_chk_to_file",
  "call:shutil.copyfile",
  "call:stormlib.open_archive",
  "call:stormlib.add_file",
  "call:stormlib.compact_archive",
  "call:stormlib.close_archive",
  "call:self._copy_file_atomically",
  "endwith"
]
def copyAtomicallyEvents : List String := [
  "try",
  "call:shutil.copyfile",
  "call:os.replace",
  "except:BaseException",
  "if:os.path.exists(work_file)",
  "call:os.remove",
  "endif",
  "raise",
  "endtry"
]
def importAudioEvents : List String := [
  "guard:FileNotFoundError:not all((os.path.exists(wav) for wav in path_to_audio_files_on_disk))",
  "guard:FileNotFoundError:not os.path.exists(path_to_base_mpq_file)",
  "guard:FileExistsError:os.path.exists(path_to_new_mpq_file) and (not overwrite_existing)",
  "with:CrossPlatformSafeTemporaryNamedFile",
  "call:shutil.copyfile",
  "call:self._add_audio_files_to_mpq",
  "call:self._update_chk_wav_section",
  "call:self.save_chk_to_mpq",
  "endwith"
]
def addAudioToMpqEvents : List String := [
  "call:stormlib.open_archive",
  "for:path_to_wavs_on_disk",
  "call:self._create_audio_filepath_in_mpq",
  "call:stormlib.add_file",
  "endfor",
  "call:stormlib.compact_archive",
  "call:stormlib.close_archive",
  "return"
]
def extractFileEvents : List String := [
  "guard:FileExistsError:os.path.exists(outfile) and (not overwrite_existing)",
  "call:self._encode_file_path_for_platform",
  "call:stormlib.func",
  "guard:ValueError:result == 0",   -- (the failure check, written in place or as a private guard helper: the reader inlines pure-guard helpers)
  "return"
]
def wavMetadataEvents : List String := [
  "guard:FileNotFoundError:not os.path.exists(path_to_starcraft_mpq_file)",
  "call:stormlib.open_archive",
  "call:find_all_files_matching_pattern",
  "call:find_all_files_matching_pattern",
  "for:all_wav_files + all_ogg_files",
  "call:self._calculate_audio_file_duration_ms",
  "endfor",
  "call:stormlib.close_archive",
  "return"
]
def wavDurationEvents : List String := [
  "with:CrossPlatformSafeTemporaryNamedFile",
  "call:stormlib.extract_file",
  "if:temp_wav_file.endswith(self._WAV_EXTENSION)",
  "call:self._calculate_wav_file_duration_ms",
  "return",
  "else",
  "if:temp_wav_file.endswith(self._OGG_EXTENSION)",
  "call:self._calculate_ogg_file_duration_ms",
  "return",
  "else",
  "raise",
  "endif",
  "endif",
  "endwith"
]
def tempEnterEvents : List String := [
  "call:self._create_filename",
  "call:open",
  "call:open(self._filename, mode='w').close",
  "return"
]
def tempExitEvents : List String := [
  "if:self._delete",
  "assert:isinstance(self._filename, str)",
  "call:os.remove",
  "endif"
]

end Richchk.Spec
