/-
The Scenario.chk "list of trigger actions / conditions" tables, transcribed BY HAND (TRUSTED):
for every type the library supports, its number and which record field holds which argument.
Arguments are named by the library's rich field names; where that name is not the
specification's wording the correspondence is stated in the comment.

Action record fields:   _location_id (u32 "location"), _text_string_id, _wav_string_id, _time,
  _first_group ("first group/player"), _second_group ("second group, secondary location, CUWP #,
  number, AI script, switch"), _action_argument_type (u16 "unit type, score type, resource type,
  alliance status"), _action_id, _quantifier_or_switch_or_order (u8 "number of units, action
  state, unit order, number modifier"), _flags, _padding, _mask_flag.
Condition record fields: _location_id, _group, _quantity, _unit_id, _numeric_comparison_operation
  (u8 "numeric comparison, switch state"), _condition_id, _numeric_comparand_type (u8 "resource
  type, score type, switch number"), _flags, _mask_flag.
-/
import RichchkModel.Model.TrigTable
namespace Richchk.Spec

def actionFields : List String := ["_location_id", "_text_string_id", "_wav_string_id", "_time",
  "_first_group", "_second_group", "_action_argument_type", "_action_id",
  "_quantifier_or_switch_or_order", "_flags", "_padding", "_mask_flag"]

def conditionFields : List String := ["_location_id", "_group", "_quantity", "_unit_id",
  "_numeric_comparison_operation", "_condition_id", "_numeric_comparand_type", "_flags", "_mask_flag"]

-- shorthands for the record fields
private def loc := "_location_id"
private def txt := "_text_string_id"
private def wav := "_wav_string_id"
private def tim := "_time"
private def g1 := "_first_group"
private def g2 := "_second_group"
private def typ := "_action_argument_type"
private def mod := "_quantifier_or_switch_or_order"

/-- supported actions, by number -/
def actions : List SpecRow := [
  ⟨1, "VICTORY", []⟩,
  ⟨2, "DEFEAT", []⟩,
  ⟨3, "PRESERVE_TRIGGER", []⟩,
  ⟨4, "WAIT", [("_milliseconds", tim)]⟩,
  ⟨5, "PAUSE_GAME", []⟩,
  ⟨6, "UNPAUSE_GAME", []⟩,
  ⟨8, "PLAY_WAV", [("_path_to_wav_in_mpq", wav), ("_duration_ms", tim)]⟩,
  ⟨9, "DISPLAY_TEXT_MESSAGE", [("_text", txt)]⟩,
  ⟨10, "CENTER_VIEW", [("_location", loc)]⟩,
  -- Create Unit with Properties: player, unit, count, location, CUWP slot (second group)
  ⟨11, "CREATE_UNIT_WITH_PROPERTIES", [("_group", g1), ("_amount", mod), ("_unit", typ),
      ("_location", loc), ("_properties", g2)]⟩,
  ⟨12, "SET_MISSION_OBJECTIVES", [("_text", txt)]⟩,
  ⟨13, "SET_SWITCH", [("_switch", g2), ("_switch_action", mod)]⟩,
  ⟨14, "SET_COUNTDOWN_TIMER", [("_seconds", tim), ("_amount_modifier", mod)]⟩,
  ⟨15, "RUN_AI_SCRIPT", [("_ai_script", g2)]⟩,
  ⟨16, "RUN_AI_SCRIPT_AT_LOCATION", [("_ai_script", g2), ("_location", loc)]⟩,
  ⟨17, "LEADER_BOARD_CONTROL", [("_text", txt), ("_unit", typ)]⟩,
  ⟨18, "LEADER_BOARD_CONTROL_AT_LOCATION", [("_text", txt), ("_unit", typ), ("_location", loc)]⟩,
  ⟨19, "LEADER_BOARD_RESOURCES", [("_text", txt), ("_resource", typ)]⟩,
  ⟨20, "LEADER_BOARD_KILLS", [("_text", txt), ("_unit", typ)]⟩,
  ⟨21, "LEADER_BOARD_POINTS", [("_text", txt), ("_score_type", typ)]⟩,
  ⟨22, "KILL_UNIT", [("_group", g1), ("_unit", typ)]⟩,
  ⟨23, "KILL_UNIT_AT_LOCATION", [("_group", g1), ("_amount", mod), ("_unit", typ), ("_location", loc)]⟩,
  ⟨24, "REMOVE_UNIT", [("_group", g1), ("_unit", typ)]⟩,
  ⟨25, "REMOVE_UNIT_AT_LOCATION", [("_group", g1), ("_amount", mod), ("_unit", typ), ("_location", loc)]⟩,
  -- Set Resources / Set Score: player, number (second group), modifier (u8), resource/score type
  ⟨26, "SET_RESOURCES", [("_group", g1), ("_amount_modifier", mod), ("_amount", g2), ("_resource", typ)]⟩,
  ⟨27, "SET_SCORE", [("_group", g1), ("_amount_modifier", mod), ("_amount", g2), ("_score_type", typ)]⟩,
  ⟨28, "MINIMAP_PING", [("_location", loc)]⟩,
  ⟨32, "LEADERBOARD_COMPUTER_PLAYERS", [("_action_state", mod)]⟩,
  ⟨33, "LEADERBOARD_GOAL_CONTROL", [("_text", txt), ("_unit", typ), ("_goal", g2)]⟩,
  ⟨34, "LEADERBOARD_GOAL_CONTROL_AT_LOCATION", [("_text", txt), ("_unit", typ), ("_location", loc), ("_goal", g2)]⟩,
  ⟨35, "LEADERBOARD_GOAL_RESOURCES", [("_text", txt), ("_resource", typ), ("_goal", g2)]⟩,
  ⟨36, "LEADERBOARD_GOAL_KILLS", [("_text", txt), ("_unit", typ), ("_goal", g2)]⟩,
  ⟨37, "LEADERBOARD_GOAL_POINTS", [("_text", txt), ("_score_type", typ), ("_goal", g2)]⟩,
  -- Move Location: the location that is MOVED (library: _source_location) is the second group;
  -- the area searched for the unit (library: _destination_location) is the location field
  ⟨38, "MOVE_LOCATION", [("_source_location", g2), ("_unit", typ), ("_group", g1), ("_destination_location", loc)]⟩,
  -- Move Unit / Order: source in the location field, destination in the second group
  ⟨39, "MOVE_UNIT", [("_unit", typ), ("_group", g1), ("_amount", mod), ("_source_location", loc), ("_destination_location", g2)]⟩,
  ⟨40, "LEADERBOARD_GREED", [("_goal", g2)]⟩,
  ⟨42, "SET_DOODAD_STATE", [("_group", g1), ("_unit", typ), ("_location", loc), ("_doodad_action", mod)]⟩,
  ⟨43, "SET_INVINCIBILITY", [("_group", g1), ("_unit", typ), ("_location", loc), ("_invincibility", mod)]⟩,
  ⟨44, "CREATE_UNIT", [("_group", g1), ("_amount", mod), ("_unit", typ), ("_location", loc)]⟩,
  ⟨45, "SET_DEATHS", [("_group", g1), ("_amount", g2), ("_unit", typ), ("_amount_modifier", mod)]⟩,
  ⟨46, "ORDER", [("_unit", typ), ("_group", g1), ("_source_location", loc), ("_destination_location", g2), ("_order", mod)]⟩,
  -- Give Units: from = first group, to = second group
  ⟨48, "GIVE_UNITS_TO_PLAYER", [("_from_group", g1), ("_to_group", g2), ("_unit", typ), ("_amount", mod), ("_location", loc)]⟩,
  -- Modify HP / energy / shields: percent = second group, number of units = u8
  ⟨49, "MODIFY_UNIT_HIT_POINTS", [("_group", g1), ("_amount", mod), ("_percent", g2), ("_unit", typ), ("_location", loc)]⟩,
  ⟨50, "MODIFY_UNIT_ENERGY", [("_group", g1), ("_unit", typ), ("_amount", mod), ("_percent", g2), ("_location", loc)]⟩,
  ⟨51, "MODIFY_UNIT_SHIELD_POINTS", [("_group", g1), ("_unit", typ), ("_amount", mod), ("_percent", g2), ("_location", loc)]⟩,
  -- Modify Resource Amount: resource amount = second group, number of units = u8
  -- (the library also keeps the unit-type field, which the specification leaves unused here)
  ⟨52, "MODIFY_UNIT_RESOURCE_AMOUNT", [("_group", g1), ("_unit", typ), ("_amount", mod), ("_resource_amount", g2), ("_location", loc)]⟩,
  -- Modify Hangar Count: amount to add = second group, number of units = u8
  ⟨53, "MODIFY_UNIT_HANGER_COUNT", [("_group", g1), ("_unit", typ), ("_amount", mod), ("_hanger_amount", g2), ("_location", loc)]⟩,
  ⟨54, "PAUSE_TIMER", []⟩,
  ⟨55, "UNPAUSE_TIMER", []⟩,
  ⟨56, "DRAW", []⟩,
  ⟨57, "SET_ALLIANCE_STATUS", [("_group", g1), ("_alliance_status", typ)]⟩]

private def cloc := "_location_id"
private def grp := "_group"
private def qty := "_quantity"
private def unit := "_unit_id"
private def cmp := "_numeric_comparison_operation"
private def rtype := "_numeric_comparand_type"

/-- supported conditions, by number (the table quoted in the repo's trigger_condition_id.py) -/
def conditions : List SpecRow := [
  ⟨1, "COUNTDOWN_TIMER", [("_seconds", qty), ("_comparator", cmp)]⟩,
  ⟨2, "COMMAND", [("_group", grp), ("_comparator", cmp), ("_amount", qty), ("_unit", unit)]⟩,
  ⟨3, "BRING", [("_group", grp), ("_comparator", cmp), ("_amount", qty), ("_unit", unit), ("_location", cloc)]⟩,
  ⟨4, "ACCUMULATE", [("_group", grp), ("_comparator", cmp), ("_amount", qty), ("_resource", rtype)]⟩,
  ⟨5, "KILL", [("_group", grp), ("_comparator", cmp), ("_amount", qty), ("_unit", unit)]⟩,
  ⟨6, "COMMAND_THE_MOST", [("_unit", unit)]⟩,
  ⟨7, "COMMANDS_THE_MOST_AT", [("_unit", unit), ("_location", cloc)]⟩,
  ⟨8, "MOST_KILLS", [("_unit", unit)]⟩,
  ⟨9, "HIGHEST_SCORE", [("_score_type", rtype)]⟩,
  ⟨10, "MOST_RESOURCES", [("_resource", rtype)]⟩,
  ⟨11, "SWITCH", [("_switch_state", cmp), ("_switch", rtype)]⟩,
  ⟨12, "ELAPSED_TIME", [("_seconds", qty), ("_comparator", cmp)]⟩,
  ⟨14, "OPPONENTS", [("_group", grp), ("_comparator", cmp), ("_amount", qty)]⟩,
  ⟨15, "DEATHS", [("_group", grp), ("_comparator", cmp), ("_amount", qty), ("_unit", unit)]⟩,
  ⟨16, "COMMAND_THE_LEAST", [("_unit", unit)]⟩,
  ⟨17, "COMMAND_THE_LEAST_AT", [("_unit", unit), ("_location", cloc)]⟩,
  ⟨18, "LEAST_KILLS", [("_unit", unit)]⟩,
  ⟨19, "LOWEST_SCORE", [("_score_type", rtype)]⟩,
  ⟨20, "LEAST_RESOURCES", [("_resource", rtype)]⟩,
  ⟨21, "SCORE", [("_group", grp), ("_comparator", cmp), ("_amount", qty), ("_score_type", rtype)]⟩,
  ⟨22, "ALWAYS", []⟩,
  ⟨23, "NEVER", []⟩]

end Richchk.Spec
