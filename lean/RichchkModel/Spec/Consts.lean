/-
Slot ranges of the Scenario.chk format (hand transcription, TRUSTED), in the numbering the
rich layer uses: locations 1..255 with Anywhere = location 64; unit-property (CUWP) slots
1..64; switches 0..255; WAV entries 0..511.
-/
import RichchkModel.Model.Alloc
namespace Richchk.Spec

def locationSlots : AllocCfg := ⟨1, 255, some 64, false⟩   -- editor skips when full; the save then fails
def cuwpSlots : AllocCfg := ⟨1, 64, none, true⟩
def wavSlots : AllocCfg := ⟨0, 511, none, true⟩
def switchSlots : AllocCfg := ⟨0, 255, none, true⟩

end Richchk.Spec
