/-
The Scenario.chk section layouts, transcribed BY HAND from the format specification
(the same text is quoted in the repo's transcoder docstrings).  Field names are the
decoded-model field names, so that "a decoded model means what its field names say" (C06)
is the statement `Generated.decTable = Spec.specTable`.  TRUSTED: this transcription.
-/
import RichchkModel.Model.Chunk
namespace Richchk.Spec
open Richchk

def unitArrays (nWeapons : Nat) : List ArrField := [
  ⟨"_unit_default_settings_flags", 1, 228⟩,   -- u8[228]  unit uses default settings
  ⟨"_unit_hitpoints", 4, 228⟩,                -- u32[228] hit points (x/256)
  ⟨"_unit_shieldpoints", 2, 228⟩,             -- u16[228]
  ⟨"_unit_armorpoints", 1, 228⟩,              -- u8[228]
  ⟨"_unit_build_times", 2, 228⟩,              -- u16[228]
  ⟨"_unit_mineral_costs", 2, 228⟩,            -- u16[228]
  ⟨"_unit_gas_costs", 2, 228⟩,                -- u16[228]
  ⟨"_unit_string_ids", 2, 228⟩,               -- u16[228]
  ⟨"_unit_base_weapon_damages", 2, nWeapons⟩, -- u16[100|130]
  ⟨"_unit_upgrade_weapon_damages", 2, nWeapons⟩]

def locationRec : List RecField := [
  ⟨"_left_x1", 4⟩, ⟨"_top_y1", 4⟩, ⟨"_right_x2", 4⟩, ⟨"_bottom_y2", 4⟩,
  ⟨"_string_id", 2⟩, ⟨"_elevation_flags", 2⟩]

def cuwpRec : List RecField := [
  ⟨"_valid_special_properties_flags", 2⟩, ⟨"_valid_unit_properties_flags", 2⟩,
  ⟨"_owner_player", 1⟩, ⟨"_hitpoints_percentage", 1⟩, ⟨"_shieldpoints_percentage", 1⟩,
  ⟨"_energypoints_percentage", 1⟩, ⟨"_resource_amount", 4⟩, ⟨"_units_in_hangar", 2⟩,
  ⟨"_flags", 2⟩, ⟨"_padding", 4⟩]

/-- 20-byte condition -/
def conditionRec : List RecField := [
  ⟨"_location_id", 4⟩, ⟨"_group", 4⟩, ⟨"_quantity", 4⟩, ⟨"_unit_id", 2⟩,
  ⟨"_numeric_comparison_operation", 1⟩, ⟨"_condition_id", 1⟩, ⟨"_numeric_comparand_type", 1⟩,
  ⟨"_flags", 1⟩, ⟨"_mask_flag", 2⟩]

/-- 32-byte action -/
def actionRec : List RecField := [
  ⟨"_location_id", 4⟩, ⟨"_text_string_id", 4⟩, ⟨"_wav_string_id", 4⟩, ⟨"_time", 4⟩,
  ⟨"_first_group", 4⟩, ⟨"_second_group", 4⟩, ⟨"_action_argument_type", 2⟩, ⟨"_action_id", 1⟩,
  ⟨"_quantifier_or_switch_or_order", 1⟩, ⟨"_flags", 1⟩, ⟨"_padding", 1⟩, ⟨"_mask_flag", 2⟩]

def specTable : SecTable := [
  ("MRGN".toUTF8.toList, .recsEof locationRec),
  ("STR ".toUTF8.toList, .str 2),
  ("STRx".toUTF8.toList, .str 4),
  ("SWNM".toUTF8.toList, .arrays [⟨"_switch_string_ids", 4, 256⟩]),
  ("TRIG".toUTF8.toList, .trig conditionRec actionRec 16 64 4 27 1 1 2400),
  ("UNIS".toUTF8.toList, .arrays (unitArrays 100)),
  ("UNIx".toUTF8.toList, .arrays (unitArrays 130)),
  ("UPRP".toUTF8.toList, .recsN 64 cuwpRec),
  ("UPUS".toUTF8.toList, .arrays [⟨"_cuwp_slots_used", 1, 64⟩]),
  ("WAV ".toUTF8.toList, .arrays [⟨"_wav_string_ids", 4, 512⟩])]

/-- the sizes StarCraft validates (from the spec) -/
example : arraysSize (unitArrays 100) = 4048 := by decide
example : arraysSize (unitArrays 130) = 4168 := by decide
example : recSize cuwpRec * 64 = 1280 := by decide
example : recSize locationRec = 20 := by decide
example : recSize conditionRec = 20 ∧ recSize actionRec = 32 := by decide

end Richchk.Spec
