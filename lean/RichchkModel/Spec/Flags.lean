/-
Flag bits the Scenario.chk specification DEFINES, per flags field, least significant first,
with the library's rich field names.  Hand transcription (TRUSTED).  Bits above these are
"unknown/unused" in the specification.
-/
namespace Richchk.Spec

def flagBits : List (String × List String) := [
  -- trigger action u8: 0 ignore wait/transmission once, 1 disabled, 2 always display,
  -- 3 unit properties used, 4 unit type used; 5-7 unused
  ("trigger_action", ["ignore_wait_or_transmission_once", "disabled", "always_display",
    "unit_properties_is_used", "unit_type_is_used"]),
  -- trigger condition u8: 0 unknown/unused, 1 disabled, 2 always display, 3 unit properties used,
  -- 4 unit type used; 5-7 unused
  ("trigger_condition", ["unknown", "disabled", "always_display", "unit_properties_is_used",
    "unit_type_is_used"]),
  -- location elevation u16 (bit set = elevation DISABLED): 0 low, 1 medium, 2 high ground,
  -- 3 low, 4 medium, 5 high air; 6-15 unused
  ("mrgn_elevation", ["low_elevation", "medium_elevation", "high_elevation", "low_air",
    "medium_air", "high_air"]),
  -- CUWP "special properties valid" u16: 0 cloak, 1 burrowed, 2 in transit, 3 hallucinated,
  -- 4 invincible; 5-15 unused
  ("cuwp_valid_special", ["cloak_valid", "burrowed_valid", "in_transit_valid",
    "hallucinated_valid", "invincible_valid"]),
  -- CUWP "unit data valid" u16: 0 owner, 1 HP, 2 shields, 3 energy, 4 resource amount,
  -- 5 amount in hangar; 6.. unused
  ("cuwp_valid_unit", ["owner_play_valid", "hp_valid", "shields_valid", "energy_valid",
    "resource_amount_valid", "hanger_amount_valid"]),
  -- CUWP unit flags u16: 0 cloaked, 1 burrowed, 2 in transit, 3 hallucinated, 4 invincible
  ("cuwp_unit", ["cloaked", "burrowed", "building_in_transit", "hallucinated", "invincible"])]

/-- inverted (bit set = rich value false) codecs per the specification -/
def invertedFlags : List String := ["mrgn_elevation"]

end Richchk.Spec
