/-
Wire primitives: the model of `struct.pack` / `struct.unpack(fmt, stream.read(n))`
for the native formats "B","H","I" (1,2,4 bytes, little-endian host, no padding
because each call packs a single item kind).
  * a stream read at EOF returns fewer bytes and `struct.unpack` then raises `struct.error`
  * `struct.pack` raises `struct.error` when the value does not fit the width
-/
import RichchkModel.Basic.LE
import RichchkModel.Basic.Err
namespace Richchk

/-- `struct.pack(fmt_w, n)` -/
def packInt (w n : Nat) : R Bytes :=
  if n < 256 ^ w then .ok (leBytes w n) else .error .struct

/-- `struct.unpack(fmt_w, stream.read(w))[0]`, returning the remaining stream -/
def readInt (w : Nat) (bs : Bytes) : R (Nat × Bytes) :=
  -- `(bs.take w).length < w` is `bs.length < w` computed in O(w) (see `readInt_eq`)
  if (bs.take w).length < w then .error .struct else .ok (leVal (bs.take w), bs.drop w)

theorem readInt_eq (w : Nat) (bs : Bytes) : readInt w bs =
    if bs.length < w then .error .struct else .ok (leVal (bs.take w), bs.drop w) := by
  unfold readInt
  by_cases h : bs.length < w
  · have : (bs.take w).length < w := by simp; omega
    rw [if_pos this, if_pos h]
  · have : ¬ (bs.take w).length < w := by simp; omega
    rw [if_neg this, if_neg h]

/-- `[struct.unpack(fmt_w, stream.read(w))[0] for _ in range(n)]` -/
def readInts (w : Nat) : Nat → Bytes → R (List Nat × Bytes)
  | 0, bs => .ok ([], bs)
  | n+1, bs =>
    match readInt w bs with
    | .error e => .error e
    | .ok (v, rest) =>
      match readInts w n rest with
      | .error e => .error e
      | .ok (vs, rest') => .ok (v :: vs, rest')

/-- concatenation of `packInt w` over a list (one `struct.pack` per item, or one
`struct.pack("{n}W", *vs)`, which fails in exactly the same cases when `n = len(vs)`) -/
def packInts (w : Nat) : List Nat → R Bytes
  | [] => .ok []
  | v :: vs =>
    match packInt w v with
    | .error e => .error e
    | .ok b =>
      match packInts w vs with
      | .error e => .error e
      | .ok bs => .ok (b ++ bs)

/-- one record: a sequence of single fields with the given widths -/
def readRec : List Nat → Bytes → R (List Nat × Bytes)
  | [], bs => .ok ([], bs)
  | w :: ws, bs =>
    match readInt w bs with
    | .error e => .error e
    | .ok (v, rest) =>
      match readRec ws rest with
      | .error e => .error e
      | .ok (vs, rest') => .ok (v :: vs, rest')

def packRec : List Nat → List Nat → R Bytes
  | [], [] => .ok []
  | w :: ws, v :: vs =>
    match packInt w v with
    | .error e => .error e
    | .ok b =>
      match packRec ws vs with
      | .error e => .error e
      | .ok bs => .ok (b ++ bs)
  | _, _ => .error .type

def sumList : List Nat → Nat
  | [] => 0
  | x :: xs => x + sumList xs

/-! ### lemmas -/

theorem packInt_ok {w n : Nat} {b : Bytes} (h : packInt w n = .ok b) :
    n < 256 ^ w ∧ b = leBytes w n := by
  unfold packInt at h
  split at h
  · simp at h; exact ⟨‹_›, h.symm⟩
  · simp at h

theorem packInt_length {w n : Nat} {b : Bytes} (h : packInt w n = .ok b) : b.length = w := by
  have := packInt_ok h; simp [this.2]

theorem readInt_ok {w : Nat} {bs rest : Bytes} {v : Nat} (h : readInt w bs = .ok (v, rest)) :
    w ≤ bs.length ∧ v = leVal (bs.take w) ∧ rest = bs.drop w := by
  rw [readInt_eq] at h
  split at h
  · simp at h
  · simp at h; exact ⟨by omega, h.1.symm, h.2.symm⟩

/-- reading what was packed gives the value back, whatever follows -/
theorem readInt_packInt {w n : Nat} {b : Bytes} (h : packInt w n = .ok b) (rest : Bytes) :
    readInt w (b ++ rest) = .ok (n, rest) := by
  obtain ⟨hn, hb⟩ := packInt_ok h
  subst hb
  rw [readInt_eq]
  simp [leVal_leBytes _ _ hn]

/-- packing what was read reproduces the bytes read -/
theorem packInt_readInt {w : Nat} {bs rest : Bytes} {v : Nat} (h : readInt w bs = .ok (v, rest)) :
    packInt w v = .ok (bs.take w) ∧ bs = bs.take w ++ rest := by
  obtain ⟨hw, hv, hr⟩ := readInt_ok h
  subst hv hr
  have hl : (bs.take w).length = w := by simp; omega
  have := leVal_lt (bs.take w)
  rw [hl] at this
  refine ⟨?_, by simp⟩
  unfold packInt
  simp only [this, if_true]
  have := leBytes_leVal (bs.take w)
  rw [hl] at this
  rw [this]

theorem readInt_val_lt {w : Nat} {bs rest : Bytes} {v : Nat} (h : readInt w bs = .ok (v, rest)) :
    v < 256 ^ w := by
  have := (packInt_ok (packInt_readInt h).1).1; exact this

theorem packInts_length {w : Nat} {vs : List Nat} {b : Bytes} (h : packInts w vs = .ok b) :
    b.length = w * vs.length := by
  induction vs generalizing b with
  | nil => simp [packInts] at h; subst h; simp
  | cons v vs ih =>
    simp only [packInts] at h
    split at h
    · simp at h
    · rename_i b1 h1
      split at h
      · simp at h
      · rename_i b2 h2
        simp at h; subst h
        simp [packInt_length h1, ih h2, Nat.mul_add]; omega

theorem readInts_packInts {w : Nat} {vs : List Nat} {b : Bytes} (h : packInts w vs = .ok b)
    (rest : Bytes) : readInts w vs.length (b ++ rest) = .ok (vs, rest) := by
  induction vs generalizing b with
  | nil => simp [packInts] at h; subst h; simp [readInts]
  | cons v vs ih =>
    simp only [packInts] at h
    split at h
    · simp at h
    · rename_i b1 h1
      split at h
      · simp at h
      · rename_i b2 h2
        simp at h; subst h
        simp only [List.length_cons, readInts, List.append_assoc, readInt_packInt h1, ih h2]

theorem packInts_readInts {w n : Nat} {bs rest : Bytes} {vs : List Nat}
    (h : readInts w n bs = .ok (vs, rest)) :
    vs.length = n ∧ w * n ≤ bs.length ∧ packInts w vs = .ok (bs.take (w * n)) ∧
      rest = bs.drop (w * n) := by
  induction n generalizing bs vs rest with
  | zero => simp [readInts] at h; obtain ⟨h1, h2⟩ := h; subst h1 h2; simp [packInts]
  | succ n ih =>
    simp only [readInts] at h
    split at h
    · simp at h
    · rename_i v r1 h1
      split at h
      · simp at h
      · rename_i vs' r2 h2
        simp at h; obtain ⟨hv, hr⟩ := h; subst hv hr
        obtain ⟨hp, _⟩ := packInt_readInt h1
        obtain ⟨hl, hlen, hps, hrest⟩ := ih h2
        obtain ⟨hw, _, hr1⟩ := readInt_ok h1
        subst hr1
        have e1 : List.take (w * (n+1)) bs = List.take w bs ++ List.take (w * n) (bs.drop w) := by
          rw [Nat.mul_succ, Nat.add_comm, List.take_add]
        simp at hlen
        refine ⟨by simp [hl], by rw [Nat.mul_succ]; omega, ?_, ?_⟩
        · simp only [packInts, hp, hps, e1]
        · rw [hrest, List.drop_drop, Nat.mul_succ, Nat.add_comm]

theorem readInts_vals_lt {w n : Nat} {bs rest : Bytes} {vs : List Nat}
    (h : readInts w n bs = .ok (vs, rest)) : ∀ v ∈ vs, v < 256 ^ w := by
  induction n generalizing bs vs rest with
  | zero => simp [readInts] at h; obtain ⟨h1, _⟩ := h; subst h1; simp
  | succ n ih =>
    simp only [readInts] at h
    split at h
    · simp at h
    · rename_i v r1 h1
      split at h
      · simp at h
      · rename_i vs' r2 h2
        simp at h; obtain ⟨hv, _⟩ := h; subst hv
        intro x hx
        simp at hx
        rcases hx with rfl | hx
        · exact readInt_val_lt h1
        · exact ih h2 x hx

theorem packRec_length {ws vs : List Nat} {b : Bytes} (h : packRec ws vs = .ok b) :
    b.length = sumList ws ∧ vs.length = ws.length := by
  induction ws generalizing vs b with
  | nil => cases vs <;> simp [packRec] at h; subst h; simp [sumList]
  | cons w ws ih =>
    cases vs with
    | nil => simp [packRec] at h
    | cons v vs =>
      simp only [packRec] at h
      split at h
      · simp at h
      · rename_i b1 h1
        split at h
        · simp at h
        · rename_i b2 h2
          simp at h; subst h
          obtain ⟨l2, l3⟩ := ih h2
          simp [sumList, packInt_length h1, l2, l3]

theorem readRec_packRec {ws vs : List Nat} {b : Bytes} (h : packRec ws vs = .ok b) (rest : Bytes) :
    readRec ws (b ++ rest) = .ok (vs, rest) := by
  induction ws generalizing vs b with
  | nil => cases vs <;> simp [packRec] at h; subst h; simp [readRec]
  | cons w ws ih =>
    cases vs with
    | nil => simp [packRec] at h
    | cons v vs =>
      simp only [packRec] at h
      split at h
      · simp at h
      · rename_i b1 h1
        split at h
        · simp at h
        · rename_i b2 h2
          simp at h; subst h
          simp only [readRec, List.append_assoc, readInt_packInt h1, ih h2]

theorem packRec_readRec {ws : List Nat} {bs rest : Bytes} {vs : List Nat}
    (h : readRec ws bs = .ok (vs, rest)) :
    vs.length = ws.length ∧ sumList ws ≤ bs.length ∧
      packRec ws vs = .ok (bs.take (sumList ws)) ∧ rest = bs.drop (sumList ws) := by
  induction ws generalizing bs vs rest with
  | nil => simp [readRec] at h; obtain ⟨h1, h2⟩ := h; subst h1 h2; simp [packRec, sumList]
  | cons w ws ih =>
    simp only [readRec] at h
    split at h
    · simp at h
    · rename_i v r1 h1
      split at h
      · simp at h
      · rename_i vs' r2 h2
        simp at h; obtain ⟨hv, hr⟩ := h; subst hv hr
        obtain ⟨hp, _⟩ := packInt_readInt h1
        obtain ⟨hl, hlen, hps, hrest⟩ := ih h2
        obtain ⟨hw, _, hr1⟩ := readInt_ok h1
        subst hr1
        have e1 : List.take (sumList (w :: ws)) bs = List.take w bs ++ List.take (sumList ws) (bs.drop w) := by
          simp only [sumList]
          rw [List.take_add]
        simp at hlen
        refine ⟨by simp [hl], by simp only [sumList]; omega, ?_, ?_⟩
        · simp only [packRec, hp, hps, e1]
        · rw [hrest, List.drop_drop]; simp only [sumList]

theorem readRec_vals_lt {ws : List Nat} {bs rest : Bytes} {vs : List Nat}
    (h : readRec ws bs = .ok (vs, rest)) :
    ∀ i (hi : i < vs.length) (hj : i < ws.length), vs[i] < 256 ^ ws[i] := by
  induction ws generalizing bs vs rest with
  | nil => intro i _ hj; simp at hj
  | cons w ws ih =>
    simp only [readRec] at h
    split at h
    · simp at h
    · rename_i v r1 h1
      split at h
      · simp at h
      · rename_i vs' r2 h2
        simp at h; obtain ⟨hv, _⟩ := h; subst hv
        intro i hi hj
        cases i with
        | zero => simpa using readInt_val_lt h1
        | succ i => simpa using ih h2 i (by simpa using hi) (by simpa using hj)

end Richchk
