/-
Helper codecs of the rich layer: bit flags, enumerations, AI-script tags, hit points.
Core Lean only.  The concrete tables (bit positions, enum members, known AI scripts) are
generated from the source; these definitions are parameterised by them.
-/
import RichchkModel.Basic.LE
import RichchkModel.Basic.Err
namespace Richchk

/-! ### bit flags -/

/-- `bool(int("{:0Wb}".format(n)[-(i+1)]))`: bit `i` of `n` -/
def bitAt (n i : Nat) : Bool := (n / 2 ^ i) % 2 == 1

/-- the `k` low bits of `n`, least significant first -/
def bitsOf : Nat → Nat → List Bool
  | 0, _ => []
  | k+1, n => (n % 2 == 1) :: bitsOf k (n / 2)

/-- `int("".join(reversed bits), base=2)` -/
def natOfBits : List Bool → Nat
  | [] => 0
  | b :: bs => b.toNat + 2 * natOfBits bs

/-- one flag field: the rich field it belongs to, the bit index `decode` reads it from
(`bit_string[-(decodeBit+1)]`), and its position (from the least significant end) in the
string `encode` concatenates -/
structure FlagField where
  name : String
  decodeBit : Nat
  encodePos : Nat
  deriving Repr, DecidableEq

structure FlagCodec where
  /-- width of the formatted bit string (`"{:08b}"`, `"{:016b}"`) -/
  width : Nat
  /-- elevation flags store "disabled" bits: the rich value is the negation -/
  inverted : Bool
  fields : List FlagField
  deriving Repr, DecidableEq

def FlagCodec.decode (c : FlagCodec) (n : Nat) : List Bool :=
  c.fields.map fun f => (bitAt n f.decodeBit) != c.inverted

def placeBits : List (Nat × Bool) → Nat
  | [] => 0
  | (p, b) :: rest => b.toNat * 2 ^ p + placeBits rest

def FlagCodec.encode (c : FlagCodec) (vals : List Bool) : Nat :=
  placeBits ((c.fields.map (·.encodePos)).zip (vals.map (· != c.inverted)))

/-- the codec reads field `j` from bit `j` and writes it back to bit `j`, fields contiguous from bit 0,
all inside the formatted width -/
def FlagCodec.OK (c : FlagCodec) : Prop :=
  c.fields.map (·.decodeBit) = List.range c.fields.length ∧
  c.fields.map (·.encodePos) = List.range c.fields.length ∧
  c.fields.length ≤ c.width

instance (c : FlagCodec) : Decidable c.OK := by unfold FlagCodec.OK; infer_instance

/-! ### enumerations -/

structure EnumMember where
  member : String
  id : Nat
  deriving Repr, DecidableEq

/-- `RichChkEnumTranscoder._update_enum_id_map`: iterating the members, a later member with the
same id replaces the earlier one -/
def enumLookup : List EnumMember → Nat → Option EnumMember
  | [], _ => none
  | m :: ms, n =>
    match enumLookup ms n with
    | some x => some x
    | none => if m.id = n then some m else none

/-- `RichChkEnumTranscoder.decode_enum` -/
def decodeEnum (e : List EnumMember) (n : Nat) : R EnumMember :=
  match enumLookup e n with
  | some m => .ok m
  | none => .error .key

/-- `RichChkEnumTranscoder.encode_enum`: `rich_enum.id` -/
def encodeEnum (m : EnumMember) : Nat := m.id

/-! ### AI scripts -/

/-- strict UTF-8 validity, as `bytes.decode("utf-8")` -/
def validUtf8 (bs : Bytes) : Bool := ByteArray.validateUTF8 ⟨bs.toArray⟩

/-- `AiScriptTranscoder.decode`: the u32 as 4 little-endian bytes decoded as UTF-8; the result is
identified with its UTF-8 bytes (trusted: strict UTF-8 decode followed by encode is the identity).
`known` = names of `KnownAiScript`.  Returns (isKnown, name bytes). -/
def decodeAi (known : List Bytes) (v : Nat) : R (Bool × Bytes) :=
  if 256 ^ 4 ≤ v then .error .struct else
  let b := leBytes 4 v
  if validUtf8 b then .ok (known.contains b, b) else .error .unicode

/-- `AiScriptTranscoder.encode`: `struct.unpack("I", name.encode())` needs exactly 4 bytes -/
def encodeAi (name : Bytes) : R Nat :=
  if name.length = 4 then .ok (leVal name) else .error .struct

/-! ### hit points -/

/-- a non-negative decimal hit-point value as an exact fraction `num / den` -/
structure Hp where
  num : Nat
  den : Nat
  deriving Repr, DecidableEq

/-- `Decimal(raw) / Decimal(256)` (exact for raw < 2^32 within the 28-digit context) -/
def decodeHp (raw : Nat) : Hp := ⟨raw, 256⟩

/-- `int(Decimal(hp) * Decimal(256))`: truncation toward zero -/
def encodeHp (h : Hp) : Nat := h.num * 256 / h.den

def Hp.eqv (a b : Hp) : Prop := a.num * b.den = b.num * a.den

end Richchk
