/-
The four slot editors as instances of the generic allocator.  A table entry is
(slot, key) where `key` stands for the object's content (its equality class); a batch item
is (carried index?, key), listed in the iteration order of the set the code builds.
-/
import RichchkModel.Model.Alloc
namespace Richchk

abbrev Entry := Nat × Nat            -- (slot, content key)
abbrev Item := Option Nat × Nat      -- (carried index, content key)

def itemReq (it : Item) : Req := match it.1 with | some i => .carry i | none => .fresh

/-- stable partition: index-carrying items first -/
def placementOrder (batch : List Item) : List Item :=
  batch.filter (fun it => it.1.isSome) ++ batch.filter (fun it => it.1.isNone)

/-- entries appended to the table: one per placed request, in placement order -/
def appended : List Item → List Res → List Entry
  | it :: its, .placed s :: rs => (s, it.2) :: appended its rs
  | _ :: its, .skipped :: rs => appended its rs
  | _, _ => []

/-- `RichMrgnEditor.add_locations`: returns the new location list (slot, key) -/
def mrgnAdd (cfg : AllocCfg) (table : List Entry) (batch : List Item) : R (List Entry) :=
  let order := placementOrder batch
  match allocate cfg (table.map (·.1)) (order.map itemReq) with
  | .error e => .error e
  | .ok (ress, _) => .ok (table ++ appended order ress)

/-- `RichUprpEditor.add_cuwp_slots`: an index-less item equal to a stored one needs no slot -/
def uprpAdd (cfg : AllocCfg) (table : List Entry) (batch : List Item) : R (List Entry) :=
  let need := batch.filter fun it => it.1.isSome || !(table.map (·.2)).contains it.2
  let order := placementOrder need
  match allocate cfg (table.map (·.1)) (order.map itemReq) with
  | .error e => .error e
  | .ok (ress, _) => .ok (table ++ appended order ress)

/-- paths of the request that need a slot: not in the table, first occurrence only -/
def wavNew : List Nat → List Nat → List Nat
  | [], _ => []
  | p :: ps, seen => if seen.contains p then wavNew ps seen else p :: wavNew ps (p :: seen)

/-- `RichWavEditor.add_wav_files` -/
def wavAdd (cfg : AllocCfg) (table : List Entry) (paths : List Nat) : R (List Entry) :=
  let fresh := wavNew paths (table.map (·.2))
  match allocate cfg (table.map (·.1)) (fresh.map fun _ => Req.fresh) with
  | .error e => .error e
  | .ok (ress, _) => .ok (table ++ appended (fresh.map fun p => (none, p)) ress)

/-- `RichSwnmRebuilder`: all used switches (iteration order); carried indices are excluded from
the free list up front and written in place; the others take free ids in iteration order.
Returns (slot, key) for every used switch. -/
def swnmRebuild (cfg : AllocCfg) (used : List Item) : R (List Entry) :=
  let carried := used.filterMap (·.1)
  if carried.any (fun i => cfg.hi < i) then .error .index else
  let freshItems := used.filter (fun it => it.1.isNone)
  match allocate cfg carried (freshItems.map fun _ => Req.fresh) with
  | .error e => .error e
  | .ok (ress, _) =>
    .ok ((used.filterMap fun it => it.1.map fun i => (i, it.2)) ++ appended freshItems ress)

end Richchk
