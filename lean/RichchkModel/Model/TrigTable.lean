/-
Field <-> argument tables of the trigger action / condition transcoders, and the generic
(table-driven) reading of "which record field holds which argument".
-/
namespace Richchk

/-- rich argument `arg` is read from record field `field` through `codec` -/
structure DecEntry where
  arg : String
  /-- num | enum | loc | loc! | str | switch | cuwp | ai -/
  codec : String
  /-- enum class for `enum`, "value" for a string read as plain text -/
  detail : String
  field : String
  deriving Repr, DecidableEq

/-- record field `field` is written as zero / the type byte / rich argument `arg` through `codec` -/
structure EncEntry where
  field : String
  codec : String
  arg : String
  deriving Repr, DecidableEq

structure TrigRow where
  id : Nat
  model : String
  member : String
  decode : List DecEntry
  encode : List EncEntry
  assertsType : Bool
  /-- dataclass field order of the rich model class (the order the string / location / switch /
  unit-property walkers visit the arguments) -/
  fieldOrder : List String := []
  /-- arguments in the order `_decode` evaluates them (local-variable lookups and their
  assertions first, then the constructor's keyword arguments) -/
  decOrder : List String := []
  /-- record fields in the order `_encode` evaluates them -/
  encOrder : List String := []
  deriving Repr, DecidableEq

/-- the record `_encode` builds, with argument values supplied by `argVal` (codec images) -/
def TrigRow.encodeFields (r : TrigRow) (argVal : String → Nat) : List (String × Nat) :=
  r.encode.map fun e =>
    (e.field, if e.codec = "zero" then 0 else if e.codec = "typebyte" then r.id else argVal e.arg)

/-- the arguments `_decode` extracts from a record given by `fieldVal` -/
def TrigRow.decodeArgs (r : TrigRow) (fieldVal : String → Nat) : List (String × Nat) :=
  r.decode.map fun d => (d.arg, fieldVal d.field)

def assocGet (l : List (String × Nat)) (k : String) : Nat := (l.lookup k).getD 0

/-- specification row: the type's number, its name, and for each argument the field the
Scenario.chk specification assigns to it -/
structure SpecRow where
  id : Nat
  member : String
  args : List (String × String)   -- (argument, record field)
  deriving Repr, DecidableEq

/-- decidable well-formedness + agreement of a generated row with its specification row.
`typeField` = "_action_id" / "_condition_id", `allFields` = the record's fields. -/
def rowAgrees (typeField : String) (allFields : List String) (r : TrigRow) (s : SpecRow) : Bool :=
  -- the type byte is the type's own number, under the specification's name
  r.id == s.id && r.member == s.member && r.assertsType &&
  -- every argument is READ from exactly the field the specification assigns to it
  (r.decode.map fun d => (d.arg, d.field)) == s.args &&
  -- no two arguments share a field
  (s.args.map (·.2)).eraseDups.length == s.args.length &&
  (s.args.map (·.1)).eraseDups.length == s.args.length &&
  -- every record field is written exactly once (keyword order is irrelevant)
  r.encode.length == allFields.length &&
  allFields.all (fun f => (r.encode.filter (·.field == f)).length == 1) &&
  -- the type byte goes to the type field and nowhere else
  r.encode.all (fun e => (e.codec == "typebyte") == (e.field == typeField)) &&
  -- every argument is WRITTEN to exactly the field it is read from, through the same codec,
  -- and every other field (except the type byte) is written as zero
  r.encode.all (fun e =>
    if e.codec == "zero" || e.codec == "typebyte" then !(s.args.map (·.2)).contains e.field
    else r.decode.any (fun d => d.arg == e.arg && d.field == e.field &&
      (d.codec == e.codec || (d.codec == "num" && e.codec == "wavdur")))) &&
  s.args.all (fun a => r.encode.any (fun e => e.field == a.2 && e.arg == a.1))

def tableAgrees (typeField : String) (allFields : List String) :
    List TrigRow → List SpecRow → Bool
  | [], [] => true
  | r :: rs, s :: ss => rowAgrees typeField allFields r s && tableAgrees typeField allFields rs ss
  | _, _ => false

end Richchk
