/-
Decoded-section layer: layouts (supplied by the translator from the byte transcoders),
decoded values, and the model of each transcoder's `decode` / `_encode`.
-/
import RichchkModel.Model.Wire
namespace Richchk

structure ArrField where
  name : String
  width : Nat
  count : Nat
  deriving Repr, DecidableEq

structure RecField where
  name : String
  width : Nat
  deriving Repr, DecidableEq

/-- shape of a section payload, as read off the transcoder source -/
inductive SecLayout
  /-- consecutive fixed arrays (UNIS, UNIx, UPUS, SWNM, WAV); decode ignores trailing bytes -/
  | arrays (fs : List ArrField)
  /-- records repeated until the payload ends (MRGN) -/
  | recsEof (fs : List RecField)
  /-- exactly `n` records, trailing bytes ignored on decode; encode writes every record given (UPRP) -/
  | recsN (n : Nat) (fs : List RecField)
  /-- TRIG: chunks of `trigSize` bytes, each `nc` condition records, `na` action records,
      exec flags (`ew` bytes), `np` player bytes of width `pw`, current action index (`cw`) -/
  | trig (cf af : List RecField) (nc na ew np pw cw trigSize : Nat)
  /-- STR (`w = 2`) / STRx (`w = 4`) -/
  | str (w : Nat)
  deriving Repr, DecidableEq

structure Trigger where
  conds : List (List Nat)
  acts : List (List Nat)
  execFlags : Nat
  players : List Nat
  cur : Nat
  deriving Repr, DecidableEq

inductive SecVal
  | arrays (vs : List (List Nat))
  | recs (rs : List (List Nat))
  | trigs (ts : List Trigger)
  | str (n : Nat) (offs : List Nat) (strs : List Bytes)
  deriving Repr, DecidableEq

def widths (fs : List RecField) : List Nat := fs.map (·.width)
def recSize (fs : List RecField) : Nat := sumList (widths fs)
def arraysSize : List ArrField → Nat
  | [] => 0
  | f :: fs => f.width * f.count + arraysSize fs

/-! ### arrays -/

def readArrays : List ArrField → Bytes → R (List (List Nat) × Bytes)
  | [], bs => .ok ([], bs)
  | f :: fs, bs =>
    match readInts f.width f.count bs with
    | .error e => .error e
    | .ok (v, rest) =>
      match readArrays fs rest with
      | .error e => .error e
      | .ok (vs, rest') => .ok (v :: vs, rest')

/-- `struct.pack("{count}W", *values)`: wrong item count or out-of-range item ⇒ `struct.error` -/
def packArrays : List ArrField → List (List Nat) → R Bytes
  | [], [] => .ok []
  | f :: fs, v :: vs =>
    if v.length ≠ f.count then .error .struct else
    match packInts f.width v with
    | .error e => .error e
    | .ok b =>
      match packArrays fs vs with
      | .error e => .error e
      | .ok bs => .ok (b ++ bs)
  | _, _ => .error .type

/-! ### records -/

def readRecs (ws : List Nat) : Nat → Bytes → R (List (List Nat) × Bytes)
  | 0, bs => .ok ([], bs)
  | n+1, bs =>
    match readRec ws bs with
    | .error e => .error e
    | .ok (v, rest) =>
      match readRecs ws n rest with
      | .error e => .error e
      | .ok (vs, rest') => .ok (v :: vs, rest')

def packRecs (ws : List Nat) : List (List Nat) → R Bytes
  | [] => .ok []
  | v :: vs =>
    match packRec ws v with
    | .error e => .error e
    | .ok b =>
      match packRecs ws vs with
      | .error e => .error e
      | .ok bs => .ok (b ++ bs)

/-- `while stream.tell() != len(data): read one record`.  A zero-size record would make the
Python loop spin forever; the model reports `other` for that (excluded by the instantiation
obligation `0 < recSize`). -/
def readRecsEof (ws : List Nat) (bs : Bytes) : R (List (List Nat)) :=
  if hz : sumList ws = 0 then .error .other else
  if hb : bs = [] then .ok [] else
  match h : readRec ws bs with
  | .error e => .error e
  | .ok (v, rest) =>
    have : rest.length < bs.length := by
      obtain ⟨_, hlen, _, hr⟩ := packRec_readRec h
      subst hr; simp; omega
    match readRecsEof ws rest with
    | .error e => .error e
    | .ok vs => .ok (v :: vs)
termination_by bs.length

/-! ### triggers -/

def readTrigger (cw aw : List Nat) (nc na ew np pw cw' : Nat) (bs : Bytes) : R Trigger :=
  match readRecs cw nc bs with
  | .error e => .error e
  | .ok (conds, r1) =>
  match readRecs aw na r1 with
  | .error e => .error e
  | .ok (acts, r2) =>
  match readInt ew r2 with
  | .error e => .error e
  | .ok (ef, r3) =>
  match readInts pw np r3 with
  | .error e => .error e
  | .ok (players, r4) =>
  match readInt cw' r4 with
  | .error e => .error e
  | .ok (cur, _) => .ok ⟨conds, acts, ef, players, cur⟩

def packTrigger (cw aw : List Nat) (ew pw cw' : Nat) (t : Trigger) : R Bytes :=
  match packRecs cw t.conds with
  | .error e => .error e
  | .ok b1 =>
  match packRecs aw t.acts with
  | .error e => .error e
  | .ok b2 =>
  match packInt ew t.execFlags with
  | .error e => .error e
  | .ok b3 =>
  match packInts pw t.players with
  | .error e => .error e
  | .ok b4 =>
  match packInt cw' t.cur with
  | .error e => .error e
  | .ok b5 => .ok (b1 ++ b2 ++ b3 ++ b4 ++ b5)

def packTriggers (cw aw : List Nat) (ew pw cw' : Nat) : List Trigger → R Bytes
  | [] => .ok []
  | t :: ts =>
    match packTrigger cw aw ew pw cw' t with
    | .error e => .error e
    | .ok b =>
      match packTriggers cw aw ew pw cw' ts with
      | .error e => .error e
      | .ok bs => .ok (b ++ bs)

/-- `while tell() != len: decode_single_trigger(stream.read(trigSize))` -/
def readTriggers (cw aw : List Nat) (nc na ew np pw cw' trigSize : Nat) (bs : Bytes) :
    R (List Trigger) :=
  if hz : trigSize = 0 then .error .other else
  if hb : bs = [] then .ok [] else
  match readTrigger cw aw nc na ew np pw cw' (bs.take trigSize) with
  | .error e => .error e
  | .ok t =>
    have : (bs.drop trigSize).length < bs.length := by
      have : 0 < bs.length := List.length_pos_iff.mpr hb
      simp; omega
    match readTriggers cw aw nc na ew np pw cw' trigSize (bs.drop trigSize) with
    | .error e => .error e
    | .ok ts => .ok (t :: ts)
termination_by bs.length

/-! ### strings -/

/-- The STR string loop: bytes are decoded one at a time as UTF-8 (so only 7-bit bytes are
accepted), strings end at NUL, data must end exactly after a NUL. -/
def splitStrings : Bytes → R (List Bytes)
  | [] => .ok []
  | b :: bs =>
    if 128 ≤ b.toNat then .error .unicode else
    match splitStrings bs with
    | .error e => .error e
    | .ok ss =>
      if b = 0 then .ok ([] :: ss) else
      match ss with
      | [] => .error .struct
      | s :: ss' => .ok ((b :: s) :: ss')

def joinStrings : List Bytes → Bytes
  | [] => []
  | s :: ss => s ++ (0 : UInt8) :: joinStrings ss

def decodeStr (w : Nat) (bs : Bytes) : R SecVal :=
  match readInt w bs with
  | .error e => .error e
  | .ok (n, r1) =>
  match readInts w n r1 with
  | .error e => .error e
  | .ok (offs, r2) =>
  match splitStrings r2 with
  | .error e => .error e
  | .ok strs => .ok (.str n offs strs)

/-- `_encode`: `pack(n)`, `for i in range(n): pack(offsets[i])` (extra offsets are ignored,
missing ones raise IndexError), then every string followed by NUL. -/
def encodeStr (w n : Nat) (offs : List Nat) (strs : List Bytes) : R Bytes :=
  match packInt w n with
  | .error e => .error e
  | .ok h =>
  match packInts w (offs.take n) with
  | .error e => .error e
  | .ok o =>
  if offs.length < n then .error .index else
  .ok (h ++ o ++ joinStrings strs)

/-! ### section dispatch -/

def decodeSection (L : SecLayout) (p : Bytes) : R SecVal :=
  match L with
  | .arrays fs =>
    match readArrays fs p with
    | .error e => .error e
    | .ok (vs, _) => .ok (.arrays vs)
  | .recsEof fs =>
    match readRecsEof (widths fs) p with
    | .error e => .error e
    | .ok rs => .ok (.recs rs)
  | .recsN n fs =>
    match readRecs (widths fs) n p with
    | .error e => .error e
    | .ok (rs, _) => .ok (.recs rs)
  | .trig cf af nc na ew np pw cw ts =>
    match readTriggers (widths cf) (widths af) nc na ew np pw cw ts p with
    | .error e => .error e
    | .ok ts => .ok (.trigs ts)
  | .str w => decodeStr w p

def encodeSection (L : SecLayout) (v : SecVal) : R Bytes :=
  match L, v with
  | .arrays fs, .arrays vs => packArrays fs vs
  | .recsEof fs, .recs rs => packRecs (widths fs) rs
  | .recsN _ fs, .recs rs => packRecs (widths fs) rs
  | .trig cf af _ _ ew _ pw cw _, .trigs ts => packTriggers (widths cf) (widths af) ew pw cw ts
  | .str w, .str n offs strs => encodeStr w n offs strs
  | _, _ => .error .type

end Richchk
