/-
String-table growth: `DecodedStrSectionEditor.add_strings_to_str_section` /
`DecodedStrxSectionEditor.add_strings_to_strx_section` (w = 2 / 4),
`DecodedStrxSectionGenerator.generate_strx_from_str`, and id -> text resolution
(`RichStrLookupBuilder.get_rich_string_by_offset`).
-/
import RichchkModel.Model.Section
namespace Richchk

structure StrTable where
  w : Nat
  n : Nat
  offs : List Nat
  strs : List Bytes
  deriving Repr, DecidableEq

def StrTable.payload (t : StrTable) : R Bytes := encodeStr t.w t.n t.offs t.strs

/-- `get_rich_string_by_offset`: the bytes from position `p` up to the next NUL; `none` when the
scan leaves the data (IndexError) or meets a byte that is not 7-bit (UnicodeDecodeError) -/
def cstrAt : Bytes → Nat → Option Bytes
  | [], _ => none
  | b :: bs, 0 =>
    if b = 0 then some []
    else if 128 ≤ b.toNat then none
    else (cstrAt bs 0).map (b :: ·)
  | _ :: bs, p+1 => cstrAt bs p

/-- text of string id `id` (1-based) read independently from the section bytes -/
def resolveId (t : StrTable) (id : Nat) : Option Bytes :=
  match t.payload with
  | .error _ => none
  | .ok p =>
    if id = 0 then none else
    match t.offs[id - 1]? with
    | none => none
    | some o => cstrAt p o

/-- `_find_strings_resolvable_by_id` -/
def resolvableTexts (t : StrTable) : R (List Bytes) :=
  match t.payload with
  | .error e => .error e
  | .ok p => .ok (t.offs.filterMap fun o => if o < p.length then cstrAt p o else none)

/-- `_make_strings_to_add_unique`: requests not already resolvable, first occurrences, in order -/
def dedupNew : List Bytes → List Bytes → List Bytes
  | [], _ => []
  | s :: rest, seen => if seen.contains s then dedupNew rest seen else s :: dedupNew rest (s :: seen)

def newOffsets : Nat → List Bytes → List Nat
  | _, [] => []
  | o, s :: ss => o :: newOffsets (o + s.length + 1) ss

def addStrings (req : List Bytes) (t : StrTable) : R StrTable :=
  match resolvableTexts t with
  | .error e => .error e
  | .ok ex =>
    let uniq := dedupNew req ex
    if uniq.isEmpty then .ok t else
    let newN := t.n + uniq.length
    let inc := uniq.length * t.w
    let first := t.w + t.w * newN + (joinStrings t.strs).length
    .ok ⟨t.w, newN, t.offs.map (· + inc) ++ newOffsets first uniq, t.strs ++ uniq⟩

/-- `generate_strx_from_str` -/
def toStrx (t : StrTable) : StrTable :=
  ⟨4, t.n, t.offs.map (· + (2 + t.offs.length * 2)), t.strs⟩

end Richchk
