/-
The rich layer: `RichChkIo.decode_chk` / `RichChkIo.encode_chk` and everything they call
(rich section transcoders, lookups, rebuilders), parameterised by the generated tables.
Hand model, tied to the code by the `cycle` / `edit` correspondence ops.
-/
import RichchkModel.Model.Chunk
import RichchkModel.Model.StrEdit
import RichchkModel.Model.Codecs
import RichchkModel.Model.TrigTable
import RichchkModel.Model.Editors
namespace Richchk

/-- `RichNullString()` vs `RichString(text)` (the empty text is NOT the null string) -/
inductive RStr
  | null
  | text (b : Bytes)
  deriving Repr, DecidableEq

def RStr.value : RStr → Bytes
  | .null => []
  | .text b => b

structure RLoc where
  x1 : Nat
  y1 : Nat
  x2 : Nat
  y2 : Nat
  name : RStr
  idx : Option Nat
  /-- low, medium, high ground, low, medium, high air: `true` = enabled -/
  el : List Bool
  /-- object identity, used for equality while `idx` is `none` -/
  uid : Nat
  deriving Repr, DecidableEq

/-- `RichLocation.__eq__`: all fields when both are indexed, identity otherwise -/
def RLoc.same (a b : RLoc) : Bool :=
  match a.idx, b.idx with
  | some _, some _ => a.x1 == b.x1 && a.y1 == b.y1 && a.x2 == b.x2 && a.y2 == b.y2 &&
      a.name == b.name && a.idx == b.idx && a.el == b.el
  | _, _ => a.uid == b.uid

structure RSwitch where
  name : RStr
  idx : Option Nat
  uid : Nat
  deriving Repr, DecidableEq

def RStr.isNullOrEmpty : RStr → Bool
  | .null => true
  | .text b => b.isEmpty

/-- set/dict identity of a `RichSwitch` (its `__hash__` key): (name text, index), or the object
itself when it has neither a name nor an index -/
def RSwitch.same (a b : RSwitch) : Bool :=
  if (a.idx.isNone && a.name.isNullOrEmpty) || (b.idx.isNone && b.name.isNullOrEmpty) then a.uid == b.uid
  else a.name.value == b.name.value && a.idx == b.idx

structure RCuwp where
  hp : Nat
  sp : Nat
  ep : Nat
  res : Nat
  hangar : Nat
  /-- cloaked, burrowed, in transit, hallucinated, invincible -/
  flags : List Bool
  validSpecial : List Bool
  validUnit : List Bool
  unknownFlag : Bool
  padding : Nat
  idx : Option Nat
  deriving Repr, DecidableEq

/-- `RichCuwpSlot.__eq__` / `__hash__`: every field except the index -/
def RCuwp.key (c : RCuwp) : RCuwp := { c with idx := none }

structure RWav where
  path : RStr
  idx : Nat
  deriving Repr, DecidableEq

structure RUnit where
  unit : Nat
  hp : Hp
  shield : Nat
  armor : Nat
  build : Nat
  mineral : Nat
  gas : Nat
  name : RStr
  /-- (weapon id, base damage, upgrade damage) -/
  weapons : List (Nat × Nat × Nat)
  useDefault : Bool
  deriving Repr, DecidableEq

inductive RVal
  | num (n : Nat)
  | enumv (id : Nat)
  | loc (l : RLoc)
  | str (s : RStr)
  | text (b : Bytes)            -- a plain Python `str` argument (PlayWav path)
  | sw (s : RSwitch)
  | cuwp (c : RCuwp)
  | ai (name : Bytes)
  | optNum (n : Option Nat)     -- PlayWav duration
  deriving Repr, DecidableEq

inductive REntry
  | raw (rec : List Nat)
  | rich (id : Nat) (args : List (String × RVal)) (flags : List Bool)
  deriving Repr, DecidableEq

structure RTrigger where
  conds : List REntry
  acts : List REntry
  /-- ids of the players the trigger runs for (a set) -/
  players : List Nat
  deriving Repr, DecidableEq

inductive RSection
  | pass (s : DSection)
  | mrgn (ls : List RLoc)
  | trig (ts : List RTrigger)
  | unis (ext : Bool) (us : List RUnit)
  | uprp (cs : List RCuwp)
  | swnm (ss : List RSwitch)
  | wav (ws : List RWav)
  deriving Repr, DecidableEq

/-- everything generated that the rich layer depends on -/
structure RichCfg where
  decTable : SecTable
  actionRows : List TrigRow
  condRows : List TrigRow
  actionFields : List String
  condFields : List String
  enums : List (String × List EnumMember)
  flagCodecs : List (String × FlagCodec)
  unitWeapons : List (Nat × List Nat)
  knownAi : List Bytes
  mrgnCfg : AllocCfg
  uprpCfg : AllocCfg
  swnmCfg : AllocCfg
  mrgnSlots : Nat
  cuwpSlots : Nat
  wavSlots : Nat
  switchSlots : Nat
  nConds : Nat
  nActs : Nat
  nUnits : Nat

def nSTR : Bytes := [83, 84, 82, 32]
def nMRGN : Bytes := [77, 82, 71, 78]
def nTRIG : Bytes := [84, 82, 73, 71]
def nUNIS : Bytes := [85, 78, 73, 83]
def nUNIx : Bytes := [85, 78, 73, 120]
def nUPRP : Bytes := [85, 80, 82, 80]
def nUPUS : Bytes := [85, 80, 85, 83]
def nSWNM : Bytes := [83, 87, 78, 77]
def nWAV : Bytes := [87, 65, 86, 32]

def RichCfg.enumOf (c : RichCfg) (name : String) : List EnumMember := (c.enums.lookup name).getD []
def RichCfg.flagsOf (c : RichCfg) (name : String) : FlagCodec := (c.flagCodecs.lookup name).getD ⟨0, false, []⟩

/-! ### strings -/

/-- `get_rich_string_by_offset` with its two failure modes -/
def cstrAtR : Bytes → Nat → R Bytes
  | [], _ => .error .index
  | b :: bs, 0 =>
    if 128 ≤ b.toNat then .error .unicode
    else if b = 0 then .ok []
    else match cstrAtR bs 0 with
      | .error e => .error e
      | .ok s => .ok (b :: s)
  | _ :: bs, p+1 => cstrAtR bs p

def mapR {α β} (f : α → R β) : List α → R (List β)
  | [] => .ok []
  | x :: xs => match f x with
    | .error e => .error e
    | .ok y => match mapR f xs with
      | .error e => .error e
      | .ok ys => .ok (y :: ys)

/-- `RichStrLookupBuilder.build_lookup`: text of id `i+1` at position `i` (every offset listed) -/
def strTexts (w n : Nat) (offs : List Nat) (strs : List Bytes) : R (List Bytes) :=
  match encodeStr w n offs strs with
  | .error e => .error e
  | .ok p => mapR (cstrAtR p) offs

/-- `get_string_by_id`: missing ids (and 0) give the null string -/
def strById (texts : List Bytes) (id : Nat) : RStr :=
  if id = 0 then .null else match texts[id - 1]? with
    | some t => .text t
    | none => .null

def lastIndexOf (texts : List Bytes) (t : Bytes) : Option Nat :=
  let rec go : List Bytes → Nat → Option Nat → Option Nat
    | [], _, acc => acc
    | x :: xs, i, acc => go xs (i + 1) (if x = t then some i else acc)
  go texts 0 none

/-- `get_id_by_string`: 0 for the null string, else the LAST id holding that text (KeyError if none) -/
def idByStr (texts : List Bytes) : RStr → R Nat
  | .null => .ok 0
  | .text t => match lastIndexOf texts t with
    | some i => .ok (i + 1)
    | none => .error .key

/-! ### records <-> named fields -/

def fieldOf (names : List String) (rec : List Nat) (f : String) : Nat :=
  match names.idxOf? f with
  | some i => rec.getD i 0
  | none => 0

def findRow (rows : List TrigRow) (id : Nat) : Option TrigRow := rows.find? (·.id = id)

/-! ### decode context -/

structure DecCtx where
  texts : List Bytes
  locs : List RLoc
  switches : Option (List RSwitch)
  cuwps : List RCuwp

def locById (ctx : DecCtx) (id : Nat) : Option RLoc :=
  -- dict built in list order: a later location with the same index wins
  (ctx.locs.reverse.find? (fun l => l.idx == some id))

def elevationDecode (cfg : RichCfg) (n : Nat) : List Bool := (cfg.flagsOf "mrgn_elevation").decode n
def elevationEncode (cfg : RichCfg) (bs : List Bool) : Nat := (cfg.flagsOf "mrgn_elevation").encode bs

def decodeMrgn (cfg : RichCfg) (texts : List Bytes) (recs : List (List Nat)) : List RLoc :=
  let rec go : List (List Nat) → Nat → List RLoc
    | [], _ => []
    | r :: rs, i =>
      if r.all (· == 0) then go rs (i + 1)
      else ⟨r.getD 0 0, r.getD 1 0, r.getD 2 0, r.getD 3 0, strById texts (r.getD 4 0), some (i + 1),
            elevationDecode cfg (r.getD 5 0), 0⟩ :: go rs (i + 1)
  go recs 0

def decodeCuwp (cfg : RichCfg) (r : List Nat) (i : Nat) : RCuwp :=
  let vs := (cfg.flagsOf "cuwp_valid_special").decode (r.getD 0 0)
  let vu := (cfg.flagsOf "cuwp_valid_unit").decode (r.getD 1 0)
  let uf := (cfg.flagsOf "cuwp_unit").decode (r.getD 8 0)
  ⟨r.getD 3 0, r.getD 4 0, r.getD 5 0, r.getD 6 0, r.getD 7 0, uf.take 5, vs, vu, uf.getD 5 false,
   r.getD 9 0, some (i + 1)⟩

/-- a unit-property record is a placeholder when every field the rich layer keeps is zero (the owner
byte, field 2, is not kept: it is always written as 0) -/
def cuwpRecUnused (r : List Nat) : Bool := (r.set 2 0).all (· == 0)

def decodeUprp (cfg : RichCfg) (recs : List (List Nat)) : List RCuwp :=
  let rec go : List (List Nat) → Nat → List RCuwp
    | [], _ => []
    | r :: rs, i => if cuwpRecUnused r then go rs (i + 1) else decodeCuwp cfg r i :: go rs (i + 1)
  go recs 0

def cuwpById (ctx : DecCtx) (id : Nat) : Option RCuwp := ctx.cuwps.reverse.find? (fun c => c.idx == some id)

def switchById (ctx : DecCtx) (id : Nat) : Option RSwitch :=
  match ctx.switches with
  | none => none
  | some ss => ss[id]?

/-! ### trigger entries -/

def decodeArg (cfg : RichCfg) (ctx : DecCtx) (d : DecEntry) (v : Nat) : R RVal :=
  match d.codec with
  | "num" => .ok (.num v)
  | "enum" => match decodeEnum (cfg.enumOf d.detail) v with
    | .ok m => .ok (.enumv m.id)
    | .error e => .error e
  | "loc" => match (if v = 0 then none else locById ctx v) with
    | some l => .ok (.loc l)
    | none => .error .assert
  | "loc!" => match (if v = 0 then none else locById ctx v) with
    | some l => .ok (.loc l)
    | none => .error .value
  | "str" => if d.detail = "value" then .ok (.text (strById ctx.texts v).value) else .ok (.str (strById ctx.texts v))
  | "switch" => match switchById ctx v with
    | some s => .ok (.sw s)
    | none => .ok (.sw ⟨.null, some v, 0⟩)
  | "cuwp" => match cuwpById ctx v with
    | some c => .ok (.cuwp c)
    | none => .error .assert
  | "ai" => match decodeAi cfg.knownAi v with
    | .ok (_, name) => .ok (.ai name)
    | .error e => .error e
  | _ => .error .other

/-- arguments are evaluated in `decOrder`; the result lists them in constructor (decode) order -/
def decodeEntry (cfg : RichCfg) (ctx : DecCtx) (names : List String) (flagCodec : String)
    (row : TrigRow) (rec : List Nat) : R REntry :=
  let evalOne (a : String) : R (String × RVal) :=
    match row.decode.find? (·.arg = a) with
    | none => .error .other
    | some d => match decodeArg cfg ctx d (fieldOf names rec d.field) with
      | .error e => .error e
      | .ok v => .ok (a, v)
  match mapR evalOne row.decOrder with
  | .error e => .error e
  | .ok vals =>
    let args := row.decode.filterMap fun d => (vals.lookup d.arg).map fun v => (d.arg, v)
    .ok (.rich row.id args ((cfg.flagsOf flagCodec).decode (fieldOf names rec "_flags")))

def decodeEntries (cfg : RichCfg) (ctx : DecCtx) (rows : List TrigRow) (names : List String)
    (idField enumName flagCodec : String) (recs : List (List Nat)) : R (List REntry) :=
  match recs with
  | [] => .ok []
  | r :: rs =>
    let id := fieldOf names r idField
    let rest := decodeEntries cfg ctx rows names idField enumName flagCodec rs
    match enumLookup (cfg.enumOf enumName) id with
    | none =>  -- number outside the enumeration: kept raw
      match rest with
      | .error e => .error e
      | .ok es => .ok (.raw r :: es)
    | some _ =>
      if id = 0 then rest   -- NO_ACTION / NO_CONDITION entries are dropped
      else match findRow rows id with
        | none => match rest with   -- in the enumeration, no transcoder: kept raw
          | .error e => .error e
          | .ok es => .ok (.raw r :: es)
        | some row =>
          match decodeEntry cfg ctx names flagCodec row r with
          | .error e => .error e
          | .ok en => match rest with
            | .error e => .error e
            | .ok es => .ok (en :: es)

def decodeTrigger (cfg : RichCfg) (ctx : DecCtx) (t : Trigger) : R RTrigger :=
  match decodeEntries cfg ctx cfg.condRows cfg.condFields "_condition_id" "TriggerConditionId" "trigger_condition" t.conds with
  | .error e => .error e
  | .ok cs =>
  match decodeEntries cfg ctx cfg.actionRows cfg.actionFields "_action_id" "TriggerActionId" "trigger_action" t.acts with
  | .error e => .error e
  | .ok as =>
    if t.execFlags ≠ 0 then .error .value
    else if t.cur ≠ 0 then .error .value
    else
      -- enumerate(player_flags): every position must be a PlayerId
      let ids := List.range t.players.length
      if ids.any (fun i => (enumLookup (cfg.enumOf "PlayerId") i).isNone) then .error .value
      else .ok ⟨cs, as, ids.filter (fun i => t.players.getD i 0 ≠ 0)⟩

/-! ### units -/

def weaponsOf (cfg : RichCfg) (u : Nat) : List Nat := (cfg.unitWeapons.lookup u).getD []

def decodeUnits (cfg : RichCfg) (texts : List Bytes) (a : List (List Nat)) : R (List RUnit) :=
  let flags := a.getD 0 []
  let col (k : Nat) (i : Nat) : Nat := (a.getD k []).getD i 0
  let dmg := a.getD 8 []
  let upg := a.getD 9 []
  let mk (i : Nat) : R RUnit :=
    match enumLookup (cfg.enumOf "UnitId") i with
    | none => .error .key
    | some _ =>
      let ws := (weaponsOf cfg i).filterMap fun w =>
        if w < dmg.length then some (w, dmg.getD w 0, upg.getD w 0) else none
      .ok ⟨i, decodeHp (col 1 i), col 2 i, col 3 i, col 4 i, col 5 i, col 6 i, strById texts (col 7 i), ws,
           flags.getD i 0 ≠ 0⟩
  match mapR mk (List.range flags.length) with
  | .error e => .error e
  | .ok us => .ok (us.filter fun u =>
      !(u.useDefault && u.hp.num == 0 && u.shield == 0 && u.armor == 0 && u.mineral == 0 && u.gas == 0 &&
        u.build == 0 && u.name == .null && u.weapons.all (fun w => w.2.1 == 0 && w.2.2 == 0)))

/-- the sound entries of a WAV id table: slot `i` holds a sound iff its string id is not 0 -/
def decodeWavIds (texts : List Bytes) (ids : List Nat) : List RWav :=
  (List.range ids.length).filterMap fun i =>
    if ids.getD i 0 ≠ 0 then some ⟨strById texts (ids.getD i 0), i⟩ else none

/-! ### richDecode -/

def sectionsNamed (secs : List DSection) (name : Bytes) : List SecVal :=
  secs.filterMap fun s => match s with
    | .known n v => if n = name then some v else none
    | .unknown _ _ => none

def buildDecCtx (cfg : RichCfg) (secs : List DSection) : R DecCtx :=
  match sectionsNamed secs nSTR with
  | [.str n offs strs] =>
    match strTexts 2 n offs strs with
    | .error e => .error e
    | .ok texts =>
      match sectionsNamed secs nMRGN with
      | [.recs mr] =>
        let locs := decodeMrgn cfg texts mr
        let switches : Option (List RSwitch) :=
          match sectionsNamed secs nSWNM with
          | [.arrays [ids]] => some ((List.range ids.length).map fun i => ⟨strById texts (ids.getD i 0), some i, 0⟩)
          | _ => none
        let cuwps : List RCuwp :=
          match sectionsNamed secs nUPRP with
          | [.recs ur] => decodeUprp cfg ur
          | _ => []
        .ok ⟨texts, locs, switches, cuwps⟩
      | _ => .error .value
  | _ => .error .value

def richDecodeSection (cfg : RichCfg) (ctx : DecCtx) : DSection → R RSection
  | .unknown n p => .ok (.pass (.unknown n p))
  | .known n v =>
    if n = nMRGN then match v with
      | .recs mr => .ok (.mrgn (decodeMrgn cfg ctx.texts mr))
      | _ => .error .type
    else if n = nTRIG then match v with
      | .trigs ts => match mapR (decodeTrigger cfg ctx) ts with
        | .error e => .error e
        | .ok rts => .ok (.trig rts)
      | _ => .error .type
    else if n = nUNIS ∨ n = nUNIx then match v with
      | .arrays a => match decodeUnits cfg ctx.texts a with
        | .error e => .error e
        | .ok us => .ok (.unis (n = nUNIx) us)
      | _ => .error .type
    else if n = nUPRP then match v with
      | .recs ur => .ok (.uprp (decodeUprp cfg ur))
      | _ => .error .type
    else if n = nSWNM then match v with
      | .arrays [ids] =>
        match mapR (fun i => match switchById ctx i with | some s => .ok s | none => .error .key) (List.range ids.length) with
        | .error e => .error e
        | .ok ss => .ok (.swnm ss)
      | _ => .error .type
    else if n = nWAV then match v with
      | .arrays [ids] =>
        .ok (.wav (decodeWavIds ctx.texts ids))
      | _ => .error .type
    else .ok (.pass (.known n v))

def richDecode (cfg : RichCfg) (secs : List DSection) : R (List RSection) :=
  match buildDecCtx cfg secs with
  | .error e => .error e
  | .ok ctx => mapR (richDecodeSection cfg ctx) secs

end Richchk
