/-
`RichChkIo.encode_chk`: string / location / switch / unit-property rebuilds, the encode
context, and the rich section encoders.
-/
import RichchkModel.Model.Rich
namespace Richchk

/-! ### walking the rich sections (the `_walk_object_for_*` helpers) -/

def argStrings : RVal → List RStr
  | .str s => [s]
  | .loc l => [l.name]
  | .sw s => [s.name]
  | _ => []

def entryArgsInFieldOrder (rows : List TrigRow) : REntry → List RVal
  | .raw _ => []
  | .rich id args _ =>
    match findRow rows id with
    | none => args.map (·.2)
    | some row => row.fieldOrder.filterMap fun f => args.lookup f

def triggerVals (cfg : RichCfg) (t : RTrigger) : List RVal :=
  (t.conds.flatMap (entryArgsInFieldOrder cfg.condRows)) ++ (t.acts.flatMap (entryArgsInFieldOrder cfg.actionRows))

/-- every non-null `RichString` reachable from the rich sections, in walk order -/
def sectionStrings (cfg : RichCfg) : RSection → List RStr
  | .pass _ => []
  | .mrgn ls => ls.map (·.name)
  | .trig ts => ts.flatMap fun t => (triggerVals cfg t).flatMap argStrings
  | .unis _ us => us.map (·.name)
  | .uprp _ => []
  | .swnm ss => ss.map (·.name)
  | .wav ws => ws.map (·.path)

def collectStrings (cfg : RichCfg) (secs : List RSection) : List Bytes :=
  (secs.flatMap (sectionStrings cfg)).filterMap fun s => match s with
    | .null => none
    | .text b => some b

def dedupAux {α} (same : α → α → Bool) : List α → List α → List α
  | [], kept => kept.reverse
  | x :: xs, kept => if kept.any (fun k => same k x) then dedupAux same xs kept else dedupAux same xs (x :: kept)

/-- set insertion: the first of several equal objects stays -/
def dedupBy {α} (same : α → α → Bool) (l : List α) : List α := dedupAux same l []

def sectionLocs (cfg : RichCfg) : RSection → List RLoc
  | .trig ts => ts.flatMap fun t => (triggerVals cfg t).filterMap fun v => match v with | .loc l => some l | _ => none
  | _ => []

def sectionSwitches (cfg : RichCfg) : RSection → List RSwitch
  | .trig ts => ts.flatMap fun t => (triggerVals cfg t).filterMap fun v => match v with | .sw s => some s | _ => none
  | _ => []

def sectionCuwps (cfg : RichCfg) : RSection → List RCuwp
  | .trig ts => ts.flatMap fun t => (triggerVals cfg t).filterMap fun v => match v with | .cuwp c => some c | _ => none
  | _ => []

/-! ### rebuilds -/

structure EncCtx where
  texts : List Bytes
  /-- final location list (old ++ appended) and the ids given to index-less objects (uid ↦ id) -/
  locs : List RLoc
  locIds : List (Nat × Nat)
  /-- id of every used switch: (switch, id) -/
  switchIds : List (RSwitch × Nat)
  cuwps : List RCuwp
  wavMeta : List (Bytes × Nat)

def isSectionNamed (name : Bytes) : RSection → Bool
  | .pass (.known n _) => n == name
  | .pass (.unknown _ _) => false
  | .mrgn _ => name == nMRGN
  | .trig _ => name == nTRIG
  | .unis ext _ => name == (if ext then nUNIx else nUNIS)
  | .uprp _ => name == nUPRP
  | .swnm _ => name == nSWNM
  | .wav _ => name == nWAV

/-- `find_only_decoded_section_in_chk(DecodedStrSection, rich_chk)` -/
def findStr (secs : List RSection) : R StrTable :=
  match secs.filter (isSectionNamed nSTR) with
  | [.pass (.known _ (.str n offs strs))] => .ok ⟨2, n, offs, strs⟩
  | _ => .error .value

def allocOrder {α} (order : Option (List Nat)) (xs : List α) : List α :=
  match order with
  | none => xs
  | some o => o.filterMap fun i => xs[i]?

/-- `RichMrgnSectionRebuilder`: returns the new location list and the uid ↦ id map -/
def rebuildMrgn (cfg : RichCfg) (secs : List RSection) (order : Option (List Nat)) :
    R (List RLoc × List (Nat × Nat)) :=
  match secs.filter (isSectionNamed nMRGN) with
  | [.mrgn table] =>
    if table.any (·.idx.isNone) then .error .value else
    let found := (secs.filter (fun s => !isSectionNamed nMRGN s)).flatMap (sectionLocs cfg)
    let batch := allocOrder order (dedupBy RLoc.same found)
    -- carried-first placement over the generic allocator
    let carried := batch.filter (·.idx.isSome)
    let fresh := batch.filter (·.idx.isNone)
    let placement := carried ++ fresh
    -- an index-carrying location is "occupied" only by its slot number (not its content)
    match allocate cfg.mrgnCfg (table.filterMap (·.idx)) (placement.map fun l => match l.idx with | some i => Req.carry i | none => Req.fresh) with
    | .error e => .error e
    | .ok (ress, _) =>
      let placed := (placement.zip ress).filterMap fun (l, r) => match r with
        | .placed s => some ({ l with idx := some s }, l.uid)
        | .skipped => none
      .ok (table ++ placed.map (·.1), placed.filterMap fun (l, uid) => l.idx.map fun i => (uid, i))
  | _ => .error .value

def locId (ctx : EncCtx) (l : RLoc) : Option Nat :=
  match l.idx with
  | some i => if ctx.locs.any (fun t => RLoc.same t l) then some i else none
  | none => ctx.locIds.lookup l.uid

def hasCustomName (s : RSwitch) : Bool := !s.name.isNullOrEmpty

/-- `RichSwnmRebuilder.rebuild_rich_swnm_from_rich_chk` -/
def rebuildSwnm (cfg : RichCfg) (secs : List RSection) (order : Option (List Nat)) :
    R (List RSwitch × List (RSwitch × Nat)) :=
  let swnm : List RSwitch :=
    match secs.filter (isSectionNamed nSWNM) with
    | [.swnm ss] => ss
    | _ => (List.range cfg.switchSlots).map fun i => ⟨.null, some i, 0⟩
  let used := (secs.filter (fun s => !isSectionNamed nSWNM s)).flatMap (sectionSwitches cfg)
  -- the names the SWNM holds are placed first; then the switches the triggers use (set order)
  let named := swnm.filter hasCustomName
  let usedD := allocOrder order (dedupBy RSwitch.same used)
  let usedNew := usedD.filter fun u => !(named.any fun n => RSwitch.same n u)
  let allUsed := named ++ usedNew
  -- two different names given to one switch number by the triggers cannot both be stored: ValueError
  let given : List (Nat × Bytes) := usedNew.filterMap fun s =>
    if hasCustomName s then s.idx.map fun i => (i, s.name.value) else none
  if given.any (fun p => given.any fun q => p.1 == q.1 && p.2 != q.2) then .error .value else
  let carried := allUsed.filterMap (·.idx)
  let free := (List.range cfg.switchSlots).filter fun i => !carried.contains i
  let rec go : List RSwitch → List Nat → List RSwitch → List (RSwitch × Nat) → R (List RSwitch × List (RSwitch × Nat))
    | [], _, tbl, ids => .ok (tbl, ids.reverse)
    | s :: rest, free, tbl, ids =>
      match s.idx with
      | some i =>
        -- a switch referred to by its number alone keeps the name its slot already has
        match tbl[i]? with
        | none => .error .index
        | some cur =>
          if hasCustomName s || !hasCustomName cur then go rest free (tbl.set i s) ((s, i) :: ids)
          else go rest free tbl ((s, i) :: ids)
      | none =>
        match free with
        | [] => .error .value
        | f :: fs => go rest fs (tbl.set f ⟨s.name, some f, 0⟩) ((s, f) :: ids)
  go allUsed free ((List.range cfg.switchSlots).map fun i => ⟨.null, some i, 0⟩) []

def switchId (ctx : EncCtx) (s : RSwitch) : Option Nat :=
  (ctx.switchIds.find? fun p => RSwitch.same p.1 s).map (·.2)

/-- `RichUprpRebuilder` + `RichUprpEditor.add_cuwp_slots` -/
def rebuildUprp (cfg : RichCfg) (secs : List RSection) (order : Option (List Nat)) : R (List RCuwp) :=
  let named := secs.filter (isSectionNamed nUPRP)
  let tableR : R (List RCuwp) :=
    match named with
    | [] => .ok []
    | [.uprp cs] => .ok cs
    | _ => .error .value
  match tableR with
  | .error e => .error e
  | .ok table =>
    if table.any (·.idx.isNone) then .error .assert else
    let found := (secs.filter (fun s => !isSectionNamed nUPRP s)).flatMap (sectionCuwps cfg)
    let batch := allocOrder order (dedupBy (fun a b => a.key == b.key) found)
    let need := batch.filter fun c => c.idx.isSome || !(table.any fun t => t.key == c.key)
    let placement := need.filter (·.idx.isSome) ++ need.filter (·.idx.isNone)
    match allocate cfg.uprpCfg (table.filterMap (·.idx)) (placement.map fun c => match c.idx with | some i => Req.carry i | none => Req.fresh) with
    | .error e => .error e
    | .ok (ress, _) =>
      .ok (table ++ (placement.zip ress).filterMap fun (c, r) => match r with
        | .placed s => some { c with idx := some s }
        | .skipped => none)

/-- the slot stored at index `i` (`cuwp_by_id.get(i)`, later entries win) -/
def cuwpAt (ctx : EncCtx) (i : Nat) : Option RCuwp := ctx.cuwps.reverse.find? (fun t => t.idx == some i)

/-- a set stored at the index it carries -/
def cuwpOwn (ctx : EncCtx) (c : RCuwp) : Option Nat :=
  match c.idx with
  | none => none
  | some i => match cuwpAt ctx i with
    | some t => if t.key == c.key then some i else none
    | none => none

/-- `RichCuwpLookup.get_id_by_cuwp`: a set stored at the index it carries keeps that index; otherwise
`id_by_cuwp`, the LAST slot holding an equal unit-property set -/
def cuwpId (ctx : EncCtx) (c : RCuwp) : Option Nat :=
  (cuwpOwn ctx c).orElse fun _ => (ctx.cuwps.reverse.find? fun t => t.key == c.key).bind (·.idx)

/-- `DecodedUpusRebuilder` -/
def rebuildUpus (cfg : RichCfg) (cuwps : List RCuwp) : R (List Nat) :=
  let rec go : List RCuwp → List Nat → R (List Nat)
    | [], acc => .ok acc
    | c :: cs, acc =>
      match c.idx with
      | none => .error .assert
      | some i => if i = 0 then .error .assert else if i - 1 < acc.length then go cs (acc.set (i - 1) 1) else .error .index
  go cuwps (List.replicate cfg.cuwpSlots 0)

/-! ### section encoders -/

def encodeLoc (cfg : RichCfg) (ctx : EncCtx) (l : RLoc) : R (List Nat) :=
  match idByStr ctx.texts l.name with
  | .error e => .error e
  | .ok sid => .ok [l.x1, l.y1, l.x2, l.y2, sid, elevationEncode cfg l.el]

def encodeMrgn (cfg : RichCfg) (ctx : EncCtx) (locs : List RLoc) : R (List (List Nat)) :=
  mapR (fun i =>
    -- {index-1: location}: a later location with the same index wins
    match locs.reverse.find? (fun l => l.idx == some (i + 1)) with
    | none => .ok [0, 0, 0, 0, 0, 0]
    | some l => encodeLoc cfg ctx l) (List.range cfg.mrgnSlots)

def encodeCuwp (cfg : RichCfg) (c : RCuwp) : List Nat :=
  [(cfg.flagsOf "cuwp_valid_special").encode c.validSpecial, (cfg.flagsOf "cuwp_valid_unit").encode c.validUnit,
   0, c.hp, c.sp, c.ep, c.res, c.hangar, (cfg.flagsOf "cuwp_unit").encode (c.flags ++ [c.unknownFlag]), c.padding]

def encodeUprp (cfg : RichCfg) (cuwps : List RCuwp) : List (List Nat) :=
  (List.range cfg.cuwpSlots).map fun i =>
    match cuwps.reverse.find? (fun c => c.idx == some (i + 1)) with
    | none => List.replicate 10 0
    | some c => encodeCuwp cfg c

def encodeArg (ctx : EncCtx) (row : TrigRow) (e : EncEntry) (args : List (String × RVal)) : R Nat :=
  match e.codec with
  | "zero" => .ok 0
  | "typebyte" => .ok row.id
  | _ =>
    match args.lookup e.arg with
    | none => .error .type
    | some v =>
      match e.codec, v with
      | "num", .num n => .ok n
      | "enum", .enumv id => .ok id
      | "loc", .loc l => match locId ctx l with | some i => .ok i | none => .error .assert
      | "loc!", .loc l => match locId ctx l with | some i => .ok i | none => .error .value
      | "str", .str s => idByStr ctx.texts s
      | "str", .text b => idByStr ctx.texts (.text b)
      | "switch", .sw s => match switchId ctx s with | some i => .ok i | none => .error .key
      | "cuwp", .cuwp c => match cuwpId ctx c with | some i => .ok i | none => .error .key
      | "ai", .ai name => encodeAi name
      | "wavdur", .num n => .ok n
      | "wavdur", .optNum (some n) => .ok n
      | "wavdur", .optNum none =>
        if ctx.wavMeta.isEmpty then .error .value else
        match args.lookup "_path_to_wav_in_mpq" with
        | some (.text p) => match ctx.wavMeta.lookup p with | some d => .ok d | none => .error .value
        | _ => .error .value
      | _, _ => .error .type

def encodeEntry (cfg : RichCfg) (ctx : EncCtx) (rows : List TrigRow) (names : List String)
    (flagCodec : String) : REntry → R (List Nat)
  | .raw r => .ok r
  | .rich id args flags =>
    match findRow rows id with
    | none => .error .value
    | some row =>
      let evalOne (f : String) : R (String × Nat) :=
        match row.encode.find? (·.field = f) with
        | none => .error .other
        | some e => match encodeArg ctx row e args with
          | .error err => .error err
          | .ok v => .ok (f, v)
      match mapR evalOne row.encOrder with
      | .error e => .error e
      | .ok vals =>
        let fl := (cfg.flagsOf flagCodec).encode flags
        .ok (names.map fun f => if f = "_flags" then fl else (vals.lookup f).getD 0)

def encodeTrigger (cfg : RichCfg) (ctx : EncCtx) (t : RTrigger) : R Trigger :=
  match mapR (encodeEntry cfg ctx cfg.condRows cfg.condFields "trigger_condition") t.conds with
  | .error e => .error e
  | .ok cs =>
    if cfg.nConds < cs.length then .error .value else
    match mapR (encodeEntry cfg ctx cfg.actionRows cfg.actionFields "trigger_action") t.acts with
    | .error e => .error e
    | .ok as =>
      if cfg.nActs < as.length then .error .value else
      let padC := List.replicate (cfg.nConds - cs.length) (List.replicate cfg.condFields.length 0)
      let padA := List.replicate (cfg.nActs - as.length) (List.replicate cfg.actionFields.length 0)
      let players := (cfg.enumOf "PlayerId").map fun m => if t.players.contains m.id then 1 else 0
      .ok ⟨cs ++ padC, as ++ padA, 0, players, 0⟩

def encodeUnits (cfg : RichCfg) (ctx : EncCtx) (nWeapons : Nat) (us : List RUnit) : R (List (List Nat)) :=
  let init : List (List Nat) :=
    [List.replicate cfg.nUnits 1] ++ List.replicate 7 (List.replicate cfg.nUnits 0) ++
      List.replicate 2 (List.replicate nWeapons 0)
  let setCol (a : List (List Nat)) (k i v : Nat) : R (List (List Nat)) :=
    let col := a.getD k []
    if i < col.length then .ok (a.set k (col.set i v)) else .error .index
  let rec weaponsGo : List (Nat × Nat × Nat) → List (List Nat) → R (List (List Nat))
    | [], a => .ok a
    | (w, b, u) :: ws, a =>
      match setCol a 8 w b with
      | .error e => .error e
      | .ok a1 => match setCol a1 9 w u with
        | .error e => .error e
        | .ok a2 => weaponsGo ws a2
  let rec go : List RUnit → List (List Nat) → R (List (List Nat))
    | [], a => .ok a
    | u :: rest, a =>
      let steps : List (Nat × Nat) := [(0, if u.useDefault then 1 else 0), (1, encodeHp u.hp), (2, u.shield),
        (3, u.armor), (4, u.build), (5, u.mineral), (6, u.gas)]
      let stepAll : R (List (List Nat)) :=
        steps.foldl (fun (acc : R (List (List Nat))) (kv : Nat × Nat) =>
          match acc with
          | Except.error e => Except.error e
          | Except.ok x => setCol x kv.1 u.unit kv.2) (Except.ok a)
      match stepAll with
      | .error e => .error e
      | .ok a1 =>
        match idByStr ctx.texts u.name with
        | .error e => .error e
        | .ok sid => match setCol a1 7 u.unit sid with
          | .error e => .error e
          | .ok a2 => match weaponsGo u.weapons a2 with
            | .error e => .error e
            | .ok a3 => go rest a3
  go us init

def encodeWav (cfg : RichCfg) (ctx : EncCtx) (ws : List RWav) : R (List Nat) :=
  mapR (fun i => match ws.reverse.find? (·.idx == i) with
    | none => .ok 0
    | some w => idByStr ctx.texts w.path) (List.range cfg.wavSlots)

/-! ### richEncode -/

/-- what each section of the rich map is written as -/
def encodeOneSection (cfg : RichCfg) (ctx : EncCtx) (newStr : StrTable) (newLocs : List RLoc)
    (swnmSec : R DSection) (uprpSec upusSec : DSection) : RSection → R DSection
  | .pass (.unknown n p) => .ok (.unknown n p)
  | .pass (.known n v) =>
    if n = nSTR then .ok (.known nSTR (.str newStr.n newStr.offs newStr.strs))
    else if n = nUPUS then .ok upusSec
    else .ok (.known n v)
  | .mrgn _ => match encodeMrgn cfg ctx newLocs with
    | .error e => .error e
    | .ok recs => .ok (.known nMRGN (.recs recs))
  | .swnm _ => swnmSec
  | .uprp _ => .ok uprpSec
  | .trig ts => match mapR (encodeTrigger cfg ctx) ts with
    | .error e => .error e
    | .ok dts => .ok (.known nTRIG (.trigs dts))
  | .unis ext us => match encodeUnits cfg ctx (if ext then 130 else 100) us with
    | .error e => .error e
    | .ok a => .ok (.known (if ext then nUNIx else nUNIS) (.arrays a))
  | .wav ws => match encodeWav cfg ctx ws with
    | .error e => .error e
    | .ok ids => .ok (.known nWAV (.arrays [ids]))

def encodeSwnmSection (texts : List Bytes) (newSwitches : List RSwitch) : R DSection :=
  match mapR (fun (s : RSwitch) => idByStr texts s.name) newSwitches with
  | .error e => .error e
  | .ok ids => .ok (.known nSWNM (.arrays [ids]))

/-- sections appended when the map had none of that kind -/
def appendedSections (secs : List RSection) (swnmSec : R DSection) (uprpSec upusSec : DSection) :
    R (List DSection) :=
  let hasSwnm := secs.any fun s => match s with | .swnm _ => true | _ => false
  let hasUprp := secs.any fun s => match s with | .uprp _ => true | _ => false
  let hasUpus := secs.any fun s => match s with | .pass (.known n _) => n == nUPUS | _ => false
  let tail : List DSection := (if hasUprp then [] else [uprpSec]) ++ (if hasUpus then [] else [upusSec])
  if hasSwnm then .ok tail else
    match swnmSec with
    | .error e => .error e
    | .ok s => .ok (s :: tail)

structure Orders where
  locs : Option (List Nat) := none
  switches : Option (List Nat) := none
  cuwps : Option (List Nat) := none

/-- everything `encode_chk` computes before it walks the sections -/
structure Rebuilt where
  newStr : StrTable
  ctx : EncCtx
  newLocs : List RLoc
  swnmSec : R DSection
  uprpSec : DSection
  upusSec : DSection

def rebuildAll (cfg : RichCfg) (orders : Orders) (wavMeta : List (Bytes × Nat)) (secs : List RSection) : R Rebuilt :=
  match findStr secs with
  | .error e => .error e
  | .ok strT =>
  match addStrings (collectStrings cfg secs) strT with
  | .error e => .error e
  | .ok newStr =>
  match rebuildMrgn cfg secs orders.locs with
  | .error e => .error e
  | .ok (newLocs, locIds) =>
  match rebuildSwnm cfg secs orders.switches with
  | .error e => .error e
  | .ok (newSwitches, switchIds) =>
  match rebuildUprp cfg secs orders.cuwps with
  | .error e => .error e
  | .ok newCuwps =>
  match rebuildUpus cfg newCuwps with
  | .error e => .error e
  | .ok upus =>
  match strTexts 2 newStr.n newStr.offs newStr.strs with
  | .error e => .error e
  | .ok texts =>
    .ok ⟨newStr, ⟨texts, newLocs, locIds, switchIds, newCuwps, wavMeta⟩, newLocs,
         encodeSwnmSection texts newSwitches, .known nUPRP (.recs (encodeUprp cfg newCuwps)),
         .known nUPUS (.arrays [upus])⟩

def richEncode (cfg : RichCfg) (orders : Orders) (wavMeta : List (Bytes × Nat)) (secs : List RSection) :
    R (List DSection) :=
  match rebuildAll cfg orders wavMeta secs with
  | .error e => .error e
  | .ok rb =>
    match mapR (encodeOneSection cfg rb.ctx rb.newStr rb.newLocs rb.swnmSec rb.uprpSec rb.upusSec) secs with
    | .error e => .error e
    | .ok out =>
      match appendedSections secs rb.swnmSec rb.uprpSec rb.upusSec with
      | .error e => .error e
      | .ok extra => .ok (out ++ extra)

/-- bytes → decoded → rich → decoded → bytes -/
def cycle (cfg : RichCfg) (encTable : SecTable) (bs : Bytes) : R Bytes :=
  match decodeChk cfg.decTable bs with
  | .error e => .error e
  | .ok secs =>
  match richDecode cfg secs with
  | .error e => .error e
  | .ok rich =>
  match richEncode cfg {} [] rich with
  | .error e => .error e
  | .ok out => encodeChk encTable out

end Richchk
