/- canonical text dumps used by the line protocol (core Lean only) -/
import RichchkModel.Model.Chunk
namespace Richchk

def hexDigit (n : Nat) : Char :=
  if n < 10 then Char.ofNat (48 + n) else Char.ofNat (87 + n)

def hexOfBytes (bs : Bytes) : String :=
  if bs.isEmpty then "-" else
  String.ofList (bs.foldr (fun b acc => hexDigit (b.toNat / 16) :: hexDigit (b.toNat % 16) :: acc) [])

def hexVal (c : Char) : Option Nat :=
  if '0' ≤ c ∧ c ≤ '9' then some (c.toNat - 48)
  else if 'a' ≤ c ∧ c ≤ 'f' then some (c.toNat - 87)
  else if 'A' ≤ c ∧ c ≤ 'F' then some (c.toNat - 55)
  else none

def bytesOfHexAux : List Char → Bytes → Option Bytes
  | [], acc => some acc.reverse
  | [_], _ => none
  | a :: b :: rest, acc =>
    match hexVal a, hexVal b with
    | some x, some y => bytesOfHexAux rest (UInt8.ofNat (x * 16 + y) :: acc)
    | _, _ => none

/-- "-" denotes the empty byte string -/
def bytesOfHex (s : String) : Option Bytes :=
  if s = "-" then some [] else bytesOfHexAux s.toList []

def natList (xs : List Nat) : String := "[" ++ ",".intercalate (xs.map toString) ++ "]"
def natListList (xs : List (List Nat)) : String := "[" ++ ",".intercalate (xs.map natList) ++ "]"

def dumpVal : SecVal → String
  | .arrays vs => "A" ++ natListList vs
  | .recs rs => "R" ++ natListList rs
  | .trigs ts => "T[" ++ ",".intercalate (ts.map fun t =>
      "{" ++ natListList t.conds ++ ";" ++ natListList t.acts ++ ";" ++ toString t.execFlags ++ ";" ++
        natList t.players ++ ";" ++ toString t.cur ++ "}") ++ "]"
  | .str n offs strs => "S" ++ toString n ++ natList offs ++ "[" ++
      ",".intercalate (strs.map hexOfBytes) ++ "]"

def dumpSection : DSection → String
  | .unknown n p => "U:" ++ hexOfBytes n ++ ":" ++ hexOfBytes p
  | .known n v => "K:" ++ hexOfBytes n ++ ":" ++ dumpVal v

def dumpChk (ss : List DSection) : String := " ".intercalate (ss.map dumpSection)

end Richchk
