/-
Python import execution over the package's import graph.
`exec m`: if `m` is already in `sys.modules` (even partially initialised) nothing happens;
otherwise it is entered into `sys.modules` FIRST and its top-level events run in order:
  * `imp t need` — import module `t`; if `t` is still executing (a cycle) the names taken from it
    must already be defined, i.e. `t` must have progressed past its first `need` events,
    otherwise `ImportError`;
  * `reg r key` — a transcoder class definition registers itself in registry `r` under `key`
    (`__init_subclass__`); a later registration under the same key replaces the earlier.
`import_all_modules_in_subpackage` is expanded by the translator into `imp` events in
`pkgutil.iter_modules` (sorted) order.  Module sets are bit masks.
-/
import RichchkModel.Basic.Err
namespace Richchk

inductive ImpEvent
  | imp (m : Nat) (need : Nat)
  | reg (registry : Nat) (key : Nat)
  deriving Repr, DecidableEq

structure ImpState where
  loaded : Nat                    -- bit i: module i is in sys.modules
  stack : List (Nat × Nat)        -- modules being executed, with the index of the current event
  regs : List (Nat × Nat)         -- registrations in execution order (registry, key)
  deriving Repr, DecidableEq

/-- the graph in chunks of `chunk` modules (two-level lookup keeps kernel evaluation cheap) -/
structure ImpGraph where
  chunk : Nat
  size : Nat
  chunks : List (List (List ImpEvent))
  deriving Repr

def ImpGraph.events (g : ImpGraph) (m : Nat) : List ImpEvent :=
  ((g.chunks.getD (m / g.chunk) []).getD (m % g.chunk) [])

def progressOf : List (Nat × Nat) → Nat → Option Nat
  | [], _ => none
  | (m, k) :: rest, t => if m = t then some k else progressOf rest t

def setTop (k : Nat) : List (Nat × Nat) → List (Nat × Nat)
  | [] => []
  | (m, _) :: rest => (m, k) :: rest

/-- a module being executed: `prog` = index of the event it is currently suspended in
(meaningful while it is not on top), `next`/`rest` = the continuation -/
structure Frame where
  m : Nat
  prog : Nat
  next : Nat
  rest : List ImpEvent
  deriving Repr, DecidableEq

def frameProgress : List Frame → Nat → Option Nat
  | [], _ => none
  | f :: fs, t => if f.m = t then some f.prog else frameProgress fs t

/-- one machine step per unit of fuel (structural recursion: evaluates in the kernel) -/
def runImports (g : ImpGraph) : Nat → List Frame → ImpState → Except Err ImpState
  | 0, _, _ => .error .other
  | _ + 1, [], st => .ok st
  | fuel + 1, f :: fs, st =>
    match f.rest with
    | [] => runImports g fuel fs st                                   -- body finished
    | .reg r key :: es =>
      runImports g fuel (⟨f.m, f.next, f.next + 1, es⟩ :: fs) ⟨st.loaded, st.stack, (r, key) :: st.regs⟩
    | .imp t need :: es =>
      if st.loaded.testBit t then
        match frameProgress fs t with
        | some j =>
          if j < need then .error .notfound
          else runImports g fuel (⟨f.m, f.next, f.next + 1, es⟩ :: fs) st
        | none => runImports g fuel (⟨f.m, f.next, f.next + 1, es⟩ :: fs) st
      else
        runImports g fuel (⟨t, 0, 0, g.events t⟩ :: ⟨f.m, f.next, f.next + 1, es⟩ :: fs)
          ⟨st.loaded ||| (1 <<< t), st.stack, st.regs⟩

/-- a fresh interpreter importing module `entry` first -/
def importFirst (g : ImpGraph) (fuel : Nat) (entry : Nat) : Except Err ImpState :=
  runImports g fuel [⟨entry, 0, 0, g.events entry⟩] ⟨1 <<< entry, [], []⟩

/-- keys registered in registry `r`, oldest first (`regs` is newest first) -/
def registryKeys (st : ImpState) (r : Nat) : List Nat :=
  (st.regs.filter (·.1 == r)).map (·.2) |>.reverse

def insertSorted (x : Nat) : List Nat → List Nat
  | [] => [x]
  | y :: ys => if x ≤ y then x :: y :: ys else y :: insertSorted x ys
def sortNats (l : List Nat) : List Nat := l.foldr insertSorted []

/-- the check made for one entry point: the import succeeds and every registry whose factory
module got loaded holds exactly the expected keys, each registered exactly once -/
def entryOK (g : ImpGraph) (fuel : Nat) (factories : List Nat) (expected : List (List Nat))
    (entry : Nat) : Bool :=
  match importFirst g fuel entry with
  | .error _ => false
  | .ok st =>
    ((List.range factories.length).all fun r =>
      let f := factories.getD r 0
      let keys := registryKeys st r
      if st.loaded.testBit f then sortNats keys == expected.getD r [] else keys.isEmpty)

end Richchk
