/-
C13 — an alias model of the library's operations.

Lean values are immutable, so the functional models cannot even express "an operation mutates
its argument".  This file gives the imperative view: a heap of container cells (lists, sets,
dicts, the field tuples of dataclass instances), a tiny statement language the translator
abstracts every function body into, a concrete semantics with explicit nondeterministic
choices, and a flow-insensitive type check.  Soundness is proved in Lemmas/AliasSound.lean.
-/
namespace Richchk.Alias

/-- variables are numbered by the translator (names are kept in build/effects.json) -/
abbrev Var := Nat

/-- the declared kind of a variable.  The three `fresh` kinds are EXACT (no subsumption among
them; anything may be weakened to `any`, which can never be mutated):
* `any`    — may denote any cell: parameters, globals, results of unknown calls, elements of
             containers that may hold pre-existing cells;
* `fresh1` — a cell allocated during this call (or handed over by the caller to be filled);
             its contents are arbitrary;
* `fresh2` — a cell allocated during this call whose elements are all `fresh1` cells
             (a dict of lists being built);
* `deep`   — a cell allocated during this call whose elements are all `deep` cells. -/
inductive AVal
  | any
  | fresh1
  | fresh2
  | deep
  deriving DecidableEq, Repr

inductive Rhs
  /-- a new container / object holding the given variables' cells (literal, constructor call,
  comprehension; `copy.deepcopy` with `ys = []`) -/
  | new (ys : List Var)
  /-- a new container with the same contents as `y` (`list(y)`, `[e for e in y]`, `y.copy()`,
  `set(y)`, `sorted(y)`, `copy.copy(y)`, a slice) -/
  | shallow (y : Var)
  | alias (y : Var)
  /-- an element / attribute / iteration variable of `y` -/
  | elem (y : Var)
  /-- anything else (result of a call, global, attribute of a module) -/
  | unknown
  deriving DecidableEq, Repr

inductive Stmt
  | assign (x : Var) (r : Rhs)
  /-- in-place change of `x`'s cell: its new contents are drawn from its old contents and `ys`
  (`append`, `extend`, `add`, `update`, `insert`, `x[k] = y`, `+=`; removals have `ys = []`);
  also: a call that hands `x` to a callee which fills it -/
  | mutate (x : Var) (ys : List Var)
  deriving DecidableEq, Repr

/-! ### concrete semantics -/

structure St where
  heap : Nat → List Nat
  next : Nat
  env : Var → Option Nat

/-- the nondeterminism of one step: which element `elem` picks, which cell an `unknown` yields,
how a mutation rearranges old contents (`(true, i)`) and new values (`(false, j)`) -/
structure Choice where
  k : Nat := 0
  cell : Nat := 0
  sel : List (Bool × Nat) := []

def cellsOf (st : St) (ys : List Var) : List Nat := ys.filterMap st.env

def St.bind (st : St) (x : Var) (c : Nat) : St :=
  { st with env := fun v => if v = x then some c else st.env v }

def St.alloc (st : St) (x : Var) (children : List Nat) : St :=
  { heap := fun c => if c = st.next then children else st.heap c
    next := st.next + 1
    env := fun v => if v = x then some st.next else st.env v }

def step (st : St) (ch : Choice) : Stmt → St
  | .assign x (.new ys) => st.alloc x (cellsOf st ys)
  | .assign x (.shallow y) =>
    match st.env y with
    | some c => st.alloc x (st.heap c)
    | none => st
  | .assign x (.alias y) =>
    match st.env y with
    | some c => st.bind x c
    | none => st
  | .assign x (.elem y) =>
    match st.env y with
    | some c => match (st.heap c)[ch.k]? with
      | some d => st.bind x d
      | none => st
    | none => st
  | .assign x .unknown => st.bind x ch.cell
  | .mutate x ys =>
    match st.env x with
    | some c =>
      let old := st.heap c
      let new := cellsOf st ys
      let contents := ch.sel.filterMap fun (p : Bool × Nat) => if p.1 then old[p.2]? else new[p.2]?
      { st with heap := fun d => if d = c then contents else st.heap d }
    | none => st

/-- an execution: any finite sequence of the body's statements, each with any choice (this
over-approximates every control flow through the body: branches, loops, early returns) -/
def run (st : St) : List (Stmt × Choice) → St
  | [] => st
  | (s, ch) :: rest => run (step st ch s) rest

/-! ### the type check (flow-insensitive) -/

abbrev AEnv := List (Var × AVal)

def AEnv.get (σ : AEnv) (x : Var) : AVal := (σ.lookup x).getD .any

/-- can the right-hand side produce a value of declared kind `τ`? -/
def rhsOk (σ : AEnv) (τ : AVal) : Rhs → Bool
  | .new ys => match τ with
    | .any => true
    | .fresh1 => true
    | .fresh2 => ys.all fun y => σ.get y == .fresh1
    | .deep => ys.all fun y => σ.get y == .deep
  | .shallow y => match τ with
    | .any => true
    | .fresh1 => true
    | .fresh2 => σ.get y == .fresh2
    | .deep => σ.get y == .deep
  | .alias y => τ == .any || σ.get y == τ
  | .elem y => match τ with
    | .any => true
    | .fresh1 => σ.get y == .fresh2
    | .fresh2 => false
    | .deep => σ.get y == .deep
  | .unknown => τ == .any

def stmtOk (σ : AEnv) : Stmt → Bool
  | .assign x r => rhsOk σ (σ.get x) r
  | .mutate x ys => match σ.get x with
    | .any => false
    | .fresh1 => true
    | .fresh2 => ys.all fun y => σ.get y == .fresh1
    | .deep => ys.all fun y => σ.get y == .deep

/-- `σ` types the body and no mutation targets an `any` variable.  `owned` are the parameters the
caller hands over to be filled (accumulators of private helpers); they are declared `fresh1`,
every other parameter `any`. -/
def check (σ : AEnv) (params owned : List Var) (body : List Stmt) : Bool :=
  params.all (fun p => σ.get p == (if owned.contains p then .fresh1 else .any)) && body.all (stmtOk σ)

/-- one analysed function -/
structure Fn where
  name : String
  params : List Var
  /-- parameters this (private) function fills in place; every call site is a `mutate` of the
  argument in the caller's body -/
  owned : List Var := []
  /-- kinds proposed by the translator (advice: `check` decides whether they are sound) -/
  sigma : AEnv
  body : List Stmt
  deriving Repr

def Fn.ok (f : Fn) : Bool := check f.sigma f.params f.owned f.body

end Richchk.Alias
