/-
The rich editors a user drives between load and save (`RichTrigEditor.add_triggers`,
`RichUnisEditor` / `RichUnixEditor.upsert_unit_setting`, `RichWavEditor.add_wav_files`,
`RichChkEditor.replace_chk_section`) and whole edit histories including save + reload.
Hand model, tied to the code by the `edit` correspondence op.
-/
import RichchkModel.Model.RichEnc
namespace Richchk

inductive Edit
  | addTriggers (ts : List RTrigger)
  | upsertUnit (u : RUnit)
  | addWavs (paths : List Bytes)
  /-- `RichChkEditor.replace_chk_section` with a hand-built `RichUprpSection` -/
  | replaceUprp (cs : List RCuwp)
  /-- `RichChkEditor.replace_chk_section` with a hand-built `RichMrgnSection` -/
  | replaceMrgn (ls : List RLoc)
  /-- save to bytes and load again -/
  | reload
  deriving Repr

/-- `RichChkEditor.replace_chk_section`: EVERY rich section of that kind is replaced -/
def replaceSections (isTarget : RSection → Bool) (new : RSection) (secs : List RSection) : List RSection :=
  secs.map fun s => if isTarget s then new else s

def isTrig : RSection → Bool | .trig _ => true | _ => false
def isUnis : RSection → Bool | .unis _ _ => true | _ => false
def isWav : RSection → Bool | .wav _ => true | _ => false
def isUprp : RSection → Bool | .uprp _ => true | _ => false
def isMrgn : RSection → Bool | .mrgn _ => true | _ => false

/-- `RichTrigEditor.add_triggers`: new triggers go after the existing ones -/
def addTriggers (new : List RTrigger) (secs : List RSection) : R (List RSection) :=
  match secs.find? isTrig with
  | some (.trig ts) => .ok (replaceSections isTrig (.trig (ts ++ new)) secs)
  | _ => .error .value

/-- `_append_or_replace_unit_setting`: every setting of that unit is replaced, else appended -/
def upsertInto (u : RUnit) (us : List RUnit) : List RUnit :=
  if us.any (·.unit == u.unit) then us.map fun o => if o.unit == u.unit then u else o else us ++ [u]

def upsertUnit (u : RUnit) (secs : List RSection) : R (List RSection) :=
  match secs.find? isUnis with
  | some (.unis ext us) =>
    .ok (secs.map fun s => match s with
      | .unis e _ => if e == ext then .unis ext (upsertInto u us) else s
      | _ => s)
  | _ => .error .value

/-- `RichWavEditor.add_wav_files`: each path not yet present takes the smallest free slot; a call that
needs a slot when none is left raises -/
def addWavsTo (slots : Nat) (ws : List RWav) (paths : List Bytes) : R (List RWav) :=
  let rec go : List Bytes → List Nat → List Bytes → List RWav → R (List RWav)
    | [], _, _, acc => .ok acc
    | p :: ps, free, present, acc =>
      if present.contains p then go ps free present acc
      else match free with
        | [] => .error .value
        | f :: fs => go ps fs (p :: present) (acc ++ [⟨.text p, f⟩])
  go paths ((List.range slots).filter fun i => !(ws.any (·.idx == i))) (ws.map (·.path.value)) ws

def addWavs (cfg : RichCfg) (paths : List Bytes) (secs : List RSection) : R (List RSection) :=
  match secs.find? isWav with
  | some (.wav ws) =>
    match addWavsTo cfg.wavSlots ws paths with
    | .error e => .error e
    | .ok ws' => .ok (replaceSections isWav (.wav ws') secs)
  | _ => .error .value

def saveBytes (cfg : RichCfg) (encTable : SecTable) (secs : List RSection) : R Bytes :=
  match richEncode cfg {} [] secs with
  | .error e => .error e
  | .ok out => encodeChk encTable out

def loadBytes (cfg : RichCfg) (bs : Bytes) : R (List RSection) :=
  match decodeChk cfg.decTable bs with
  | .error e => .error e
  | .ok secs => richDecode cfg secs

def applyEdit (cfg : RichCfg) (encTable : SecTable) (secs : List RSection) : Edit → R (List RSection)
  | .addTriggers ts => addTriggers ts secs
  | .upsertUnit u => upsertUnit u secs
  | .addWavs ps => addWavs cfg ps secs
  | .replaceUprp cs => .ok (replaceSections isUprp (.uprp cs) secs)
  | .replaceMrgn ls => .ok (replaceSections isMrgn (.mrgn ls) secs)
  | .reload => match saveBytes cfg encTable secs with
    | .error e => .error e
    | .ok bs => loadBytes cfg bs

def applyEdits (cfg : RichCfg) (encTable : SecTable) : List RSection → List Edit → R (List RSection)
  | secs, [] => .ok secs
  | secs, e :: es => match applyEdit cfg encTable secs e with
    | .error err => .error err
    | .ok secs' => applyEdits cfg encTable secs' es

/-- load, apply an edit history, save -/
def editRun (cfg : RichCfg) (encTable : SecTable) (bs : Bytes) (edits : List Edit) : R Bytes :=
  match loadBytes cfg bs with
  | .error e => .error e
  | .ok secs => match applyEdits cfg encTable secs edits with
    | .error e => .error e
    | .ok secs' => saveBytes cfg encTable secs'

end Richchk
