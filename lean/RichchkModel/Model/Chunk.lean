/-
The CHK chunk loop (`ChkIo._decode_chk_byte_stream` / `encode_chk_to_bytes`).
A section name is kept as its raw bytes: Python decodes the 4 name bytes with
`utf-8`/`surrogateescape` and encodes them back the same way, which is a bijection
on byte strings (trusted; cross-checked by the correspondence run).
-/
import RichchkModel.Model.Section
namespace Richchk

/-- registered byte transcoders: section name bytes ↦ layout (generated) -/
abbrev SecTable := List (Bytes × SecLayout)

def SecTable.find? (tbl : SecTable) (name : Bytes) : Option SecLayout :=
  match tbl with
  | [] => none
  | (n, L) :: rest => if n = name then some L else SecTable.find? rest name

inductive DSection
  /-- unknown name, or a name without a registered transcoder: raw payload -/
  | unknown (name : Bytes) (payload : Bytes)
  | known (name : Bytes) (v : SecVal)
  deriving Repr, DecidableEq

def DSection.name : DSection → Bytes
  | .unknown n _ => n
  | .known n _ => n

def decodeOne (tbl : SecTable) (name payload : Bytes) : R DSection :=
  match tbl.find? name with
  | none => .ok (.unknown name payload)
  | some L =>
    match decodeSection L payload with
    | .error e => .error e
    | .ok v => .ok (.known name v)

/-- header: name bytes ++ u32 payload size -/
def encodeHeader (name : Bytes) (size : Nat) : R Bytes :=
  match packInt 4 size with
  | .error e => .error e
  | .ok s => .ok (name ++ s)

def encodeOne (tbl : SecTable) : DSection → R Bytes
  | .unknown name payload =>
    match encodeHeader name payload.length with
    | .error e => .error e
    | .ok h => .ok (h ++ payload)
  | .known name v =>
    match tbl.find? name with
    | none => .error .notimpl
    | some L =>
      match encodeSection L v with
      | .error e => .error e
      | .ok p =>
        match encodeHeader name p.length with
        | .error e => .error e
        | .ok h => .ok (h ++ p)

/-- `ChkIo.decode_chk_binary_data`.  A chunk whose size field exceeds the remaining data
is silently truncated (stream read at EOF is short); 1–7 trailing bytes raise `struct.error`. -/
def decodeChk (tbl : SecTable) (bs : Bytes) : R (List DSection) :=
  if hb : bs = [] then .ok [] else
  if hl : bs.length < 8 then .error .struct else
  let name := bs.take 4
  let size := leVal ((bs.drop 4).take 4)
  let body := bs.drop 8
  match decodeOne tbl name (body.take size) with
  | .error e => .error e
  | .ok s =>
    have : (body.drop size).length < bs.length := by simp [body]; omega
    match decodeChk tbl (body.drop size) with
    | .error e => .error e
    | .ok ss => .ok (s :: ss)
termination_by bs.length

def encodeChk (tbl : SecTable) : List DSection → R Bytes
  | [] => .ok []
  | s :: ss =>
    match encodeOne tbl s with
    | .error e => .error e
    | .ok b =>
      match encodeChk tbl ss with
      | .error e => .error e
      | .ok bs => .ok (b ++ bs)

end Richchk
