/-
Slot allocation shared by the four slot tables (locations, unit-property slots, WAV entries,
switches): a list of free ids consumed smallest first, requests that either carry an index or
need a fresh one.  The editors place index-carrying objects first, then the others
(`RichMrgnEditor.add_locations`, `RichUprpEditor.add_cuwp_slots`), the WAV editor only issues
fresh requests, the SWNM rebuilder removes carried indices from the free list up front.
-/
import RichchkModel.Basic.Err
namespace Richchk

structure AllocCfg where
  lo : Nat
  hi : Nat
  reserved : Option Nat
  /-- exhausted table: raise (UPRP, WAV, SWNM) or skip the object (MRGN editor) -/
  raiseWhenFull : Bool
  deriving Repr, DecidableEq

inductive Req
  | carry (i : Nat)
  | fresh
  deriving Repr, DecidableEq

inductive Res
  | placed (i : Nat)
  | skipped
  deriving Repr, DecidableEq

/-- `_generate_allocable_*`: ids of the range that are neither occupied nor reserved, ascending -/
def freeIds (cfg : AllocCfg) (occ : List Nat) : List Nat :=
  ((List.range (cfg.hi + 1)).filter fun i => cfg.lo ≤ i ∧ i ∉ occ ∧ cfg.reserved ≠ some i)

structure AllocSt where
  occ : List Nat
  free : List Nat
  deriving Repr, DecidableEq

def allocStep (cfg : AllocCfg) (st : AllocSt) : Req → R (Res × AllocSt)
  | .carry i =>
    if i < cfg.lo ∨ cfg.hi < i then .error .value
    else if i ∈ st.occ then .ok (.skipped, st)
    else .ok (.placed i, ⟨i :: st.occ, st.free.erase i⟩)
  | .fresh =>
    match st.free with
    | [] => if cfg.raiseWhenFull then .error .value else .ok (.skipped, st)
    | f :: fs => .ok (.placed f, ⟨f :: st.occ, fs⟩)

def allocRun (cfg : AllocCfg) (st : AllocSt) : List Req → R (List Res × AllocSt)
  | [] => .ok ([], st)
  | r :: rs =>
    match allocStep cfg st r with
    | .error e => .error e
    | .ok (res, st') =>
      match allocRun cfg st' rs with
      | .error e => .error e
      | .ok (ress, st'') => .ok (res :: ress, st'')

/-- the editors' order: index-carrying objects first (stable), then the others -/
def carriedIdx : List Req → List Nat
  | [] => []
  | .carry i :: rs => i :: carriedIdx rs
  | .fresh :: rs => carriedIdx rs

def freshCount : List Req → Nat
  | [] => 0
  | .carry _ :: rs => freshCount rs
  | .fresh :: rs => freshCount rs + 1

def carriedFirst (reqs : List Req) : List Req :=
  (carriedIdx reqs).map .carry ++ List.replicate (freshCount reqs) .fresh

def allocate (cfg : AllocCfg) (occ : List Nat) (reqs : List Req) : R (List Res × AllocSt) :=
  allocRun cfg ⟨occ, freeIds cfg occ⟩ (carriedFirst reqs)

def placedSlots : List Res → List Nat
  | [] => []
  | .placed i :: rs => i :: placedSlots rs
  | .skipped :: rs => placedSlots rs

end Richchk
