/-
File-level procedures over an abstract file system, with single-fault injection.

FS: path ↦ content (both abstract numbers).  An archive is a file whose content is an abstract
number too; what StormLib does to it is a hypothesis made explicit in `archAdd` (adding a
member to an archive yields an archive determined by the old archive and the member; compact
and close keep it; open/search/extract do not modify it) — TRUSTED, validated by the harness
with real StormLib calls.

Every primitive operation is numbered in execution order.  A fault `(n, mode)` makes operation
`n` fail `before` taking effect, `after` taking effect, or (copies / writes) `partial`ly.
-/
import RichchkModel.Basic.Err
namespace Richchk

abbrev Path := Nat
abbrev Content := Nat
abbrev FS := List (Path × Content)

def FS.get (fs : FS) (p : Path) : Option Content := fs.lookup p
def FS.set (fs : FS) (p : Path) (c : Content) : FS := (p, c) :: fs.filter (·.1 != p)
def FS.del (fs : FS) (p : Path) : FS := fs.filter (·.1 != p)
def FS.has (fs : FS) (p : Path) : Bool := (fs.lookup p).isSome

inductive FaultMode | before | after | midway
  deriving Repr, DecidableEq

structure Fault where
  step : Nat
  mode : FaultMode
  deriving Repr, DecidableEq

/-- machine state: file system, number of operations executed so far -/
structure FState where
  fs : FS
  ops : Nat
  deriving Repr, DecidableEq

abbrev FM := FState → Except (Err × FState) FState

/-- content left behind by a copy / write interrupted part-way -/
def partialOf (c : Content) : Content := c + 1000000

/-- a numbered primitive: `eff` is its full effect, `peff` the effect of a part-way failure -/
def prim (fault : Option Fault) (eff peff : FS → FS) : FM := fun st =>
  let n := st.ops
  let st0 : FState := ⟨st.fs, n + 1⟩
  match fault with
  | some ⟨k, m⟩ =>
    if k = n then
      match m with
      | .before => .error (.other, st0)
      | .after => .error (.other, ⟨eff st.fs, n + 1⟩)
      | .midway => .error (.other, ⟨peff st.fs, n + 1⟩)
    else .ok ⟨eff st.fs, n + 1⟩
  | none => .ok ⟨eff st.fs, n + 1⟩

def seq (a b : FM) : FM := fun st =>
  match a st with
  | .error e => .error e
  | .ok st' => b st'
infixr:60 " >>> " => seq

def fail (e : Err) : FM := fun st => .error (e, st)
def guard (c : FState → Bool) (e : Err) : FM := fun st => if c st then .ok st else .error (e, st)

/-- `with CrossPlatformSafeTemporaryNamedFile() as t: body` — created empty on entry (creation
can only fail before the file exists), removed on every exit path -/
def withTemp (fault : Option Fault) (t : Path) (body : FM) : FM := fun st =>
  match prim fault (fun fs => fs.set t 0) (fun fs => fs) st with
  | .error (e, st') =>
    -- `before`: nothing was created.  (`after`/`partial` of the creation are excluded, see DESIGN.)
    .error (e, ⟨st'.fs.del t, st'.ops⟩)
  | .ok st1 =>
    match body st1 with
    | .error (e, st2) => .error (e, ⟨st2.fs.del t, st2.ops⟩)
    | .ok st2 => .ok ⟨st2.fs.del t, st2.ops⟩

/-! ### paths and contents used by the procedures -/
def pBase : Path := 0
def pDest : Path := 1
def pTempChk : Path := 2
def pTempMpq : Path := 3
def pWork : Path := 4
def pTempWav : Path := 5
def pOut : Path := 6
def pTempMpq2 : Path := 7

/-- archive obtained by adding/replacing one member (abstract; injective enough for the model) -/
def archAdd (archive member : Content) : Content := archive * 7919 + member + 1

def copyFile (fault : Option Fault) (src dst : Path) : FM := fun st =>
  match st.fs.get src with
  | none => .error (.notfound, st)
  | some c => prim fault (fun fs => fs.set dst c) (fun fs => fs.set dst (partialOf c)) st

/-- an archive-library call on a temp archive: `eff` on that file only -/
def archCall (fault : Option Fault) (p : Path) (f : Content → Content) : FM := fun st =>
  match st.fs.get p with
  | none => .error (.notfound, st)
  | some c => prim fault (fun fs => fs.set p (f c)) (fun fs => fs.set p (partialOf (f c))) st

/-- an archive-library call that does not modify the archive (open for read, search, close) -/
def roCall (fault : Option Fault) : FM := prim fault id id

/-- `_copy_file_atomically(src, dest)`: copy to a sibling work file, `os.replace` it over the
destination; on any failure remove the work file if it exists and re-raise -/
def copyAtomically (fault : Option Fault) (src dest work : Path) : FM := fun st =>
  match (copyFile fault src work >>> (fun st1 =>
      match st1.fs.get work with
      | none => .error (.notfound, st1)
      | some c => prim fault (fun fs => (fs.del work).set dest c) (fun fs => fs) st1)) st with
  | .error (e, st') => .error (e, ⟨st'.fs.del work, st'.ops⟩)
  | .ok st' => .ok st'

/-- `StarCraftMpqIo.save_chk_to_mpq(chk, base, dest, overwrite_existing)`;
`nAudio` = audio members of the base archive scanned for durations, `chk` = the encoded CHK
(`none`: encoding the rich map raises) -/
def saveMap (fault : Option Fault) (ow : Bool) (nAudio : Nat) (chk : Option Content)
    (base dest tempChk tempMpq work : Path) : FM :=
  guard (fun st => st.fs.has base) .notfound >>>
  guard (fun st => !(st.fs.has dest) || ow) .exists >>>
  withTemp fault tempChk (
    withTemp fault tempMpq (
      -- wav metadata of the base archive: open, two searches, per member extract + measure, close
      roCall fault >>> roCall fault >>> roCall fault >>>
      (List.range nAudio).foldr (fun _ acc =>
        withTemp fault pTempWav (copyFile fault base pTempWav >>> roCall fault) >>> acc) (fun st => .ok st) >>>
      roCall fault >>>
      -- encode the CHK into the temp file
      (match chk with
       | none => fail .value
       | some c => prim fault (fun fs => fs.set tempChk c) (fun fs => fs.set tempChk (partialOf c))) >>>
      copyFile fault base tempMpq >>>
      roCall fault >>>                                              -- open temp archive
      (fun st => match st.fs.get tempChk with
        | none => .error (.notfound, st)
        | some c => archCall fault tempMpq (fun a => archAdd a c) st) >>>  -- add scenario.chk
      archCall fault tempMpq id >>>                                  -- compact
      roCall fault >>>                                              -- close
      copyAtomically fault tempMpq dest work))

/-- `ChkIo.encode_chk_to_file(chk, path, force_create)` -/
def chkExport (fault : Option Fault) (force : Bool) (chk : Content) (out : Path) : FM :=
  guard (fun st => force || !(st.fs.has out)) .exists >>>
  prim fault (fun fs => fs.set out chk) (fun fs => fs.set out (partialOf chk))

/-- `StormLibWrapper.extract_file` / `StarCraftMpqIo.extract_chk_from_mpq` -/
def extractMember (fault : Option Fault) (ow : Bool) (archive out : Path) (member : Content) : FM :=
  guard (fun st => st.fs.has archive) .notfound >>>
  roCall fault >>>
  guard (fun st => !(st.fs.has out) || ow) .exists >>>
  prim fault (fun fs => fs.set out member) (fun fs => fs.set out (partialOf member)) >>>
  roCall fault

/-- `StarCraftAudioFilesIo.add_audio_files_to_mpq(files, base, dest, overwrite_existing)` -/
def importAudio (fault : Option Fault) (ow : Bool) (audio : List Content) (filesExist : Bool)
    (chk : Option Content) (base dest : Path) : FM :=
  guard (fun _ => filesExist) .notfound >>>
  guard (fun st => st.fs.has base) .notfound >>>
  guard (fun st => !(st.fs.has dest) || ow) .exists >>>
  withTemp fault pTempMpq2 (
    copyFile fault base pTempMpq2 >>>
    roCall fault >>>                                                -- open
    audio.foldr (fun a acc => archCall fault pTempMpq2 (fun ar => archAdd ar a) >>> acc) (fun st => .ok st) >>>
    archCall fault pTempMpq2 id >>> roCall fault >>>                -- compact, close
    -- read the CHK back from the temp archive (temp file + open, extract, decode, close)
    withTemp fault pTempChk (roCall fault >>> copyFile fault pTempMpq2 pTempChk >>> roCall fault) >>>
    saveMap fault true audio.length chk pTempMpq2 dest pTempChk pTempMpq pWork)

def runFM (m : FM) (fs : FS) : Except Err Unit × FS × Nat :=
  match m ⟨fs, 0⟩ with
  | .ok st => (.ok (), st.fs, st.ops)
  | .error (e, st) => (.error e, st.fs, st.ops)

/-- WAV duration in milliseconds: `(frames * 1000) // rate` -/
def wavDurationMs (frames rate : Nat) : Nat := frames * 1000 / rate

end Richchk
