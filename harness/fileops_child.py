"""One real file-level operation with an optional injected fault, in its own process.

usage: fileops_child.py '<json spec>'   -> one JSON line
spec: {"op": save|import|read|export|extract_chk|extract_file, "base": <path>, "dest": absent|existing|same,
       "flag": default|false|true, "fault": null | [k, "before"|"after"|"midway"], "audio": [paths], "edit": bool}
"""
import ctypes
import hashlib
import json
import logging
import os
import shutil
import struct
import sys
import tempfile

logging.disable(logging.CRITICAL)


def sha(p):
    if not os.path.exists(p):
        return None
    if os.path.isdir(p):
        return "DIR"
    return hashlib.sha256(open(p, "rb").read()).hexdigest()[:16]


class Injected(OSError):
    pass


class Injector:
    """numbers every archive-library call and file-system call in execution order"""

    def __init__(self, fault):
        self.fault = fault
        self.n = 0
        self.log = []
        self.dll_fail = False   # the archive library's next operation takes effect, then REPORTS failure

    def wrap(self, name, fn, partial=None):
        def inner(*a, **kw):
            k = self.n
            self.n += 1
            self.log.append(name)
            if self.fault and self.fault[0] == k:
                mode = self.fault[1]
                if mode == "before":
                    raise Injected("injected before %s" % name)
                if mode == "reports-failure":
                    self.dll_fail = True
                    try:
                        return fn(*a, **kw)
                    finally:
                        self.dll_fail = False
                if mode == "midway" and partial is not None:
                    partial(*a, **kw)
                    raise Injected("injected midway %s" % name)
                r = fn(*a, **kw)
                raise Injected("injected after %s" % name)
            return fn(*a, **kw)

        return inner


def _library_calls_only(inj, name, fn):
    wrapped = inj.wrap(name, fn)

    def inner(*a, **kw):
        caller = sys._getframe(1).f_globals.get("__name__", "")
        if caller.startswith("richchk"):
            return wrapped(*a, **kw)
        return fn(*a, **kw)

    return inner


class DllProxy:
    """the archive library seen by the wrapper: while `inj.dll_fail` is set, the operation is carried out and its
    return value replaced by 0 (StormLib's "failed"), as when the library fails after writing its output"""

    def __init__(self, dll, inj):
        object.__setattr__(self, "_dll", dll)
        object.__setattr__(self, "_inj", inj)

    def __getattr__(self, name):
        real = getattr(self._dll, name)
        inj = self._inj
        if not inj.dll_fail or not name.startswith("SFile"):
            return real            # the library's own function object (the wrapper sets argtypes / restype on it)
        inj.dll_fail = False
        return FailingCall(real)


class FailingCall:
    def __init__(self, real):
        object.__setattr__(self, "_real", real)

    def __setattr__(self, k, v):
        setattr(self._real, k, v)

    def __getattr__(self, k):
        return getattr(self._real, k)

    def __call__(self, *a):
        self._real(*a)
        return 0


class RefProxy:
    def __init__(self, ref, inj):
        self._ref = ref
        self.stormlib_dll = DllProxy(ref.stormlib_dll, inj)

    def __getattr__(self, name):
        return getattr(self._ref, name)


def partial_copy(src, dst, *a, **kw):
    data = open(src, "rb").read()
    with open(dst, "wb") as f:
        f.write(data[: max(1, len(data) // 2)])


def fix_search_struct():
    """the shipped ctypes struct for SFileFind* is smaller than the Linux library's (MAX_PATH
    1024): every file search overflows it.  Enlarged here (harness only) so runs are stable."""
    import richchk.model.mpq.stormlib.search.stormlib_file_search_result as m
    import richchk.mpq.stormlib.stormlib_file_searcher as s
    from ctypes import Structure, c_char, c_char_p, c_uint16, c_uint32

    class Big(Structure):
        _fields_ = [("cFileName", c_char * 1024)] + m.StormLibFileSearchResult._fields_[1:]

    m.StormLibFileSearchResult = Big
    s.StormLibFileSearchResult = Big
    import richchk.model.mpq.stormlib.search.stormlib_file_search_operation_result as o

    o.StormLibFileSearchResult = Big


def list_members(wrapper, path):
    from richchk.model.mpq.stormlib.stormlib_archive_mode import StormLibArchiveMode
    from richchk.mpq.stormlib.stormlib_file_searcher import StormLibFileSearcher

    h = wrapper.open_archive(path, StormLibArchiveMode.STORMLIB_READ_ONLY)
    try:
        names = StormLibFileSearcher(stormlib_reference=wrapper.stormlib, open_mpq_handle=h).find_all_files_matching_pattern("*")
        out = {}
        for n in names:
            t = os.path.join(os.path.dirname(path), "_member_tmp")
            if os.path.exists(t):
                os.remove(t)
            try:
                wrapper.extract_file(h, n, t, overwrite_existing=True)
                out[n] = sha(t)
            except Exception as ex:  # noqa: BLE001
                out[n] = "unreadable:" + type(ex).__name__
            if os.path.exists(t):
                os.remove(t)
    finally:
        wrapper.close_archive(h)
    return out


def make_wav(path, ms, rate=8000):
    import wave

    with wave.open(path, "wb") as w:
        w.setnchannels(1)
        w.setsampwidth(1)
        w.setframerate(rate)
        w.writeframes(b"\x80" * (rate * ms // 1000))


def playwav_durations(io, path):
    from richchk.model.richchk.trig.actions.play_wav_action import PlayWavAction
    from richchk.model.richchk.trig.rich_trig_section import RichTrigSection

    chk = io.read_chk_from_mpq(path)
    out = {}
    for s in chk.chk_sections:
        if isinstance(s, RichTrigSection):
            for t in s.triggers:
                for a in t.actions:
                    if isinstance(a, PlayWavAction):
                        out[a.path_to_wav_in_mpq] = a.duration_ms
    return out


def add_playwav(chk, wav_path, duration=None):
    from richchk.editor.richchk.rich_chk_editor import RichChkEditor
    from richchk.editor.richchk.rich_trig_editor import RichTrigEditor
    from richchk.io.richchk.query.chk_query_util import ChkQueryUtil
    from richchk.model.richchk.trig.actions.play_wav_action import PlayWavAction
    from richchk.model.richchk.trig.conditions.always_condition import AlwaysCondition
    from richchk.model.richchk.trig.player_id import PlayerId
    from richchk.model.richchk.trig.rich_trig_section import RichTrigSection
    from richchk.model.richchk.trig.rich_trigger import RichTrigger

    trig = ChkQueryUtil.find_only_rich_section_in_chk(RichTrigSection, chk)
    t = RichTrigger(_conditions=[AlwaysCondition()], _actions=[PlayWavAction(_path_to_wav_in_mpq=wav_path, _duration_ms=duration)], _players={PlayerId.PLAYER_1})
    return RichChkEditor().replace_chk_section(RichTrigEditor.add_triggers([t], trig), chk)


def scenario_stale_duration(wrapper, base, work):
    """one long-lived IO object: save, replace a sound inside the map, save again — a PlayWav
    without explicit duration must get the CURRENT file's duration each time"""
    from richchk.io.mpq.starcraft_audio_files_io import StarCraftAudioFilesIo
    from richchk.io.mpq.starcraft_mpq_io import StarCraftMpqIo

    io = StarCraftMpqIo(wrapper)
    aio = StarCraftAudioFilesIo(wrapper)
    snd = os.path.join(work, "verif_sound.wav")
    make_wav(snd, 1500)
    m1 = os.path.join(work, "m1.scx")
    aio.add_audio_files_to_mpq([snd], base, m1)
    member = "staredit\\wav\\verif_sound.wav"
    chk = add_playwav(io.read_chk_from_mpq(m1), member)
    m2 = os.path.join(work, "m2.scx")
    io.save_chk_to_mpq(chk, m1, m2)
    d1 = playwav_durations(io, m2).get(member)
    make_wav(snd, 2750)  # the sound is re-recorded and imported again under the same name
    aio.add_audio_files_to_mpq([snd], m1, m1, overwrite_existing=True)
    snd2 = os.path.join(work, "second_sound.wav")
    make_wav(snd2, 640)
    aio.add_audio_files_to_mpq([snd2], m1, m1, overwrite_existing=True)
    chk2 = add_playwav(add_playwav(io.read_chk_from_mpq(m1), member), "staredit\\wav\\second_sound.wav")
    m3 = os.path.join(work, "m3.scx")
    try:
        io.save_chk_to_mpq(chk2, m1, m3)
        d = playwav_durations(io, m3)
        return {"first": d1, "second": d.get(member), "new_sound": d.get("staredit\\wav\\second_sound.wav"), "error": None}
    except Exception as ex:  # noqa: BLE001
        return {"first": d1, "second": None, "new_sound": None, "error": type(ex).__name__ + ": " + str(ex)[:120]}


def scenario_explicit_duration(wrapper, base, work):
    """an authored PlayWav with an explicit duration keeps exactly it (0 ms included); without one it gets
    the file's duration"""
    from richchk.io.mpq.starcraft_audio_files_io import StarCraftAudioFilesIo
    from richchk.io.mpq.starcraft_mpq_io import StarCraftMpqIo

    io = StarCraftMpqIo(wrapper)
    aio = StarCraftAudioFilesIo(wrapper)
    want = {}
    files = []
    for name, ms, dur in (("ex_zero.wav", 900, 0), ("ex_one.wav", 1100, 1), ("ex_long.wav", 1300, 4321), ("ex_none.wav", 1700, None)):
        f = os.path.join(work, name)
        make_wav(f, ms)
        files.append(f)
        want["staredit\\wav\\" + name] = (dur if dur is not None else ms, dur)
    m1 = os.path.join(work, "e1.scx")
    aio.add_audio_files_to_mpq(files, base, m1)
    chk = io.read_chk_from_mpq(m1)
    for member, (_, dur) in want.items():
        chk = add_playwav(chk, member, dur)
    m2 = os.path.join(work, "e2.scx")
    try:
        io.save_chk_to_mpq(chk, m1, m2)
        got = playwav_durations(io, m2)
        return {"want": {k: v[0] for k, v in want.items()}, "got": {k: got.get(k) for k in want}, "error": None}
    except Exception as ex:  # noqa: BLE001
        return {"want": {k: v[0] for k, v in want.items()}, "got": None, "error": type(ex).__name__ + ": " + str(ex)[:120]}


def ogg_duration_ms(path):
    """independent of the library: last granule position / sample rate of a Vorbis stream"""
    data = open(path, "rb").read()
    i = data.find(b"\x01vorbis")
    rate = struct.unpack_from("<I", data, i + 7 + 4 + 1)[0]
    last = data.rfind(b"OggS")
    granule = struct.unpack_from("<q", data, last + 6)[0]
    return 1000.0 * granule / rate


def scenario_ogg_only(wrapper, base, work, ogg):
    """an archive whose only sound is an OGG file: a PlayWav without explicit duration still gets the file's length"""
    from richchk.io.mpq.starcraft_audio_files_io import StarCraftAudioFilesIo
    from richchk.io.mpq.starcraft_mpq_io import StarCraftMpqIo

    io = StarCraftMpqIo(wrapper)
    m1 = os.path.join(work, "o1.scx")
    StarCraftAudioFilesIo(wrapper).add_audio_files_to_mpq([ogg], base, m1)
    member = "staredit\\wav\\" + os.path.basename(ogg)
    chk = add_playwav(io.read_chk_from_mpq(m1), member, None)
    m2 = os.path.join(work, "o2.scx")
    want = ogg_duration_ms(ogg)
    try:
        io.save_chk_to_mpq(chk, m1, m2)
        return {"want": want, "got": playwav_durations(io, m2).get(member), "error": None}
    except Exception as ex:  # noqa: BLE001
        return {"want": want, "got": None, "error": type(ex).__name__ + ": " + str(ex)[:120]}


def scenario_custom_folder(wrapper, base, work):
    """a sound the author stored under a folder of their own (`sound\\custom\\beep.wav`): listed in the sound table and
    played without explicit duration, it gets its true length like any other"""
    from richchk.editor.richchk.rich_chk_editor import RichChkEditor
    from richchk.editor.richchk.rich_wav_editor import RichWavEditor
    from richchk.io.mpq.starcraft_mpq_io import StarCraftMpqIo
    from richchk.io.richchk.query.chk_query_util import ChkQueryUtil
    from richchk.model.mpq.stormlib.stormlib_archive_mode import StormLibArchiveMode
    from richchk.model.richchk.wav.rich_wav_section import RichWavSection

    io = StarCraftMpqIo(wrapper)
    snd = os.path.join(work, "beep.wav")
    make_wav(snd, 1234)
    m0 = os.path.join(work, "c0.scx")
    shutil.copyfile(base, m0)
    member = "sound\\custom\\beep.wav"
    h = wrapper.open_archive(m0, StormLibArchiveMode.STORMLIB_WRITE_ONLY)
    wrapper.add_file(h, snd, member, overwrite_existing=True)
    wrapper.compact_archive(h)
    wrapper.close_archive(h)
    chk = io.read_chk_from_mpq(m0)
    wav = ChkQueryUtil.find_only_rich_section_in_chk(RichWavSection, chk)
    chk = RichChkEditor().replace_chk_section(RichWavEditor().add_wav_files([member], wav), chk)
    chk = add_playwav(chk, member, None)
    m1 = os.path.join(work, "c1.scx")
    try:
        io.save_chk_to_mpq(chk, m0, m1)
        return {"want": 1234, "got": playwav_durations(io, m1).get(member), "error": None}
    except Exception as ex:  # noqa: BLE001
        return {"want": 1234, "got": None, "error": type(ex).__name__ + ": " + str(ex)[:120]}


def scenario_sparse_wav(wrapper, base, work, free_slots):
    """a map whose sound table has free slots below used ones, then an audio import"""
    from richchk.editor.richchk.rich_chk_editor import RichChkEditor
    from richchk.io.mpq.starcraft_audio_files_io import StarCraftAudioFilesIo
    from richchk.io.mpq.starcraft_mpq_io import StarCraftMpqIo
    from richchk.io.richchk.query.chk_query_util import ChkQueryUtil
    from richchk.model.richchk.str.rich_string import RichString
    from richchk.model.richchk.wav.rich_wav import RichWav
    from richchk.model.richchk.wav.rich_wav_section import RichWavSection

    io = StarCraftMpqIo(wrapper)
    chk = io.read_chk_from_mpq(base)
    wav = ChkQueryUtil.find_only_rich_section_in_chk(RichWavSection, chk)
    used = [i for i in range(1, 9) if i not in free_slots][:4]
    entries = [RichWav(_path_in_chk=RichString("staredit\\wav\\old %d.wav" % i), _index=i) for i in used]
    chk = RichChkEditor().replace_chk_section(RichWavSection(_wavs=entries), chk)
    m1 = os.path.join(work, "sparse.scx")
    io.save_chk_to_mpq(chk, base, m1)
    snds = []
    for k in range(2):
        p = os.path.join(work, "fresh_%d.wav" % k)
        make_wav(p, 300 + k)
        snds.append(p)
    m2 = os.path.join(work, "sparse2.scx")
    StarCraftAudioFilesIo(wrapper).add_audio_files_to_mpq(snds, m1, m2)
    back = io.read_chk_from_mpq(m2)
    table = {w.index: w.path_in_chk.value for s in back.chk_sections if isinstance(s, RichWavSection) for w in s.wavs}
    return {"before": {i: "staredit\\wav\\old %d.wav" % i for i in used}, "after": table, "new": ["staredit\\wav\\fresh_%d.wav" % k for k in range(2)]}


def sound_table_of(wrapper, archive, work):
    """the archive's sound table read from the scenario bytes themselves (WAV section: 512 string numbers; STR: offsets)"""
    from richchk.model.mpq.stormlib.stormlib_archive_mode import StormLibArchiveMode

    import refchk

    out = os.path.join(work, "st_%d.chk" % len(os.listdir(work)))
    h = wrapper.open_archive(archive, StormLibArchiveMode.STORMLIB_READ_ONLY)
    try:
        wrapper.extract_file(h, "staredit\\scenario.chk", out, overwrite_existing=True)
    finally:
        wrapper.close_archive(h)
    data = open(out, "rb").read()
    os.remove(out)
    chunks = {n: p for n, _, p in refchk.split_chunks(data)}
    wav, strs = chunks.get(b"WAV ", b""), chunks.get(b"STR ", b"")
    table = {}
    for i in range(len(wav) // 4):
        sid = struct.unpack_from("<I", wav, 4 * i)[0]
        if sid:
            t = refchk.resolve_string(strs, 2, sid)
            table[i] = t.decode("latin1") if t is not None else None
    return table


def scenario_mixed_batch(wrapper, base, work):
    """import batches that mix sounds the map already lists with new ones, in the orders an author would meet: first
    [a], then [a, b] (the listed one first), then [c, c, d] (one path twice), then [e, a] (the listed one last).  After
    each import every file of the batch is a member with the file's bytes AND is listed in the map's sound table, and
    what was listed before stays listed."""
    from richchk.io.mpq.starcraft_audio_files_io import StarCraftAudioFilesIo
    from richchk.model.mpq.stormlib.stormlib_archive_mode import StormLibArchiveMode

    snd = {}
    for k, name in enumerate("abcde"):
        snd[name] = os.path.join(work, "mix_%s.wav" % name)
        make_wav(snd[name], 200 + 37 * k)
    steps = [["a"], ["a", "b"], ["c", "c", "d"], ["e", "a"]]
    cur = base
    log = []
    listed_before = set(v for v in sound_table_of(wrapper, cur, work).values() if v)
    for n, batch in enumerate(steps):
        nxt = os.path.join(work, "mix_%d.scx" % n)
        try:
            StarCraftAudioFilesIo(wrapper).add_audio_files_to_mpq([snd[x] for x in batch], cur, nxt)
        except Exception as ex:  # noqa: BLE001
            log.append({"step": batch, "error": type(ex).__name__ + ": " + str(ex)[:120]})
            break
        table = sound_table_of(wrapper, nxt, work)
        listed = set(v for v in table.values() if v)
        want = ["staredit\\wav\\" + os.path.basename(snd[x]) for x in batch]
        missing_members = []
        h = wrapper.open_archive(nxt, StormLibArchiveMode.STORMLIB_READ_ONLY)
        try:
            for x, member in zip(batch, want):
                o = os.path.join(work, "mx_member.bin")
                try:
                    wrapper.extract_file(h, member, o, overwrite_existing=True)
                    same = open(o, "rb").read() == open(snd[x], "rb").read()
                    os.remove(o)
                except Exception:  # noqa: BLE001
                    same = False
                if not same:
                    missing_members.append(member)
        finally:
            wrapper.close_archive(h)
        log.append({"step": batch, "not_listed": sorted(set(want) - listed), "not_stored": sorted(set(missing_members)),
                    "dropped_from_table": sorted(listed_before - listed), "error": None})
        listed_before = listed
        cur = nxt
    return {"steps": log}


def main():
    spec = json.loads(sys.argv[1])
    work = tempfile.mkdtemp(prefix="vfo_")
    tmpdir = os.path.join(work, "tmp")
    os.makedirs(tmpdir)
    tempfile.tempdir = tmpdir
    os.environ["TMPDIR"] = tmpdir
    res = {"spec": spec}
    try:
        fix_search_struct()
        import richchk.io.mpq.starcraft_audio_files_io as aio
        import richchk.io.mpq.starcraft_audio_files_metadata_io as mio
        import richchk.io.mpq.starcraft_mpq_io as sio
        import richchk.util.fileutils as fu
        from richchk.io.chk.chk_io import ChkIo
        from richchk.io.mpq.starcraft_mpq_io import StarCraftMpqIo
        from richchk.io.mpq.starcraft_audio_files_io import StarCraftAudioFilesIo
        from richchk.model.mpq.stormlib.stormlib_archive_mode import StormLibArchiveMode
        from richchk.mpq.stormlib.stormlib_helper import StormLibHelper

        wrapper = StormLibHelper.load_stormlib(None)
        base = os.path.join(work, "base.scx")
        shutil.copyfile(spec["base"], base)
        dest = base if spec["dest"] == "same" else os.path.join(work, "out", "new.scx")
        os.makedirs(os.path.join(work, "out"), exist_ok=True)
        neighbour = os.path.join(work, "out", "new.scx.tmp")
        open(neighbour, "wb").write(b"neighbour file that nobody named")
        if spec["dest"] == "existing":
            open(dest, "wb").write(b"previous complete destination content " * 50)
        elif spec["dest"] == "existing-empty":
            open(dest, "wb").close()      # an existing file of length 0 is an existing file
        elif spec["dest"] == "symlink-to-base":
            os.symlink(base, dest)        # e.g. latest.scx -> mymap_v1.scx: writing "latest" must not rewrite v1
        # how the caller spells the destination: the same file through a relative path, or a "~" path whose
        # expansion ($HOME) is the directory holding the existing file
        dest_arg = dest
        if spec.get("spell") == "relative":
            os.chdir(work)
            dest_arg = os.path.join("out", "new.scx")
        elif spec.get("spell") == "tilde":
            os.chdir(work)
            os.environ["HOME"] = os.path.join(work, "out")
            dest_arg = "~/new.scx"
        before = {"base": sha(base), "dest": sha(dest), "neighbour": sha(neighbour)}
        kw = {}
        op = spec["op"]
        flagname = {"export": "force_create"}.get(op, "overwrite_existing")
        if spec["flag"] != "default":
            kw[flagname] = spec["flag"] == "true"
        io = StarCraftMpqIo(wrapper)
        # the rich map to save (read before the fault injector is installed)
        rich = None
        enc_bytes = None
        if op in ("save", "export"):
            rich = io.read_chk_from_mpq(base)
            if spec.get("edit") == "unencodable":
                # a location sticking out past the map's edge (x = -32): the rich layer accepts it, the byte layer
                # cannot write it — the save fails in the middle, after work files were created
                from richchk.editor.richchk.rich_chk_editor import RichChkEditor
                from richchk.editor.richchk.rich_mrgn_editor import RichMrgnEditor
                from richchk.io.richchk.query.chk_query_util import ChkQueryUtil
                from richchk.model.richchk.mrgn.rich_location import RichLocation
                from richchk.model.richchk.mrgn.rich_mrgn_section import RichMrgnSection
                from richchk.model.richchk.str.rich_string import RichString

                mrgn = ChkQueryUtil.find_only_rich_section_in_chk(RichMrgnSection, rich)
                m2, _ = RichMrgnEditor().add_locations([RichLocation(-32, 0, 64, 64, RichString("past the edge"))], mrgn)
                rich = RichChkEditor().replace_chk_section(m2, rich)
            elif spec.get("edit"):
                from richchk.editor.richchk.rich_chk_editor import RichChkEditor
                from richchk.editor.richchk.rich_trig_editor import RichTrigEditor
                from richchk.io.richchk.query.chk_query_util import ChkQueryUtil
                from richchk.model.richchk.str.rich_string import RichString
                from richchk.model.richchk.trig.actions.display_text_message_action import DisplayTextMessageAction
                from richchk.model.richchk.trig.conditions.always_condition import AlwaysCondition
                from richchk.model.richchk.trig.player_id import PlayerId
                from richchk.model.richchk.trig.rich_trig_section import RichTrigSection
                from richchk.model.richchk.trig.rich_trigger import RichTrigger

                trig = ChkQueryUtil.find_only_rich_section_in_chk(RichTrigSection, rich)
                n = int(spec["edit"])
                new = [RichTrigger(_conditions=[AlwaysCondition()], _actions=[DisplayTextMessageAction(_text=RichString("verif text %d " % i + "x" * (i % 7) * 50))], _players={PlayerId.PLAYER_1}) for i in range(n)]
                rich = RichChkEditor().replace_chk_section(RichTrigEditor.add_triggers(new, trig), rich)
        inj = Injector(tuple(spec["fault"]) if spec.get("fault") else None)
        # install: every StormLib call, every copy / replace / remove in the IO modules
        wrapper._stormlib = RefProxy(wrapper._stormlib, inj)
        for name in ("open_archive", "close_archive", "extract_file", "add_file", "compact_archive"):
            setattr(wrapper, name, inj.wrap("stormlib." + name, getattr(wrapper, name)))
        for mod in (sio, aio):
            mod.shutil = type("S", (), {"copyfile": staticmethod(inj.wrap("shutil.copyfile", shutil.copyfile, partial_copy))})
        real_os = os

        class OsProxy:
            path = os.path
            urandom = staticmethod(os.urandom)

            def __getattr__(self, n):
                return getattr(real_os, n)

        osp = OsProxy()
        osp.replace = inj.wrap("os.replace", os.replace)
        osp.remove = inj.wrap("os.remove", os.remove)
        sio.os = osp
        # any OTHER state-changing file-system call the library itself makes (from whichever of its modules: the temporary
        # file helper, a future permission / rename / link step) is numbered and can fail too; calls made by the standard
        # library or by this harness pass through untouched
        for fname in ("chmod", "chown", "rename", "renames", "link", "symlink", "mkdir", "makedirs", "truncate", "utime"):
            if hasattr(os, fname):
                setattr(os, fname, _library_calls_only(inj, "os." + fname, getattr(os, fname)))
        exc = None
        try:
            if op == "save":
                io.save_chk_to_mpq(rich, base, dest_arg, **kw)
            elif op == "import":
                StarCraftAudioFilesIo(wrapper).add_audio_files_to_mpq(spec["audio"], base, dest_arg, **kw)
            elif op == "read":
                io.read_chk_from_mpq(base)
            elif op == "extract_chk":
                io.extract_chk_from_mpq(base, dest_arg, **kw)
            elif op == "extract_file":
                h = wrapper.open_archive(base, StormLibArchiveMode.STORMLIB_READ_ONLY)
                try:
                    wrapper.extract_file(h, "staredit\\scenario.chk", dest_arg, **kw)
                finally:
                    wrapper.close_archive(h)
            elif op == "export":
                from richchk.io.richchk.richchk_io import RichChkIo

                ChkIo().encode_chk_to_file(RichChkIo().encode_chk(rich), dest_arg, **kw)
            elif op == "scenario_stale_duration":
                res["scenario"] = scenario_stale_duration(wrapper, base, work)
            elif op == "scenario_explicit_duration":
                res["scenario"] = scenario_explicit_duration(wrapper, base, work)
            elif op == "scenario_custom_folder":
                res["scenario"] = scenario_custom_folder(wrapper, base, work)
            elif op == "scenario_ogg_only":
                res["scenario"] = scenario_ogg_only(wrapper, base, work, spec["ogg"])
            elif op == "scenario_mixed_batch":
                res["scenario"] = scenario_mixed_batch(wrapper, base, work)
            elif op == "scenario_sparse_wav":
                res["scenario"] = scenario_sparse_wav(wrapper, base, work, spec.get("free_slots", [0]))
        except BaseException as ex:  # noqa: BLE001
            exc = type(ex).__name__
        res["exception"] = exc
        res["calls"] = inj.log
        res["before"] = before
        res["after"] = {"base": sha(base), "dest": sha(dest), "neighbour": sha(neighbour)}
        res["tmp_left"] = sorted(os.listdir(tmpdir))
        res["out_dir"] = sorted(os.listdir(os.path.join(work, "out")))
        # C17 data on success: members of base vs new, scenario bytes vs encoder, reload equality
        if exc is None and op in ("save", "import") and spec.get("inspect"):
            # restore the un-instrumented wrapper for inspection
            w2 = StormLibHelper.load_stormlib(None)
            res["members_base"] = list_members(w2, spec["base"])
            res["members_new"] = list_members(w2, dest)
            io2 = StarCraftMpqIo(w2)
            t = os.path.join(work, "scenario.out")
            io2.extract_chk_from_mpq(dest, t, overwrite_existing=True)
            stored = open(t, "rb").read()
            res["scenario_sha"] = hashlib.sha256(stored).hexdigest()[:16]
            if op == "save":
                from richchk.io.richchk.richchk_io import RichChkIo

                meta = io2._build_wav_metadata_lookup(spec["base"])
                enc = ChkIo().encode_chk_to_bytes(RichChkIo().encode_chk(rich, wav_metadata_lookup=meta))
                res["encoder_sha"] = hashlib.sha256(enc).hexdigest()[:16]
                back = io2.read_chk_from_mpq(dest)
                again = ChkIo().encode_chk_to_bytes(RichChkIo().encode_chk(back, wav_metadata_lookup=meta))
                res["reload_reencodes_equal"] = again == enc
            if op == "import":
                from richchk.model.richchk.wav.rich_wav_section import RichWavSection

                back = io2.read_chk_from_mpq(dest)
                wavs = [w.path_in_chk.value for s in back.chk_sections if isinstance(s, RichWavSection) for w in s.wavs]
                res["wav_table"] = wavs
                res["audio_sha"] = {os.path.basename(a): sha(a) for a in spec["audio"]}
    except BaseException as ex:  # noqa: BLE001
        res["harness_error"] = type(ex).__name__ + ": " + str(ex)[:300]
    finally:
        sys.stdout.write(json.dumps(res) + "\n")
        sys.stdout.flush()
        shutil.rmtree(work, ignore_errors=True)
        os._exit(0)  # skip interpreter teardown (ctypes/StormLib teardown can crash)


if __name__ == "__main__":
    main()
