"""One authored scenario saved to CHK bytes; prints a canonical digest that is invariant under the
numbering of NEWLY allocated location / switch / unit-property slots and sensitive to
everything else.  Run in a fresh interpreter per PYTHONHASHSEED (C14).

usage: c14_scenario.py <scenario index> <padding>
"""
import hashlib
import json
import logging
import os
import random
import struct
import sys

AUTHORED_RECTS = []   # filled by the scenario: rectangles of the authored locations, in authoring order
CARRIED_SWITCHES = (0, 1, 200, 3)   # 3 carries a custom name in the scx fixture; 4 ("Switch 5") is named and stays unreferenced

sys.path.insert(0, os.path.dirname(os.path.abspath(__file__)))
import refchk  # noqa: E402
from common import BUILD_DIR, REPO, load_spec  # noqa: E402

logging.disable(logging.CRITICAL)


def build(scen, pad):
    from richchk.editor.richchk.rich_chk_editor import RichChkEditor
    from richchk.editor.richchk.rich_trig_editor import RichTrigEditor
    from richchk.io.chk.chk_io import ChkIo
    from richchk.io.richchk.query.chk_query_util import ChkQueryUtil
    from richchk.io.richchk.richchk_io import RichChkIo
    from richchk.model.richchk.mrgn.rich_location import RichLocation
    from richchk.model.richchk.str.rich_string import RichNullString, RichString
    from richchk.model.richchk.swnm.rich_switch import RichSwitch
    from richchk.model.richchk.trig.actions.create_unit_with_properties_action import CreateUnitWithPropertiesAction
    from richchk.model.richchk.trig.actions.minimap_ping_action import MinimapPingAction
    from richchk.model.richchk.trig.actions.move_location_action import MoveLocationAction
    from richchk.model.richchk.trig.actions.set_switch_action import SetSwitchAction
    from richchk.model.richchk.trig.conditions.always_condition import AlwaysCondition
    from richchk.model.richchk.trig.conditions.bring_condition import BringCondition
    from richchk.model.richchk.trig.conditions.comparators.numeric_comparator import NumericComparator
    from richchk.model.richchk.trig.conditions.switch_condition import SwitchCondition
    from richchk.model.richchk.trig.enums.switch_action import SwitchAction
    from richchk.model.richchk.trig.enums.switch_state import SwitchState
    from richchk.model.richchk.trig.player_id import PlayerId
    from richchk.model.richchk.trig.rich_trig_section import RichTrigSection
    from richchk.model.richchk.trig.rich_trigger import RichTrigger
    from richchk.model.richchk.unis.unit_id import UnitId
    from richchk.model.richchk.uprp.rich_cuwp_slot import RichCuwpSlot

    rnd = random.Random(1000 + scen)
    _junk = [object() for _ in range(pad * 37)]  # perturb the address layout
    base_path = os.path.join(REPO, "test", "resources", ["test-chkjson-scx.chk", "test-chkjson-scm.chk", "test-chkjson-scx.chk"][scen % 3])
    base = open(base_path, "rb").read()
    rich = RichChkIo().decode_chk(ChkIo().decode_chk_binary_data(base))
    nloc, nsw, ncu = rnd.randrange(2, 6), 5 + scen % 3, rnd.randrange(1, 4)
    locs = [RichLocation(32 * (i + 1 + scen), 64 + i, 512 + 32 * i, 640 + i, RichString("c14 loc %d-%d" % (scen, i))) for i in range(nloc)]
    # several new locations may share a label (per-player spawn areas) while being different rectangles
    locs += [RichLocation(1000 + 64 * i, 2000 + i, 1100 + 64 * i, 2100 + i, RichString("c14 spawn %d" % scen)) for i in range(4)]
    sws = [RichSwitch(RichString("c14 switch %d-%d" % (scen, i))) for i in range(nsw)] + [RichSwitch() for _ in range(scen % 2)]
    AUTHORED_RECTS[:] = [[l.left_x1, l.top_y1, l.right_x2, l.bottom_y2] for l in locs]
    cus = [RichCuwpSlot(10 + i, 20 + i, 30 + i, _units_in_hangar=i, _invincible=bool(i % 2)) for i in range(ncu)]
    units = list(UnitId)
    players = list(PlayerId)
    triggers = []
    for t in range(rnd.randrange(2, 5)):
        conds = [AlwaysCondition(), SwitchCondition(_switch_state=SwitchState.SET, _switch=rnd.choice(sws)),
                 BringCondition(_group=players[t % 8], _comparator=NumericComparator.AT_LEAST, _amount=t + 1, _unit=units[t], _location=rnd.choice(locs))]
        acts = [MinimapPingAction(_location=rnd.choice(locs)),
                SetSwitchAction(_switch=rnd.choice(sws), _switch_action=SwitchAction.TOGGLE),
                CreateUnitWithPropertiesAction(_group=players[(t + 1) % 8], _amount=2 + t, _unit=units[5 + t], _location=rnd.choice(locs), _properties=rnd.choice(cus)),
                MoveLocationAction(_source_location=locs[0], _unit=units[7], _group=players[0], _destination_location=locs[-1])]
        if t == 0:
            # every authored object is referenced at least once
            acts += [SetSwitchAction(_switch=s, _switch_action=SwitchAction.SET) for s in sws]
            # existing switches by number, switch 0 included (numbers are 0-based)
            acts += [SetSwitchAction(_switch=RichSwitch(_index=k), _switch_action=SwitchAction.CLEAR) for k in CARRIED_SWITCHES]
            # switch 200 is unnamed in the stored table and referred to by number above; a trigger also NAMES it:
            # the name is saved, under every hash seed
            acts += [SetSwitchAction(_switch=RichSwitch(RichString("c14 vault door"), 200), _switch_action=SwitchAction.RANDOMIZE)]
            if scen == 101:
                # contradictory content of another kind: two different locations pinned to one free slot number
                # (a copy-paste slip); raise or not, the outcome is the same under every hash seed
                AUTHORED_RECTS[:0] = [[3000, 3000, 3100, 3100], [3200, 3000, 3300, 3100]]
                acts += [MinimapPingAction(_location=RichLocation(3000, 3000, 3100, 3100, RichString("c14 pin A"), 200)),
                         MinimapPingAction(_location=RichLocation(3200, 3000, 3300, 3100, RichString("c14 pin B"), 200))]
            if scen == 100:
                # contradictory content: two different names for one switch number (a stale copy after a rename);
                # whatever the library does with it, it must do the same under every hash seed
                acts += [SetSwitchAction(_switch=RichSwitch(RichString("c14 door"), 9), _switch_action=SwitchAction.SET),
                         SetSwitchAction(_switch=RichSwitch(RichString("c14 gate"), 9), _switch_action=SwitchAction.TOGGLE)]
            acts += [MinimapPingAction(_location=l) for l in locs]
            acts += [CreateUnitWithPropertiesAction(_group=players[1], _amount=1, _unit=units[9], _location=locs[0], _properties=c) for c in cus]
        triggers.append(RichTrigger(_conditions=conds, _actions=acts, _players={players[0], players[t % 8]}))
    trig = ChkQueryUtil.find_only_rich_section_in_chk(RichTrigSection, rich)
    rich2 = RichChkEditor().replace_chk_section(RichTrigEditor.add_triggers(triggers, trig), rich)
    out = ChkIo().encode_chk_to_bytes(RichChkIo().encode_chk(rich2))
    return base, out


def canonical(base, out):
    spec = load_spec()
    layouts = refchk.layouts_of(spec)
    # which fields of which entry types are references: the specification's argument tables
    rf = refchk.ref_fields_of(spec)
    ref_fields = {"action": {}, "condition": {}}  # id -> {field: kind}
    for kind, key in (("action", "a"), ("condition", "c")):
        for tid, fmap in rf[key].items():
            ref_fields[kind][tid] = {f: refchk.REF_KIND[a] for f, a in fmap.items() if refchk.REF_KIND.get(a) in ("loc", "switch", "cuwp")}

    def tables(data):
        t = {}
        for nm, _, p in refchk.split_chunks(data):
            if nm in (b"MRGN", b"UPRP", b"SWNM", b"TRIG"):
                t.setdefault(nm, refchk.fields_of(layouts[nm], p))
        return t

    tb, to = tables(base), tables(out)

    def nonzero(rec):
        return any(v for v in rec.values())

    # pre-existing occupancy (1-based slot numbers for locations and CUWPs, 0-based for switches)
    old_loc = {i + 1 for i, r in enumerate(tb[b"MRGN"]["records"]) if nonzero(r)}
    old_cu = {i + 1 for i, r in enumerate(tb.get(b"UPRP", {"records": []})["records"]) if nonzero(r)}
    old_sw = {i for i, v in enumerate(tb.get(b"SWNM", {"_switch_string_ids": []}).get("_switch_string_ids", [])) if v}
    # switches referenced by base triggers also count as existing (unnamed but used)
    for t in tb[b"TRIG"]["triggers"]:
        for a in t["acts"]:
            for f, k in ref_fields["action"].get(a["_action_id"], {}).items():
                if k == "switch":
                    old_sw.add(a[f])
        for c in t["conds"]:
            for f, k in ref_fields["condition"].get(c["_condition_id"], {}).items():
                if k == "switch":
                    old_sw.add(c[f])
    # switches the scenario refers to BY NUMBER carry their index: their number is content, not a new-slot label
    old_sw |= set(CARRIED_SWITCHES)

    def rank(records_by_slot, old):
        new = sorted(((json.dumps(r, sort_keys=True), s) for s, r in records_by_slot.items() if s not in old and r is not None))
        return {s: "N%d" % i for i, (_, s) in enumerate(new)}, [c for c, _ in new]

    locs = {i + 1: (r if nonzero(r) else None) for i, r in enumerate(to[b"MRGN"]["records"])}
    cus = {i + 1: (r if nonzero(r) else None) for i, r in enumerate(to[b"UPRP"]["records"])}
    sw_ids = to[b"SWNM"]["_switch_string_ids"]
    used_new_sw = set()
    for t in to[b"TRIG"]["triggers"]:
        for kind, recs, idf in (("action", t["acts"], "_action_id"), ("condition", t["conds"], "_condition_id")):
            for r in recs:
                for f, k in ref_fields[kind].get(r[idf], {}).items():
                    if k == "switch" and r[f] not in old_sw:
                        used_new_sw.add(r[f])
    sws = {i: ({"name": v} if (v or i in used_new_sw) else None) for i, v in enumerate(sw_ids)}
    loc_rank, loc_new = rank(locs, old_loc)
    cu_rank, cu_new = rank(cus, old_cu)
    # unnamed new switches are interchangeable only through their use: rank by first use position
    sw_rank, order = {}, 0
    named_new = sorted(((sws[i]["name"], i) for i in sws if sws[i] is not None and i not in old_sw and sws[i]["name"]))
    for _, i in named_new:
        sw_rank[i] = "N%d" % order
        order += 1
    h = hashlib.sha256()
    for nm, _, p in refchk.split_chunks(out):
        h.update(nm)
        if nm == b"MRGN":
            h.update(json.dumps([locs[s] if s in old_loc else None for s in sorted(locs)], sort_keys=True).encode())
            h.update(json.dumps(loc_new).encode())
        elif nm == b"UPRP":
            h.update(json.dumps([cus[s] if s in old_cu else None for s in sorted(cus)], sort_keys=True).encode())
            h.update(json.dumps(cu_new).encode())
        elif nm == b"UPUS":
            used = [i + 1 for i, b in enumerate(p) if b]
            h.update(json.dumps([u for u in used if u in old_cu]).encode() + str(len([u for u in used if u not in old_cu])).encode())
        elif nm == b"SWNM":
            h.update(json.dumps([sw_ids[i] if i in old_sw else None for i in range(len(sw_ids))]).encode())
            h.update(json.dumps(sorted(v for i, v in enumerate(sw_ids) if i not in old_sw and v)).encode())
        elif nm == b"TRIG":
            trigs = refchk.fields_of(layouts[nm], p)["triggers"]
            for t in trigs:
                for kind, recs, idf in (("action", t["acts"], "_action_id"), ("condition", t["conds"], "_condition_id")):
                    for r in recs:
                        r = dict(r)
                        for f, k in ref_fields[kind].get(r[idf], {}).items():
                            v = r[f]
                            if k == "loc" and v in loc_rank:
                                r[f] = loc_rank[v]
                            elif k == "cuwp" and v in cu_rank:
                                r[f] = cu_rank[v]
                            elif k == "switch" and v not in old_sw:
                                if v not in sw_rank:
                                    sw_rank[v] = "U%d" % len([x for x in sw_rank.values() if x.startswith("U")])
                                r[f] = sw_rank[v]
                        h.update(json.dumps(r, sort_keys=True).encode())
                h.update(json.dumps([t["execFlags"], t["players"], t["cur"]]).encode())
        else:
            h.update(p)
    # ground truth for what the scenario refers to BY NUMBER: the CLEAR actions of the first authored trigger
    # must carry exactly the numbers they were authored with
    nbase = len(tb[b"TRIG"]["triggers"])
    carried = []
    for t in to[b"TRIG"]["triggers"][nbase:nbase + 1]:
        for a in t["acts"]:
            if a["_action_id"] == 13 and a["_quantifier_or_switch_or_order"] == 5:
                carried.append(a["_second_group"])
    h.update(json.dumps(carried).encode())
    # ... and every "minimap ping" of the first authored trigger (one per authored location, in authoring order,
    # after the first one) must point at a slot holding exactly that location's rectangle
    pings = []
    for t in to[b"TRIG"]["triggers"][nbase:nbase + 1]:
        for a in t["acts"]:
            if a["_action_id"] == 28:
                r = to[b"MRGN"]["records"][a["_location_id"] - 1] if 1 <= a["_location_id"] <= len(to[b"MRGN"]["records"]) else {}
                pings.append([r.get("_left_x1"), r.get("_top_y1"), r.get("_right_x2"), r.get("_bottom_y2")])
    bad_loc = AUTHORED_RECTS and pings[1:] != AUTHORED_RECTS
    return h.hexdigest() + ("" if carried == list(CARRIED_SWITCHES) else " BAD-CARRIED %s" % carried) + (" BAD-LOCATIONS %s" % pings[1:3] if bad_loc else "")


if __name__ == "__main__":
    scen, pad = int(sys.argv[1]), int(sys.argv[2])
    if scen == 102:
        # the lowest switch numbers are FREE here (nobody names or refers to switches 0 and 1): the new named switches
        # are handed numbers 0, 1, ... in set order, and each keeps its name whichever number it got
        CARRIED_SWITCHES = (200, 3)
    try:
        base, out = build(scen, pad)
        print("OK %s len=%d" % (canonical(base, out), len(out)))
    except Exception as ex:  # noqa: BLE001
        print("RAISED %s" % type(ex).__name__)
