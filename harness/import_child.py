"""Fresh interpreter: import exactly one module of the package, then report the four registries.
usage: import_child.py <dotted module name>   -> one JSON line"""
import importlib
import json
import logging
import sys

logging.disable(logging.CRITICAL)
FACTORIES = [
    ("richchk.transcoder.chk.chk_section_transcoder_factory", "ChkSectionTranscoderFactory", "_RegistrableTranscoder", "get_all_registered_chk_section_names"),
    ("richchk.transcoder.richchk.richchk_section_transcoder_factory", "RichChkSectionTranscoderFactory", "_RichChkRegistrableTranscoder", "get_all_registered_chk_section_names"),
    ("richchk.transcoder.richchk.transcoders.trig.rich_trigger_action_transcoder_factory", "RichTriggerActionTranscoderFactory", "_RichTriggerActionRegistrableTranscoder", "get_all_registered_trig_action_ids"),
    ("richchk.transcoder.richchk.transcoders.trig.rich_trigger_condition_transcoder_factory", "RichTriggerConditionTranscoderFactory", "_RichTriggerConditionRegistrableTranscoder", "get_all_registered_condition_ids"),
]


def keyval(k):
    return k.id if hasattr(k, "id") and isinstance(getattr(k, "id"), int) else k.value


def all_subclasses(c):
    out = []
    for s in c.__subclasses__():
        out.append(s)
        out += all_subclasses(s)
    return out


def main():
    mod = sys.argv[1]
    res = {"module": mod}
    try:
        importlib.import_module(mod)
    except Exception as ex:  # noqa: BLE001
        res["error"] = type(ex).__name__ + ": " + str(ex)[:200]
        print(json.dumps(res))
        return
    regs = []
    for fm, fc, base, accessor in FACTORIES:
        if fm in sys.modules and hasattr(sys.modules[fm], fc):
            fac = getattr(sys.modules[fm], fc)
            # read the registry through its public accessor (a registry that fills itself on
            # first use is then observed "once loaded", as the property says)
            keys = sorted((keyval(k) for k in getattr(fac, accessor)()), key=str)
            nsub = len(all_subclasses(getattr(sys.modules[fm], base)))
            own = all(True for _ in keys)
            regs.append({"loaded": True, "keys": keys, "registrable_classes": nsub})
        else:
            regs.append({"loaded": False, "keys": [], "registrable_classes": 0})
    res["registries"] = regs
    # the model classes (ground truth for "agrees with the set of model classes"): load everything
    import pkgutil

    import richchk

    for m in pkgutil.walk_packages(richchk.__path__, "richchk."):
        try:
            importlib.import_module(m.name)
        except Exception:  # noqa: BLE001
            pass
    from richchk.model.chk.decoded_chk_section import DecodedChkSection
    from richchk.model.chk.unknown.decoded_unknown_section import DecodedUnknownSection
    from richchk.model.richchk.rich_chk_section import RichChkSection
    from richchk.model.richchk.trig.rich_trigger_action import RichTriggerAction
    from richchk.model.richchk.trig.rich_trigger_condition import RichTriggerCondition

    def concrete(c):
        return not getattr(c, "__abstractmethods__", None)

    model = []
    model.append(sorted({c.section_name().value for c in all_subclasses(DecodedChkSection) if concrete(c) and c is not DecodedUnknownSection}))
    model.append(sorted({c.section_name().value for c in all_subclasses(RichChkSection) if concrete(c)}))
    model.append(sorted({c.action_id().id for c in all_subclasses(RichTriggerAction) if concrete(c)} - {0}))
    model.append(sorted({c.condition_id().id for c in all_subclasses(RichTriggerCondition) if concrete(c)} - {0}))
    res["model_ids"] = model
    print(json.dumps(res))


if __name__ == "__main__":
    main()
