"""C08: string-table growth (STR / STRx editors, STR->STRx generator) — correspondence + oracle."""
import logging
import os
import struct
import sys

sys.path.insert(0, os.path.dirname(os.path.abspath(__file__)))
import refchk  # noqa: E402
from common import Outcome, Rng, err_class, hx, run_driver  # noqa: E402

logging.disable(logging.CRITICAL)


def api(w):
    from richchk.editor.chk.decoded_str_section_editor import DecodedStrSectionEditor
    from richchk.editor.chk.decoded_strx_section_editor import DecodedStrxSectionEditor
    from richchk.model.chk.str.decoded_str_section import DecodedStrSection
    from richchk.model.chk.strx.decoded_strx_section import DecodedStrxSection
    from richchk.transcoder.chk.transcoders.chk_str_transcoder import ChkStrTranscoder
    from richchk.transcoder.chk.transcoders.chk_strx_transcoder import ChkStrxTranscoder

    if w == 2:
        return DecodedStrSection, ChkStrTranscoder(), lambda req, s: DecodedStrSectionEditor().add_strings_to_str_section(req, s)
    return DecodedStrxSection, ChkStrxTranscoder(), lambda req, s: DecodedStrxSectionEditor().add_strings_to_strx_section(req, s)


def payload_of(tc, sec):
    try:
        return tc.encode(sec, include_header=False)
    except Exception:  # noqa: BLE001
        return None


def dump(w, sec, tc):
    offs = list(sec.strings_offsets)
    strs = [s.encode("utf-8", "surrogateescape") for s in sec.strings]
    p = payload_of(tc, sec)
    ids = []
    for i in range(len(offs)):
        t = refchk.resolve_string_at(p, offs[i]) if p is not None else None
        ids.append(hx(t) if t is not None else "!")
    return "%d %d [%s] [%s] {%s}" % (w, sec.number_of_strings, ",".join(map(str, offs)), ",".join(hx(s) for s in strs), ",".join(ids))


def gen_table(rng, w, wf=True):
    """(n, offs, strs) — well-formed: n == len(offs), offsets inside the string data"""
    k = rng.choice([0, 0, 1, 2, 3, 5, 8])
    strs = []
    for _ in range(k):
        ln = rng.choice([0, 1, 1, 3, 6, 12])
        strs.append(bytes(rng.choice(b"abcdefgXYZ 01") for _ in range(ln)))
    if rng.random() < 0.25 and strs:
        strs.append(strs[0])  # duplicate text stored twice
    n = rng.choice([0, 1, 2, 3, 4, 7]) if strs else rng.choice([0, 0, 1])
    base = w + w * n
    starts, pos = [], base
    for s in strs:
        starts.append(pos)
        pos += len(s) + 1
    end = pos
    offs = []
    for _ in range(n):
        r = rng.random()
        if not strs:
            offs.append(base + rng.randrange(0, 3) if not wf else base)  # dangling (empty data)
            continue
        if r < 0.5:
            offs.append(rng.choice(starts))
        elif r < 0.8:
            i = rng.randrange(len(strs))
            offs.append(starts[i] + rng.randrange(0, len(strs[i]) + 1))  # interior / the NUL itself
        elif wf:
            offs.append(rng.choice(starts))
        else:
            offs.append(rng.choice([0, 1, w, base - 1, end, end + 3, 65535, rng.randrange(0, end + 5)]))
    if not strs and wf:
        n, offs = 0, []
    if rng.random() < 0.3:
        rng.shuffle(offs)
    return n, offs, strs


def gen_requests(rng, strs, big=False):
    pool = [b"new", b"zzz", b"", b"a", b"hello world", b"Marine", b"x" * 40]
    pool += strs[:3]
    for s in strs[:2]:
        if len(s) > 2:
            pool.append(s[1:])  # suffix of an existing string
            pool.append(s[:-1])
    req = [rng.choice(pool) for _ in range(rng.choice([0, 1, 2, 3, 5]))]
    if rng.random() < 0.3 and req:
        req.append(req[0])  # duplicate in the request
    if big:
        req.append(b"L" * rng.choice([30000, 65000, 70000]))
    return req


def oracle(out, line, w, strs, req, before, sec2, r, tc, add, sreq):
    if sec2 is None:
        out.violations.append({"oracle": "adding strings to a well-formed table succeeds", "case": line[:300], "got": r})
        return
    after = payload_of(tc, sec2)
    if after is None:
        # loud failure is allowed only when an offset no longer fits the field
        top = (1 << (8 * w)) - 1
        if not any(o > top for o in sec2.strings_offsets) and sec2.number_of_strings <= top:
            out.violations.append({"oracle": "the grown table encodes (unless an offset exceeds the field width)", "case": line[:300]})
        return
    b_ids = refchk.str_table_view(before, w)
    a_ids = refchk.str_table_view(after, w)
    for i, t in b_ids.items():
        if a_ids.get(i) != t:
            out.violations.append({"oracle": "every existing id resolves to its previous text", "case": line[:300], "id": i, "before": hx(t) if t is not None else None, "after": hx(a_ids.get(i)) if a_ids.get(i) is not None else None})
            break
    texts = set(t for t in a_ids.values() if t is not None)
    for s in req:
        if s not in texts:
            out.violations.append({"oracle": "every requested string gets an id resolving to exactly that text", "case": line[:300], "missing": hx(s)})
            break
    have = set(t for t in b_ids.values() if t is not None)
    expect_new = []
    for s in req:
        if s not in have and s not in expect_new:
            expect_new.append(s)
    added = [s.encode() for s in sec2.strings[len(strs):]]
    if added != expect_new:
        out.violations.append({"oracle": "each string is stored at most once: only requests not already resolvable are appended, once each", "case": line[:300], "added": [hx(x) for x in added], "expected": [hx(x) for x in expect_new]})
    # adding the same list again changes nothing
    if add is not None:
        try:
            sec3 = add(sreq, sec2)
            if (sec3.number_of_strings, list(sec3.strings_offsets), list(sec3.strings)) != (sec2.number_of_strings, list(sec2.strings_offsets), list(sec2.strings)):
                out.violations.append({"oracle": "adding the same list twice changes nothing the second time", "case": line[:300]})
        except Exception as ex:  # noqa: BLE001
            out.violations.append({"oracle": "adding the same list twice succeeds", "case": line[:300], "err": err_class(ex)})
    # well-formed result
    n2 = sec2.number_of_strings
    base2 = w + w * n2
    if n2 != len(sec2.strings_offsets) or any(not (base2 <= o < len(after)) for o in sec2.strings_offsets) or any(v is None for v in a_ids.values()):
        out.violations.append({"oracle": "the result is a well-formed table", "case": line[:300]})


def run(prop, tier, seed):
    out = Outcome(prop)
    rng = Rng(seed * 104729 + 8)
    N = 400 if tier == "quick" else 4000
    cases = []
    # regression witnesses first (F2)
    cases.append((2, 2, [6, 10], [b"foo", b"bar", b"zzz"], [b"new"], True))
    cases.append((2, 0, [], [], [b"a", b"bc"], True))
    cases.append((2, 2, [6, 10], [b"foo", b"bar", b"zzz"], [b"zzz"], True))
    cases.append((4, 2, [12, 16], [b"foo", b"bar", b"zzz"], [b"new", b"zzz"], True))
    cases.append((2, 1, [4], [b"ab"], [b"", b"q"], True))  # "" then another new string
    cases.append((2, 2, [6, 9], [b"Marine", b"x"], [b"rine"], True))
    cases.append((2, 3, [8, 11, 8], [b"xMarine"], [b"Marine", b"rine"], True))  # interior offset holds "rine"
    cases.append((2, 2, [6, 10], [b"abc", b""], [b"x"], True))      # the string data ends in an empty string an id points at
    cases.append((2, 3, [8, 12, 13], [b"abc", b"", b""], [b"x", b"yy"], True))
    cases.append((4, 2, [12, 16], [b"abc", b""], [b"x"], True))
    for i in range(N):
        w = rng.choice([2, 4])
        wf = rng.random() < 0.8
        n, offs, strs = gen_table(rng, w, wf)
        req = gen_requests(rng, strs, big=(w == 2 and rng.random() < 0.03))
        cases.append((w, n, offs, strs, req, wf))
    from richchk.editor.chk.decoded_str_section_editor import DecodedStrSectionEditor
    from richchk.editor.chk.decoded_strx_section_editor import DecodedStrxSectionEditor

    shared = {2: DecodedStrSectionEditor().add_strings_to_str_section, 4: DecodedStrxSectionEditor().add_strings_to_strx_section}
    lines, reals = [], []
    for (w, n, offs, strs, req, wf) in cases:
        Sec, tc, add = api(w)
        sec = Sec(_number_of_strings=n, _string_offsets=list(offs), _strings=[s.decode("ascii") for s in strs])
        before = payload_of(tc, sec)
        sreq = [s.decode("ascii") for s in req]
        line = "addstr %d %d %s %s %s" % (w, n, ",".join(map(str, offs)) or "=", ",".join(hx(s) for s in strs) or "=", ",".join(hx(s) for s in req) or "=")
        out.case("addstr-wf" if wf else "addstr-nonwf", line.encode(), sample={"op": line[:200]})
        try:
            sec2 = add(sreq, sec)
            r = "OK " + dump(w, sec2, tc)
        except Exception as ex:  # noqa: BLE001
            sec2 = None
            r = "ERR " + err_class(ex)
        out.count("real:" + r.split(" ")[0])
        lines.append(line)
        reals.append(r)
        # ---------------- oracle (well-formed tables, 7-bit NUL-free requests)
        if not wf:
            continue
        oracle(out, line, w, strs, req, before, sec2, r, tc, add, sreq)
        # the same table as a MAP holds it — bytes, read by the section transcoder — then the same call: what the ids
        # resolve to is judged on the bytes, so it must not matter how the decoder chose to cut the string data up
        if before is not None:
            try:
                secb = tc.decode(before)
                sec2b = add(sreq, secb)
                rb_ = "OK " + dump(w, sec2b, tc)
            except Exception as ex:  # noqa: BLE001
                sec2b, rb_ = None, "ERR " + err_class(ex)
            out.count("bytes-path:" + rb_.split(" ")[0])
            oracle(out, line + "  [table decoded from its bytes]", w, strs, req, before, sec2b, rb_, tc, None, sreq)
        # the same call through an editor object that has served other tables before: an editor keeps
        # no memory of earlier tables, so the oracle holds for its answer too
        try:
            sec2s = shared[w](sreq, sec)
            rs = "OK " + dump(w, sec2s, tc)
        except Exception as ex:  # noqa: BLE001
            sec2s, rs = None, "ERR " + err_class(ex)
        if rs != r:
            nv = len(out.violations)
            oracle(out, line + "  [editor object reused across tables]", w, strs, req, before, sec2s, rs, tc, None, sreq)
            if len(out.violations) == nv:
                out.disagreements.append({"op": line[:300], "what": "a reused editor object answers differently from a fresh one", "fresh": r[:200], "reused": rs[:200]})
    # ---------------- the save path: the STR rebuilder collects the RichStrings of a RichChk and adds them
    from richchk.io.richchk.decoded_str_section_rebuilder import DecodedStrSectionRebuilder
    from richchk.model.richchk.mrgn.rich_location import RichLocation
    from richchk.model.richchk.mrgn.rich_mrgn_section import RichMrgnSection
    from richchk.model.richchk.rich_chk import RichChk
    from richchk.model.richchk.str.rich_string import RichNullString, RichString

    Sec, tc, add = api(2)
    rb = [(2, [6, 12], [b"Alpha", b"Beta"], [b"Hero Marine", b""]), (0, [], [], [b""]), (1, [4], [b"ab"], [b"", b"ab", b""])]
    for i in range(N // 4):
        n, offs, strs = gen_table(rng, 2, True)
        rb.append((n, offs, strs, gen_requests(rng, strs)))
    for (n, offs, strs, req) in rb:
        sec = Sec(_number_of_strings=n, _string_offsets=list(offs), _strings=[s.decode("ascii") for s in strs])
        before = payload_of(tc, sec)
        locs = [RichLocation(1, 2, 3, 4, RichString(_value=s.decode("ascii")), None) for s in req]
        locs.append(RichLocation(5, 6, 7, 8, RichNullString(), None))
        # the strings sit in TWO rich sections of the same name (stacked sections are legal and are written back)
        half = len(locs) // 2
        chk = RichChk(_chk_sections=[sec, RichMrgnSection(_locations=locs[:half]), RichMrgnSection(_locations=locs[half:])])
        uniq = []
        for s in req:
            if s not in uniq:
                uniq.append(s)
        line = "addstr 2 %d %s %s %s" % (n, ",".join(map(str, offs)) or "=", ",".join(hx(s) for s in strs) or "=", ",".join(hx(s) for s in uniq) or "=")
        out.case("rebuild-str", ("rebuild " + line).encode(), sample={"op": "rebuild " + line[:200]})
        try:
            sec2 = DecodedStrSectionRebuilder.rebuild_str_section_from_rich_chk(chk)
            r = "OK " + dump(2, sec2, tc)
        except Exception as ex:  # noqa: BLE001
            sec2, r = None, "ERR " + err_class(ex)
        lines.append(line)
        reals.append(r)
        oracle(out, "rebuild-from-RichChk " + line, 2, strs, uniq, before, sec2, r, tc, None, None)
    # STR -> STRx preserves the whole id -> text mapping
    from richchk.editor.chk.decoded_strx_section_generator import DecodedStrxSectionGenerator

    for i in range(N // 4):
        n, offs, strs = gen_table(rng, 2, True)
        Sec, tc, _ = api(2)
        _, tcx, _ = api(4)
        sec = Sec(_number_of_strings=n, _string_offsets=list(offs), _strings=[s.decode("ascii") for s in strs])
        line = "tostrx %d %s %s" % (n, ",".join(map(str, offs)) or "=", ",".join(hx(s) for s in strs) or "=")
        out.case("tostrx", line.encode())
        try:
            sx = DecodedStrxSectionGenerator().generate_strx_from_str(sec)
            r = "OK " + dump(4, sx, tcx)
            b, a = payload_of(tc, sec), payload_of(tcx, sx)
            if b is not None and (a is None or refchk.str_table_view(b, 2) != refchk.str_table_view(a, 4)):
                out.violations.append({"oracle": "STR -> STRx preserves the id -> text mapping", "case": line[:300]})
        except Exception as ex:  # noqa: BLE001
            r = "ERR " + err_class(ex)
        lines.append(line)
        reals.append(r)
    try:
        model = run_driver(lines)
        for ln, m, r in zip(lines, model, reals):
            if m != r:
                out.disagreements.append({"op": ln[:300], "model": m[:300], "real": r[:300]})
    except Exception as e:  # noqa: BLE001
        out.notes.append("model driver unavailable: %s" % e)
        out.disagreements.append({"op": "driver", "what": str(e)[:200]})
    return out
