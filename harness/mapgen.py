"""Synthetic CHK maps built from the SPECIFICATION tables (no use of richchk's encoders).

form = "editor": the canonical form map editors write (reserved bits clear, every reference uses
                 the last id of its text / the slot of its content, no gaps in trigger lists,
                 SWNM/UPRP/UPUS present, UPUS = occupancy)  [optionally the two variants the
                 property names: 64-slot MRGN, editor-prefilled UPRP]
       "valid":  anything StarCraft accepts and the rich decoder accepts: duplicate texts, shared
                 and interior offsets, references through non-last ids, gaps, reserved bits,
                 optional sections absent, unsupported and unknown trigger entries
"""
import struct
import typing

import refchk

PRINTABLE = b"abcdefghijklmnopqrstuvwxyzABCDEFGHIJKLMNOPQRSTUVWXYZ0123456789 _-"


def rich_arg_kinds():
    """{(kind 'a'/'c', id): {arg: type name}} from the rich model classes' annotations"""
    import importlib
    import pkgutil

    import richchk.model.richchk.trig.actions as A
    import richchk.model.richchk.trig.conditions as C

    out = {}
    for pkg, k, meth in ((A, "a", "action_id"), (C, "c", "condition_id")):
        for m in pkgutil.iter_modules(pkg.__path__):
            if m.ispkg:
                continue
            mod = importlib.import_module(pkg.__name__ + "." + m.name)
            for name in dir(mod):
                cls = getattr(mod, name)
                if isinstance(cls, type) and hasattr(cls, meth) and not getattr(cls, "__abstractmethods__", None) and cls.__module__ == mod.__name__:
                    try:
                        hints = typing.get_type_hints(cls)
                    except Exception:  # noqa: BLE001
                        continue
                    out[(k, getattr(cls, meth)().id)] = {a: getattr(t, "__name__", str(t)) for a, t in hints.items() if a != "_flags"}
    return out


def enum_ids():
    import importlib
    import json
    import os

    from common import BUILD_DIR

    out = {}
    try:
        gen = json.load(open(os.path.join(BUILD_DIR, "codecs.json")))
        for e in gen["enums"]:
            cls = getattr(importlib.import_module(e["module"]), e["enum"])
            out[e["enum"]] = sorted(m.id for m in cls)
    except Exception:  # noqa: BLE001
        pass
    return out


class MapGen:
    def __init__(self, rng, spec):
        self.rng = rng
        self.spec = spec
        self.layouts = refchk.layouts_of(spec)
        self.kinds = rich_arg_kinds()
        self.enums = enum_ids()
        self.act = {r["id"]: r for r in spec["actions"]}
        self.cond = {r["id"]: r for r in spec["conditions"]}
        self.dup_ids = True
        self.force_quiet = False

    def reachable_weapons(self):
        return refchk.REACHABLE_WEAPONS

    # ------------------------------------------------------------------ strings
    def text(self):
        return bytes(self.rng.choice(PRINTABLE) for _ in range(self.rng.choice([1, 3, 5, 9, 14])))

    def build_str(self, texts, form):
        """texts: list of distinct texts (index i -> id i+1 in editor form).  Returns payload and
        {text: [ids]}"""
        rng = self.rng
        ids = list(texts)
        stored = list(texts)
        offs_mode = ["own"] * len(ids)
        if form != "editor":
            # duplicate ids for one text, a second stored copy, an id pointing into a longer string
            for t in list(texts)[: rng.randrange(0, 3)]:
                ids.insert(rng.randrange(0, len(ids) + 1), t)
            if texts and rng.random() < 0.5:
                stored.append(rng.choice(texts))
            rng.shuffle(ids) if rng.random() < 0.3 else None
        elif self.dup_ids and texts and rng.random() < 0.6:
            # editor form allows several ids (and several stored copies) for one text, interleaved with
            # other ids; references use the LAST id of their text (the form's definition)
            for _ in range(rng.randrange(1, 4)):
                t = rng.choice(texts)
                ids.insert(rng.randrange(0, len(ids) + 1), t)
                if rng.random() < 0.6:
                    stored.insert(rng.randrange(0, len(stored) + 1), t)
        n = len(ids)
        base = 2 + 2 * n
        starts, pos = {}, base
        data = b""
        copies = {}
        for s in stored:
            copies.setdefault(s, []).append(pos)
            pos += len(s) + 1
            data += s + b"\x00"
        offs = []
        for t in ids:
            c = copies[t]
            offs.append(rng.choice(c))
        payload = struct.pack("<H", n) + b"".join(struct.pack("<H", o) for o in offs) + data
        by_text = {}
        for i, t in enumerate(ids):
            by_text.setdefault(t, []).append(i + 1)
        return payload, by_text

    def ref(self, by_text, t, form):
        ids = by_text[t]
        return ids[-1] if form == "editor" else self.rng.choice(ids)

    # ------------------------------------------------------------------ whole map
    def gen(self, form, variant=None):
        rng = self.rng
        L = self.layouts
        nstr = rng.choice([3, 6, 12])
        texts = []
        while len(texts) < nstr:
            t = self.text()
            if t not in texts:
                texts.append(t)
        if rng.random() < 0.5:
            # editors keep ids whose text is the empty string; a reference to the last of them is a
            # reference like any other
            texts.insert(rng.randrange(0, len(texts) + 1), b"")
        str_payload, by_text = self.build_str(texts, form)
        meta = {"form": form, "variant": variant}

        def sref(nonempty=False):
            return self.ref(by_text, rng.choice([t for t in texts if t or not nonempty]), form)

        # ---- MRGN
        nslots = 64 if variant == "mrgn64" else (255 if form == "editor" else rng.choice([64, 255, 255]))
        locs = {}
        for slot in (list(range(1, nslots + 1)) if variant == "mrgn-full" else [x for x in rng.sample(range(1, nslots + 1), rng.randrange(1, 6)) if variant != "no-anywhere" or x != 64] + ([64] if variant != "no-anywhere" else [])):
            fl = rng.randrange(0, 64) if form == "editor" else rng.choice([0, 63, rng.randrange(0, 65536)])
            locs[slot] = {"_left_x1": rng.randrange(0, 4096), "_top_y1": rng.randrange(0, 4096), "_right_x2": rng.randrange(0, 8192), "_bottom_y2": rng.randrange(1, 8192),
                          "_string_id": sref(), "_elevation_flags": fl}
        if variant != "mrgn-full":
            # one location WITHOUT a name (string id 0) on the lowest free slot: protected / string-optimised maps have
            # them; it is a location like any other (no random draw: the stream of the other choices is unchanged)
            low = next(i for i in range(1, nslots + 1) if i not in locs and i != 64)
            locs[low] = {"_left_x1": 320, "_top_y1": 352, "_right_x2": 448, "_bottom_y2": 480, "_string_id": 0, "_elevation_flags": 0}
        zero_loc = {k: 0 for k in ["_left_x1", "_top_y1", "_right_x2", "_bottom_y2", "_string_id", "_elevation_flags"]}
        mrgn = refchk.build(L[b"MRGN"], {"records": [locs.get(i + 1, zero_loc) for i in range(nslots)]})
        # ---- UPRP / UPUS
        cu = {}
        nprefill = 64 if variant == "uprp-prefilled" else 0
        for slot in list(range(1, nprefill + 1)) or rng.sample(range(1, 65), rng.randrange(0, 4)):
            cu[slot] = {"_valid_special_properties_flags": rng.randrange(0, 32) if form == "editor" else rng.choice([31, rng.randrange(0, 65536)]),
                        "_valid_unit_properties_flags": rng.randrange(0, 64) if form == "editor" else rng.choice([63, rng.randrange(0, 65536)]),
                        "_owner_player": 0 if form == "editor" else rng.choice([0, 0, 3]),
                        "_hitpoints_percentage": rng.randrange(1, 101) + (slot if nprefill else 0) % 3, "_shieldpoints_percentage": rng.randrange(0, 101), "_energypoints_percentage": rng.randrange(0, 101),
                        "_resource_amount": rng.randrange(0, 50000) + slot * 100000, "_units_in_hangar": rng.randrange(0, 9),
                        "_flags": rng.randrange(0, 32) if form == "editor" else rng.choice([0, 31, rng.randrange(0, 65536)]), "_padding": 0 if form == "editor" else rng.choice([0, 0, 77])}
        if cu and not nprefill and rng.random() < 0.5:
            # a second slot that differs from an existing one ONLY in the validity words: the game treats
            # them differently ("HP is valid" off = full HP), so references must not collapse onto one
            src = rng.choice(sorted(cu))
            free = [i for i in range(1, 65) if i not in cu]
            twin = dict(cu[src])
            if rng.random() < 0.7:  # else: an exact duplicate; references must stay on the slot they name
                twin[rng.choice(["_valid_special_properties_flags", "_valid_unit_properties_flags"])] ^= rng.choice([1, 2, 4, 8, 16])
            cu[rng.choice(free)] = twin
        zero_cu = {k: 0 for k, _ in L[b"UPRP"]["fields"]}
        uprp = refchk.build(L[b"UPRP"], {"records": [cu.get(i + 1, zero_cu) for i in range(64)]})
        if variant == "uprp-prefilled":
            upus = bytes(64)  # the editor marks none of the prefilled slots as used
        else:
            upus = bytes(1 if (i + 1) in cu else 0 for i in range(64))
            if form != "editor" and rng.random() < 0.3:
                upus = bytes(rng.choice([0, 1]) for _ in range(64))
        # ---- SWNM
        # named switches, half of the time among the lowest ids (the first ones an allocator would hand out)
        sw_names = {i: sref(True) for i in rng.sample(range(12) if rng.random() < 0.5 else range(256), rng.randrange(0, 5))}
        swnm = b"".join(struct.pack("<I", sw_names.get(i, 0)) for i in range(256))
        # ---- WAV
        wav_ids = {i: sref(True) for i in rng.sample(range(8) if rng.random() < 0.6 else range(512), rng.randrange(0, 5))}   # sparse, often among the lowest slots
        wav = b"".join(struct.pack("<I", wav_ids.get(i, 0)) for i in range(512))
        # ---- UNIS / UNIx
        quiet_weapons = rng.random() < 0.7 or self.force_quiet  # most editor-form maps leave weapons no unit carries at 0

        def units(nweap):
            lay = L[b"UNIS" if nweap == 100 else b"UNIx"]
            vals = {}
            for name, w, cnt in lay["fields"]:
                top = (1 << (8 * w)) - 1
                if name == "_unit_default_settings_flags":
                    vals[name] = [rng.choice([0, 1]) if form == "editor" else rng.choice([0, 1, 1, 2, 255]) for _ in range(cnt)]
                elif name == "_unit_string_ids":
                    vals[name] = [sref() if rng.random() < 0.05 else 0 for _ in range(cnt)]
                else:
                    vals[name] = [rng.choice([0, 0, 0, rng.randrange(0, top + 1), top]) for _ in range(cnt)]
            if form == "editor" and quiet_weapons:
                reach = self.reachable_weapons()
                for name in ("_unit_base_weapon_damages", "_unit_upgrade_weapon_damages"):
                    vals[name] = [v if i in reach else 0 for i, v in enumerate(vals[name])]
            return refchk.build(lay, vals)
        # ---- TRIG
        ntrig = rng.choice([0, 1, 2, 4])
        trigs = [self.gen_trigger(form, locs, cu, by_text, texts) for _ in range(ntrig)]
        if trigs and rng.random() < 0.3:
            # value-identical triggers (stacked "hyper triggers") are ordinary map content
            k = rng.randrange(len(trigs))
            trigs.insert(rng.randrange(len(trigs) + 1), dict(trigs[k]))
        trig = refchk.build(L[b"TRIG"], {"triggers": trigs})
        chunks = [(b"VER ", struct.pack("<H", 205)), (b"STR ", str_payload), (b"MRGN", mrgn), (b"TRIG", trig)]
        chunks.append((b"UNIS", units(100)) if rng.random() < 0.5 else (b"UNIx", units(130)))
        opt = [(b"UPRP", uprp), (b"UPUS", upus), (b"SWNM", swnm)]
        if variant == "bare":
            pass        # a map that has none of the optional tables
        elif form == "editor":
            chunks += opt
        else:
            chunks += [c for c in opt if rng.random() < 0.7]
        if rng.random() < 0.7:
            chunks.append((b"WAV ", wav))
        # unknown / unsupported sections anywhere, duplicated, empty
        for _ in range(rng.randrange(0, 4)):
            nm = rng.choice([b"MTXM", b"DIM ", b"ERA ", b"SIDE", b"XYZ!", b"\xc3\xa9AB", b"\xff\xfe\x00\x01", b"STRx", b"TYPE"])
            if nm == b"STRx":
                # recognised, no rich model: any table, including trailing empty strings and shared offsets
                strs = [rng.choice([b"", b"x", b"hello", b"a b~"]) for _ in range(rng.randrange(0, 5))] + [b""] * rng.choice([0, 0, 1, 3])
                nid = rng.randrange(0, 6)
                base = 4 + 4 * nid
                starts, pos = [], base
                for t in strs:
                    starts.append(pos)
                    pos += len(t) + 1
                p = struct.pack("<I", nid) + b"".join(struct.pack("<I", rng.choice(starts) if starts else base) for _ in range(nid)) + b"".join(t + b"\x00" for t in strs)
            else:
                p = bytes(rng.randrange(256) for _ in range(rng.choice([0, 2, 17, 40])))
            chunks.insert(rng.randrange(0, len(chunks) + 1), (nm, p))
        if form != "editor" and rng.random() < 0.4:
            first = chunks[:1]
            rest = chunks[1:]
            rng.shuffle(rest)
            chunks = first + rest
        meta["sections"] = [c[0].decode("latin1") for c in chunks]
        return refchk.join_chunks(chunks), meta

    # ------------------------------------------------------------------ triggers
    def arg_value(self, kind, field_width, locs, cu, by_text, texts, form):
        rng = self.rng
        if kind in self.enums:
            return rng.choice(self.enums[kind])
        if kind == "RichLocation":
            return rng.choice(sorted(locs))
        if kind == "RichString" or kind == "str":
            return self.ref(by_text, rng.choice(texts), form)
        if kind == "RichSwitch":
            return rng.randrange(0, 256)
        if kind == "RichCuwpSlot":
            return rng.choice(sorted(cu)) if cu else None
        if kind == "AiScript":
            return int.from_bytes(rng.choice([b"JYDg", b"EnBk", b"+Vi3", b"ZzZ1", b"Qrst"]), "little")
        top = (1 << field_width) - 1
        return rng.choice([0, 1, rng.randrange(0, top + 1), top])

    def gen_entry(self, kind, form, locs, cu, by_text, texts):
        rng = self.rng
        table = self.act if kind == "a" else self.cond
        fields = self.spec["actionFields" if kind == "a" else "conditionFields"]
        widths = dict(self.layouts[b"TRIG"]["af" if kind == "a" else "cf"])
        typefield = "_action_id" if kind == "a" else "_condition_id"
        r = rng.random()
        rec = {f: 0 for f in fields}
        if r < 0.7:
            tid = rng.choice(sorted(table))
            if kind == "a" and cu and rng.random() < 0.15:
                # bias towards the action(s) that reference a unit-property slot
                tid = rng.choice([t for t in sorted(table) if "RichCuwpSlot" in self.kinds.get(("a", t), {}).values()] or [tid])
            rec[typefield] = tid
            kinds = self.kinds.get((kind, tid), {})
            for arg, f in table[tid]["args"]:
                v = self.arg_value(kinds.get(arg, "int"), 8 * widths[f], locs, cu, by_text, texts, form)
                if v is None:
                    return None
                rec[f] = v
            rec["_flags"] = rng.choice([0, 0, 2, 4, 16, 20]) if form == "editor" else rng.choice([0, 2, 31, 32, 255])
            if form != "editor" and rng.random() < 0.15:
                rec["_mask_flag"] = 0x4353
                rec["_location_id"] = rec["_location_id"] or 0x00FF00FF if "_location_id" not in [f for _, f in table[tid]["args"]] else rec["_location_id"]
        else:
            # unsupported / unknown type byte with arbitrary contents: must pass through raw
            if kind == "a":
                tid = rng.choice([7, 29, 30, 31, 41, 47, 58, 59, 60, 100, 255])
            else:
                tid = rng.choice([13, 24, 30, 41, 59, 60, 200, 255])
            for f in fields:
                rec[f] = rng.randrange(0, 1 << (8 * widths[f]))
            rec[typefield] = tid
        return rec

    def gen_trigger(self, form, locs, cu, by_text, texts):
        rng = self.rng
        L = self.layouts[b"TRIG"]
        zc = {f: 0 for f, _ in L["cf"]}
        za = {f: 0 for f, _ in L["af"]}
        conds = [e for e in (self.gen_entry("c", form, locs, cu, by_text, texts) for _ in range(rng.choice([0, 1, 2, 4, 16]))) if e]
        acts = [e for e in (self.gen_entry("a", form, locs, cu, by_text, texts) for _ in range(rng.choice([0, 1, 3, 8, 64]))) if e]
        if form != "editor" and rng.random() < 0.3 and len(acts) >= 2:
            # a gap: empty entries inside the list (StarCraft stops at the first empty action)
            k = rng.randrange(1, len(acts))
            acts = acts[:k] + [dict(za)] * rng.randrange(1, 4) + acts[k:]
        if form != "editor" and rng.random() < 0.2 and len(conds) >= 2:
            k = rng.randrange(1, len(conds))
            conds = conds[:k] + [dict(zc)] + conds[k:]
        conds = (conds + [zc] * 16)[:16]
        acts = (acts + [za] * 64)[:64]
        players = [rng.choice([0, 1]) if form == "editor" else rng.choice([0, 1, 1, 2]) for _ in range(27)]
        return {"conds": conds, "acts": acts, "execFlags": 0, "players": players, "cur": 0}
