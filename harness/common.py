"""Shared harness utilities: PRNG, error classes, model-driver invocation, evidence helpers.

Runs under /venv/bin/python (the interpreter that has richchk importable from /repo/src).
"""
import hashlib
import json
import os
import random
import struct
import subprocess
import sys
import time

VERIF = os.path.dirname(os.path.dirname(os.path.abspath(__file__)))
LEAN_DIR = os.path.join(VERIF, "lean")
BUILD_DIR = os.path.join(VERIF, "build")
REPLAYS = os.path.join(VERIF, "replays")
DRIVER = os.path.join(LEAN_DIR, ".lake", "build", "bin", "driver")
REPO = os.environ.get("RICHCHK_REPO", "/repo")


def err_class(exc):
    """map a Python exception onto the model's Err enum"""
    if isinstance(exc, struct.error):
        return "struct"
    if isinstance(exc, UnicodeError):
        return "unicode"
    if isinstance(exc, FileExistsError):
        return "exists"
    if isinstance(exc, FileNotFoundError):
        return "notfound"
    if isinstance(exc, NotImplementedError):
        return "notimpl"
    if isinstance(exc, KeyError):
        return "key"
    if isinstance(exc, IndexError):
        return "index"
    if isinstance(exc, AssertionError):
        return "assert"
    if isinstance(exc, ValueError):
        return "value"
    if isinstance(exc, (TypeError, AttributeError)):
        return "type"
    return "other"


def hx(b):
    return b.hex() if b else "-"


SPECDUMP = os.path.join(LEAN_DIR, ".lake", "build", "bin", "specdump")


def load_spec():
    """the hand-transcribed specification tables (Lean `Spec.*`), via the specdump executable,
    which depends on nothing generated"""
    p = subprocess.run([SPECDUMP], stdout=subprocess.PIPE, stderr=subprocess.PIPE, timeout=120)
    if p.returncode != 0:
        raise RuntimeError("specdump failed: " + p.stderr.decode()[:300])
    return json.loads(p.stdout.decode())


def run_driver(lines, timeout=1800):
    """feed op lines to the compiled model driver, return the list of result lines"""
    if not os.path.exists(DRIVER):
        raise RuntimeError("model driver is not built: " + DRIVER)
    data = ("\n".join(lines) + "\n").encode()
    p = subprocess.run([DRIVER], input=data, stdout=subprocess.PIPE, stderr=subprocess.PIPE, timeout=timeout)
    if p.returncode != 0:
        raise RuntimeError(f"model driver failed rc={p.returncode}: {p.stderr.decode()[:500]}")
    out = p.stdout.decode().split("\n")
    if out and out[-1] == "":
        out.pop()
    if len(out) != len(lines):
        raise RuntimeError(f"model driver returned {len(out)} lines for {len(lines)} ops")
    return out


class Rng(random.Random):
    """single PRNG state; every random choice of a run derives from VERIF_SEED"""

    def u(self, bits):
        """edge-heavy unsigned value of the given width"""
        r = self.random()
        top = (1 << bits) - 1
        if r < 0.15:
            return 0
        if r < 0.30:
            return top
        if r < 0.40:
            return 1 << (bits - 1)
        if r < 0.50:
            return self.choice([1, 2, top - 1, (1 << (bits - 1)) - 1, (1 << (bits - 1)) + 1]) & top
        if r < 0.65 and bits > 8:
            return self.randrange(0, 256)
        return self.randrange(0, top + 1)


def seed_from_env():
    try:
        return int(os.environ.get("VERIF_SEED", "0"))
    except ValueError:
        return 0


def write_replay(prop, payload):
    os.makedirs(REPLAYS, exist_ok=True)
    blob = json.dumps(payload, sort_keys=True, default=str)
    h = hashlib.sha256(blob.encode()).hexdigest()[:12]
    path = os.path.join(REPLAYS, f"{prop}-{h}.json")
    with open(path, "w") as f:
        f.write(json.dumps(payload, indent=1, sort_keys=True, default=str))
    return path


class Outcome:
    """accumulates what a harness run covered and what it found"""

    def __init__(self, prop):
        self.prop = prop
        self.evaluations = 0
        self.distinct = set()
        self.samples = []
        self.dist = {}
        self.disagreements = []  # model vs implementation
        self.violations = []  # oracle failures on the real code (dicts)
        self.known_hits = []
        self.notes = []
        self.t0 = time.time()

    def count(self, key, n=1):
        self.dist[key] = self.dist.get(key, 0) + n

    def case(self, tag, blob, sample=None, nontrivial=True):
        self.evaluations += 1
        if nontrivial:
            self.distinct.add(hashlib.sha1(tag.encode() + b"|" + blob).digest()[:8])
        self.count("case:" + tag)
        if sample is not None and len(self.samples) < 6:
            self.samples.append(sample)


_SHARED_IO = []


def shared_io():
    """ONE ChkIo and ONE RichChkIo object serving every decode / encode of a run: the IO objects are stateless
    by contract, so reusing them (batch processing, decode -> save -> re-read) must give what a fresh object gives"""
    if not _SHARED_IO:
        from richchk.io.chk.chk_io import ChkIo
        from richchk.io.richchk.richchk_io import RichChkIo

        _SHARED_IO.extend([ChkIo(), RichChkIo()])
    return _SHARED_IO[0], _SHARED_IO[1]
