"""Reference CHK reader/writer that does NOT import richchk.

It reads bytes at the offsets the Scenario.chk specification gives.  The section layouts are
the hand-transcribed `Spec.specTable` of the Lean model, exported by the model driver
(`spec-layouts`), so the specification is written down exactly once.
"""
import json
import struct

FMT = {1: "<B", 2: "<H", 4: "<I"}


class RefError(Exception):
    pass


def layouts_of(spec_json):
    return {bytes.fromhex(e["name"]): e["layout"] for e in spec_json["layouts"]}


def split_chunks(data):
    """[(name bytes, declared size, payload bytes)] — payload truncated at EOF like StarCraft's reader"""
    out = []
    pos = 0
    while pos < len(data):
        if len(data) - pos < 8:
            raise RefError("truncated header")
        name = data[pos : pos + 4]
        (size,) = struct.unpack_from("<I", data, pos + 4)
        payload = data[pos + 8 : pos + 8 + size]
        out.append((name, size, payload))
        pos += 8 + size
    return out


def join_chunks(chunks):
    return b"".join(n + struct.pack("<I", len(p)) + p for n, p in chunks)


def u(data, off, w):
    if off + w > len(data):
        raise RefError("short")
    return struct.unpack_from(FMT[w], data, off)[0]


def rec_size(fields):
    return sum(w for _, w in fields)


def read_rec(data, off, fields):
    vals = {}
    for name, w in fields:
        vals[name] = u(data, off, w)
        off += w
    return vals


def fields_of(layout, payload):
    """independent field extraction -> dict (names from the spec)"""
    k = layout["kind"]
    if k == "arrays":
        out, off = {}, 0
        for name, w, cnt in layout["fields"]:
            out[name] = [u(payload, off + w * j, w) for j in range(cnt)]
            off += w * cnt
        return out
    if k in ("recsEof", "recsN"):
        sz = rec_size(layout["fields"])
        n = len(payload) // sz if k == "recsEof" else layout["n"]
        if k == "recsEof" and len(payload) % sz:
            raise RefError("partial record")
        return {"records": [read_rec(payload, sz * i, layout["fields"]) for i in range(n)]}
    if k == "trig":
        ts = layout["trigSize"]
        if len(payload) % ts:
            raise RefError("partial trigger")
        trigs = []
        csz, asz = rec_size(layout["cf"]), rec_size(layout["af"])
        for t in range(len(payload) // ts):
            base = ts * t
            conds = [read_rec(payload, base + csz * i, layout["cf"]) for i in range(layout["nc"])]
            abase = base + csz * layout["nc"]
            acts = [read_rec(payload, abase + asz * i, layout["af"]) for i in range(layout["na"])]
            ebase = abase + asz * layout["na"]
            ef = u(payload, ebase, layout["ew"])
            players = [u(payload, ebase + layout["ew"] + layout["pw"] * i, layout["pw"]) for i in range(layout["np"])]
            cur = u(payload, ebase + layout["ew"] + layout["pw"] * layout["np"], layout["cw"])
            trigs.append({"conds": conds, "acts": acts, "execFlags": ef, "players": players, "cur": cur})
        return {"triggers": trigs}
    if k == "str":
        w = layout["w"]
        n = u(payload, 0, w)
        offs = [u(payload, w + w * i, w) for i in range(n)]
        return {"n": n, "offsets": offs, "data_start": w + w * n}
    raise RefError("unknown layout kind")


def build(layout, vals):
    """independent writer for arrays / record sections (used to compare with the real encode)"""
    k = layout["kind"]
    out = b""
    if k == "arrays":
        for name, w, cnt in layout["fields"]:
            for v in vals[name]:
                out += struct.pack(FMT[w], v)
        return out
    if k in ("recsEof", "recsN"):
        for r in vals["records"]:
            for name, w in layout["fields"]:
                out += struct.pack(FMT[w], r[name])
        return out
    if k == "trig":
        for t in vals["triggers"]:
            for c in t["conds"]:
                for name, w in layout["cf"]:
                    out += struct.pack(FMT[w], c[name])
            for a in t["acts"]:
                for name, w in layout["af"]:
                    out += struct.pack(FMT[w], a[name])
            out += struct.pack(FMT[layout["ew"]], t["execFlags"])
            for p in t["players"]:
                out += struct.pack(FMT[layout["pw"]], p)
            out += struct.pack(FMT[layout["cw"]], t["cur"])
        return out
    raise RefError("build: unsupported kind")


def resolve_string(payload, w, string_id):
    """text of string `string_id` (1-based): bytes from its offset to the next NUL; None if not resolvable"""
    try:
        n = u(payload, 0, w)
    except RefError:
        return None
    if string_id < 1 or string_id > n:
        return None
    try:
        off = u(payload, w + w * (string_id - 1), w)
    except RefError:
        return None
    if off >= len(payload):
        return None
    end = payload.find(b"\x00", off)
    if end < 0:
        return None
    return payload[off:end]


def str_table_view(payload, w):
    """id -> text for every id of a STR/STRx payload"""
    try:
        n = u(payload, 0, w)
    except RefError:
        return {}
    return {i: resolve_string(payload, w, i) for i in range(1, n + 1)}


def resolve_string_at(payload, off, strict7=True):
    """bytes from `off` to the next NUL; None if out of range / unterminated (/ not 7-bit)"""
    if payload is None or off < 0 or off >= len(payload):
        return None
    end = payload.find(b"\x00", off)
    if end < 0:
        return None
    t = payload[off:end]
    if strict7 and any(b >= 128 for b in t):
        return None
    return t


# ------------------------------------------------------------------------------------------
# what StarCraft reads (C02) and the format's structural rules (C11), from the spec only
def ref_fields_of(spec):
    """{'a'|'c': {type id: {field: argument}}} from the specification's argument tables"""
    return {"a": {r["id"]: {f: a for a, f in r["args"]} for r in spec["actions"]},
            "c": {r["id"]: {f: a for a, f in r["args"]} for r in spec["conditions"]}}


# the recorded finding `unreachable-weapon-damage-zeroed` is about exactly these weapon ids (no unit of the unit ->
# weapon table of the unchanged tree carries them); it is a constant here, NOT read from the library, so that a
# change which makes another weapon unreachable is a new violation and is exercised by the generators
KNOWN_UNREACHABLE_WEAPONS = frozenset([14, 30, 31, 32, 33, 34, 44, 45, 50, 51, 56, 57, 58, 59, 60, 61, 63, 67, 68, 72, 83, 84, 87, 88, 89, 90, 91, 92,
                                       93, 94, 95, 101, 102, 105, 106, 107, 108, 110, 117, 118, 119, 120, 121, 122, 123, 124, 125, 126, 127, 128, 129])
REACHABLE_WEAPONS = frozenset(range(130)) - KNOWN_UNREACHABLE_WEAPONS


REF_KIND = {  # which specification arguments are references, by argument name
    "_location": "loc", "_source_location": "loc", "_destination_location": "loc",
    "_text": "str", "_path_to_wav_in_mpq": "str", "_switch": "switch", "_properties": "cuwp",
}


def game_view(data, spec):
    layouts = layouts_of(spec)
    rf = ref_fields_of(spec)
    chunks = split_chunks(data)
    view = {"sections": [(n.hex(), len(p)) for n, _, p in chunks], "passthrough": []}
    first = {}
    for n, _, p in chunks:
        if n not in layouts:
            view["passthrough"].append((n.hex(), p.hex()))
        first.setdefault(n, p)
    strp = first.get(b"STR ")

    def text(i):
        if not i:
            return None
        t = resolve_string(strp, 2, i) if strp is not None else None
        return "?dangling" if t is None else t.hex()

    def nonzero(r):
        return any(r.values())

    locs, cus = {}, {}
    if b"MRGN" in first:
        for i, r in enumerate(fields_of(layouts[b"MRGN"], first[b"MRGN"])["records"]):
            if nonzero(r):
                locs[i + 1] = (r["_left_x1"], r["_top_y1"], r["_right_x2"], r["_bottom_y2"], text(r["_string_id"]), r["_elevation_flags"] & 63)
    view["locs"] = locs
    if b"UPRP" in first:
        for i, r in enumerate(fields_of(layouts[b"UPRP"], first[b"UPRP"])["records"]):
            # presence is judged on what the game reads (owner byte and padding are unused)
            if any(v for k, v in r.items() if k not in ("_owner_player", "_padding")):
                cus[i + 1] = (r["_valid_special_properties_flags"] & 31, r["_valid_unit_properties_flags"] & 63, r["_hitpoints_percentage"], r["_shieldpoints_percentage"],
                              r["_energypoints_percentage"], r["_resource_amount"], r["_units_in_hangar"], r["_flags"] & 31)
    view["cuwps"] = cus
    view["upus"] = list(first[b"UPUS"][:64]) if b"UPUS" in first else None
    view["switches"] = {i: text(v) for i, v in enumerate(fields_of(layouts[b"SWNM"], first[b"SWNM"])["_switch_string_ids"]) if v} if b"SWNM" in first else {}
    view["wavs"] = {i: text(v) for i, v in enumerate(fields_of(layouts[b"WAV "], first[b"WAV "])["_wav_string_ids"]) if v} if b"WAV " in first else {}
    for nm in (b"UNIS", b"UNIx"):
        if nm in first:
            u = fields_of(layouts[nm], first[nm])
            key = nm.decode()
            view[key] = {k: (v if k != "_unit_string_ids" else [text(x) for x in v]) for k, v in u.items() if "weapon" not in k and k != "_unit_default_settings_flags"}
            view[key]["_unit_default_settings_flags"] = [bool(x) for x in u["_unit_default_settings_flags"]]
            view[key + ":weapons"] = (u["_unit_base_weapon_damages"], u["_unit_upgrade_weapon_damages"])

    def entry(kind, r):
        tid = r["_action_id" if kind == "a" else "_condition_id"]
        m = rf[kind].get(tid)
        if m is None:
            return ("raw", tuple(sorted(r.items())))
        out = {"type": tid, "flags": r["_flags"] & 31, "mask": r["_mask_flag"]}
        if r["_mask_flag"] == 0x4353:
            out["bitmask"] = r["_location_id"]
        for f, a in m.items():
            k = REF_KIND.get(a)
            v = r[f]
            if k == "loc":
                out[a] = ("loc", locs.get(v, "?missing" if v else None))
            elif k == "str":
                out[a] = ("str", text(v))
            elif k == "switch":
                out[a] = ("switch", v, view["switches"].get(v))
            elif k == "cuwp":
                out[a] = ("cuwp", cus.get(v, "?missing"))
            else:
                out[a] = v
        return ("rich", tuple(sorted((k, repr(v)) for k, v in out.items())))

    trigs = []
    nth = 0
    for n, _, p in chunks:
        if n == b"TRIG":
            try:
                tl = fields_of(layouts[b"TRIG"], p)["triggers"]
            except RefError:
                tl = []
            for t in tl:
                conds, acts = [], []
                for c in t["conds"]:
                    if c["_condition_id"] == 0:
                        break
                    conds.append(entry("c", c))
                for a in t["acts"]:
                    if a["_action_id"] == 0:
                        break
                    acts.append(entry("a", a))
                trigs.append({"conds": conds, "acts": acts, "players": [bool(x) for x in t["players"]], "execFlags": t["execFlags"]})
    view["triggers"] = trigs
    return view


def struct_valid(data, spec):
    """list of structural-rule violations of an emitted CHK (empty = valid)"""
    layouts = layouts_of(spec)
    rf = ref_fields_of(spec)
    probs = []
    try:
        chunks = split_chunks(data)
    except RefError as e:
        return ["not a chunk sequence: %s" % e]
    first = {}
    for n, size, p in chunks:
        if size != len(p):
            probs.append("chunk %r declares %d bytes, has %d" % (n, size, len(p)))
        first.setdefault(n, p)
        lay = layouts.get(n)
        if lay is None:
            continue
        k = lay["kind"]
        if k == "arrays" and len(p) != sum(w * c for _, w, c in lay["fields"]):
            probs.append("%s has size %d" % (n.decode(), len(p)))
        if k == "recsN" and len(p) != lay["n"] * rec_size(lay["fields"]):
            probs.append("%s has size %d" % (n.decode(), len(p)))
        if k == "recsEof" and len(p) not in (64 * rec_size(lay["fields"]), 255 * rec_size(lay["fields"])):
            probs.append("MRGN has size %d (neither 1280 nor 5100)" % len(p))
        if k == "trig" and len(p) % lay["trigSize"]:
            probs.append("TRIG size %d is not a multiple of %d" % (len(p), lay["trigSize"]))
    strp = first.get(b"STR ")
    nstr = 0
    if strp is not None:
        try:
            nstr = u(strp, 0, 2)
            for i in range(1, nstr + 1):
                if resolve_string(strp, 2, i) is None:
                    probs.append("string id %d: offset outside the section or no terminating NUL" % i)
                    break
        except RefError:
            probs.append("STR shorter than its offset table")

    def chk_str(i, what):
        if i and (i > nstr):
            probs.append("%s refers to string id %d, table has %d" % (what, i, nstr))

    locs_nonempty, cu_nonempty = set(), set()
    try:
        if b"MRGN" in first:
            for i, r in enumerate(fields_of(layouts[b"MRGN"], first[b"MRGN"])["records"]):
                if any(r.values()):
                    locs_nonempty.add(i + 1)
                chk_str(r["_string_id"], "location %d" % (i + 1))
        if b"UPRP" in first:
            for i, r in enumerate(fields_of(layouts[b"UPRP"], first[b"UPRP"])["records"]):
                if any(r.values()):
                    cu_nonempty.add(i + 1)
        if b"UPUS" in first and b"UPRP" in first and len(first[b"UPUS"]) >= 64:
            used = {i + 1 for i in range(64) if first[b"UPUS"][i]}
            if used != cu_nonempty:
                probs.append("UPUS marks %s used, UPRP has data in %s" % (sorted(used ^ cu_nonempty)[:5], "other slots"))
        if b"SWNM" in first:
            for i, v in enumerate(fields_of(layouts[b"SWNM"], first[b"SWNM"])["_switch_string_ids"]):
                chk_str(v, "switch %d" % i)
        if b"WAV " in first:
            for i, v in enumerate(fields_of(layouts[b"WAV "], first[b"WAV "])["_wav_string_ids"]):
                chk_str(v, "wav %d" % i)
        for nm in (b"UNIS", b"UNIx"):
            if nm in first:
                for i, v in enumerate(fields_of(layouts[nm], first[nm])["_unit_string_ids"]):
                    chk_str(v, "unit %d" % i)
        for n, _, p in chunks:
            if n != b"TRIG" or len(p) % layouts[b"TRIG"]["trigSize"]:
                continue
            for ti, t in enumerate(fields_of(layouts[b"TRIG"], p)["triggers"]):
                for kind, recs, idf in (("c", t["conds"], "_condition_id"), ("a", t["acts"], "_action_id")):
                    for r in recs:
                        if r[idf] == 0:
                            break
                        m = rf[kind].get(r[idf])
                        if m is None or r["_mask_flag"] == 0x4353:
                            continue
                        for f, a in m.items():
                            k = REF_KIND.get(a)
                            v = r[f]
                            if k == "loc" and v not in locs_nonempty:
                                probs.append("trigger %d: %s refers to location %d, which is empty or out of range" % (ti, a, v))
                            elif k == "str":
                                chk_str(v, "trigger %d %s" % (ti, a))
                            elif k == "switch" and v > 255:
                                probs.append("trigger %d: switch %d out of range" % (ti, v))
                            elif k == "cuwp" and v not in cu_nonempty:
                                probs.append("trigger %d: unit-property slot %d is empty or out of range" % (ti, v))
    except RefError as e:
        probs.append("unreadable section: %s" % e)
    return probs
