"""Reference CHK reader/writer that does NOT import richchk.

It reads bytes at the offsets the Scenario.chk specification gives.  The section layouts are
the hand-transcribed `Spec.specTable` of the Lean model, exported by the model driver
(`spec-layouts`), so the specification is written down exactly once.
"""
import json
import struct

FMT = {1: "<B", 2: "<H", 4: "<I"}


class RefError(Exception):
    pass


def layouts_of(spec_json):
    return {bytes.fromhex(e["name"]): e["layout"] for e in spec_json["layouts"]}


def split_chunks(data):
    """[(name bytes, declared size, payload bytes)] — payload truncated at EOF like StarCraft's reader"""
    out = []
    pos = 0
    while pos < len(data):
        if len(data) - pos < 8:
            raise RefError("truncated header")
        name = data[pos : pos + 4]
        (size,) = struct.unpack_from("<I", data, pos + 4)
        payload = data[pos + 8 : pos + 8 + size]
        out.append((name, size, payload))
        pos += 8 + size
    return out


def join_chunks(chunks):
    return b"".join(n + struct.pack("<I", len(p)) + p for n, p in chunks)


def u(data, off, w):
    if off + w > len(data):
        raise RefError("short")
    return struct.unpack_from(FMT[w], data, off)[0]


def rec_size(fields):
    return sum(w for _, w in fields)


def read_rec(data, off, fields):
    vals = {}
    for name, w in fields:
        vals[name] = u(data, off, w)
        off += w
    return vals


def fields_of(layout, payload):
    """independent field extraction -> dict (names from the spec)"""
    k = layout["kind"]
    if k == "arrays":
        out, off = {}, 0
        for name, w, cnt in layout["fields"]:
            out[name] = [u(payload, off + w * j, w) for j in range(cnt)]
            off += w * cnt
        return out
    if k in ("recsEof", "recsN"):
        sz = rec_size(layout["fields"])
        n = len(payload) // sz if k == "recsEof" else layout["n"]
        if k == "recsEof" and len(payload) % sz:
            raise RefError("partial record")
        return {"records": [read_rec(payload, sz * i, layout["fields"]) for i in range(n)]}
    if k == "trig":
        ts = layout["trigSize"]
        if len(payload) % ts:
            raise RefError("partial trigger")
        trigs = []
        csz, asz = rec_size(layout["cf"]), rec_size(layout["af"])
        for t in range(len(payload) // ts):
            base = ts * t
            conds = [read_rec(payload, base + csz * i, layout["cf"]) for i in range(layout["nc"])]
            abase = base + csz * layout["nc"]
            acts = [read_rec(payload, abase + asz * i, layout["af"]) for i in range(layout["na"])]
            ebase = abase + asz * layout["na"]
            ef = u(payload, ebase, layout["ew"])
            players = [u(payload, ebase + layout["ew"] + layout["pw"] * i, layout["pw"]) for i in range(layout["np"])]
            cur = u(payload, ebase + layout["ew"] + layout["pw"] * layout["np"], layout["cw"])
            trigs.append({"conds": conds, "acts": acts, "execFlags": ef, "players": players, "cur": cur})
        return {"triggers": trigs}
    if k == "str":
        w = layout["w"]
        n = u(payload, 0, w)
        offs = [u(payload, w + w * i, w) for i in range(n)]
        return {"n": n, "offsets": offs, "data_start": w + w * n}
    raise RefError("unknown layout kind")


def build(layout, vals):
    """independent writer for arrays / record sections (used to compare with the real encode)"""
    k = layout["kind"]
    out = b""
    if k == "arrays":
        for name, w, cnt in layout["fields"]:
            for v in vals[name]:
                out += struct.pack(FMT[w], v)
        return out
    if k in ("recsEof", "recsN"):
        for r in vals["records"]:
            for name, w in layout["fields"]:
                out += struct.pack(FMT[w], r[name])
        return out
    if k == "trig":
        for t in vals["triggers"]:
            for c in t["conds"]:
                for name, w in layout["cf"]:
                    out += struct.pack(FMT[w], c[name])
            for a in t["acts"]:
                for name, w in layout["af"]:
                    out += struct.pack(FMT[w], a[name])
            out += struct.pack(FMT[layout["ew"]], t["execFlags"])
            for p in t["players"]:
                out += struct.pack(FMT[layout["pw"]], p)
            out += struct.pack(FMT[layout["cw"]], t["cur"])
        return out
    raise RefError("build: unsupported kind")


def resolve_string(payload, w, string_id):
    """text of string `string_id` (1-based): bytes from its offset to the next NUL; None if not resolvable"""
    try:
        n = u(payload, 0, w)
    except RefError:
        return None
    if string_id < 1 or string_id > n:
        return None
    try:
        off = u(payload, w + w * (string_id - 1), w)
    except RefError:
        return None
    if off >= len(payload):
        return None
    end = payload.find(b"\x00", off)
    if end < 0:
        return None
    return payload[off:end]


def str_table_view(payload, w):
    """id -> text for every id of a STR/STRx payload"""
    try:
        n = u(payload, 0, w)
    except RefError:
        return {}
    return {i: resolve_string(payload, w, i) for i in range(1, n + 1)}


def resolve_string_at(payload, off, strict7=True):
    """bytes from `off` to the next NUL; None if out of range / unterminated (/ not 7-bit)"""
    if payload is None or off < 0 or off >= len(payload):
        return None
    end = payload.find(b"\x00", off)
    if end < 0:
        return None
    t = payload[off:end]
    if strict7 and any(b >= 128 for b in t):
        return None
    return t
