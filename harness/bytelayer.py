"""Byte-layer correspondence + oracles (C01, C06, C19).

Real side: richchk's ChkIo in-process.  Model side: the compiled Lean driver.
"""
import dataclasses
import glob
import json
import logging
import os
import struct
import sys

sys.path.insert(0, os.path.dirname(os.path.abspath(__file__)))
import refchk  # noqa: E402
from common import REPO, Outcome, Rng, err_class, hx, load_spec, run_driver, shared_io  # noqa: E402

logging.disable(logging.CRITICAL)

KNOWN_UNREGISTERED = [b"TYPE", b"VER ", b"IVER", b"IVE2", b"VCOD", b"IOWN", b"OWNR"]


# ----------------------------------------------------------------------------- real side
def real_api():
    from richchk.io.chk.chk_io import ChkIo
    from richchk.model.chk.unknown.decoded_unknown_section import DecodedUnknownSection

    return ChkIo, DecodedUnknownSection


def nl(xs):
    return "[" + ",".join(str(int(x)) for x in xs) + "]"


def nll(xss):
    return "[" + ",".join(nl(x) for x in xss) + "]"


def dump_known(sec, layout):
    k = layout["kind"]
    if k == "arrays":
        return "A" + nll([getattr(sec, name) for name, _, _ in layout["fields"]])
    if k in ("recsEof", "recsN"):
        (lst,) = [f.name for f in dataclasses.fields(sec)]
        return "R" + nll([[getattr(r, name) for name, _ in layout["fields"]] for r in getattr(sec, lst)])
    if k == "trig":
        parts = []
        for t in sec._triggers:
            ex = t._player_execution
            parts.append(
                "{"
                + nll([[getattr(c, n) for n, _ in layout["cf"]] for c in t._conditions])
                + ";"
                + nll([[getattr(a, n) for n, _ in layout["af"]] for a in t._actions])
                + ";"
                + str(ex._execution_flags)
                + ";"
                + nl(ex._player_flags)
                + ";"
                + str(ex._current_action_index)
                + "}"
            )
        return "T[" + ",".join(parts) + "]"
    if k == "str":
        return (
            "S"
            + str(sec._number_of_strings)
            + nl(sec._string_offsets)
            + "["
            + ",".join(hx(s.encode("utf-8", "surrogateescape")) for s in sec._strings)
            + "]"
        )
    raise ValueError(k)


def dump_real(decoded, layouts):
    _, Unknown = real_api()
    parts = []
    for sec in decoded.decoded_chk_sections:
        if isinstance(sec, Unknown):
            nb = sec.actual_section_name.encode("utf-8", "surrogateescape")
            parts.append("U:" + hx(nb) + ":" + hx(sec.chk_binary_data))
        else:
            nb = sec.section_name().value.encode("utf-8")
            parts.append("K:" + hx(nb) + ":" + dump_known(sec, layouts[nb]))
    return " ".join(parts)


class Hang(BaseException):
    """the call did not return within its deadline (BaseException: `except Exception` must not swallow it)"""


def with_deadline(seconds, fn, *args):
    import signal

    def on_alarm(signum, frame):
        raise Hang()

    old = signal.signal(signal.SIGALRM, on_alarm)
    signal.setitimer(signal.ITIMER_REAL, seconds)
    try:
        return fn(*args)
    finally:
        signal.setitimer(signal.ITIMER_REAL, 0)
        signal.signal(signal.SIGALRM, old)


def real_rt(data):
    """the real code's answer to the `rt` op"""
    ChkIo, _ = real_api()
    io = shared_io()[0]
    try:
        d = io.decode_chk_binary_data(data)
    except Exception as e:  # noqa: BLE001
        return "DERR " + err_class(e), None, None
    try:
        out = io.encode_chk_to_bytes(d)
    except Exception as e:  # noqa: BLE001
        return "EERR " + err_class(e), d, None
    try:
        d2 = io.decode_chk_binary_data(out)
    except Exception as e:  # noqa: BLE001
        return "OK " + hx(out) + " REDEC-ERR " + err_class(e), d, out
    return "OK " + hx(out) + (" STABLE" if d2 == d else " UNSTABLE"), d, out


def real_dec(data, layouts):
    ChkIo, _ = real_api()
    try:
        d = shared_io()[0].decode_chk_binary_data(data)
    except Exception as e:  # noqa: BLE001
        return "ERR " + err_class(e)
    return "OK " + dump_real(d, layouts)


# ----------------------------------------------------------------------------- generators
def gen_name(rng, registered):
    r = rng.random()
    if r < 0.35:
        return rng.choice(registered)
    if r < 0.45:
        return rng.choice(KNOWN_UNREGISTERED)
    if r < 0.50:
        # a name that differs from a recognised one only in letter case is just another unknown section
        nm = rng.choice(registered)
        cand = [nm.upper(), nm.lower(), nm.swapcase(), nm[:1].lower() + nm[1:]]
        cand = [c for c in cand if c != nm and c not in registered]
        if cand:
            return rng.choice(cand)
    if r < 0.60:
        return bytes(rng.choice(b"ABCDEFGHIJKLMNOPQRSTUVWXYZ abcdxyz0123456789") for _ in range(4))
    if r < 0.70:
        # valid multi-byte UTF-8 of total length 4
        return rng.choice(
            [
                "éAB".encode(),
                "AéB".encode(),
                "éè".encode(),
                "€X".encode(),
                "X€".encode(),
                "\U0001f600".encode(),
                "Āſ".encode(),
            ]
        )
    if r < 0.85:
        # invalid UTF-8 patterns
        return rng.choice(
            [
                b"\xff\xfe\x00\x01",
                b"\xc3AB\xa9",
                b"\x80\x80\x80\x80",
                b"\xe2\x82AB",
                b"\xf0\x9f\x98A",
                b"\xed\xa0\x80A",
                b"\xc0\x80AB",
                b"AB\xc3\x00",
                b"\x00\x00\x00\x00",
                b"STR\x00",
                b"\xf8\x88\x80\x80",
            ]
        )
    return bytes(rng.randrange(256) for _ in range(4))


def rand_bytes(rng, n):
    r = rng.random()
    if r < 0.2:
        return bytes(n)
    if r < 0.35:
        return b"\xff" * n
    return bytes(rng.randrange(256) for _ in range(n))


def sentinel_bytes(n, start=1):
    """every byte position distinct from its neighbours (and most others)"""
    return bytes(((start + i * 7) % 251) + 1 for i in range(n))


def gen_str_payload(rng, w, mode=None):
    fmt = {2: "<H", 4: "<I"}[w]
    top = (1 << (8 * w)) - 1
    n = rng.choice([0, 0, 1, 2, 3, 5, 8, 17])
    k = rng.choice([0, 1, 2, 3, 6])
    strs = []
    for _ in range(k):
        ln = rng.choice([0, 0, 1, 3, 10, 40])
        strs.append(bytes(rng.randrange(1, 128) for _ in range(ln)))
    if rng.random() < 0.3:
        strs += [b""] * rng.randrange(1, 4)  # trailing empty strings
    data = b"".join(s + b"\x00" for s in strs)
    base = w + w * n
    starts, pos = [], base
    for s in strs:
        starts.append(pos)
        pos += len(s) + 1
    offs = []
    for _ in range(n):
        r = rng.random()
        if starts and r < 0.5:
            offs.append(rng.choice(starts) & top)
        elif starts and r < 0.7:
            i = rng.randrange(len(strs))
            offs.append((starts[i] + rng.randrange(0, len(strs[i]) + 1)) & top)
        elif r < 0.85:
            offs.append(rng.u(8 * w))
        else:
            offs.append(rng.randrange(0, base + len(data) + 2) & top)
    return struct.pack(fmt, n) + b"".join(struct.pack(fmt, o) for o in offs) + data


def layout_size(layout):
    k = layout["kind"]
    if k == "arrays":
        return sum(w * c for _, w, c in layout["fields"])
    if k in ("recsEof", "recsN"):
        return sum(w for _, w in layout["fields"])
    if k == "trig":
        return layout["trigSize"]
    return None


def gen_known_payload(rng, name, layout):
    """a payload of a size StarCraft accepts, every field full-width random / edge / sentinel"""
    k = layout["kind"]
    if k == "str":
        return gen_str_payload(rng, layout["w"])
    sz = layout_size(layout)
    if k == "arrays":
        n = sz
    elif k == "recsN":
        n = sz * layout["n"]
    elif k == "recsEof":
        n = sz * rng.choice([0, 1, 2, 64, 255, 7])
    else:
        n = sz * rng.choice([0, 1, 1, 2, 3])
    if rng.random() < 0.3:
        p = sentinel_bytes(n, rng.randrange(1, 200))
    else:
        p = rand_bytes(rng, n)
    if k == "trig" and n and rng.random() < 0.6:
        # slots whose type byte is 0 but whose other bytes are not (left-over data behind the terminating
        # entry, protected maps): conditions are 20 bytes (type byte at +15), actions 32 bytes (type byte at +26)
        b = bytearray(p)
        for t in range(n // sz):
            base = t * sz
            for c in range(16):
                if rng.random() < 0.2:
                    b[base + 20 * c + 15] = 0
            for a in range(64):
                if rng.random() < 0.2:
                    b[base + 320 + 32 * a + 26] = 0
        p = bytes(b)
    return p


def gen_wellformed(rng, layouts, registered):
    chunks = []
    for _ in range(rng.choice([0, 1, 2, 3, 4, 6, 9])):
        name = gen_name(rng, registered)
        if name in layouts:
            p = gen_known_payload(rng, name, layouts[name])
        else:
            p = rand_bytes(rng, rng.choice([0, 0, 1, 3, 8, 33, 64]))
        chunks.append((name, p))
        if chunks and rng.random() < 0.15:
            chunks.append(chunks[-1])  # duplicated section
    return refchk.join_chunks(chunks), chunks


def fixtures():
    return sorted(glob.glob(os.path.join(REPO, "test", "resources", "*.chk")))


def section_blobs():
    """the per-section fixture blobs shipped with the repo's tests (name -> bytes), if present"""
    out = []
    for p in sorted(glob.glob(os.path.join(REPO, "test", "resources", "transcoders", "**", "*"), recursive=True)):
        if os.path.isfile(p) and os.path.getsize(p) < 4_000_000:
            out.append(p)
    return out


def gen_malformed(rng, layouts, registered, fixture_bytes, n):
    """the malformed stream for C19"""
    cases = []
    for _ in range(n):
        r = rng.random()
        if r < 0.15:
            cases.append(("random", rand_bytes(rng, rng.choice([0, 1, 2, 3, 4, 7, 8, 9, 12, 40, 200]))))
        elif r < 0.55:
            data, chunks = gen_wellformed(rng, layouts, registered)
            if not data:
                cases.append(("empty", data))
                continue
            m = rng.random()
            if m < 0.3:
                cut = rng.randrange(0, len(data) + 1)
                cases.append(("truncate", data[:cut]))
            elif m < 0.6:
                i = rng.randrange(len(data))
                b = bytearray(data)
                b[i] = rng.choice([0, 0xFF, 0x80, b[i] ^ (1 << rng.randrange(8)), rng.randrange(256)])
                cases.append(("corrupt1", bytes(b)))
            elif m < 0.8:
                # size field larger than the remaining data on the last chunk
                nm, p = chunks[-1]
                body = refchk.join_chunks(chunks[:-1])
                cases.append(("oversize", body + nm + struct.pack("<I", len(p) + rng.choice([1, 5, 1000, 2**31])) + p))
            elif m < 0.9:
                cases.append(("tail", data + rand_bytes(rng, rng.randrange(1, 8))))
            else:
                # a size field with the top bit set (a "negative" size) on any chunk
                k = rng.randrange(len(chunks))
                parts = []
                for j, (nm, p) in enumerate(chunks):
                    size = len(p) if j != k else rng.choice([0xFFFFFFF8, 0xFFFFFFFC, 0xFFFFFFF0, 0x80000000, 0x80000000 | len(p), 0xFF000000 | len(p)])
                    parts.append(nm + struct.pack("<I", size) + p)
                cases.append(("negsize", b"".join(parts)))
        elif r < 0.75:
            # a recognised section that is too short / too long / has a bad string byte
            name = rng.choice(registered)
            lay = layouts[name]
            p = gen_known_payload(rng, name, lay)
            m = rng.random()
            if lay["kind"] == "str":
                if m < 0.5 and len(p) > 2 * lay["w"]:
                    b = bytearray(p)
                    b[rng.randrange(lay["w"], len(p))] = rng.choice([0x80, 0xC3, 0xFF, 0xE2])
                    p = bytes(b)
                elif m < 0.7:
                    p = p + rng.choice([b"abc", b"\xc3\xa9\x00", b"caf\xc3\xa9 au lait\x00", b"\xe2\x82\xac\x00x"])
                else:
                    p = p[: rng.randrange(0, len(p) + 1)]
            else:
                if m < 0.4:
                    p = p[: max(0, len(p) - rng.randrange(1, 40))]
                elif m < 0.8:
                    p = p + rand_bytes(rng, rng.randrange(1, 40))
            pre, _ = gen_wellformed(rng, layouts, registered) if rng.random() < 0.3 else (b"", [])
            cases.append(("badsection", pre + name + struct.pack("<I", len(p)) + p))
        else:
            fb = rng.choice(fixture_bytes)
            try:
                chunks = refchk.split_chunks(fb)
            except refchk.RefError:
                chunks = []
            # keep a few small chunks so cases stay cheap
            small = [(nm, p) for nm, _, p in chunks if len(p) <= 6000]
            rng.shuffle(small)
            sub = small[: rng.randrange(1, 5)]
            data = refchk.join_chunks(sub)
            cut = rng.choice([len(data) - rng.randrange(0, 12), rng.randrange(0, len(data) + 1)])
            cases.append(("fixture-trunc", data[: max(0, cut)]))
    return cases


def fixture_boundary_truncations(fb, per_fixture):
    """truncations of a fixture at chunk boundaries + 0..9 bytes and inside headers"""
    out = []
    try:
        chunks = refchk.split_chunks(fb)
    except refchk.RefError:
        return out
    pos = 0
    bounds = []
    for nm, size, p in chunks:
        bounds.append(pos)
        pos += 8 + len(p)
    bounds.append(pos)
    for b in bounds[:per_fixture]:
        for d in range(0, 10):
            if b + d <= len(fb):
                out.append(("boundary+%d" % d, fb[: b + d]))
    return out


# ----------------------------------------------------------------------------- the run
def run(prop, tier, seed, layouts_json_path):
    """returns Outcome; prop in {C01, C06, C19}"""
    out = Outcome(prop)
    rng = Rng(seed * 1000003 + {"C01": 1, "C06": 6, "C19": 19}[prop])
    # inputs are generated from the SPECIFICATION's layouts (independent of the translator and of
    # the code under test); the real objects are dumped with the names the translator read
    spec = refchk.layouts_of(load_spec())
    gen = json.load(open(layouts_json_path))
    dump_layouts = dict(spec)
    for r in gen["results"]:
        dump_layouts[r["section"].encode()] = normalise_layout(r["decode"])
    layouts = spec
    registered = sorted(layouts.keys())
    fx = [open(p, "rb").read() for p in fixtures()]
    scale = 1 if tier == "quick" else 10

    cases = []  # (tag, bytes, wellformed?)
    if prop in ("C01", "C06"):
        for p, fb in zip(fixtures(), fx):
            cases.append(("fixture:" + os.path.basename(p), fb, True))
        for _ in range(150 * scale):
            data, _ = gen_wellformed(rng, layouts, registered)
            cases.append(("wellformed", data, True))
        # every recognised section alone, sentinel payload, each legal size class
        for nm in registered:
            for rep in range(3 * scale):
                p = gen_known_payload(rng, nm, layouts[nm])
                cases.append(("single:" + nm.decode(), nm + struct.pack("<I", len(p)) + p, True))
    if prop in ("C01", "C06", "C19"):
        # a name that differs from a recognised one only in letter case is an unknown section: with a payload that
        # would be legal for the recognised section, and with one that would not
        for nm in registered:
            for var in (nm.upper(), nm.lower(), nm.swapcase()):
                if var != nm and var not in registered:
                    legal = gen_known_payload(rng, nm, layouts[nm])
                    cases.append(("casevariant", var + struct.pack("<I", len(legal)) + legal + b"TAIL" + struct.pack("<I", 1) + b"x", True))
                    cases.append(("casevariant", b"HEAD" + struct.pack("<I", 0) + var + struct.pack("<I", 3) + b"abc", True))
                    break
    if prop == "C19":
        for tag, data in gen_malformed(rng, layouts, registered, fx, 400 * scale):
            cases.append((tag, data, False))
        for fb in fx:
            small = fb if len(fb) < 300000 else None
            if small is not None:
                for tag, data in fixture_boundary_truncations(small, 6 if tier == "quick" else 60):
                    cases.append((tag, data, False))
                # a real map with the top byte of one size field set, and with a trailing "negative size" header
                b = bytearray(small)
                b[7] = 0xFF
                cases.append(("fixture-negsize-first", bytes(b), False))
                cases.append(("fixture-negsize-tail", small + b"JUNK" + struct.pack("<I", 0xFFFFFFF8), False))
                cases.append(("fixture-negsize-back", small + b"JUNK" + struct.pack("<I", (1 << 32) - min(len(small), 1040)), False))
        cases.append(("negsize-self", b"JUNK" + struct.pack("<I", 0xFFFFFFF8), False))
        for _ in range(40 * scale):
            data, _ = gen_wellformed(rng, layouts, registered)
            cases.append(("wellformed", data, True))
        # string tables holding non-7-bit text: valid multi-byte UTF-8, lone high bytes, legacy code pages
        for nm, w in ((b"STR ", 2), (b"STRx", 4)):
            fmt = {2: "<H", 4: "<I"}[w]
            for texts in (
                ["café au lait"], ["한글 지도", "plain"], ["€uro", "x"], ["naïve", "", "é"], ["\U0001f600"],
                [b"caf\xe9".decode("latin1")], ["ab", "é"], ["é"],
            ):
                for enc in ("utf-8", "latin1", "cp949"):
                    try:
                        raw = [t.encode(enc) for t in texts]
                    except UnicodeEncodeError:
                        continue
                    n = len(raw)
                    base = w + w * n
                    offs, pos = [], base
                    for r in raw:
                        offs.append(pos)
                        pos += len(r) + 1
                    p = struct.pack(fmt, n) + b"".join(struct.pack(fmt, o) for o in offs) + b"".join(r + b"\x00" for r in raw)
                    cases.append(("str-non7bit", nm + struct.pack("<I", len(p)) + p, False))

    # regression corpus first
    corpus_path = os.path.join(os.path.dirname(os.path.abspath(__file__)), "..", "corpus", prop + ".jsonl")
    corpus = []
    if os.path.exists(corpus_path):
        for line in open(corpus_path):
            line = line.strip()
            if line:
                e = json.loads(line)
                corpus.append(("corpus:" + e.get("tag", ""), bytes.fromhex(e["hex"]), e.get("wellformed", False)))
    cases = corpus + cases

    # model side in one batch
    lines = []
    for tag, data, wf in cases:
        lines.append("rt " + hx(data))
        lines.append("dec " + hx(data))
    model = None
    try:
        model = run_driver(lines)
    except Exception as e:  # noqa: BLE001
        out.notes.append("model driver unavailable: %s" % e)

    hangs = 0
    for i, (tag, data, wf) in enumerate(cases):
        if hangs >= 3:
            out.notes.append("stopped after 3 inputs that did not terminate within their deadline; %d cases not run" % (len(cases) - i))
            break
        out.case(tag.split(":")[0], data, sample={"tag": tag, "len": len(data), "hex": data[:48].hex()})
        try:
            real_line, d, enc = with_deadline(20 + len(data) / 20000.0, real_rt, data)
        except (Hang, MemoryError):
            hangs += 1
            out.count("real:HANG")
            out.violations.append({"oracle": "decoding / re-encoding any byte string terminates", "tag": tag, "hex": data.hex() if len(data) < 100000 else None, "len": len(data), "got": "no result within the deadline"})
            continue
        out.count("real:" + real_line.split(" ")[0] + (":" + real_line.split(" ")[1] if real_line[1] == "E" else ""))
        if model is not None:
            if model[2 * i] != real_line:
                out.disagreements.append({"op": "rt", "tag": tag, "hex": data.hex(), "model": model[2 * i][:200], "real": real_line[:200]})
            rd = real_dec_safe(data, dump_layouts)
            if model[2 * i + 1] != rd:
                out.disagreements.append({"op": "dec", "tag": tag, "hex": data.hex(), "model": model[2 * i + 1][:300], "real": rd[:300]})
        # ---- oracles on the real code
        if prop == "C01" and wf:
            if not real_line.startswith("OK ") or enc != data:
                out.violations.append({"oracle": "encode(decode(b)) == b for well-formed b", "tag": tag, "hex": data.hex(), "got": real_line[:200]})
        if prop == "C19":
            # decode raised, or: encode succeeds and the written bytes decode to an equal model
            if real_line.startswith("DERR"):
                pass
            elif not (real_line.startswith("OK ") and real_line.endswith(" STABLE")):
                out.violations.append({"oracle": "decode ok => encode ok and decode(encode(m)) == m", "tag": tag, "hex": data.hex(), "got": real_line[:200]})
        if prop == "C06" and d is not None:
            v = c06_oracle(d, data, spec)
            if v:
                out.violations.append({"oracle": "decoded fields = little-endian values at the spec offsets; encode writes them there", "tag": tag, "hex": data.hex(), "detail": v})
            # ... and again after the first result was edited in place: a decode reads the BYTES, never an earlier result
            if len(data) < 200000:
                scribble(d)
                try:
                    d_again = shared_io()[0].decode_chk_binary_data(data)
                    v = c06_oracle(d_again, data, spec)
                except Exception as ex:  # noqa: BLE001
                    v = "second decode raised " + err_class(ex)
                if v:
                    out.violations.append({"oracle": "decoding the same bytes again (after the first result was edited in place) exposes the values at the spec offsets", "tag": tag, "hex": data.hex(), "detail": v})
    return out


def scribble(decoded):
    """edit every mutable container reachable from a decoded model in place"""
    import dataclasses

    seen = set()

    def walk(o, depth=0):
        if id(o) in seen or depth > 6:
            return
        seen.add(id(o))
        if isinstance(o, list):
            for x in list(o):
                walk(x, depth + 1)
            if o:
                o.append(o[0])
                o.reverse()
            else:
                o.append(0)
        elif isinstance(o, dict):
            for x in list(o.values()):
                walk(x, depth + 1)
        elif dataclasses.is_dataclass(o) and not isinstance(o, type):
            for f in dataclasses.fields(o):
                walk(getattr(o, f.name, None), depth + 1)

    walk(decoded)


def normalise_layout(l):
    """translator dict -> the same dict shape the driver exports (lists of lists)"""
    l = dict(l)
    for key in ("fields", "cf", "af"):
        if key in l:
            l[key] = [list(x) for x in l[key]]
    return l


def real_dec_safe(data, layouts):
    try:
        return real_dec(data, layouts)
    except Exception as e:  # noqa: BLE001  (harness could not dump: report as such)
        return "HARNESS-DUMP-ERROR " + type(e).__name__ + ": " + str(e)[:100]


def c06_oracle(decoded, data, spec):
    """compare every decoded section with the independent spec reader, by property name"""
    _, Unknown = real_api()
    try:
        chunks = refchk.split_chunks(data)
    except refchk.RefError:
        return None
    secs = decoded.decoded_chk_sections
    if len(secs) != len(chunks):
        return "section count %d != chunk count %d" % (len(secs), len(chunks))
    for sec, (nm, _, payload) in zip(secs, chunks):
        if isinstance(sec, Unknown):
            if nm in spec:
                return "recognised section %r decoded as unknown" % nm
            if sec.chk_binary_data != payload:
                return "unknown payload differs"
            continue
        lay = spec.get(nm)
        if lay is None:
            return "unrecognised name %r decoded as %s" % (nm, type(sec).__name__)
        try:
            ref = refchk.fields_of(lay, payload)
        except refchk.RefError:
            continue  # spec reader rejects; real decode accepted: covered by C19/C01
        bad = compare_fields(sec, lay, ref, payload)
        if bad:
            return "%s: %s" % (nm.decode("latin1"), bad)
    return None


def pub(name):
    """public property name of a model field"""
    return name[1:] if name.startswith("_") else name


def compare_fields(sec, lay, ref, payload):
    from richchk.transcoder.chk.chk_section_transcoder_factory import ChkSectionTranscoderFactory

    k = lay["kind"]
    tc = ChkSectionTranscoderFactory.make_chk_section_transcoder(sec.section_name())
    if k == "arrays":
        for name, w, cnt in lay["fields"]:
            got = list(getattr(sec, pub(name)) if hasattr(sec, pub(name)) else getattr(sec, name))
            if got != ref[name]:
                j = next(i for i, (a, b) in enumerate(zip(got, ref[name])) if a != b) if len(got) == len(ref[name]) else -1
                return "field %s differs from spec offset reading at element %d" % (name, j)
        enc = tc.encode(sec, include_header=False)
        if enc != refchk.build(lay, ref):
            return "encode does not write fields at the spec offsets"
        return None
    if k in ("recsEof", "recsN"):
        (lst,) = [f.name for f in dataclasses.fields(sec)]
        recs = getattr(sec, lst)
        if len(recs) != len(ref["records"]):
            return "record count %d != %d" % (len(recs), len(ref["records"]))
        for i, (r, rr) in enumerate(zip(recs, ref["records"])):
            for name, w in lay["fields"]:
                if getattr(r, pub(name)) != rr[name]:
                    return "record %d field %s = %r, spec offset holds %r" % (i, name, getattr(r, pub(name)), rr[name])
        enc = tc.encode(sec, include_header=False)
        if enc != refchk.build(lay, ref):
            return "encode does not write fields at the spec offsets"
        return None
    if k == "trig":
        trigs = sec.triggers
        if len(trigs) != len(ref["triggers"]):
            return "trigger count"
        for ti, (t, rt_) in enumerate(zip(trigs, ref["triggers"])):
            for kind, recs, rrecs, fl in (("cond", t.conditions, rt_["conds"], lay["cf"]), ("act", t.actions, rt_["acts"], lay["af"])):
                if len(recs) != len(rrecs):
                    return "trigger %d %s count" % (ti, kind)
                for i, (r, rr) in enumerate(zip(recs, rrecs)):
                    for name, w in fl:
                        if getattr(r, pub(name)) != rr[name]:
                            return "trigger %d %s %d field %s = %r, spec offset holds %r" % (ti, kind, i, name, getattr(r, pub(name)), rr[name])
            ex = t.player_execution
            if ex.execution_flags != rt_["execFlags"] or list(ex.player_flags) != rt_["players"] or ex.current_action_index != rt_["cur"]:
                return "trigger %d execution block differs" % ti
        enc = tc.encode(sec, include_header=False)
        if enc != refchk.build(lay, ref):
            return "encode does not write fields at the spec offsets"
        return None
    if k == "str":
        if sec.number_of_strings != ref["n"] or list(sec.strings_offsets) != ref["offsets"]:
            return "count/offsets differ from the spec offsets"
        data = payload[ref["data_start"] :]
        joined = b"".join(s.encode("utf-8", "surrogateescape") + b"\x00" for s in sec.strings)
        if joined != data:
            return "strings are not the NUL-terminated strings following the offset table"
        return None
    return None


def replay(prop, path, layouts_json_path):
    """re-run the oracle of `prop` on the input stored in a replay file"""
    out = Outcome(prop)
    rp = json.load(open(path))
    v = rp.get("violation") or {}
    hexs = v.get("hex")
    if hexs is None:
        out.notes.append("replay file carries no input (no-failing-input-found)")
        return out
    data = bytes.fromhex(hexs)
    spec = refchk.layouts_of(load_spec())
    real_line, d, enc = real_rt(data)
    out.case("replay", data, sample={"hex": hexs[:96]})
    if prop == "C01" and (not real_line.startswith("OK ") or enc != data):
        out.violations.append({"oracle": "encode(decode(b)) == b", "hex": hexs, "got": real_line[:200]})
    if prop == "C19" and not real_line.startswith("DERR") and not (real_line.startswith("OK ") and real_line.endswith(" STABLE")):
        out.violations.append({"oracle": "decode ok => writable and stable", "hex": hexs, "got": real_line[:200]})
    if prop == "C06" and d is not None:
        vv = c06_oracle(d, data, spec)
        if vv:
            out.violations.append({"oracle": "fields at spec offsets", "hex": hexs, "detail": vv})
    return out
