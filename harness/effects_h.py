"""C13: no public operation mutates what it is given.

Every public method of the classes in richchk.editor.*, richchk.io.chk.*, richchk.io.richchk.* and the
section transcoders' encode/decode is wrapped; at the OUTERMOST wrapped call (nested calls are part of
it) every argument is deep-snapshotted before and compared after: lists, sets, dicts, tuples and the
fields of dataclass instances, recursively (functools.cached_property caches and loggers are not part
of a value's structure).  The wrapped library is then driven through load / edit / save histories
(harness/edit_h.py), direct calls of the rebuilders, lookup builders, string editors and query
helpers, and composed sequences in which outputs and inputs of earlier calls are used again; all
values seen so far are re-verified after every step.

Correspondence with the model: build/effects.json lists, for each function the translator read,
whether its body passed the kernel-checked alias check; an observed mutation inside a function the
model accepted is a disagreement, an observed mutation anywhere is an oracle violation.
"""
import dataclasses
import enum
import functools
import importlib
import inspect
import json
import logging
import os
import pkgutil
import sys
from decimal import Decimal

sys.path.insert(0, os.path.dirname(os.path.abspath(__file__)))
import refchk  # noqa: E402
from common import BUILD_DIR, Outcome, Rng, err_class, load_spec  # noqa: E402

logging.disable(logging.CRITICAL)


# ------------------------------------------------------------------------------------- snapshots
_KIND = {}   # type -> (kind, field names): every test below depends on the TYPE of the object only


def _kind_of(o):
    t = type(o)
    if issubclass(t, (int, str, bytes, float, bool, type(None), Decimal)):
        return ("atom", None)
    if issubclass(t, enum.Enum):
        return ("enum", None)
    if isinstance(o, logging.Logger) or inspect.isroutine(o) or inspect.isclass(o) or inspect.ismodule(o):
        return ("opaque", None)
    if issubclass(t, list):
        return ("list", None)
    if issubclass(t, tuple):
        return ("tuple", None)
    if issubclass(t, (set, frozenset)):
        return ("set", None)
    if issubclass(t, dict):
        return ("dict", None)
    if issubclass(t, bytearray):
        return ("bytearray", None)
    if dataclasses.is_dataclass(o):
        return ("dc", tuple(f.name for f in dataclasses.fields(o) if f.name != "_log"))
    if hasattr(o, "__dict__"):
        return ("obj", None)
    return ("opaque", None)


def _sections_by_name_view(o):
    try:
        from richchk.model.chk_section_name import ChkSectionName

        return tuple((n.name, len(o.get_sections_by_name(n))) for n in ChkSectionName)
    except Exception as ex:  # noqa: BLE001
        return ("unavailable", type(ex).__name__)


def snap(o, depth=0, seen=None, memo=None):
    """structural, order-preserving (lists) / order-free (sets, dicts) canonical form.  `memo` (id -> form) may be
    shared by the snapshots of ONE pass, during which nothing runs that could change an object: values that share
    sub-objects (a map and its edited copies share most sections) are then walked once"""
    t = type(o)
    k = _KIND.get(t)
    if k is None:
        k = _KIND[t] = _kind_of(o)
    kind, names = k
    if kind == "atom":
        return o
    if kind == "enum":
        return ("E", t.__name__, o.name)
    if kind == "opaque":
        return ("opaque", t.__name__)
    oid = id(o)
    if memo is not None:
        r = memo.get(oid)
        if r is not None:
            return r
    if seen is None:
        seen = set()
    if oid in seen or depth > 60:
        return ("cycle",)
    seen.add(oid)
    try:
        d = depth + 1
        if kind == "list":
            r = ("list", tuple(snap(x, d, seen, memo) for x in o))
        elif kind == "tuple":
            r = ("tuple", tuple(snap(x, d, seen, memo) for x in o))
        elif kind == "set":
            r = ("set", tuple(sorted((repr(snap(x, d, seen, memo)) for x in o))))
        elif kind == "dict":
            r = ("dict", tuple(sorted(((repr(snap(k2, d, seen, memo)), repr(snap(v, d, seen, memo))) for k2, v in o.items()))))
        elif kind == "bytearray":
            r = ("bytearray", bytes(o))
        elif kind == "dc":
            r = (t.__name__, tuple((n, snap(getattr(o, n), d, seen, memo)) for n in names))
            if hasattr(t, "get_sections_by_name"):
                # what the map ANSWERS through its public look-up (a cached name index is state too, even though it
                # is not a dataclass field): how many sections it reports per name
                r = r + (("sections-by-name", _sections_by_name_view(o)),)
        else:
            r = (t.__name__, tuple(sorted((k2, repr(snap(v, d, seen, memo))) for k2, v in vars(o).items() if k2 not in ("log", "_log", "_LOG"))))
    finally:
        seen.discard(oid)
    if memo is not None:
        memo[oid] = r
    return r


def describe_diff(a, b, path="arg"):
    if a == b:
        return None
    if isinstance(a, tuple) and isinstance(b, tuple) and len(a) == 2 and len(b) == 2 and a[0] == b[0] and isinstance(a[1], tuple) and isinstance(b[1], tuple):
        if len(a[1]) != len(b[1]):
            return "%s <%s>: %d -> %d elements" % (path, a[0], len(a[1]), len(b[1]))
        for i, (x, y) in enumerate(zip(a[1], b[1])):
            if x != y:
                if isinstance(x, tuple) and len(x) == 2 and isinstance(x[0], str) and isinstance(y, tuple) and len(y) == 2 and x[0] == y[0] and a[0] not in ("list", "tuple", "set", "dict"):
                    return describe_diff(x[1], y[1], path + "." + x[0])
                return describe_diff(x, y, "%s[%d]" % (path, i))
    return "%s: %s -> %s" % (path, repr(a)[:120], repr(b)[:120])


# ------------------------------------------------------------------------------------- instrumentation
class Watch:
    def __init__(self, out):
        self.depth = 0
        self.out = out
        self.calls = {}
        self.found = []
        self.values = []     # (label, object, snapshot): re-verified after every step

    def wrap(self, qual, fn):
        watch = self

        @functools.wraps(fn)
        def wrapper(*a, **kw):
            if watch.depth > 0:
                return fn(*a, **kw)
            watch.depth += 1
            try:
                m0 = {}
                before = [snap(x, memo=m0) for x in a] + [snap(kw[k], memo=m0) for k in sorted(kw)]
                try:
                    return fn(*a, **kw)
                finally:
                    m1 = {}
                    after = [snap(x, memo=m1) for x in a] + [snap(kw[k], memo=m1) for k in sorted(kw)]
                    watch.calls[qual] = watch.calls.get(qual, 0) + 1
                    for i, (x, y) in enumerate(zip(before, after)):
                        if x != y:
                            watch.found.append({"function": qual, "argument": i, "diff": describe_diff(x, y, "argument %d" % i)})
            finally:
                watch.depth -= 1
        return wrapper

    def install(self):
        import richchk

        n = 0
        for pkgname in ("richchk.editor", "richchk.io.chk", "richchk.io.richchk", "richchk.transcoder"):
            pkg = importlib.import_module(pkgname)
            for m in pkgutil.walk_packages(pkg.__path__, pkgname + "."):
                if ".mpq" in m.name:
                    continue
                try:
                    mod = importlib.import_module(m.name)
                except Exception:  # noqa: BLE001
                    continue
                for cname, cls in list(vars(mod).items()):
                    if not inspect.isclass(cls) or cls.__module__ != mod.__name__:
                        continue
                    for name, attr in list(vars(cls).items()):
                        if name.startswith("_") or name in ("register", "make_chk_section_transcoder", "make_rich_chk_section_transcoder"):
                            continue
                        raw = attr.__func__ if isinstance(attr, (classmethod, staticmethod)) else attr
                        if not inspect.isfunction(raw):
                            continue
                        qual = "%s::%s.%s" % (mod.__name__, cname, name)
                        w = self.wrap(qual, raw)
                        if isinstance(attr, classmethod):
                            setattr(cls, name, classmethod(w))
                        elif isinstance(attr, staticmethod):
                            setattr(cls, name, staticmethod(w))
                        else:
                            setattr(cls, name, w)
                        n += 1
        return n

    def remember(self, label, obj):
        self.values.append((label, obj, snap(obj)))

    def verify_all(self, step):
        fresh = []
        memo = {}
        for label, obj, s in self.values:
            now = snap(obj, memo=memo)
            if now != s:
                self.found.append({"function": "(after step) " + step, "value": label, "diff": describe_diff(s, now, label)})
            # keep the current state as the reference so one mutation is reported once
            fresh.append((label, obj, now))
        self.values = fresh


# ------------------------------------------------------------------------------------- driving
def drive(watch, out, rng, spec, tier):
    import edit_h
    from mapgen import MapGen
    from richchk.editor.chk.decoded_str_section_editor import DecodedStrSectionEditor
    from richchk.editor.richchk.rich_chk_editor import RichChkEditor
    from richchk.editor.richchk.rich_mrgn_editor import RichMrgnEditor
    from richchk.editor.richchk.rich_swnm_editor import RichSwnmEditor
    from richchk.editor.richchk.rich_trig_editor import RichTrigEditor
    from richchk.editor.richchk.rich_uprp_editor import RichUprpEditor
    from richchk.editor.richchk.rich_wav_editor import RichWavEditor
    from richchk.io.chk.chk_io import ChkIo
    from richchk.io.richchk.query.chk_query_util import ChkQueryUtil
    from richchk.io.richchk.richchk_io import RichChkIo
    from richchk.model.chk.str.decoded_str_section import DecodedStrSection
    from richchk.model.richchk.mrgn.rich_mrgn_section import RichMrgnSection
    from richchk.model.richchk.swnm.rich_swnm_section import RichSwnmSection
    from richchk.model.richchk.trig.rich_trig_section import RichTrigSection
    from richchk.model.richchk.uprp.rich_uprp_section import RichUprpSection
    from richchk.model.richchk.wav.rich_wav_section import RichWavSection

    classes = edit_h.rich_classes()
    gen = MapGen(rng, spec)
    nmaps = {"quick": 5, "thorough": 30}[tier]
    maps = []
    for i in range(nmaps):
        data, _ = gen.gen("editor" if i % 2 == 0 else "valid", [None, "mrgn64", "uprp-prefilled"][i % 3] if i % 2 == 0 else None)
        maps.append(("gen:%d" % i, data))
    maps.append(("gen:bare", gen.gen("valid", "bare")[0]))   # no UPRP / UPUS / SWNM: the save has to create them
    if tier == "thorough":
        import glob

        from common import REPO

        for p in sorted(glob.glob(os.path.join(REPO, "test", "resources", "test-chkjson-*.chk"))):
            maps.append(("fixture:" + os.path.basename(p), open(p, "rb").read()))

    cur_map = [None]

    def step(label, fn, *args):
        try:
            r = fn(*args)
        except Exception as ex:  # noqa: BLE001
            out.count("step-raised:" + err_class(ex))
            r = None
        out.case("step:" + label.split(" ")[0], repr((cur_map[0], label)).encode(), sample={"map": cur_map[0], "step": label})
        watch.verify_all(label)
        if r is not None:
            watch.remember(label, r)
        return r

    for tag, data in maps:
        cur_map[0] = tag
        watch.values = []
        dec = step("ChkIo.decode_chk_binary_data " + tag, ChkIo().decode_chk_binary_data, data)
        if dec is None:
            continue
        rich = step("RichChkIo.decode_chk", RichChkIo().decode_chk, dec)
        if rich is None:
            continue
        dec2 = step("RichChkIo.encode_chk (unedited)", RichChkIo().encode_chk, rich)
        if dec2 is not None:
            step("ChkIo.encode_chk_to_bytes", ChkIo().encode_chk_to_bytes, dec2)
        # direct calls of the query helpers / editors on the loaded values
        for cls in (RichTrigSection, RichMrgnSection, RichUprpSection, RichSwnmSection, RichWavSection):
            step("ChkQueryUtil.find_only_rich_section_in_chk " + cls.__name__, ChkQueryUtil.find_only_rich_section_in_chk, cls, rich)
        step("ChkQueryUtil.find_only_decoded_section_in_chk STR", ChkQueryUtil.find_only_decoded_section_in_chk, DecodedStrSection, rich)
        edit_h.Author._existing = {}
        author = edit_h.Author(rng, spec, classes, data)
        author.mode = "multi"
        real = edit_h.Real(classes)
        find = edit_h.find_section
        mrgn, uprp, swnm, wav, trig = (find(rich, c) for c in (RichMrgnSection, RichUprpSection, RichSwnmSection, RichWavSection, RichTrigSection))
        strsec = next((s for s in rich.chk_sections if isinstance(s, DecodedStrSection)), None)
        locs = [real.val(author.loc(), None) for _ in range(3)]
        cuwps = [real.val(c, None) for c in (author.cuwp() for _ in range(3)) if c is not None]
        sws = [real.val(author.switch(), None) for _ in range(3)]
        if mrgn is not None:
            # the collection parameter is a Collection: hand it over as a list, a set and a tuple
            existing = [l for l in mrgn.locations][:2]
            step("RichMrgnEditor.add_locations (set, some already stored)", RichMrgnEditor().add_locations, set(locs + existing), mrgn)
            step("RichMrgnEditor.add_locations (tuple)", RichMrgnEditor().add_locations, tuple(locs), mrgn)
            m2 = step("RichMrgnEditor.add_locations", RichMrgnEditor().add_locations, locs + existing, mrgn)
            if m2 is not None:
                step("RichMrgnEditor.add_locations (again, on its own output)", RichMrgnEditor().add_locations, locs, m2[0])
        if uprp is not None and cuwps:
            step("RichUprpEditor.add_cuwp_slots (set, some already stored)", RichUprpEditor().add_cuwp_slots, set(cuwps + list(uprp.cuwp_slots)[:2]), uprp)
            u2 = step("RichUprpEditor.add_cuwp_slots", RichUprpEditor().add_cuwp_slots, cuwps + list(uprp.cuwp_slots)[:1], uprp)
            if u2 is not None:
                step("RichUprpEditor.add_cuwp_slots (again)", RichUprpEditor().add_cuwp_slots, cuwps, u2)
        if swnm is not None:
            step("RichSwnmEditor.add_switches", RichSwnmEditor().add_switches, sws, swnm)
            step("RichSwnmEditor.add_switches (set)", RichSwnmEditor().add_switches, set(sws), swnm)
        if wav is not None:
            step("RichWavEditor.add_wav_files (paths with forward slashes)", RichWavEditor().add_wav_files, ["staredit/wav/alarm.wav", "staredit\\wav\\siren.wav", "x/y.wav"], wav)
            w2 = step("RichWavEditor.add_wav_files", RichWavEditor().add_wav_files, ["a.wav", "b.wav", "a.wav"], wav)
            if w2 is not None:
                step("RichWavEditor.add_wav_files (again)", RichWavEditor().add_wav_files, ["c.wav"], w2)
        if strsec is not None:
            s2 = step("DecodedStrSectionEditor.add_strings_to_str_section", DecodedStrSectionEditor().add_strings_to_str_section, ["new one", "new two", "new one"], strsec)
            if s2 is not None:
                step("DecodedStrSectionEditor.add_strings_to_str_section (again)", DecodedStrSectionEditor().add_strings_to_str_section, ["third"], s2)
        cur = rich
        if trig is not None:
            # (one trigger made of pass-through entries only: its lists hold no rich object at all)
            new = [real.trigger(author.trigger()) for _ in range(2)] + [real.trigger(author.trigger(nc=2, na=3, raw_p=1.0))]
            # (and one that sets a NEW named switch and a new unnamed one: the save has to place both)
            try:
                acts = []
                for sw in (edit_h.Obj(k="sw", name=b"gate is open", idx=None), edit_h.Obj(k="sw", name=None, idx=None)):
                    e = author.entry("a", 13)
                    e["args"] = [(a, (sw if v["k"] == "sw" else v)) for a, v in e["args"]]
                    acts.append(e)
                new.append(real.trigger({"conds": [], "acts": acts, "players": [0]}))
            except Exception as ex:  # noqa: BLE001
                out.notes.append("switch trigger not authored: %s" % err_class(ex))
            watch.remember("authored triggers", new)
            step("RichTrigEditor.add_triggers (tuple)", RichTrigEditor.add_triggers, tuple(new), trig)
            t2 = step("RichTrigEditor.add_triggers", RichTrigEditor.add_triggers, new, trig)
            if t2 is not None:
                more = [real.trigger(author.trigger())]
                t3 = step("RichTrigEditor.add_triggers (again, on its own output)", RichTrigEditor.add_triggers, more, t2)
                cur = step("RichChkEditor.replace_chk_section", RichChkEditor().replace_chk_section, t3 or t2, rich) or rich
        units = find(cur, edit_h_unis()[0]) or find(cur, edit_h_unis()[1])
        if units is not None:
            from richchk.editor.richchk.rich_unis_editor import RichUnisEditor
            from richchk.editor.richchk.rich_unix_editor import RichUnixEditor

            ed = RichUnisEditor() if isinstance(units, edit_h_unis()[0]) else RichUnixEditor()
            us = [real.unit(author.unit(100)) for _ in range(2)]
            n2 = step("Rich%sEditor.upsert_all_unit_settings" % ("Unis" if isinstance(units, edit_h_unis()[0]) else "Unix"), ed.upsert_all_unit_settings, us, units)
            if n2 is not None:
                cur = step("RichChkEditor.replace_chk_section (units)", RichChkEditor().replace_chk_section, n2, cur) or cur
            # a setting that carries an expansion weapon (id >= 100), handed to BOTH unit editors (the original-game
            # section has no room for it; whatever the editor does about that, the caller's setting stays as it was)
            bw = next(((u, ws) for u, ws in sorted(edit_h.unit_weapons().items()) if u < 228 and any(w >= 100 for w in ws)), None)
            if bw is not None:
                setting = real.unit({"unit": bw[0], "hp": (300, 1), "shield": 10, "armor": 2, "build": 600, "mineral": 125, "gas": 125, "name": None,
                                     "weapons": [(w, 77, 5) for w in bw[1]], "default": False})
                watch.remember("a unit setting with an expansion weapon", setting)
                step("RichUnisEditor.upsert_unit_setting (expansion weapon)", RichUnisEditor().upsert_unit_setting, setting, find(cur, edit_h_unis()[0]) or units) if find(cur, edit_h_unis()[0]) is not None else None
                step("RichUnisEditor.upsert_all_unit_settings (expansion weapon)", RichUnisEditor().upsert_all_unit_settings, [setting], find(cur, edit_h_unis()[0])) if find(cur, edit_h_unis()[0]) is not None else None
                if find(cur, edit_h_unis()[1]) is not None:
                    step("RichUnixEditor.upsert_unit_setting (expansion weapon)", RichUnixEditor().upsert_unit_setting, setting, find(cur, edit_h_unis()[1]))
        # the optional second argument of encode_chk: a metadata lookup whose keys match PlayWav paths exactly,
        # in another letter case, or not at all (the save may raise; the lookup must come back unchanged)
        if wav is not None and trig is not None:
            from richchk.model.mpq.stormlib.wav.stormlib_wav import StormLibWav
            from richchk.model.richchk.trig.actions.play_wav_action import PlayWavAction
            from richchk.model.richchk.trig.conditions.always_condition import AlwaysCondition
            from richchk.model.richchk.trig.player_id import PlayerId
            from richchk.model.richchk.trig.rich_trigger import RichTrigger
            from richchk.model.richchk.wav.rich_wav_metadata_lookup import RichWavMetadataLookup

            paths = ["staredit\\wav\\Alarm.WAV", "staredit\\wav\\exact.wav", "staredit\\wav\\missing.wav"]
            wsec = step("RichWavEditor.add_wav_files (for PlayWav)", RichWavEditor().add_wav_files, paths[:2], find(cur, RichWavSection))
            for variant, keys in (("case-variant key", ["staredit\\wav\\alarm.wav", paths[1]]), ("exact keys", paths[:2])):
                lookup = RichWavMetadataLookup(_metadata_by_wav_path={k: StormLibWav(k, 1234) for k in keys})
                acts = [PlayWavAction(_path_to_wav_in_mpq=p, _duration_ms=None) for p in (paths[:1] if variant.startswith("case") else paths[:2])]
                t = RichTrigger(_conditions=[AlwaysCondition()], _actions=acts, _players={PlayerId.PLAYER_1})
                tsec = find(cur, RichTrigSection)
                if wsec is not None and tsec is not None:
                    c2 = RichChkEditor().replace_chk_section(wsec, RichChkEditor().replace_chk_section(RichTrigEditor.add_triggers([t], tsec), cur))
                    watch.remember("wav metadata lookup (%s)" % variant, lookup)
                    step("RichChkIo.encode_chk (with wav_metadata_lookup, %s)" % variant, RichChkIo().encode_chk, c2, lookup)
        d3 = step("RichChkIo.encode_chk (edited)", RichChkIo().encode_chk, cur)
        if d3 is not None:
            b3 = step("ChkIo.encode_chk_to_bytes (edited)", ChkIo().encode_chk_to_bytes, d3)
            # the edited value is saved a second time: same bytes, nothing changed in between
            d4 = step("RichChkIo.encode_chk (edited, second save)", RichChkIo().encode_chk, cur)
            if d4 is not None and b3 is not None:
                b4 = step("ChkIo.encode_chk_to_bytes (second save)", ChkIo().encode_chk_to_bytes, d4)
                if b4 is not None and b4 != b3:
                    watch.found.append({"function": "save twice", "diff": "saving the same rich value twice gave different bytes"})
            if b3 is not None:
                dec5 = step("ChkIo.decode_chk_binary_data (reload)", ChkIo().decode_chk_binary_data, b3)
                if dec5 is not None:
                    step("RichChkIo.decode_chk (reload)", RichChkIo().decode_chk, dec5)
        # rebuilders and lookup builders, directly
        direct_calls(step, cur, rich)
        # the look-up helpers (name / path first, map second) on the loaded map and on the map after a sound was
        # added to it (with a free low slot the new sound sits at the END of the list, out of slot order)
        cw = cur
        if wav is not None:
            wq = step("RichWavEditor.add_wav_files (for the look-ups)", RichWavEditor().add_wav_files, ["staredit\\wav\\lookup me.wav"], find(cur, RichWavSection))
            if wq is not None:
                cw = step("RichChkEditor.replace_chk_section (sounds)", RichChkEditor().replace_chk_section, wq, cur) or cur
        query_calls(step, [rich, cw], dec)


def edit_h_unis():
    from richchk.model.richchk.unis.rich_unis_section import RichUnisSection
    from richchk.model.richchk.unix.rich_unix_section import RichUnixSection

    return RichUnisSection, RichUnixSection


def query_calls(step, maps, dec):
    from richchk.io.richchk.query.chk_query_util import ChkQueryUtil
    from richchk.io.richchk.query.mrgn_query_util import MrgnQueryUtil
    from richchk.io.richchk.query.wav_query_util import WavQueryUtil
    from richchk.model.chk_section_name import ChkSectionName
    from richchk.model.richchk.mrgn.rich_mrgn_section import RichMrgnSection
    from richchk.model.richchk.wav.rich_wav_section import RichWavSection

    for k, c in enumerate(maps):
        which = ["loaded map", "edited map"][k]
        for s in c.chk_sections:
            if isinstance(s, RichWavSection):
                paths = [w.path_in_chk.value for w in s.wavs]
                for pth in paths[-1:] + ["staredit\\wav\\not there.wav"]:
                    step("WavQueryUtil.find_only_wav_by_basename (%s)" % which, WavQueryUtil.find_only_wav_by_basename, pth.split("\\")[-1], c)
                    step("WavQueryUtil.find_only_wav_by_exact_match (%s)" % which, WavQueryUtil.find_only_wav_by_exact_match, pth, c)
                break
        for s in c.chk_sections:
            if isinstance(s, RichMrgnSection):
                names = [l.custom_location_name.value for l in s.locations if l.custom_location_name.value][:1] + ["no such place"]
                if k == 1:
                    break
                for nm in names:
                    step("MrgnQueryUtil.find_location_by_name (%s)" % which, MrgnQueryUtil.find_location_by_name, nm, s)
                    step("MrgnQueryUtil.find_location_by_fuzzy_search (%s)" % which, MrgnQueryUtil.find_location_by_fuzzy_search, nm, s)
                step("MrgnQueryUtil.find_location_by_name (%s, case-sensitive)" % which, MrgnQueryUtil.find_location_by_name, names[0].upper(), s, False)
                break
        for nm in (ChkSectionName.WAV,):
            step("ChkQueryUtil.determine_if_rich_chk_contains_section (%s)" % which, ChkQueryUtil.determine_if_rich_chk_contains_section, nm, c)
    for nm in (ChkSectionName.TRIG, ChkSectionName.STR):
        step("ChkQueryUtil.determine_if_chk_contains_section", ChkQueryUtil.determine_if_chk_contains_section, nm, dec)


def direct_calls(step, cur, rich):
    """every public (class)method of the rebuilders / lookup builders that takes a RichChk or a section"""
    import richchk.io.richchk as pkg

    for m in pkgutil.walk_packages(pkg.__path__, pkg.__name__ + "."):
        try:
            mod = importlib.import_module(m.name)
        except Exception:  # noqa: BLE001
            continue
        for cname, cls in vars(mod).items():
            if not inspect.isclass(cls) or cls.__module__ != mod.__name__ or cname in ("RichChkIo",):
                continue
            for name, attr in vars(cls).items():
                if name.startswith("_"):
                    continue
                raw = getattr(cls, name, None)
                if not callable(raw):
                    continue
                try:
                    sig = inspect.signature(raw)
                except (TypeError, ValueError):
                    continue
                params = [p for p in sig.parameters.values() if p.name not in ("self", "cls")]
                if len(params) != 1:
                    continue
                ann = str(params[0].annotation)
                target = None
                if "RichChk" in ann and "Section" not in ann and "Context" not in ann:
                    target = cur
                else:
                    for s in cur.chk_sections:
                        if type(s).__name__ in ann:
                            target = s
                            break
                if target is None:
                    continue
                try:
                    bound = raw if isinstance(attr, (classmethod, staticmethod)) else getattr(cls(), name)
                except Exception:  # noqa: BLE001
                    continue
                step("%s.%s" % (cname, name), bound, target)


def run(prop, tier, seed):
    out = Outcome(prop)
    rng = Rng(seed * 40503 + 13)
    spec = load_spec()
    watch = Watch(out)
    n = watch.install()
    out.notes.append("%d public methods wrapped" % n)
    drive(watch, out, rng, spec, tier)
    for q, c in sorted(watch.calls.items()):
        out.count("call:" + q.split("::")[1], c)
    # model side: which functions did the kernel-checked alias check accept?
    try:
        eff = json.load(open(os.path.join(BUILD_DIR, "effects.json")))
        accepted = {(f["file"], f["name"]) for f in eff["functions"] if not f["bad"]}
    except Exception as e:  # noqa: BLE001
        eff, accepted = None, set()
        out.notes.append("effects.json unavailable: %s" % e)
    seen = set()
    for f in watch.found:
        key = (f.get("function"), f.get("diff"))
        if key in seen:
            continue
        seen.add(key)
        out.violations.append(dict(f, oracle="an operation leaves everything it was given structurally identical", key=None))
        q = f.get("function", "")
        if "::" in q and eff is not None:
            modname, meth = q.split("::")
            rel = modname.replace(".", "/") + ".py"
            if (rel, meth) in accepted:
                out.disagreements.append({"op": "effects", "function": q, "model": "body passes the alias check", "real": f.get("diff")})
    return out
