"""Harness dispatcher (runs under /venv/bin/python): run.py <prop> <tier> <seed> <out.json> [--replay path]"""
import json
import os
import sys
import traceback

sys.path.insert(0, os.path.dirname(os.path.abspath(__file__)))
from common import BUILD_DIR  # noqa: E402

RULES = {
    "bytelayer": "cases = regression corpus + fixture CHKs + generated chunk lists (names: registered/enum-only/ASCII/multi-byte UTF-8/invalid UTF-8; recognised payloads at every legal size with edge-heavy, random and sentinel bytes; STR tables with shared/unsorted/interior/dangling offsets and trailing empty strings) + for C19 a malformed stream (random, truncations at and around chunk boundaries, single-byte corruptions, oversize size fields, short/long fixed sections, non-7-bit string bytes); each case is run through the real ChkIo and the Lean driver (ops rt, dec) and the property oracle; distinct_nontrivial = number of distinct (tag, input bytes) pairs",
}


def main():
    prop, tier, seed, outp = sys.argv[1], sys.argv[2], int(sys.argv[3]), sys.argv[4]
    replay = None
    if "--replay" in sys.argv:
        replay = sys.argv[sys.argv.index("--replay") + 1]
    if prop in ("C01", "C06", "C19"):
        import bytelayer

        if replay:
            out = bytelayer.replay(prop, replay, os.path.join(BUILD_DIR, "layouts.json"))
        else:
            out = bytelayer.run(prop, tier, seed, os.path.join(BUILD_DIR, "layouts.json"))
        rule = RULES["bytelayer"]
    else:
        raise SystemExit("no harness for " + prop)
    res = {
        "evaluations": out.evaluations,
        "distinct": len(out.distinct),
        "samples": out.samples,
        "dist": out.dist,
        "disagreements": out.disagreements[:20],
        "violations": out.violations[:20],
        "known_hits": out.known_hits,
        "notes": out.notes,
        "rule": rule,
    }
    with open(outp, "w") as f:
        json.dump(res, f, default=str)


if __name__ == "__main__":
    try:
        main()
    except SystemExit:
        raise
    except Exception:
        traceback.print_exc()
        sys.exit(3)
