"""Harness dispatcher (runs under /venv/bin/python): run.py <prop> <tier> <seed> <out.json> [--replay path]"""
import json
import os
import sys
import traceback

sys.path.insert(0, os.path.dirname(os.path.abspath(__file__)))
from common import BUILD_DIR  # noqa: E402

RULES = {
    "effects": "every public method (98 today) of the classes in richchk.editor.*, richchk.io.chk.*, richchk.io.richchk.* and richchk.transcoder.* is wrapped; at each outermost wrapped call every argument (self included) is deep-snapshotted before and compared after (lists, tuples, sets, dicts, dataclass fields, recursively); the wrapped library is driven, per generated map (quick 5, thorough 30 + fixtures; editor-form and valid-form, 64-slot MRGN, prefilled UPRP), through decode -> rich decode -> unedited save -> query helpers -> every editor (locations, unit-property sets, switches, WAV entries, strings, triggers, unit settings; each also re-applied to its own output) -> section replacement -> save -> second save (same bytes) -> reload, plus direct calls of every one-argument public method of the rebuilders / lookup builders; all values produced so far are re-verified after every step (composition); distinct_nontrivial = distinct (step, position) pairs",
    "edit": "edit histories on top of base maps (the three fixtures + generated editor-form / valid maps incl. 64-slot MRGN and prefilled UPRP): 1-3 segments separated by save+reload, each with 1-3 operations among add triggers (1-3 triggers of 0..16 conditions / 1..64 actions drawn from ALL supported types of the specification table, arguments: boundary and random integers per field width, first/last/random enum members, existing and new locations / switches / unit-property sets shared among entries and triggers, strings new / duplicate / already present / null, AI scripts known and unknown, raw undecoded entries), upsert unit settings (any of the 228 units, hit points as fractions with denominators 1,2,4,10,256,1000, its weapons), add WAV entries; every third history has several new index-less objects per save (mode multi: oracle only), the others at most one per kind per save (mode single: the saved bytes are compared with the Lean driver, op edit).  The history is described abstractly; the real side drives RichTrigEditor / RichUnisEditor / RichUnixEditor / RichWavEditor / RichChkEditor + RichChkIo + ChkIo, the oracles read the saved bytes with the independent reader (C04: every authored value in its specification field, every reference resolving to the authored object, reload equality modulo allocated indices; C07: every pre-existing string id / location / switch / unit-property / WAV slot, the pre-existing triggers byte for byte and in place, and every section no edit concerns byte-identical to the unedited save; C11: + degenerate histories: 17 conditions, 65 actions, 100 raw actions, rich + raw overflow, empty trigger, integers beyond a field, carried indices outside slot ranges, 70 new unit-property sets, non-7-bit text: raise or structurally valid); distinct_nontrivial = distinct edit lines",
    "rich": "whole unedited load/save cycles bytes -> decoded -> rich -> decoded -> bytes: the three fixture CHKs, N generated editor-form maps (STR one entry per id in order, UPUS consistent, 255-slot MRGN; variants: 64-slot retail MRGN, editor-prefilled UPRP with zero UPUS) and N/2 valid-but-not-editor-form maps (shared / unsorted string offsets, unused ids, several ids for one text, gaps), every map with STR, MRGN (named/unnamed/empty slots), UPRP+UPUS, SWNM, WAV, UNIS/UNIx (custom names, weapon damage), TRIG with every supported action/condition type of the specification table plus unsupported types and empty entries, unknown and enum-only sections between them; plus one deterministic witness per recorded finding.  Each map is cycled twice by the real code and once by the Lean driver (op cycle, byte-compared); oracles read both byte strings with the independent reader harness/refchk.py (game view: every string reference resolved to its text, locations by coordinates, CUWP slots by content, triggers by resolved arguments; structural validity; pass-through sections and unsupported trigger entries in place); distinct_nontrivial = distinct input byte strings",
    "fileops": "every scenario is one real call in its own process on copies of the corpus archives with the real StormLib: C15 = 5 entry points x destination {absent, existing, same path as source} x flag {default, false, true} (+ empty / non-empty audio batch), hashes of base, destination and an unnamed neighbour file before/after; C16 = for save / audio import / read, destination absent and pre-existing: a fault-free run records the ordered archive-library and file-system calls, then EVERY call is made to fail before and after taking effect (copies also part-way) and base hash, destination hash, temp dir and destination dir listings are checked; C17 = save (unedited and 2/40(/200) added triggers) and audio import over every corpus archive, member listing and per-member hashes, stored scenario vs encoder bytes, reload equality, and WAV duration on generated headers vs the Lean driver (wavms); distinct_nontrivial = distinct scenario specs",
    "imports": "exhaustive: every module of the package (discovered from the file system with pkgutil, 369 today) is imported as the first and only import of a fresh interpreter (16 in parallel); the four registries' key sets, whether each factory module got loaded, and the number of registrable transcoder classes are compared with the Lean driver's import1 result and with the ids of the concrete model classes enumerated in that interpreter; distinct_nontrivial = number of modules",
    "alloc": "per editor (locations, unit-property slots, WAV entries) N generated (occupancy, batch) pairs: occupancy in {empty, sparse, full, full-but-one, only-the-reserved-slot-free, reserved occupied}; batch items in {new, index-less duplicate of a stored value, already placed, carrying a free index, carrying an occupied index with other content, carrying an out-of-range index}; the real editor runs with its set-building helper wrapped so the iteration order is observed and passed to the Lean driver (op alloc); C09: allocation rules checked on the real result, plus SWNM-rebuild scenarios (named/unnamed/referenced switches, full table); C14: every case re-run under up to 24 imposed permutations of the set order, plus whole-save scenarios executed in fresh interpreters under different PYTHONHASHSEED / address padding and compared through a slot-renumbering-invariant digest computed by an independent reader; distinct_nontrivial = distinct (editor, table, batch-in-observed-order) op lines (+ distinct (scenario, hash seed) pairs)",
    "str": "regression witnesses + generated STR (w=2) and STRx (w=4) tables: 0..8 data strings (duplicates, empty strings), 0..7 ids with offsets shared / unsorted / interior / on a NUL / (non-well-formed stream: into the header, past the end, dangling), unreferenced data entries, the empty table; requests: empty, duplicates, already present, suffix/prefix of an existing string, the empty string, long strings crossing the u16 limit; every case through the real editor and the Lean driver (op addstr/tostrx), ids resolved by an independent offset reader; distinct_nontrivial = distinct op lines",
    "trig": "for every type in the specification table (51 actions, 22 conditions): N sentinel records (quick 4, thorough 24 variants) with a distinct value in every field (valid member / valid id where the field's codec needs one, defined flag bits in the flags byte) decoded by the registered real transcoder with a sentinel context, observed argument<-field relation compared with the specification and with the generated row; encode back compared field by field; plus every enum member (quick: <=40 per large enum) of every enum-typed argument through decode and encode; distinct_nontrivial = distinct (type, record) pairs",
    "codecs": "exhaustive domains: all 256 values of the two trigger flag bytes, the 16-bit flag words (thorough: all 65536 per codec; quick: 4096 low + 4096 random + boundaries), all 2^k rich flag values per codec, every enum over [0,1024) (thorough [0,65536)) plus every member and neighbours and width boundaries, AI tags: every known tag, its case variants and near misses, each UTF-8 length pattern, each invalid pattern, random tags; hit points [0,2^14) (thorough [0,2^20)), all 2^k and 2^k+-1, stratified random u32; decimal hit points with 0..4 decimals; CUWP flag words through the UPRP section transcoder.  Each value goes through the real helper and the Lean driver; distinct_nontrivial counts distinct (op, value) pairs",
    "bytelayer": "cases = regression corpus + fixture CHKs + generated chunk lists (names: registered/enum-only/ASCII/multi-byte UTF-8/invalid UTF-8; recognised payloads at every legal size with edge-heavy, random and sentinel bytes; STR tables with shared/unsorted/interior/dangling offsets and trailing empty strings) + for C19 a malformed stream (random, truncations at and around chunk boundaries, single-byte corruptions, oversize size fields, short/long fixed sections, non-7-bit string bytes); each case is run through the real ChkIo and the Lean driver (ops rt, dec) and the property oracle; distinct_nontrivial = number of distinct (tag, input bytes) pairs",
}


def generic(mod, prop, tier, seed, replay):
    """run a harness; in replay mode re-run it with the recorded seed/tier and keep only the
    violations of the recorded oracle (the generators are deterministic in the seed)"""
    if not replay:
        return mod.run(prop, tier, seed)
    rp = json.load(open(replay))
    out = mod.run(prop, rp.get("tier", "quick"), int(rp.get("seed", 0)))
    want = (rp.get("violation") or {}).get("oracle")
    if want is not None:
        out.violations = [v for v in out.violations if v.get("oracle") == want]
    return out


def merged(out, o2):
    out.evaluations += o2.evaluations
    out.distinct |= o2.distinct
    out.samples = out.samples[:3] + o2.samples[:3]
    for k, v in o2.dist.items():
        out.dist[k] = out.dist.get(k, 0) + v
    out.disagreements += o2.disagreements
    out.violations += o2.violations
    out.notes += o2.notes
    return out


def main():
    prop, tier, seed, outp = sys.argv[1], sys.argv[2], int(sys.argv[3]), sys.argv[4]
    replay = None
    if "--replay" in sys.argv:
        replay = sys.argv[sys.argv.index("--replay") + 1]
    if prop in ("C01", "C06", "C19"):
        import bytelayer

        if replay:
            out = bytelayer.replay(prop, replay, os.path.join(BUILD_DIR, "layouts.json"))
        else:
            out = bytelayer.run(prop, tier, seed, os.path.join(BUILD_DIR, "layouts.json"))
        rule = RULES["bytelayer"]
    elif prop == "C05":
        import trig_h

        out = generic(trig_h, prop, tier, seed, replay)
        rule = RULES["trig"]
    elif prop == "C08":
        import str_h

        out = generic(str_h, prop, tier, seed, replay)
        rule = RULES["str"]
    elif prop == "C09":
        import alloc_h
        import edit_h

        out = merged(generic(alloc_h, prop, tier, seed, replay), generic(edit_h, prop, tier, seed, replay))
        rule = RULES["alloc"] + " || " + RULES["edit"]
    elif prop == "C14":
        import alloc_h

        out = generic(alloc_h, prop, tier, seed, replay)
        rule = RULES["alloc"]
    elif prop in ("C15", "C16", "C17"):
        import fileops_h

        out = generic(fileops_h, prop, tier, seed, replay)
        rule = RULES["fileops"]
    elif prop == "C18":
        import imports_h

        out = generic(imports_h, prop, tier, seed, replay)
        rule = RULES["imports"]
    elif prop in ("C02", "C03"):
        import rich_h

        out = generic(rich_h, prop, tier, seed, replay)
        rule = RULES["rich"]
    elif prop in ("C04", "C07"):
        import edit_h

        out = generic(edit_h, prop, tier, seed, replay)
        rule = RULES["edit"]
    elif prop in ("C11", "C10"):
        import edit_h
        import rich_h

        out = merged(generic(rich_h, prop, tier, seed, replay), generic(edit_h, prop, tier, seed, replay))
        rule = RULES["rich"] + " || " + RULES["edit"]
    elif prop == "C13":
        import effects_h

        out = generic(effects_h, prop, tier, seed, replay)
        rule = RULES["effects"]
    elif prop == "C12":
        import codecs_h

        out = generic(codecs_h, prop, tier, seed, replay)
        rule = RULES["codecs"]
    else:
        raise SystemExit("no harness for " + prop)
    res = {
        "evaluations": out.evaluations,
        "distinct": len(out.distinct),
        "samples": out.samples,
        "dist": out.dist,
        "disagreements": out.disagreements[:20],
        "violations": [v for v in out.violations if v.get("key") is None][:20],
        "known_hits": sorted({v["key"] for v in out.violations if v.get("key") is not None}),
        "known_samples": list({v["key"]: {k: (x if not isinstance(x, str) or len(x) < 400 else x[:400] + "...") for k, x in v.items()} for v in out.violations if v.get("key") is not None}.values()),
        "notes": out.notes,
        "rule": rule,
    }
    with open(outp, "w") as f:
        json.dump(res, f, default=str)


if __name__ == "__main__":
    try:
        main()
    except SystemExit:
        raise
    except Exception:
        traceback.print_exc()
        sys.exit(3)
