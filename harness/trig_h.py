"""C05: sentinel probe of every registered trigger action / condition transcoder.

For each registered id a record with a distinct value in EVERY field is decoded with a
sentinel context (lookups whose entries are recognisable by id); the observed argument<-field
relation, the type byte, the zeroing of unlisted fields and the write-back are compared with
  * the specification table exported from Lean (Spec.TrigArgs)   -> oracle
  * the generated row the theorems are about (driver op trigrow) -> correspondence
"""
import dataclasses
import json
import logging
import os
import sys

sys.path.insert(0, os.path.dirname(os.path.abspath(__file__)))
from common import BUILD_DIR, Outcome, Rng, err_class, load_spec, run_driver  # noqa: E402

logging.disable(logging.CRITICAL)


def contexts(no_switch_names=False):
    from richchk.model.richchk.mrgn.rich_location import RichLocation
    from richchk.model.richchk.mrgn.rich_mrgn_lookup import RichMrgnLookup
    from richchk.model.richchk.richchk_decode_context import RichChkDecodeContext
    from richchk.model.richchk.richchk_encode_context import RichChkEncodeContext
    from richchk.model.richchk.str.rich_str_lookup import RichStrLookup
    from richchk.model.richchk.str.rich_string import RichNullString, RichString
    from richchk.model.richchk.swnm.rich_switch import RichSwitch
    from richchk.model.richchk.swnm.rich_swnm_lookup import RichSwnmLookup
    from richchk.model.richchk.uprp.rich_cuwp_lookup import RichCuwpLookup
    from richchk.model.richchk.uprp.rich_cuwp_slot import RichCuwpSlot

    locs = {i: RichLocation(i, i + 1, i + 2, i + 3, RichString("loc%d" % i), i) for i in range(1, 256)}
    strs = {i: RichString("string-%d" % i) for i in range(1, 3000)}
    sw = {i: RichSwitch(RichString("sw%d" % i), i) for i in range(0, 256)}
    if no_switch_names:
        # a map without a switch-name table: the decode side knows no switch, the encode side knows every
        # switch by its number alone
        sw = {i: RichSwitch(_index=i) for i in range(0, 256)}
    cu = {i: RichCuwpSlot(i, i % 101, (i * 7) % 101, i * 3, i, _index=i) for i in range(1, 65)}
    dctx = RichChkDecodeContext(
        _rich_str_lookup=RichStrLookup(_string_by_id_lookup=dict(strs), _id_by_string_lookup={v.value: k for k, v in strs.items()}),
        _rich_mrgn_lookup=RichMrgnLookup(_location_by_id_lookup=dict(locs), _id_by_location_lookup={v: k for k, v in locs.items()}),
        _rich_swnm_lookup=RichSwnmLookup(_switch_by_id_lookup={} if no_switch_names else dict(sw), _id_by_switch_lookup={v: k for k, v in sw.items()}),
        _rich_cuwp_lookup=RichCuwpLookup(_cuwp_by_id_lookup=dict(cu), _id_by_cuwp_lookup={v: k for k, v in cu.items()}),
    )
    ectx = RichChkEncodeContext(
        _rich_str_lookup=dctx.rich_str_lookup,
        _rich_mrgn_lookup=dctx.rich_mrgn_lookup,
        _rich_swnm_lookup=RichSwnmLookup(_switch_by_id_lookup=dict(sw), _id_by_switch_lookup={v: k for k, v in sw.items()}),
        _rich_cuwp_lookup=dctx.rich_cuwp_lookup,
        _wav_metadata_lookup=None,
    )
    return dctx, ectx


def numeric_of(v):
    """the number a decoded rich argument stands for (codec image)"""
    from richchk.model.richchk.mrgn.rich_location import RichLocation
    from richchk.model.richchk.richchk_enum import RichChkEnum
    from richchk.model.richchk.str.rich_string import RichString
    from richchk.model.richchk.swnm.rich_switch import RichSwitch
    from richchk.model.richchk.trig.enums.ai_script import AiScript
    from richchk.model.richchk.uprp.rich_cuwp_slot import RichCuwpSlot
    from richchk.transcoder.richchk.transcoders.helpers.ai_script_transcoder import AiScriptTranscoder

    if isinstance(v, bool):
        return None
    if isinstance(v, int):
        return v
    if isinstance(v, RichChkEnum):
        return v.id
    if isinstance(v, RichLocation) or isinstance(v, RichSwitch) or isinstance(v, RichCuwpSlot):
        return v.index
    if isinstance(v, RichString):
        return int(v.value.split("-")[1]) if v.value.startswith("string-") else None
    if isinstance(v, str):
        return int(v.split("-")[1]) if v.startswith("string-") else None
    if isinstance(v, AiScript):
        # the format: the script's 4-character name IS the u32, little-endian (never the library's own encoder)
        try:
            return int.from_bytes(v.name.encode("latin1"), "little") if len(v.name) == 4 else None
        except UnicodeEncodeError:
            return None
    return None


FIELD_WIDTH = {
    "_location_id": 32, "_text_string_id": 32, "_wav_string_id": 32, "_time": 32, "_first_group": 32, "_second_group": 32,
    "_action_argument_type": 16, "_action_id": 8, "_quantifier_or_switch_or_order": 8, "_flags": 8, "_padding": 8, "_mask_flag": 16,
    "_group": 32, "_quantity": 32, "_unit_id": 16, "_numeric_comparison_operation": 8, "_condition_id": 8, "_numeric_comparand_type": 8,
}


_ENUMS = {}


def typed_row(kind, spec_row):
    """what KIND of value each argument holds (number / enum / location / string / switch / property set / AI
    script), read from the declared types of the library's own model class for that type — so that the inputs
    do not depend on what the translator made of the transcoder's source.  WHICH field holds the argument is
    the specification's (`spec_row["args"]`)."""
    import enum as _enum
    import typing

    from richchk.model.richchk.mrgn.rich_location import RichLocation
    from richchk.model.richchk.str.rich_string import RichString
    from richchk.model.richchk.swnm.rich_switch import RichSwitch
    from richchk.model.richchk.trig.enums.ai_script import AiScript
    from richchk.model.richchk.trig.trigger_action_id import TriggerActionId
    from richchk.model.richchk.trig.trigger_condition_id import TriggerConditionId
    from richchk.model.richchk.uprp.rich_cuwp_slot import RichCuwpSlot
    from richchk.transcoder.richchk.transcoders.trig.rich_trigger_action_transcoder_factory import RichTriggerActionTranscoderFactory as AF
    from richchk.transcoder.richchk.transcoders.trig.rich_trigger_condition_transcoder_factory import RichTriggerConditionTranscoderFactory as CF

    try:
        idenum = TriggerActionId if kind == "a" else TriggerConditionId
        member = next(m for m in idenum if m.id == spec_row["id"])
        tc = (AF.make_rich_trigger_action_transcoder if kind == "a" else CF.make_rich_trigger_condition_transcoder)(member)
        model = next(b.__args__[0] for b in type(tc).__orig_bases__ if getattr(b, "__args__", None))
        hints = typing.get_type_hints(model)
        dec = []
        for arg, field in spec_row["args"]:
            t = hints[arg]
            if typing.get_origin(t) is typing.Union:
                t = next(x for x in typing.get_args(t) if x is not type(None))
            if t is int:
                c = "num"
            elif t is str or (isinstance(t, type) and issubclass(t, RichString)):
                c = "str"
            elif isinstance(t, type) and issubclass(t, RichLocation):
                c = "loc"
            elif isinstance(t, type) and issubclass(t, RichSwitch):
                c = "switch"
            elif isinstance(t, type) and issubclass(t, RichCuwpSlot):
                c = "cuwp"
            elif isinstance(t, type) and issubclass(t, AiScript):
                c = "ai"
            elif isinstance(t, type) and issubclass(t, _enum.Enum):
                _ENUMS[t.__name__] = t
                c = "enum:" + t.__name__
            else:
                return None
            dec.append({"arg": arg, "field": field, "codec": c})
        return {"decode": dec}
    except Exception:  # noqa: BLE001
        return None


def enum_class(name):
    import importlib

    if name in _ENUMS:
        return _ENUMS[name]
    gen = json.load(open(os.path.join(BUILD_DIR, "codecs.json")))
    for e in gen["enums"]:
        if e["enum"] == name:
            return getattr(importlib.import_module(e["module"]), name)
    raise KeyError(name)


def probe(kind, row, spec_row, fields, dctx, ectx, out, rng, variant):
    """one sentinel record through decode and encode; returns observed {arg: field}"""
    from richchk.model.chk.trig.decoded_trigger_action import DecodedTriggerAction
    from richchk.model.chk.trig.decoded_trigger_condition import DecodedTriggerCondition
    from richchk.model.richchk.trig.trigger_action_id import TriggerActionId
    from richchk.model.richchk.trig.trigger_condition_id import TriggerConditionId
    from richchk.transcoder.richchk.transcoders.helpers.richchk_enum_transcoder import RichChkEnumTranscoder as ET
    from richchk.transcoder.richchk.transcoders.trig.rich_trigger_action_transcoder_factory import RichTriggerActionTranscoderFactory as AF
    from richchk.transcoder.richchk.transcoders.trig.rich_trigger_condition_transcoder_factory import RichTriggerConditionTranscoderFactory as CF

    tid = spec_row["id"]
    typefield = "_action_id" if kind == "a" else "_condition_id"
    codec_of_field = {d["field"]: d["codec"] for d in row["decode"]} if row else {}
    # sentinel record: distinct value in every field, valid for the codec of that field (by spec)
    rec, used = {}, set()
    spec_field_arg = {f: a for a, f in spec_row["args"]}
    for i, f in enumerate(fields):
        if f == typefield:
            rec[f] = tid
            continue
        if f == "_flags":
            rec[f] = (variant * 7 + 5) % 32  # defined flag bits only
            continue
        codec = codec_of_field.get(f, "num")
        if codec.startswith("enum:"):
            ids = sorted(m.id for m in enum_class(codec[5:]))
            cand = [x for x in ids if x not in used and x != 0] or ids
            v = cand[(variant * 3 + i) % len(cand)]
        elif codec in ("loc", "loc!"):
            v = 1 + (19 + i + 13 * variant) % 255      # a slot of the sentinel location table (1..255)
        elif codec in ("str", "strval"):
            v = 300 + 17 * i + variant
        elif codec == "switch":
            v = 40 + i + variant
        elif codec == "cuwp":
            v = 1 + (i + 9 * variant) % 64
        elif codec == "ai":
            v = int.from_bytes(b"JYDg" if variant % 2 == 0 else b"Zq%02d" % (variant % 100), "little")
        else:
            v = (100 + 11 * i + 97 * variant) % (1 << min(FIELD_WIDTH[f], 16))
            if FIELD_WIDTH[f] == 8:
                v = (60 + 11 * i + 3 * variant) % 256
        while v in used:
            v += 1
            if codec in ("loc", "loc!") and v > 255:
                v = 1
            elif codec == "cuwp" and v > 64:
                v = 1
            elif codec == "switch" and v > 255:
                v = 0
        used.add(v)
        rec[f] = v
    cls = DecodedTriggerAction if kind == "a" else DecodedTriggerCondition
    record = cls(**rec)
    factory = AF if kind == "a" else CF
    idenum = TriggerActionId if kind == "a" else TriggerConditionId
    member = ET.decode_enum(tid, idenum)
    out.case("probe-" + kind, repr(sorted(rec.items())).encode(), sample={"kind": kind, "id": tid, "record": rec})
    if member._name_ != spec_row["member"]:
        out.violations.append({"oracle": "the type's number carries the specification's name", "kind": kind, "id": tid, "library": member._name_, "spec": spec_row["member"]})
    try:
        tc = (factory.make_rich_trigger_action_transcoder if kind == "a" else factory.make_rich_trigger_condition_transcoder)(member)
    except Exception as ex:  # noqa: BLE001
        out.violations.append({"oracle": "a transcoder is registered for every supported type", "kind": kind, "id": tid, "err": err_class(ex)})
        return None
    try:
        rich = tc.decode(record, dctx)
    except Exception as ex:  # noqa: BLE001
        out.violations.append({"oracle": "sentinel record decodes", "kind": kind, "id": tid, "record": rec, "err": "%s: %s" % (type(ex).__name__, str(ex)[:120])})
        return None
    mid = rich.action_id() if kind == "a" else rich.condition_id()
    if mid.id != tid:
        out.violations.append({"oracle": "decoded object is of the type whose number is in the record", "kind": kind, "id": tid, "got": mid.id})
    observed = {}
    value_to_field = {}
    for f, v in rec.items():
        if f not in (typefield, "_flags"):
            value_to_field.setdefault(v, []).append(f)
    for fld in dataclasses.fields(rich):
        if fld.name == "_flags":
            continue
        n = numeric_of(getattr(rich, fld.name))
        cands = value_to_field.get(n, [])
        observed[fld.name] = cands[0] if len(cands) == 1 else None
    want = {a: f for a, f in spec_row["args"]}
    if observed != want:
        out.violations.append({"oracle": "each argument is read from the field the specification assigns to it", "kind": kind, "id": tid, "member": spec_row["member"], "observed": observed, "spec": want, "record": rec})
    # encode back
    try:
        back = tc.encode(rich, ectx)
    except Exception as ex:  # noqa: BLE001
        out.violations.append({"oracle": "decoded sentinel object encodes", "kind": kind, "id": tid, "err": "%s: %s" % (type(ex).__name__, str(ex)[:120])})
        return observed
    for f in fields:
        got = getattr(back, f)
        if f == typefield:
            exp = tid
        elif f == "_flags":
            exp = rec[f]
        elif f in spec_field_arg:
            exp = rec[f]
        else:
            exp = 0
        if got != exp:
            out.violations.append({"oracle": "encode writes each argument to its specification field, the type's number to the type byte and zero elsewhere", "kind": kind, "id": tid, "field": f, "got": got, "expected": exp, "record": rec})
            break
    return observed


def run(prop, tier, seed):
    out = Outcome(prop)
    rng = Rng(seed * 31337 + 5)
    spec = load_spec()
    gen = json.load(open(os.path.join(BUILD_DIR, "trigtable.json")))
    dctx, ectx = contexts()
    nvariants = 4 if tier == "quick" else 24
    lines = []
    for kind, skey, fkey in (("a", "actions", "actionFields"), ("c", "conditions", "conditionFields")):
        fields = spec[fkey]
        grows = {r["id"]: r for r in gen["rows"] if r["kind"] == ("action" if kind == "a" else "condition")}
        # registered set == specification's supported set
        from richchk.transcoder.richchk.transcoders.trig.rich_trigger_action_transcoder_factory import RichTriggerActionTranscoderFactory as AF
        from richchk.transcoder.richchk.transcoders.trig.rich_trigger_condition_transcoder_factory import RichTriggerConditionTranscoderFactory as CF

        reg = sorted(k.id for k in (AF if kind == "a" else CF).transcoders.keys())
        want = sorted(r["id"] for r in spec[skey])
        if reg != want:
            out.violations.append({"oracle": "registered types == the specification's supported types", "kind": kind, "registered": reg, "spec": want})
        if sorted(grows) != reg:
            out.disagreements.append({"op": "trigids " + kind, "model": sorted(grows), "real": reg})
        for srow in spec[skey]:
            row = grows.get(srow["id"])
            trow = typed_row(kind, srow) or row
            if typed_row(kind, srow) is None:
                out.count("inputs-from-translator-row")
            for v in range(nvariants):
                obs = probe(kind, trow, srow, fields, dctx, ectx, out, rng, v)
                if obs is not None and row is not None:
                    gmap = {d["arg"]: d["field"] for d in row["decode"]}
                    if obs != gmap:
                        out.disagreements.append({"op": "trigrow %s %d" % (kind, srow["id"]), "model": gmap, "real": obs})
            # a map without switch names: a switch argument is still the number in its field
            if trow and any(d["codec"] == "switch" for d in trow["decode"]):
                d2, e2 = contexts(no_switch_names=True)
                for v in range(2):
                    probe(kind, trow, srow, fields, d2, e2, out, rng, v)
            # boundary values of the plain-number arguments (0 and the field's maximum): decode then encode is exact
            if trow:
                boundary_probe(kind, trow, srow, fields, dctx, ectx, out)
            # every enum member of every enum-typed argument
            if trow:
                enum_sweep(kind, trow, srow, fields, dctx, ectx, out, tier)
            lines.append("trigrow %s %d" % (kind, srow["id"]))
    # ---- whole-section probes: what one entry is written as does not depend on the other entries of the section,
    # and an argument the context does not know is refused, never written as the number it happens to carry
    section_probes(out, spec, dctx, ectx)
    # model side: the rows the theorems talk about are the rows the harness compared against
    try:
        model = run_driver(lines)
        for ln, m in zip(lines, model):
            kind, tid = ln.split()[1], int(ln.split()[2])
            r = [x for x in gen["rows"] if x["id"] == tid and x["kind"] == ("action" if kind == "a" else "condition")]
            if not r:
                if m != "NONE":
                    out.disagreements.append({"op": ln, "model": m, "real": "no row"})
                continue
            exp = "D[" + ",".join("%s<%s@%s" % (d["arg"], d["codec"].split(":")[0].replace("strval", "str"), d["field"]) for d in r[0]["decode"]) + "]"
            if exp not in m or not m.startswith("OK " + r[0]["member"] + " "):
                out.disagreements.append({"op": ln, "model": m, "real": exp})
    except Exception as e:  # noqa: BLE001
        out.notes.append("model driver unavailable: %s" % e)
        out.disagreements.append({"op": "driver", "what": str(e)[:200]})
    return out


def boundary_probe(kind, row, spec_row, fields, dctx, ectx, out):
    from richchk.model.chk.trig.decoded_trigger_action import DecodedTriggerAction
    from richchk.model.chk.trig.decoded_trigger_condition import DecodedTriggerCondition
    from richchk.model.richchk.trig.trigger_action_id import TriggerActionId
    from richchk.model.richchk.trig.trigger_condition_id import TriggerConditionId
    from richchk.transcoder.richchk.transcoders.trig.rich_trigger_action_transcoder_factory import RichTriggerActionTranscoderFactory as AF
    from richchk.transcoder.richchk.transcoders.trig.rich_trigger_condition_transcoder_factory import RichTriggerConditionTranscoderFactory as CF

    tid = spec_row["id"]
    typefield = "_action_id" if kind == "a" else "_condition_id"
    codec_of_field = {d["field"]: d["codec"] for d in row["decode"]}
    num_fields = [f for f in fields if codec_of_field.get(f) == "num"]
    if not num_fields:
        return
    cls = DecodedTriggerAction if kind == "a" else DecodedTriggerCondition
    idenum = TriggerActionId if kind == "a" else TriggerConditionId
    member = next((m for m in idenum if m.id == tid), None)
    try:
        tc = (AF.make_rich_trigger_action_transcoder if kind == "a" else CF.make_rich_trigger_condition_transcoder)(member)
    except Exception:  # noqa: BLE001
        return
    for what in ("zero", "max"):
        rec = {}
        for i, f in enumerate(fields):
            codec = codec_of_field.get(f)
            if f == typefield:
                rec[f] = tid
            elif f == "_flags":
                rec[f] = 0
            elif codec == "num":
                rec[f] = 0 if what == "zero" else (1 << FIELD_WIDTH[f]) - 1
            elif codec is None:
                rec[f] = 0
            elif codec.startswith("enum:"):
                rec[f] = sorted(m.id for m in enum_class(codec[5:]))[0]
            elif codec in ("loc", "loc!"):
                rec[f] = 7 + i
            elif codec in ("str", "strval"):
                rec[f] = 300 + i
            elif codec == "switch":
                rec[f] = 40 + i
            elif codec == "cuwp":
                rec[f] = 3
            elif codec == "ai":
                rec[f] = int.from_bytes(b"JYDg", "little")
            else:
                rec[f] = 0
        out.case("boundary-" + kind, repr((tid, what)).encode())
        try:
            back = tc.encode(tc.decode(cls(**rec), dctx), ectx)
        except Exception as ex:  # noqa: BLE001
            out.violations.append({"oracle": "a record whose plain-number arguments are %s decodes and encodes" % what, "kind": kind, "id": tid, "record": rec, "err": "%s: %s" % (type(ex).__name__, str(ex)[:120])})
            continue
        for f in num_fields:
            if getattr(back, f) != rec[f]:
                out.violations.append({"oracle": "a plain-number argument at its boundary value (%s) is written back exactly" % what, "kind": kind, "id": tid, "field": f, "got": getattr(back, f), "expected": rec[f]})
                break


def section_probes(out, spec, dctx, ectx):
    import dataclasses as dc

    from richchk.model.chk.trig.decoded_player_execution import DecodedPlayerExecution
    from richchk.model.chk.trig.decoded_trig_section import DecodedTrigSection
    from richchk.model.chk.trig.decoded_trigger import DecodedTrigger
    from richchk.model.chk.trig.decoded_trigger_action import DecodedTriggerAction
    from richchk.model.richchk.mrgn.rich_location import RichLocation
    from richchk.model.richchk.trig.rich_trig_section import RichTrigSection
    from richchk.model.richchk.trig.rich_trigger import RichTrigger
    from richchk.model.richchk.uprp.rich_cuwp_slot import RichCuwpSlot
    from richchk.transcoder.richchk.transcoders.richchk_trig_transcoder import RichChkTrigTranscoder

    afields = spec["actionFields"]
    ttc = RichChkTrigTranscoder()

    def rec(**kw):
        d = {f: 0 for f in afields}
        d.update(kw)
        return DecodedTriggerAction(**d)

    def one_trigger(acts):
        return DecodedTrigger(_conditions=[], _actions=acts, _player_execution=DecodedPlayerExecution(_execution_flags=0, _player_flags=[1] + [0] * 26, _current_action_index=0))

    # (a) twin slots: two unit-property sets / two locations that are equal in every value but sit in different slots
    cu_by, loc_by = dctx.rich_cuwp_lookup, dctx.rich_mrgn_lookup
    c1 = cu_by.get_cuwp_by_id(1)
    l1 = loc_by.get_location_by_id(1)
    twin_c = dc.replace(c1, _index=63)
    twin_l = dc.replace(l1, _index=250)
    from richchk.model.richchk.mrgn.rich_mrgn_lookup import RichMrgnLookup
    from richchk.model.richchk.richchk_decode_context import RichChkDecodeContext
    from richchk.model.richchk.richchk_encode_context import RichChkEncodeContext
    from richchk.model.richchk.uprp.rich_cuwp_lookup import RichCuwpLookup

    cus = {i: (twin_c if i == 63 else cu_by.get_cuwp_by_id(i)) for i in range(1, 65)}
    locs = {i: (twin_l if i == 250 else loc_by.get_location_by_id(i)) for i in range(1, 256)}
    # the lookups a real load builds: id -> object for every slot, object -> id with the LAST equal object winning
    d2 = RichChkDecodeContext(_rich_str_lookup=dctx.rich_str_lookup, _rich_swnm_lookup=dctx.rich_swnm_lookup,
                              _rich_mrgn_lookup=RichMrgnLookup(_location_by_id_lookup=dict(locs), _id_by_location_lookup={v: k for k, v in locs.items()}),
                              _rich_cuwp_lookup=RichCuwpLookup(_cuwp_by_id_lookup=dict(cus), _id_by_cuwp_lookup={v: k for k, v in cus.items()}))
    e2 = RichChkEncodeContext(_rich_str_lookup=ectx.rich_str_lookup, _rich_swnm_lookup=ectx.rich_swnm_lookup, _rich_mrgn_lookup=d2.rich_mrgn_lookup,
                              _rich_cuwp_lookup=d2.rich_cuwp_lookup, _wav_metadata_lookup=None)
    # create unit with properties (11): group, count, unit, location, property slot; minimap ping (28): location
    a = lambda slot, loc: rec(_action_id=11, _first_group=1, _second_group=slot, _action_argument_type=0, _quantifier_or_switch_or_order=2, _location_id=loc, _flags=4)  # noqa: E731
    p = lambda loc: rec(_action_id=28, _location_id=loc, _flags=4)  # noqa: E731
    sec = DecodedTrigSection(_triggers=[one_trigger([a(1, 1), a(63, 1), p(1), p(250)]), one_trigger([a(63, 250)]), one_trigger([a(1, 250), p(250), p(1)])])
    out.case("section-twins", b"twins")
    try:
        back = ttc.encode(ttc.decode(sec, d2), e2)
        for ti, (t0, t1) in enumerate(zip(sec.triggers, back.triggers)):
            for ai, a0 in enumerate(t0.actions):
                a1 = t1.actions[ai]
                for f in afields:
                    if getattr(a0, f) != getattr(a1, f):
                        out.violations.append({"oracle": "an entry is written with its own arguments, whatever equal-looking entries the section also holds (twin slots)",
                                               "trigger": ti, "action": ai, "field": f, "read": getattr(a0, f), "written": getattr(a1, f)})
                        raise StopIteration
    except StopIteration:
        pass
    except Exception as ex:  # noqa: BLE001
        out.violations.append({"oracle": "a section whose entries refer to twin slots decodes and encodes", "err": "%s: %s" % (type(ex).__name__, str(ex)[:120])})
    # (b) an argument object the encode context does not hold (it carries a number some OTHER object has): refused
    from richchk.model.richchk.trig.actions.minimap_ping_action import MinimapPingAction
    from richchk.model.richchk.trig.player_id import PlayerId

    foreign = dc.replace(l1, _left_x1=l1.left_x1 + 4096, _index=5)      # not location 5 of the context
    trig = RichTrigger(_conditions=[], _actions=[MinimapPingAction(_location=foreign)], _players={PlayerId.PLAYER_1})
    out.case("section-foreign-location", b"foreign")
    try:
        back = ttc.encode(RichTrigSection(_triggers=[trig]), ectx)
        got = back.triggers[0].actions[0].location_id
        out.violations.append({"oracle": "a location the map does not hold is refused, never written as the number it carries", "carried": 5, "written": got})
    except Exception:  # noqa: BLE001
        pass


def enum_sweep(kind, row, srow, fields, dctx, ectx, out, tier):
    from richchk.model.chk.trig.decoded_trigger_action import DecodedTriggerAction
    from richchk.model.chk.trig.decoded_trigger_condition import DecodedTriggerCondition
    from richchk.model.richchk.trig.trigger_action_id import TriggerActionId
    from richchk.model.richchk.trig.trigger_condition_id import TriggerConditionId
    from richchk.transcoder.richchk.transcoders.helpers.richchk_enum_transcoder import RichChkEnumTranscoder as ET
    from richchk.transcoder.richchk.transcoders.trig.rich_trigger_action_transcoder_factory import RichTriggerActionTranscoderFactory as AF
    from richchk.transcoder.richchk.transcoders.trig.rich_trigger_condition_transcoder_factory import RichTriggerConditionTranscoderFactory as CF

    typefield = "_action_id" if kind == "a" else "_condition_id"
    cls = DecodedTriggerAction if kind == "a" else DecodedTriggerCondition
    member = ET.decode_enum(srow["id"], TriggerActionId if kind == "a" else TriggerConditionId)
    try:
        tc = (AF.make_rich_trigger_action_transcoder if kind == "a" else CF.make_rich_trigger_condition_transcoder)(member)
    except Exception:  # noqa: BLE001
        return
    base = {f: 0 for f in fields}
    base[typefield] = srow["id"]
    for d in row["decode"]:
        c = d["codec"]
        if c.startswith("enum:"):
            base[d["field"]] = sorted(m.id for m in enum_class(c[5:]))[0]
        elif c in ("loc", "loc!"):
            base[d["field"]] = 7
        elif c in ("str", "strval"):
            base[d["field"]] = 9
        elif c == "cuwp":
            base[d["field"]] = 3
        elif c == "ai":
            base[d["field"]] = int.from_bytes(b"JYDg", "little")
    for d in row["decode"]:
        if not d["codec"].startswith("enum:"):
            continue
        members = list(enum_class(d["codec"][5:]))
        if tier == "quick" and len(members) > 40:
            members = members[:: max(1, len(members) // 40)] + [members[-1]]
        for m in members:
            rec = dict(base)
            rec[d["field"]] = m.id
            out.case("enum-arg", ("%s%d:%s:%d" % (kind, srow["id"], d["arg"], m.id)).encode())
            try:
                rich = tc.decode(cls(**rec), dctx)
                got = getattr(rich, d["arg"])
                back = tc.encode(rich, ectx)
                if got is not m or getattr(back, d["field"]) != m.id:
                    out.violations.append({"oracle": "every enum member of an enum-typed argument survives its field", "kind": kind, "id": srow["id"], "arg": d["arg"], "member": m._name_})
            except Exception as ex:  # noqa: BLE001
                out.violations.append({"oracle": "every enum member of an enum-typed argument decodes/encodes", "kind": kind, "id": srow["id"], "arg": d["arg"], "member": m._name_, "err": err_class(ex)})
