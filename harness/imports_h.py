"""C18: every module of the package as the first and only import of a fresh interpreter."""
import json
import os
import subprocess
import sys
from concurrent.futures import ThreadPoolExecutor

sys.path.insert(0, os.path.dirname(os.path.abspath(__file__)))
from common import BUILD_DIR, Outcome, run_driver  # noqa: E402

CHILD = os.path.join(os.path.dirname(os.path.abspath(__file__)), "import_child.py")


def discover_modules():
    """module list taken from the file system of the real package (independent of the translator)"""
    import pkgutil

    import richchk

    names = ["richchk"] + [m.name for m in pkgutil.walk_packages(richchk.__path__, "richchk.")]
    return sorted(names)


def run_child(mod, pythonpath=None):
    env = dict(os.environ)
    if pythonpath:
        env["PYTHONPATH"] = pythonpath
    p = subprocess.run([sys.executable, CHILD, mod], stdout=subprocess.PIPE, stderr=subprocess.PIPE, env=env, timeout=300)
    try:
        return json.loads(p.stdout.decode().strip().split("\n")[-1])
    except Exception:  # noqa: BLE001
        return {"module": mod, "error": "child crashed: " + p.stderr.decode()[-200:]}


def sourceless_probe(out, names):
    """the same question for the package installed WITHOUT its .py files (byte-compiled in place, sources removed — what
    `compileall -b` deployments and frozen bundles ship): the modules are importable exactly as before, so each registry,
    once loaded, must still hold one transcoder per model class.  Judged by the same child and the same oracles."""
    import compileall
    import shutil
    import tempfile

    import richchk

    entries = [n for n in names if n.endswith(("_transcoder_factory", ".richchk_io", ".chk_io", ".starcraft_mpq_io"))][:8] + ["richchk"]
    tmp = tempfile.mkdtemp(prefix="c18_sourceless_")
    try:
        dst = os.path.join(tmp, "richchk")
        shutil.copytree(richchk.__path__[0], dst, ignore=shutil.ignore_patterns("__pycache__"))
        compileall.compile_dir(dst, quiet=2, legacy=True, workers=1)
        for root, _, files in os.walk(dst):
            for f in files:
                if f.endswith(".py"):
                    os.remove(os.path.join(root, f))
        with ThreadPoolExecutor(max_workers=8) as ex:
            results = list(ex.map(lambda m: run_child(m, tmp), entries))
    finally:
        shutil.rmtree(tmp, ignore_errors=True)
    for r in results:
        mod = r["module"]
        out.case("import1-sourceless", mod.encode(), sample={"module": mod, "registries": [(x["loaded"], len(x["keys"])) for x in r.get("registries", [])]})
        if "error" in r:
            out.violations.append({"oracle": "importing any single module of the package first succeeds (package installed without .py sources)", "module": mod, "error": r["error"], "configuration": "compileall -b, sources removed"})
            continue
        for ri, reg in enumerate(r["registries"]):
            if reg["loaded"]:
                want = r["model_ids"][ri]
                if sorted(map(str, reg["keys"])) != sorted(map(str, want)):
                    out.violations.append({"oracle": "a loaded registry holds exactly the ids of the model classes (package installed without .py sources)", "module": mod, "registry": ri, "keys": reg["keys"], "model_ids": want, "configuration": "compileall -b, sources removed"})
                if reg["registrable_classes"] != len(reg["keys"]):
                    out.violations.append({"oracle": "one transcoder per key (package installed without .py sources)", "module": mod, "registry": ri, "classes": reg["registrable_classes"], "keys": len(reg["keys"]), "configuration": "compileall -b, sources removed"})


def run(prop, tier, seed):
    out = Outcome(prop)
    gen = json.load(open(os.path.join(BUILD_DIR, "imports.json")))
    names = discover_modules()
    if names != gen["modules"]:
        out.disagreements.append({"op": "modules", "model": len(gen["modules"]), "real": len(names), "diff": sorted(set(names) ^ set(gen["modules"]))[:10]})
    keytab = gen["keytab"]
    with ThreadPoolExecutor(max_workers=16) as ex:
        results = list(ex.map(run_child, names))
    lines, reals = [], []
    idx = {n: i for i, n in enumerate(gen["modules"])}
    for r in results:
        mod = r["module"]
        out.case("import1", mod.encode(), sample={"module": mod, "registries": [(x["loaded"], len(x["keys"])) for x in r.get("registries", [])]} if mod.endswith("transcoder") else None)
        if "error" in r:
            out.violations.append({"oracle": "importing any single module of the package first succeeds", "module": mod, "error": r["error"]})
            real = "ERR"
        else:
            parts = []
            for ri, reg in enumerate(r["registries"]):
                ks = sorted((k if isinstance(k, int) else keytab.get(k, -1)) for k in reg["keys"])
                parts.append(("L" if reg["loaded"] else "-") + "[" + ",".join(map(str, ks)) + "]")
                if reg["loaded"]:
                    want = r["model_ids"][ri]
                    if sorted(map(str, reg["keys"])) != sorted(map(str, want)):
                        out.violations.append({"oracle": "a loaded registry holds exactly the ids of the model classes", "module": mod, "registry": ri, "keys": reg["keys"], "model_ids": want})
                    if reg["registrable_classes"] != len(reg["keys"]):
                        out.violations.append({"oracle": "one transcoder per key: no registration silently replaced another", "module": mod, "registry": ri, "classes": reg["registrable_classes"], "keys": len(reg["keys"])})
            real = "OK " + " ".join(parts)
        if mod in idx:
            lines.append("import1 %d" % idx[mod])
            reals.append((mod, real))
    sourceless_probe(out, names)
    try:
        model = run_driver(lines)
        for ln, m, (mod, r) in zip(lines, model, reals):
            if (m.startswith("ERR") and r.startswith("ERR")) or m == r:
                continue
            out.disagreements.append({"op": ln + " (" + mod + ")", "model": m[:300], "real": r[:300]})
    except Exception as e:  # noqa: BLE001
        out.notes.append("model driver unavailable: %s" % e)
        out.disagreements.append({"op": "driver", "what": str(e)[:200]})
    return out
