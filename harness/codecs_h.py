"""C12 correspondence + oracles: flag, enum, AI-script and hit-point codecs over their whole domains."""
import dataclasses
import importlib
import json
import logging
import os
import struct
import sys
from decimal import Decimal
from fractions import Fraction

sys.path.insert(0, os.path.dirname(os.path.abspath(__file__)))
from common import BUILD_DIR, Outcome, Rng, err_class, run_driver  # noqa: E402

logging.disable(logging.CRITICAL)

H = "richchk.transcoder.richchk.transcoders.helpers."


def strip_us(n):
    return n[1:] if n.startswith("_") else n


def real_flag_codecs():
    """name -> (decode(n) -> list of bools in field order, encode(list of bools) -> n, field names)"""
    from richchk.model.richchk.mrgn.rich_location import RichLocation
    from richchk.model.richchk.str.rich_string import RichNullString
    from richchk.model.richchk.trig.actions.flags.trigger_action_flags import TriggerActionFlags
    from richchk.model.richchk.trig.conditions.flags.trigger_condition_flags import TriggerConditionFlags
    from richchk.model.richchk.uprp.flags.unit_property_flags import UnitPropertyFlags
    from richchk.model.richchk.uprp.flags.valid_special_property_flags import ValidSpecialPropertyFlags
    from richchk.model.richchk.uprp.flags.valid_unit_property_flags import ValidUnitPropertyFlags
    from richchk.model.chk.mrgn.decoded_location import DecodedLocation
    from richchk.transcoder.richchk.transcoders.helpers.cuwp_flags_transcoder import CuwpFlagsTranscoder
    from richchk.transcoder.richchk.transcoders.helpers.trigger_action_flags_transcoder import TriggerActionFlagsTranscoder
    from richchk.transcoder.richchk.transcoders.helpers.trigger_condition_flags_transcoder import TriggerConditionFlagsTranscoder
    from richchk.transcoder.richchk.transcoders.richchk_mrgn_transcoder import RichChkMrgnTranscoder

    out = {}

    def dc(cls, dec, enc):
        names = [f.name for f in dataclasses.fields(cls)]
        return (
            lambda n: [getattr(dec(n), nm) for nm in names],
            lambda bits: enc(cls(**dict(zip(names, bits)))),
            [strip_us(n) for n in names],
        )

    out["trigger_action"] = dc(TriggerActionFlags, TriggerActionFlagsTranscoder.decode_flags, TriggerActionFlagsTranscoder.encode_flags)
    out["trigger_condition"] = dc(TriggerConditionFlags, TriggerConditionFlagsTranscoder.decode_flags, TriggerConditionFlagsTranscoder.encode_flags)
    for nm, cls in [("cuwp_valid_special", ValidSpecialPropertyFlags), ("cuwp_valid_unit", ValidUnitPropertyFlags), ("cuwp_unit", UnitPropertyFlags)]:
        out[nm] = dc(cls, lambda n, c=cls: CuwpFlagsTranscoder.decode_flags(n, c), CuwpFlagsTranscoder.encode_flags)
    el = ["low_elevation", "medium_elevation", "high_elevation", "low_air", "medium_air", "high_air"]

    def el_dec(n):
        f = RichChkMrgnTranscoder._decode_elevation_flags(DecodedLocation(0, 0, 0, 0, 0, n))
        return [getattr(f, x) for x in el]

    def el_enc(bits):
        loc = RichLocation(0, 0, 0, 0, RichNullString(), None, *bits)
        return RichChkMrgnTranscoder._encode_elevation_flags(loc)

    out["mrgn_elevation"] = (el_dec, el_enc, el)
    return out


def bstr(bits):
    return "".join("1" if b else "0" for b in bits)


def run(prop, tier, seed):
    out = Outcome(prop)
    rng = Rng(seed * 7919 + 12)
    gen = json.load(open(os.path.join(BUILD_DIR, "codecs.json")))
    thorough = tier == "thorough"
    lines, expect = [], []  # expect[i] = real answer string for lines[i]

    # ------------------------------------------------------------------ flags: exhaustive
    real = real_flag_codecs()
    # the codecs to exercise come from the SPECIFICATION (never from the translator's output, which may have
    # a gap exactly where the code changed); widths are the format's: one byte in triggers, a u16 elsewhere
    from common import load_spec

    genflags = {c["name"]: c for c in gen.get("flags", [])}
    for sc in load_spec()["flags"]:
        name = sc["name"]
        width = 8 if name.startswith("trigger_") else 16
        dec, enc, names = real[name]
        k = len(names)
        c = genflags.get(name)
        if c is None:
            out.disagreements.append({"op": "flags", "what": "no generated codec for %s (translator gap)" % name})
        elif names != [f["name"] for f in c["fields"]]:
            out.disagreements.append({"op": "flags", "what": "field names/order of %s differ: real %s generated %s" % (name, names, [f["name"] for f in c["fields"]])})
        dom = range(0, 1 << width) if (width <= 8 or thorough) else sorted(set(list(range(0, 4096)) + [rng.randrange(1 << width) for _ in range(4096)] + [(1 << width) - 1, 1 << (width - 1)] + [1 << i for i in range(width)]))
        exhaustive = width <= 8 or thorough
        out.count("flags:%s:domain" % name, len(dom))
        out.notes.append("flags %s: %s over [0,2^%d)" % (name, "exhaustive" if exhaustive else "4096 low + 4096 random + boundaries", width))
        for n in dom:
            try:
                d = dec(n)
                e = enc(d)
                r = bstr(d) + " " + str(e)
            except Exception as ex:  # noqa: BLE001
                r = "ERR " + err_class(ex)
                e = None
            lines.append("flags %s %d" % (name, n))
            expect.append(r)
            out.case("flags", ("%s:%d" % (name, n)).encode(), sample={"op": "flags", "codec": name, "n": n, "real": r})
            # oracle: bits the spec defines (k' = spec count <= k) are preserved; reserved clear => exact
            if e is not None:
                if e != n % (1 << k):
                    out.violations.append({"oracle": "flags: encode(decode(n)) keeps exactly the low %d bits" % k, "codec": name, "n": n, "got": e})
                if n < (1 << k) and e != n:
                    out.violations.append({"oracle": "flags: exact when reserved bits are clear", "codec": name, "n": n, "got": e})
        # rich -> number -> rich, all 2^k rich values; injectivity
        seen = {}
        for v in range(1 << k):
            bits = [bool((v >> i) & 1) for i in range(k)]
            try:
                n = enc(bits)
                back = dec(n)
                r = str(n) + " " + bstr(back)
            except Exception as ex:  # noqa: BLE001
                r = "ERR " + err_class(ex)
                n, back = None, None
            lines.append("flagsenc %s %s" % (name, bstr(bits)))
            expect.append(r)
            out.case("flagsenc", ("%s:%d" % (name, v)).encode())
            if n is not None:
                if back != bits:
                    out.violations.append({"oracle": "flags: decode(encode(f)) == f", "codec": name, "bits": bstr(bits), "n": n, "back": bstr(back)})
                if n in seen:
                    out.violations.append({"oracle": "flags: distinct rich values never collide", "codec": name, "a": seen[n], "b": bstr(bits), "n": n})
                seen[n] = bstr(bits)
                if n >= (1 << width):
                    out.violations.append({"oracle": "flags: encoded value fits its field", "codec": name, "n": n})

    # ------------------------------------------------------------------ enums
    from richchk.transcoder.richchk.transcoders.helpers.richchk_enum_transcoder import RichChkEnumTranscoder as ET

    for e in gen["enums"]:
        mod = importlib.import_module(e["module"])
        cls = getattr(mod, e["enum"])
        ids = sorted({m.id for m in cls})
        top = 1 << 16 if thorough else 1024
        dom = set(range(0, top)) | set(ids) | {i + 1 for i in ids} | {max(i - 1, 0) for i in ids} | {255, 256, 65535, 65536, 2**32 - 1}
        members = list(cls)
        byid = {}
        for m in members:
            if m.id in byid:
                out.violations.append({"oracle": "enum: distinct members never share a number", "enum": e["enum"], "id": m.id, "members": [byid[m.id].name if False else str(byid[m.id]), str(m)]})
            byid[m.id] = m
        for n in sorted(dom):
            try:
                m = ET.decode_enum(n, cls)
                r = "OK %s %d" % (m._name_, ET.encode_enum(m))
                if m.id != n:
                    out.violations.append({"oracle": "enum: a number never maps to a member with another number", "enum": e["enum"], "n": n, "member": m._name_})
            except Exception as ex:  # noqa: BLE001
                r = "ERR " + err_class(ex)
                if n in byid:
                    out.violations.append({"oracle": "enum: every member number decodes", "enum": e["enum"], "n": n})
            lines.append("enum %s %d" % (e["enum"], n))
            expect.append(r)
            out.case("enum", ("%s:%d" % (e["enum"], n)).encode(), sample={"op": "enum", "enum": e["enum"], "n": n, "real": r} if n in byid else None)
        for m in members:
            try:
                if ET.decode_enum(ET.encode_enum(m), cls) is not m:
                    out.violations.append({"oracle": "enum: decode(encode(m)) is m", "enum": e["enum"], "member": m._name_})
            except Exception as ex:  # noqa: BLE001
                out.violations.append({"oracle": "enum: decode(encode(m)) is m", "enum": e["enum"], "member": m._name_, "err": err_class(ex)})
        if len(members) != len(e["members"]):
            out.disagreements.append({"op": "enum", "what": "%s: %d real members vs %d generated (aliases?)" % (e["enum"], len(members), len(e["members"]))})

    # ------------------------------------------------------------------ AI scripts: every tag class
    from richchk.model.richchk.trig.enums.ai_script import KnownAiScript
    from richchk.transcoder.richchk.transcoders.helpers.ai_script_transcoder import AiScriptTranscoder as AT

    known_names = [k.value.name for k in KnownAiScript]
    tags = [n.encode() for n in known_names]
    for n in known_names:  # case variants and near misses
        tags += [n.swapcase().encode(), n.lower().encode(), n.upper().encode(), (n[:3] + chr((ord(n[3]) + 1) % 128)).encode()]
    tags += [b"ABCD", b"\x00\x00\x00\x00", b"    ", b"zzzz", "éAB".encode(), "€X".encode(), "\U0001f600".encode(), "éè".encode(),
             b"\xff\xfe\x00\x01", b"\x80AAA", b"A\xc3\x28A", b"\xed\xa0\x80A", b"\xc0\x80AB", b"\xf8\x88\x80\x80", b"AB\xc3\x00"]
    # NUL, space, digit, letter, sign in every position (tags shorter than four characters are NUL- or
    # space-padded in real maps; a NUL may also lead)
    import itertools

    for combo in itertools.product(b"\x00 A+1", repeat=4):
        tags.append(bytes(combo))
    for n in known_names[:6]:
        tags += [b"\x00" + n.encode()[:3], n.encode()[:3] + b"\x00", n.encode()[:2] + b"\x00\x00", b"\x00\x00" + n.encode()[:2]]
    for _ in range(200 if not thorough else 5000):
        tags.append(bytes(rng.randrange(256) for _ in range(4)))
        tags.append(bytes(rng.choice(b"+-VviI0123456789JYDgEnBkTrxWHe") for _ in range(4)))
    for k in KnownAiScript:
        v = int.from_bytes(k.value.name.encode("latin1"), "little")
        try:
            got = AT.decode(v)
            if got.name != k.value.name or type(got).__name__ == "UnknownAiScript":
                out.violations.append({"oracle": "ai: the little-endian number of a known script's 4-character tag decodes to that script", "member": k.name, "tag": k.value.name, "decoded": got.name})
            if AT.encode(k.value) != v:
                out.violations.append({"oracle": "ai: a known script encodes to the little-endian number of its tag", "member": k.name, "tag": k.value.name, "got": AT.encode(k.value), "expected": v})
        except Exception as ex:  # noqa: BLE001
            out.violations.append({"oracle": "ai: known script tags decode", "member": k.name, "err": err_class(ex)})
    for t in tags:
        v = struct.unpack("<I", t)[0]
        try:
            s = AT.decode(v)
            is_known = s.name in known_names and type(s).__name__ != "UnknownAiScript"
            member = next((k.name for k in KnownAiScript if k.value is s or (is_known and k.value.name == s.name)), "UNKNOWN") if is_known else "UNKNOWN"
            try:
                back = AT.encode(s)
                br = "OK %d" % back
                if back != v:
                    out.violations.append({"oracle": "ai: encode(decode(v)) == v", "v": v, "tag": t.hex(), "back": back})
            except Exception as ex:  # noqa: BLE001
                br = "ERR " + err_class(ex)
                out.violations.append({"oracle": "ai: a decoded script encodes", "v": v, "tag": t.hex()})
            r = "OK %s %s %s" % (member, s.name.encode("utf-8", "surrogatepass").hex(), br)
            if is_known and s.name.encode() != t:
                out.violations.append({"oracle": "ai: a tag is a known script only if it is exactly that script's tag", "v": v, "tag": t.hex(), "decoded": s.name})
        except Exception as ex:  # noqa: BLE001
            r = "ERR " + err_class(ex)
        lines.append("ai %d" % v)
        expect.append(r)
        out.case("ai", t, sample={"op": "ai", "tag": t.hex(), "real": r})
    if len(set(known_names)) != len(known_names):
        out.violations.append({"oracle": "ai: known script tags are distinct", "names": known_names})

    # ------------------------------------------------------------------ hit points
    from richchk.model.richchk.unis.unit_id import UnitId
    from richchk.transcoder.richchk.transcoders.helpers.unit_hitpoints_transcoder import UnitHitpointsTranscoder as HT

    uid = list(UnitId)[0]
    hp_dom = set(range(0, (1 << 20) if thorough else (1 << 14)))
    for k in range(0, 33):
        for d in (-1, 0, 1):
            x = (1 << k) + d
            if 0 <= x < (1 << 32):
                hp_dom.add(x)
    hp_dom |= {rng.randrange(1 << 32) for _ in range(2000 if not thorough else 50000)}
    for raw in sorted(hp_dom):
        try:
            d = HT.decode_hitpoints(uid, raw)
            e = HT.encode_hitpoints(d)
            fr = Fraction(d)
            r = "%d/%d %d" % (raw, 256, e) if fr == Fraction(raw, 256) else "WRONG-DECODE %s" % d
            if fr != Fraction(raw, 256):
                out.violations.append({"oracle": "hp: decoded value == raw/256 exactly", "raw": raw, "got": str(d)})
            if e != raw:
                out.violations.append({"oracle": "hp: encode(decode(raw)) == raw", "raw": raw, "got": e})
        except Exception as ex:  # noqa: BLE001
            r = "ERR " + err_class(ex)
        lines.append("hp %d" % raw)
        expect.append(r)
        out.case("hp", str(raw).encode(), sample={"op": "hp", "raw": raw, "real": r} if raw % 4099 == 7 else None)
    # rich -> number: decimal hit points with up to 4 decimals
    for _ in range(500 if not thorough else 5000):
        k = rng.choice([0, 1, 2, 3, 4])
        num = rng.randrange(0, 10 ** (k + 6))
        den = 10**k
        dv = Decimal(num) / Decimal(den)
        try:
            e = HT.encode_hitpoints(dv)
            r = str(e)
            back = HT.decode_hitpoints(uid, e)
            exact = (Fraction(num, den) * 256).denominator == 1
            if exact and Fraction(back) != Fraction(num, den):
                out.violations.append({"oracle": "hp: decode(encode(q)) == q when 256*q is an integer", "q": str(dv)})
        except Exception as ex:  # noqa: BLE001
            r = "ERR " + err_class(ex)
        lines.append("hpenc %d %d" % (num, den))
        expect.append(r)
        out.case("hpenc", ("%d/%d" % (num, den)).encode())

    # ------------------------------------------------------------------ flag words through the section transcoders (oracle only)
    section_flag_oracles(out, rng, thorough)

    # ------------------------------------------------------------------ model side
    try:
        model = run_driver(lines)
        for ln, m, r in zip(lines, model, expect):
            if m != r:
                out.disagreements.append({"op": ln, "model": m, "real": r})
                if len(out.disagreements) > 50:
                    break
    except Exception as e:  # noqa: BLE001
        out.notes.append("model driver unavailable: %s" % e)
        out.disagreements.append({"op": "driver", "what": str(e)[:200]})
    return out


def section_flag_oracles(out, rng, thorough):
    """the flag words as they pass through the UPRP / MRGN / TRIG rich transcoders:
    decode then encode must give back every defined bit, each word independently"""
    from richchk.model.chk.uprp.decoded_cuwp_slot import DecodedCuwpSlot
    from richchk.model.chk.uprp.decoded_uprp_section import DecodedUprpSection
    from richchk.transcoder.richchk.transcoders.richchk_uprp_transcoder import RichChkUprpTranscoder

    tc = RichChkUprpTranscoder()
    words = [0, 1, 2, 4, 8, 16, 32, 33, 31, 63, 21, 42]
    combos = [(a, b, c) for a in words for b in words for c in words]
    if not thorough:
        rng.shuffle(combos)
        combos = combos[:400] + [(32, 0, 0), (0, 0, 32), (0, 32, 0), (32, 32, 0), (0, 32, 32), (63, 63, 63)]
    for a, b, c in combos:
        slot = DecodedCuwpSlot(a, b, 0, 50, 60, 70, 5, 2, c, 0)
        sec = DecodedUprpSection(_cuwp_slots=[slot] + [DecodedCuwpSlot(0, 0, 0, 0, 0, 0, 0, 0, 0, 0)] * 63)
        try:
            rich = tc.decode(sec, None)
            back = tc.encode(rich, None)
            s2 = back.cuwp_slots[0]
            got = (s2.valid_special_properties_flags, s2.valid_unit_properties_flags, s2.flags)
        except Exception as ex:  # noqa: BLE001
            got = "ERR " + err_class(ex)
        out.case("uprp-words", bytes([a, b, c]))
        if got != (a % 64, b % 128, c % 64):
            out.violations.append({"oracle": "CUWP flag words survive the UPRP transcoder (each word independently)", "words": [a, b, c], "got": got})
    # every valid-unit-properties word in the slot shapes editors write: alone, and with 100 % / other percentages
    for w in range(128):
        for hp in ((0, 0, 0), (100, 100, 100), (1, 100, 0)):
            for special in (0, 31):
                if w == 0 and special == 0 and hp == (0, 0, 0):
                    continue        # the all-zero record is the placeholder
                slot = DecodedCuwpSlot(special, w, 0, hp[0], hp[1], hp[2], 0, 0, 0, 0)
                sec = DecodedUprpSection(_cuwp_slots=[DecodedCuwpSlot(0, 0, 0, 0, 0, 0, 0, 0, 0, 0)] * 5 + [slot] + [DecodedCuwpSlot(0, 0, 0, 0, 0, 0, 0, 0, 0, 0)] * 58)
                try:
                    s2 = tc.encode(tc.decode(sec, None), None).cuwp_slots[5]
                    got = (s2.valid_special_properties_flags, s2.valid_unit_properties_flags, s2.hitpoints_percentage, s2.shieldpoints_percentage, s2.energypoints_percentage)
                except Exception as ex:  # noqa: BLE001
                    got = "ERR " + err_class(ex)
                out.case("uprp-valid-unit-word", bytes([w, special, hp[0]]))
                if got != (special, w, hp[0], hp[1], hp[2]):
                    out.violations.append({"oracle": "a valid-unit-properties word survives the UPRP transcoder in every slot shape (only the all-zero record is a placeholder)",
                                           "word": w, "valid_special": special, "percentages": hp, "got": got})
                    break
    # every elevation word of a location, on the slots where a map really holds one — the first, a middle one, the last of
    # the original table, location 64 ("Anywhere"), the first and the last of the expansion table — and in the shapes an
    # editor writes (a rectangle with a name; a named location of no extent): the word that comes back is the word
    try:
        from richchk.model.chk.mrgn.decoded_location import DecodedLocation
        from richchk.model.chk.mrgn.decoded_mrgn_section import DecodedMrgnSection
        from richchk.transcoder.richchk.transcoders.richchk_mrgn_transcoder import RichChkMrgnTranscoder
        import trig_h

        dctx, ectx = trig_h.contexts()
        mtc = RichChkMrgnTranscoder()
        empty = DecodedLocation(0, 0, 0, 0, 0, 0)
        for slot in (0, 30, 62, 63, 64, 254):
            for shape in ((32, 64, 96, 128, 7), (0, 0, 0, 0, 9)):
                for w in range(64):
                    locs = [empty] * 255
                    locs[slot] = DecodedLocation(shape[0], shape[1], shape[2], shape[3], shape[4], w)
                    out.case("mrgn-elevation-word", bytes([slot, w, shape[0]]))
                    try:
                        back = mtc.encode(mtc.decode(DecodedMrgnSection(_locations=list(locs)), dctx), ectx).locations
                        got = (back[slot].elevation_flags, back[slot].left_x1, back[slot].top_y1, back[slot].right_x2, back[slot].bottom_y2, back[slot].string_id) if slot < len(back) else "slot missing"
                    except Exception as ex:  # noqa: BLE001
                        got = "ERR " + err_class(ex)
                    if got != (w, shape[0], shape[1], shape[2], shape[3], shape[4]):
                        out.violations.append({"oracle": "an elevation word survives the MRGN transcoder on every slot (location 64 included) and in every record shape that has a name",
                                               "slot (0-based)": slot, "word": w, "record": list(shape), "got": got})
                        break
    except ImportError as ex:
        out.notes.append("MRGN elevation sweep not run: %s" % ex)
    # the 27 "executed for player / group" bytes of a trigger: number i is byte i, in both directions
    try:
        from richchk.model.chk.trig.decoded_player_execution import DecodedPlayerExecution
        from richchk.model.chk.trig.decoded_trig_section import DecodedTrigSection
        from richchk.model.chk.trig.decoded_trigger import DecodedTrigger
        from richchk.transcoder.richchk.transcoders.richchk_trig_transcoder import RichChkTrigTranscoder
        import trig_h

        dctx, ectx = trig_h.contexts()
        ttc = RichChkTrigTranscoder()
        for i in list(range(27)) + [None]:
            flags = [1 if (i is None and j % 2 == 0) or j == i else 0 for j in range(27)]
            t = DecodedTrigger(_conditions=[], _actions=[], _player_execution=DecodedPlayerExecution(_execution_flags=0, _player_flags=list(flags), _current_action_index=0))
            out.case("trigger-owner-byte", bytes(flags))
            try:
                back = ttc.encode(ttc.decode(DecodedTrigSection(_triggers=[t]), dctx), ectx).triggers[0].player_execution.player_flags
                got = [int(bool(x)) for x in back]
            except Exception as ex:  # noqa: BLE001
                got = "ERR " + err_class(ex)
            if got != flags:
                out.violations.append({"oracle": "player / group number i of a trigger's owner list is byte i of the 27 owner bytes, decoding and encoding", "owner_bytes": flags, "got": got})
    except ImportError as ex:
        out.notes.append("owner-byte probe not run: %s" % ex)

