"""C09 / C14: slot allocation in the four slot tables.

The real editors are driven in-process; the iteration order of the internal sets is OBSERVED
(the set-building helper is wrapped, no repo change) and handed to the model, which is a
function of that order.  C09's oracle checks the allocation rules on the real result; C14's
oracle re-runs every batch in many imposed orders and compares the outcomes modulo the
numbering of new slots, and runs whole-save scenarios in separate interpreters with
different hash seeds.
"""
import itertools
import json
import logging
import os
import subprocess
import sys

sys.path.insert(0, os.path.dirname(os.path.abspath(__file__)))
from common import BUILD_DIR, Outcome, Rng, err_class, load_spec, run_driver  # noqa: E402

logging.disable(logging.CRITICAL)


def mk_loc(key, idx):
    from richchk.model.richchk.mrgn.rich_location import RichLocation
    from richchk.model.richchk.str.rich_string import RichString

    return RichLocation(key, key + 1, key + 2, key + 3, RichString("L%d" % key), idx)


def loc_key(l):
    return l.left_x1


def mk_cuwp(key, idx):
    from richchk.model.richchk.uprp.rich_cuwp_slot import RichCuwpSlot

    return RichCuwpSlot(key % 101, (key // 101) % 101, 7, key, 0, _index=idx)


def cuwp_key(c):
    return c.resource_amount


class OrderedSetProxy:
    """stands in for the set the editor builds: iterates in an imposed order"""

    def __init__(self, items):
        self.items = list(items)

    def __iter__(self):
        return iter(self.items)

    def __len__(self):
        return len(self.items)


def run_mrgn(table, batch_objs, order=None):
    """table: [(idx,key)], batch_objs: list of RichLocation; returns (result string, observed order as items)"""
    from richchk.editor.richchk.rich_mrgn_editor import RichMrgnEditor
    from richchk.model.richchk.mrgn.rich_mrgn_section import RichMrgnSection

    ed = RichMrgnEditor()
    seen = {}
    orig = ed._build_location_set

    def wrapped(locs):
        s = orig(locs)
        lst = list(s) if order is None else [o for o in order if o in s]
        seen["order"] = lst
        return OrderedSetProxy(lst)

    ed._build_location_set = wrapped
    mrgn = RichMrgnSection(_locations=[mk_loc(k, i) for i, k in table])
    try:
        new, lookup = ed.add_locations(batch_objs, mrgn)
        r = "OK [" + ",".join("%d:%d" % (l.index, loc_key(l)) for l in new.locations) + "]"
        ids = [lookup.get_id_by_location(o) for o in seen.get("order", [])]
    except Exception as ex:  # noqa: BLE001
        r, ids, new = "ERR " + err_class(ex), None, None
    return r, seen.get("order", []), ids, new


def run_uprp(table, batch_objs, order=None):
    from richchk.editor.richchk.rich_uprp_editor import RichUprpEditor
    from richchk.model.richchk.uprp.rich_uprp_section import RichUprpSection

    ed = RichUprpEditor()
    seen = {}
    orig = ed._build_set_for_new_entries

    def wrapped(x):
        s = orig(x)
        lst = list(s) if order is None else [o for o in order if any(o is y for y in s)]
        seen["order"] = lst
        return OrderedSetProxy(lst)

    ed._build_set_for_new_entries = wrapped
    uprp = RichUprpSection(_cuwp_slots=[mk_cuwp(k, i) for i, k in table])
    try:
        new = ed.add_cuwp_slots(batch_objs, uprp)
        r = "OK [" + ",".join("%d:%d" % (c.index, cuwp_key(c)) for c in new.cuwp_slots) + "]"
    except Exception as ex:  # noqa: BLE001
        r, new = "ERR " + err_class(ex), None
    return r, seen.get("order", []), new


def run_wav(table, paths):
    from richchk.editor.richchk.rich_wav_editor import RichWavEditor
    from richchk.model.richchk.str.rich_string import RichString
    from richchk.model.richchk.wav.rich_wav import RichWav
    from richchk.model.richchk.wav.rich_wav_section import RichWavSection

    wav = RichWavSection(_wavs=[RichWav(_path_in_chk=RichString("p%d" % k), _index=i) for i, k in table])
    try:
        new = RichWavEditor().add_wav_files(["p%d" % k for k in paths], wav)
        r = "OK [" + ",".join("%d:%s" % (w.index, w.path_in_chk.value[1:]) for w in new.wavs) + "]"
    except Exception as ex:  # noqa: BLE001
        r, new = "ERR " + err_class(ex), None
    return r, new


def items_str(items):
    return ",".join("%s:%d" % ("-" if i is None else str(i), k) for i, k in items) or "="


def table_str(table):
    return ",".join("%d:%d" % (i, k) for i, k in table) or "="


def parse_result(r):
    if not r.startswith("OK"):
        return None
    body = r[4:-1]
    return [tuple(int(x) for x in e.split(":")) for e in body.split(",")] if body else []


def gen_case(rng, cfg, kind):
    lo, hi, reserved = cfg["lo"], cfg["hi"], cfg["reserved"]
    universe = list(range(lo, hi + 1))
    mode = rng.choice(["empty", "sparse", "sparse", "full", "full-but-one", "only-reserved-free", "reserved-occupied"])
    if mode == "empty":
        occ = []
    elif mode == "sparse":
        occ = rng.sample(universe, rng.randrange(1, min(12, len(universe))))
    elif mode == "full":
        occ = list(universe)
    elif mode == "full-but-one":
        occ = list(universe)
        occ.remove(rng.choice([u for u in universe if u != reserved]))
    elif mode == "only-reserved-free":
        occ = [u for u in universe if u != reserved] if reserved is not None else universe[:-1]
    else:
        occ = ([reserved] if reserved is not None else []) + rng.sample(universe, 3)
        occ = sorted(set(occ))
    table = [(i, 1000 + i) for i in occ]
    nkeys = 5000
    batch = []
    for _ in range(rng.choice([0, 1, 2, 3, 4, 6])):
        r = rng.random()
        if r < 0.4:
            batch.append((None, nkeys))  # new object
            nkeys += 1
        elif r < 0.5 and table:
            i, k = rng.choice(table)
            batch.append((None, k))  # index-less duplicate of a stored value
        elif r < 0.65 and table:
            batch.append(rng.choice(table))  # already placed
        elif r < 0.8:
            free = [u for u in universe if u not in occ]
            if free:
                # half of the time one of the SMALLEST free indices: the ones an allocator hands to new objects first
                batch.append((rng.choice(sorted(free)[:4]) if rng.random() < 0.5 else rng.choice(free), nkeys))  # carries a free index
                nkeys += 1
        elif r < 0.9 and table:
            i, k = rng.choice(table)
            batch.append((i, nkeys))  # carries an occupied index, different content
            nkeys += 1
        else:
            batch.append((rng.choice([0, hi + 1, hi + 50, lo - 1 if lo > 0 else hi + 2]), nkeys))  # out of range
            nkeys += 1
    if mode in ("full", "only-reserved-free") and rng.random() < 0.5:
        batch = [b for b in batch if b[0] is not None and b in table] or ([rng.choice(table)] if table else [])
    return mode, table, batch


def check_alloc_rules(out, kind, cfg, table, items, result, mode):
    """C09 oracle on the real result (items = batch in the observed order)"""
    lo, hi, reserved = cfg["lo"], cfg["hi"], cfg["reserved"]
    occ = {i for i, _ in table}
    desc = {"editor": kind, "table": table_str(table)[:200], "batch": items_str(items), "occupancy": mode}
    inrange = all(i is None or lo <= i <= hi for i, _ in items)
    stored_keys = {k for _, k in table}
    need_new = [it for it in items if it[0] is None and not (kind in ("uprp", "wav") and it[1] in stored_keys)]
    if kind == "wav":
        need_new = list(dict.fromkeys(need_new))
    free = [u for u in range(lo, hi + 1) if u not in occ and u != reserved and u not in {i for i, _ in items if i is not None}]
    if result is None:
        # failing loudly is right only if an index is out of range or a needed slot does not exist
        if inrange and (len(need_new) <= len(free) or not cfg["raise"]):
            out.violations.append(dict(desc, oracle="a call that needs no more slots than are free must not fail (a full table never blocks a call that needs no new slot)"))
        return
    if not inrange:
        out.violations.append(dict(desc, oracle="an object carrying an index outside the format's range is rejected loudly", got=str(result)[:200]))
        return
    new = result[len(table):]
    if result[: len(table)] != table:
        out.violations.append(dict(desc, oracle="existing slots are untouched", got=str(result)[:200]))
        return
    slots = [s for s, _ in new]
    if len(set(slots)) != len(slots) or any(s in occ for s in slots):
        out.violations.append(dict(desc, oracle="a new slot was empty and is not shared with another object", got=str(new)))
    if any(not (lo <= s <= hi) for s in slots):
        out.violations.append(dict(desc, oracle="a new slot lies inside the format's range", got=str(new)))
    carried = {(i, k) for i, k in items if i is not None}
    for s, k in new:
        if (s, k) not in carried and s == reserved:
            out.violations.append(dict(desc, oracle="the reserved Anywhere slot is never handed to a new object", got=str(new)))
    for i, k in items:
        if i is not None and i not in occ and (i, k) not in new and not any(j == i for j, _ in new):
            out.violations.append(dict(desc, oracle="an object carrying a free in-range index keeps it", got=str(new)))
    if kind in ("uprp", "wav"):
        keys_new = [k for _, k in new]
        if len(set(keys_new)) != len(keys_new) or any(k in stored_keys and (s, k) not in carried for s, k in new):
            out.violations.append(dict(desc, oracle="equal unit-property sets / equal WAV paths reuse one slot", got=str(new)))
    if cfg["raise"] and len(need_new) > len(free):
        out.violations.append(dict(desc, oracle="when no slot is free the call raises instead of dropping an object", got=str(new)))


def run(prop, tier, seed):
    out = Outcome(prop)
    rng = Rng(seed * 65537 + (9 if prop == "C09" else 14))
    consts = load_spec()["slots"]  # the FORMAT's ranges (specification), not the code's
    N = 150 if tier == "quick" else 1500
    lines, reals = [], []
    for kind in ("mrgn", "uprp", "wav"):
        cfg = consts[kind]
        for _ in range(N):
            mode, table, batch = gen_case(rng, cfg, kind)
            if kind == "wav":
                paths = [k for _, k in batch]
                r, _ = run_wav(table, paths)
                items = [(None, k) for k in paths]
                orders_equal = True
            else:
                objs = [(mk_loc if kind == "mrgn" else mk_cuwp)(k, i) for i, k in batch]
                if kind == "mrgn":
                    r, order, ids, _ = run_mrgn(table, objs)
                    items = [(o.index, loc_key(o)) for o in order]
                else:
                    r, order, _ = run_uprp(table, objs)
                    items = [(o.index, cuwp_key(o)) for o in order]
            line = "alloc %s %s %s" % (kind, table_str(table), items_str(items))
            lines.append(line)
            reals.append(r)
            out.case("%s:%s" % (kind, mode), line.encode(), sample={"op": line[:160], "real": r[:120]})
            out.count("real:" + r.split(" ")[0] + ":" + kind)
            if prop == "C09":
                check_alloc_rules(out, kind, cfg, table, items, parse_result(r), mode)
            if prop == "C14" and kind != "wav" and len(objs) <= 5:
                # every iteration order of the set: same outcome modulo the numbering of new slots
                base = canon(parse_result(r), table, batch, kind)
                perms = list(itertools.permutations(order))
                if len(perms) > 24:
                    perms = rng.sample(perms, 24)
                for p in perms:
                    if kind == "mrgn":
                        r2, o2, _, _ = run_mrgn(table, objs, order=list(p))
                    else:
                        r2, o2, _ = run_uprp(table, objs, order=list(p))
                    out.case("perm:" + kind, (line + str([id(x) for x in p])).encode(), nontrivial=False)
                    c2 = canon(parse_result(r2), table, batch, kind)
                    if c2 != base:
                        out.violations.append({"oracle": "every iteration order gives the same outcome up to the numbering of new slots (both fail or both succeed; same slots occupied; carried indices kept)", "editor": kind, "table": table_str(table)[:200], "order1": items_str(items), "result1": r[:200], "order2": items_str([(o.index, (loc_key if kind == 'mrgn' else cuwp_key)(o)) for o in p]), "result2": r2[:200]})
                        break
    if prop == "C14":
        cross_process(out, tier, seed)
    else:
        swnm_cases(out, rng, consts["swnm"], N // 2, lines, reals)
        switch_numbers_through_a_save(out)
    try:
        model = run_driver(lines)
        for ln, m, r in zip(lines, model, reals):
            if m != r:
                out.disagreements.append({"op": ln[:300], "model": m[:300], "real": r[:300]})
    except Exception as e:  # noqa: BLE001
        out.notes.append("model driver unavailable: %s" % e)
        out.disagreements.append({"op": "driver", "what": str(e)[:200]})
    return out


def canon(result, table, batch, kind="mrgn"):
    """outcome modulo numbering of new index-less objects: error flag, set of slots occupied,
    placement of index-carrying objects, multiset of keys of index-less placements"""
    if result is None:
        return "ERR"
    new = result[len(table):]
    carried = {(i, k) for i, k in batch if i is not None}
    # C14 is about SAVING: every object of the batch is referenced by some section (that is how
    # it was collected), so an object the editor left without a slot makes the save raise when
    # the reference is encoded.  Such outcomes are failures of the save in every order.
    keys_final = {k for _, k in result}
    n_fresh = len([1 for i, k in batch if i is None and (kind != "uprp" or k not in {kk for _, kk in table})])
    placed_fresh = len([1 for e in new if e not in carried])
    if kind == "mrgn":
        if placed_fresh < len({k for i, k in batch if i is None}) or any(e not in result for e in carried):
            return "ERR"
    elif kind == "uprp":
        if any(k not in keys_final for _, k in batch):
            return "ERR"
    return (
        tuple(result[: len(table)]),
        tuple(sorted(s for s, _ in new)),
        tuple(sorted(e for e in new if e in carried)),
        tuple(sorted(k for s, k in new if (s, k) not in carried)),
    )


def switch_numbers_through_a_save(out):
    """whole unedited saves (real decode + rebuild + encode) of maps whose triggers refer to switches 3, 6, 101, 113 and
    255 by number: with a switch-name table naming some / none of them, and WITHOUT the (optional) SWNM section.  Every
    switch already has its slot — its number — so it keeps it, and no two of them end up on one slot.  Judged on the
    TRIG bytes by the specification's field positions (deterministic inputs: nothing here is drawn at random)."""
    import struct

    import refchk
    from mapgen import MapGen
    from rich_h import real_cycle

    spec = load_spec()
    gen = MapGen(Rng(20261001), spec)
    gen.force_quiet = True
    L = refchk.layouts_of(spec)[b"TRIG"]
    sw_fields = {}
    for kind, table in (("c", gen.cond), ("a", gen.act)):
        for tid, row in table.items():
            ks = gen.kinds.get((kind, tid), {})
            fs = [f for arg, f in row["args"] if ks.get(arg) == "RichSwitch"]
            if fs:
                sw_fields[(kind, tid)] = (fs[0], row)
    if not any(k == "c" for k, _ in sw_fields) or not any(k == "a" for k, _ in sw_fields):
        out.notes.append("switch-number probe skipped: no switch-typed argument found in the model classes")
        return
    numbers = [3, 6, 101, 113, 255]

    def entry(kind, tid, number):
        f, row = sw_fields[(kind, tid)]
        rec = {n: 0 for n, _ in (L["cf"] if kind == "c" else L["af"])}
        rec["_condition_id" if kind == "c" else "_action_id"] = tid
        for arg, fld in row["args"]:
            ak = gen.kinds.get((kind, tid), {}).get(arg, "int")
            if ak in gen.enums:
                rec[fld] = gen.enums[ak][0]
        rec[f] = number
        return rec

    ctid = sorted(t for k, t in sw_fields if k == "c")[0]
    atid = sorted(t for k, t in sw_fields if k == "a")[0]
    zc = {n: 0 for n, _ in L["cf"]}
    za = {n: 0 for n, _ in L["af"]}
    trig = {"conds": ([entry("c", ctid, n) for n in numbers[:2]] + [zc] * 16)[:16], "acts": ([entry("a", atid, n) for n in numbers] + [za] * 64)[:64],
            "execFlags": 0, "players": [1] + [0] * 26, "cur": 0}

    def switch_refs(data):
        refs = []
        for name, _, payload in refchk.split_chunks(data):
            if name != b"TRIG":
                continue
            csz = refchk.rec_size(L["cf"])
            asz = refchk.rec_size(L["af"])
            tsz = 16 * csz + 64 * asz + L["ew"] + 27 * L["pw"] + L["cw"]
            for t in range(len(payload) // tsz):
                for j in range(16):
                    rec = refchk.read_rec(payload, t * tsz + j * csz, L["cf"])
                    if ("c", rec["_condition_id"]) in sw_fields:
                        refs.append((t, "c", j, rec[sw_fields[("c", rec["_condition_id"])][0]]))
                for j in range(64):
                    rec = refchk.read_rec(payload, t * tsz + 16 * csz + j * asz, L["af"])
                    if ("a", rec["_action_id"]) in sw_fields:
                        refs.append((t, "a", j, rec[sw_fields[("a", rec["_action_id"])][0]]))
        return refs

    base, _meta = gen.gen("editor")
    chunks = [(n, p) for n, _, p in refchk.split_chunks(base)]
    str_payload = next(p for n, p in chunks if n == b"STR ")
    nstr = struct.unpack_from("<H", str_payload, 0)[0]
    some_id = next((i for i in range(1, nstr + 1) if refchk.resolve_string(str_payload, 2, i)), 0)
    for variant in ("no SWNM section", "SWNM naming none", "SWNM naming 6 and 113"):
        cs = []
        for n, p in chunks:
            if n == b"SWNM":
                continue
            if n == b"TRIG":
                p = p + refchk.build(L, {"triggers": [trig]})
            cs.append((n, p))
        if variant != "no SWNM section":
            named = {6: some_id, 113: some_id} if variant.endswith("113") else {}
            cs.append((b"SWNM", b"".join(struct.pack("<I", named.get(i, 0)) for i in range(256))))
        data = refchk.join_chunks(cs)
        before = switch_refs(data)
        res, err = real_cycle(data)
        desc = {"editor": "swnm-through-save", "variant": variant, "switch numbers referred to": numbers}
        out.case("swnm-save:" + variant, data, sample=dict(desc, real=("OK" if res is not None else "ERR " + str(err))))
        if res is None:
            out.violations.append(dict(desc, oracle="an unedited map whose triggers refer to switches by number saves (no new switch slot is needed)", err=err, hex=data.hex()))
            continue
        after = switch_refs(res)
        if before != after:
            diff = [(b, a) for b, a in zip(before, after) if b != a][:4]
            out.violations.append(dict(desc, oracle="a switch that has a slot keeps it, and distinct switches never share a slot: every switch number a trigger refers to is the same after an unedited save",
                                       before=[r[3] for r in before][:12], after=[r[3] for r in after][:12], first_differences=diff, hex=data.hex()))


def swnm_cases(out, rng, cfg, n, lines, reals):
    """the SWNM rebuild on save: used switches from triggers + named switches of the table"""
    from richchk.io.richchk.lookups.swnm.rich_swnm_rebuilder import RichSwnmRebuilder
    from richchk.model.richchk.rich_chk import RichChk
    from richchk.model.richchk.str.rich_string import RichNullString, RichString
    from richchk.model.richchk.swnm.rich_switch import RichSwitch
    from richchk.model.richchk.swnm.rich_swnm_section import RichSwnmSection
    from richchk.model.richchk.trig.actions.set_switch_action import SetSwitchAction
    from richchk.model.richchk.trig.enums.switch_action import SwitchAction
    from richchk.model.richchk.trig.rich_trig_section import RichTrigSection
    from richchk.model.richchk.trig.rich_trigger import RichTrigger

    for _ in range(n):
        mode = rng.choice(["sparse", "sparse", "full-named", "empty", "low-named-unreferenced"])
        named = {}
        if mode == "sparse":
            for i in rng.sample(range(256), rng.randrange(0, 8)):
                named[i] = 2000 + i
        elif mode == "full-named":
            named = {i: 2000 + i for i in range(256)}
            for i in rng.sample(range(256), rng.randrange(0, 3)):
                del named[i]
        elif mode == "low-named-unreferenced":
            for i in range(rng.randrange(1, 6)):
                named[i] = 2000 + i
        if mode == "sparse" and rng.random() < 0.3:
            named[0] = 2000
        swnm = RichSwnmSection(_switches=[RichSwitch(RichString("S%d" % named[i]) if i in named else RichNullString(), i) for i in range(256)])
        used = []
        for _ in range(rng.choice([0, 1, 2, 3, 5, 8])):
            r = rng.random()
            if r < 0.5:
                k = rng.randrange(3000, 3010)
                used.append(RichSwitch(RichString("S%d" % k), None))
            elif r < 0.7 and named:
                i = rng.choice(sorted(named))
                used.append(swnm.switches[i])
            elif r < 0.9:
                i = rng.randrange(256)
                used.append(swnm.switches[i])
            else:
                used.append(RichSwitch(RichNullString(), None))  # unnamed, index-less
        if rng.random() < 0.4:
            # switch numbers are 0-based: slot 0 is a slot like any other
            used.insert(rng.randrange(len(used) + 1), swnm.switches[0])
        trig = RichTrigSection(_triggers=[RichTrigger(_conditions=[], _actions=[SetSwitchAction(_switch=s, _switch_action=SwitchAction.SET) for s in used], _players=set())])
        chk = RichChk(_chk_sections=[swnm, trig])
        seen = {}
        orig = RichSwnmRebuilder._generate_allocable_ids.__func__

        def wrapped(cls, switches, _seen=seen):
            _seen["order"] = list(switches)
            return orig(cls, OrderedSetProxy(_seen["order"]))

        RichSwnmRebuilder._generate_allocable_ids = classmethod(wrapped)
        try:
            try:
                new, lookup = RichSwnmRebuilder.rebuild_rich_swnm_from_rich_chk(chk)
                err = None
            except Exception as ex:  # noqa: BLE001
                new, lookup, err = None, None, err_class(ex)
        finally:
            RichSwnmRebuilder._generate_allocable_ids = classmethod(orig)
        desc = {"editor": "swnm", "named": sorted(named)[:20], "used": [(s.index, s.custom_name.value) for s in used], "occupancy": mode}
        out.case("swnm:" + mode, json.dumps(desc, sort_keys=True).encode(), sample=desc if len(used) else None)
        need = len({s.custom_name.value if s.custom_name.value else id(s) for s in used if s.index is None})
        taken = set(named) | {s.index for s in used if s.index is not None}
        free = 256 - len(taken)
        if err is not None:
            if need <= free:
                out.violations.append(dict(desc, oracle="SWNM rebuild must not fail when enough switch slots are free", err=err))
            continue
        if need > free:
            out.violations.append(dict(desc, oracle="SWNM rebuild raises when no switch slot is free"))
            continue
        # every pre-existing named switch keeps its slot and name; new switches get empty, distinct slots
        for i in named:
            if new.switches[i].custom_name.value != "S%d" % named[i]:
                out.violations.append(dict(desc, oracle="a named switch keeps its slot (never overwritten by a new switch)", slot=i, now=new.switches[i].custom_name.value))
                break
        assigned = {}
        for s in used:
            try:
                sid = lookup.get_id_by_switch(s)
            except Exception:  # noqa: BLE001
                sid = None
            if sid is None or not (0 <= sid < 256):
                out.violations.append(dict(desc, oracle="every used switch has a slot in range", switch=(s.index, s.custom_name.value)))
                break
            if s.index is not None and sid != s.index:
                out.violations.append(dict(desc, oracle="a switch that has a slot keeps it", switch=(s.index, s.custom_name.value), got=sid))
                break
            if s.index is None:
                if sid in taken:
                    out.violations.append(dict(desc, oracle="a new switch gets a slot that was empty", switch=s.custom_name.value, slot=sid))
                    break
                key = s.custom_name.value if s.custom_name.value else id(s)
                if assigned.get(sid, key) != key:
                    out.violations.append(dict(desc, oracle="distinct new switches never share a slot", slot=sid))
                    break
                assigned[sid] = key
                if new.switches[sid].custom_name.value != s.custom_name.value:
                    out.violations.append(dict(desc, oracle="the slot of a new switch holds its name", slot=sid))
                    break


def cross_process(out, tier, seed):
    """whole-save scenarios in separate interpreters with different hash seeds / address layouts"""
    script = os.path.join(os.path.dirname(os.path.abspath(__file__)), "c14_scenario.py")
    nseeds = 6 if tier == "quick" else 16
    for scen in list(range(3 if tier == "quick" else 8)) + [100, 101, 102]:
        results = {}
        for hs in range(nseeds):
            env = dict(os.environ)
            env["PYTHONHASHSEED"] = str(1 + hs * 7919 + seed)
            p = subprocess.run([sys.executable, script, str(scen), str(hs)], stdout=subprocess.PIPE, stderr=subprocess.PIPE, env=env, timeout=600)
            if p.returncode != 0:
                results[hs] = "CRASH " + p.stderr.decode()[-200:]
            else:
                results[hs] = p.stdout.decode().strip().split("\n")[-1]
            out.case("cross-process", ("%d:%d" % (scen, hs)).encode(), sample={"scenario": scen, "hashseed": env["PYTHONHASHSEED"], "canonical": results[hs][:80]})
        bad = [v for v in results.values() if "BAD-CARRIED" in v]
        if bad:
            out.violations.append({"oracle": "a switch referred to by number keeps that number in the saved triggers", "scenario": scen, "got": bad[0][-80:]})
        bad = [v for v in results.values() if "BAD-LOCATIONS" in v]
        if bad:
            out.violations.append({"oracle": "every authored location reference resolves to the rectangle it was authored with", "scenario": scen, "got": bad[0][-120:]})
        vals = set(results.values())
        if len(vals) != 1:
            a, b = sorted(vals)[:2]
            out.violations.append({"oracle": "the same scripted scenario saved under different hash seeds / memory layouts yields the same map up to the numbering of new slots", "scenario": scen, "canonical_a": a[:300], "canonical_b": b[:300]})
