"""C15 / C16 / C17: the file-level entry points against the real file system and the real
StormLib library; every scenario runs in its own process (fileops_child.py)."""
import glob
import json
import os
import subprocess
import sys
from concurrent.futures import ThreadPoolExecutor

sys.path.insert(0, os.path.dirname(os.path.abspath(__file__)))
from common import REPO, Outcome, Rng  # noqa: E402

CHILD = os.path.join(os.path.dirname(os.path.abspath(__file__)), "fileops_child.py")
RES = os.path.join(REPO, "test", "resources", "stormlib")


def archives():
    return sorted(glob.glob(os.path.join(RES, "*.scx")) + glob.glob(os.path.join(RES, "*.scm")))


def audio_files():
    return sorted(glob.glob(os.path.join(RES, "wavs", "*")))


def child(spec):
    # "optimize": the interpreter mode in which `assert` statements are compiled away (python -O): a refusal must not
    # depend on them
    cmd = [sys.executable] + (["-O"] if spec.get("optimize") else []) + [CHILD, json.dumps(spec)]
    p = subprocess.run(cmd, stdout=subprocess.PIPE, stderr=subprocess.PIPE, timeout=600)
    try:
        return json.loads(p.stdout.decode().strip().split("\n")[-1])
    except Exception:  # noqa: BLE001
        return {"spec": spec, "harness_error": "child died rc=%s: %s" % (p.returncode, p.stderr.decode()[-300:])}


def pmap(specs):
    with ThreadPoolExecutor(max_workers=12) as ex:
        return list(ex.map(child, specs))


def desc(spec):
    s = dict(spec)
    s["base"] = os.path.basename(s["base"])
    if "audio" in s:
        s["audio"] = [os.path.basename(a) for a in s["audio"]]
    return s


# ------------------------------------------------------------------------------------------ C15
def run_c15(out, tier):
    base = archives()[0]
    specs = []
    for op in ("export", "extract_chk", "extract_file", "save", "import"):
        for dest in ("absent", "existing", "existing-empty", "same", "symlink-to-base"):
            for flag in ("default", "false", "true"):
                s = {"op": op, "base": base, "dest": dest, "flag": flag, "fault": None}
                if op == "import":
                    for audio in ([], audio_files()[:1]):
                        specs.append(dict(s, audio=audio))
                else:
                    specs.append(s)
    # the same destination spelled differently: a relative path to it, and a "~" path whose expansion is the
    # existing file (whichever file the library takes "~/new.scx" to name, the existing one is not replaced
    # without opt-in)
    for op in ("export", "extract_chk", "extract_file", "save", "import"):
        for spell in ("relative", "tilde"):
            for flag in ("default", "false"):
                s = {"op": op, "base": base, "dest": "existing", "flag": flag, "fault": None, "spell": spell}
                specs.append(dict(s, audio=audio_files()[:1]) if op == "import" else s)
    # every refusal case once more under `python -O`
    specs += [dict(s, optimize=True) for s in specs if s["dest"] != "absent" and s["flag"] != "true" and not s.get("spell")]
    for r in pmap(specs):
        spec = r["spec"]
        out.case("c15:" + spec["op"], json.dumps(desc(spec), sort_keys=True).encode(), sample={"spec": desc(spec), "exception": r.get("exception")})
        if "harness_error" in r:
            out.notes.append("harness error: %s %s" % (desc(spec), r["harness_error"][:120]))
            out.disagreements.append({"op": "fileops child", "what": r["harness_error"][:200], "spec": desc(spec)})
            continue
        existed = spec["dest"] in ("existing", "existing-empty", "same", "symlink-to-base")
        optin = spec["flag"] == "true"
        b, a = r["before"], r["after"]
        d = {"spec": desc(spec), "exception": r["exception"], "before": b, "after": a}
        if spec.get("spell") == "tilde":
            if a != b:
                out.violations.append(dict(d, oracle="an existing file is not replaced unless overwriting was requested, however the destination is spelled"))
        elif existed and not optin:
            if not r["exception"]:
                out.violations.append(dict(d, oracle="destination exists and overwriting was not requested: the call must refuse with an error" + (" (also when the interpreter runs with -O)" if spec.get("optimize") else "")))
            elif a != b:
                out.violations.append(dict(d, oracle="a refused write leaves every file byte-identical"))
        else:
            # (a destination that IS the base map, or a link to it, named with opt-in, is the file the caller asked to overwrite)
            if a["neighbour"] != b["neighbour"] or (spec["dest"] not in ("same", "symlink-to-base") and a["base"] != b["base"]):
                out.violations.append(dict(d, oracle="only the named destination may change"))
            if r["exception"] is None and a["dest"] is None:
                out.violations.append(dict(d, oracle="a successful write produces the destination"))
        if r.get("tmp_left"):
            out.violations.append(dict(d, oracle="no temporary work files remain", tmp=r["tmp_left"]))


# ------------------------------------------------------------------------------------------ C16
def acceptable(r, new_sha=None):
    b, a = r["before"], r["after"]
    probs = []
    if a["base"] != b["base"]:
        probs.append("base map changed")
    if a["neighbour"] != b["neighbour"]:
        probs.append("a file nobody named changed")
    if r.get("tmp_left"):
        probs.append("temporary files remain: %s" % r["tmp_left"])
    extra = [f for f in r.get("out_dir", []) if f not in ("new.scx", "new.scx.tmp")]
    if extra:
        probs.append("work files remain next to the destination: %s" % extra)
    if a["dest"] != b["dest"] and new_sha is not None and a["dest"] != new_sha:
        probs.append("destination is neither its previous content nor the complete new map")
    if r["exception"] is None and new_sha is not None and a["dest"] != new_sha:
        probs.append("successful call did not produce the complete new map")
    return probs


def run_c16(out, tier, rng):
    bases = archives() if tier == "thorough" else archives()[:2]
    # fault-free histories whose destination is unusual: a symbolic link to the base map (the link is replaced, the
    # base map stays); an audio file whose name is not ASCII (whether or not the import accepts it, nothing is left behind)
    import shutil
    import tempfile

    odd_dir = tempfile.mkdtemp(prefix="vfo_odd_")
    odd_audio = os.path.join(odd_dir, "se\u00f1al" + os.path.splitext(audio_files()[-1])[1])
    shutil.copyfile(audio_files()[-1], odd_audio)
    odd_dir2 = os.path.join(odd_dir, "m\u00fasica")
    os.makedirs(odd_dir2)
    odd_audio2 = os.path.join(odd_dir2, "hum" + os.path.splitext(audio_files()[-1])[1])
    shutil.copyfile(audio_files()[-1], odd_audio2)
    specs = []
    for base in bases[:1]:
        for op, extra in (("save", {"edit": 2}), ("import", {"audio": audio_files()[:1]})):
            specs.append(dict({"op": op, "base": base, "dest": "symlink-to-base", "flag": "true", "fault": None}, **extra))
        # a map the byte layer cannot write (a location past the map's edge): the save fails part-way
        for dest in ("absent", "existing"):
            specs.append({"op": "save", "base": base, "dest": dest, "flag": "true" if dest == "existing" else "default", "fault": None, "edit": "unencodable"})
        for aud in ([odd_audio], [odd_audio2]):
            for dest in ("absent", "existing"):
                specs.append({"op": "import", "base": base, "dest": dest, "flag": "true" if dest == "existing" else "default", "fault": None, "audio": aud})
    for r in pmap(specs):
        spec = r["spec"]
        out.case("c16:unusual:%s" % spec["op"], json.dumps(desc(spec), sort_keys=True).encode(), sample={"spec": desc(spec), "exception": r.get("exception")})
        if "harness_error" in r:
            out.disagreements.append({"op": "fileops child", "what": r["harness_error"][:200], "spec": desc(spec)})
            continue
        probs = acceptable(r, None)
        if spec["dest"] == "symlink-to-base" and r.get("exception") is None and r["after"]["dest"] is None:
            probs.append("successful call did not produce the destination")
        if probs:
            out.violations.append({"oracle": "base identical, destination previous-or-complete, no work files — whatever the destination or the audio file is called", "spec": desc(spec), "problems": probs, "exception": r.get("exception"), "after": r["after"], "before": r["before"]})
    shutil.rmtree(odd_dir, ignore_errors=True)
    for base in bases:
        for op, extra in (("save", {"edit": 3}), ("import", {"audio": audio_files()}), ("import", {"audio": []}), ("import", {"audio": audio_files()[:1]}), ("read", {})):
            for dest in (("absent", "existing") if op != "read" else ("existing",)):
                flag = "true" if dest == "existing" else "default"
                clean = child(dict({"op": op, "base": base, "dest": dest, "flag": flag, "fault": None}, **extra))
                if "harness_error" in clean or clean.get("exception"):
                    out.disagreements.append({"op": "fileops fault-free run", "spec": desc(clean["spec"]), "what": clean.get("harness_error") or clean.get("exception")})
                    continue
                calls = clean["calls"]
                new_sha = clean["after"]["dest"] if op != "read" else None
                out.count("calls:%s" % op, len(calls))
                specs = []
                for k, name in enumerate(calls):
                    modes = ["before", "after"] + (["midway"] if name == "shutil.copyfile" else [])
                    if name in ("stormlib.extract_file", "stormlib.add_file", "stormlib.compact_archive"):
                        modes.append("reports-failure")   # the library does its work, then says it failed
                    for m in modes:
                        specs.append(dict({"op": op, "base": base, "dest": dest, "flag": flag, "fault": [k, m]}, **extra))
                for r in pmap(specs):
                    spec = r["spec"]
                    out.case("c16:%s:%s" % (op, dest), json.dumps(desc(spec), sort_keys=True).encode(),
                             sample={"spec": desc(spec), "failed_call": calls[spec["fault"][0]], "exception": r.get("exception")})
                    if "harness_error" in r:
                        out.disagreements.append({"op": "fileops child", "what": r["harness_error"][:200], "spec": desc(spec)})
                        continue
                    probs = acceptable(r, new_sha)
                    if probs:
                        out.violations.append({"oracle": "after any single failure: base identical, destination previous-or-complete, no work files", "spec": desc(spec), "failed_call": "%d:%s" % (spec["fault"][0], calls[spec["fault"][0]]), "problems": probs, "after": r["after"], "before": r["before"]})
                # model correspondence: the calls the real code makes are the calls the model numbers
                expect = model_calls(op, clean)
                if expect is not None and expect != calls:
                    out.disagreements.append({"op": "call sequence of " + op, "model": expect, "real": calls})


def model_calls(op, clean):
    """the sequence of archive/file calls Model/FileOps.lean assumes (per audio member n)"""
    n = len([1 for c in clean["calls"][: clean["calls"].index("shutil.copyfile")] if c == "stormlib.extract_file"]) if "shutil.copyfile" in clean["calls"] else 0
    meta = ["stormlib.open_archive"] + ["stormlib.extract_file"] * n + ["stormlib.close_archive"]
    save = meta + ["shutil.copyfile", "stormlib.open_archive", "stormlib.add_file", "stormlib.compact_archive", "stormlib.close_archive", "shutil.copyfile", "os.replace"]
    if op == "save":
        return save
    if op == "read":
        return ["stormlib.open_archive", "stormlib.extract_file", "stormlib.close_archive"]
    return None


# ------------------------------------------------------------------------------------------ C17
def run_c17(out, tier, rng):
    for base in archives():
        for edit in (0, 2, 40) if tier == "quick" else (0, 1, 2, 10, 40, 200):
            r = child({"op": "save", "base": base, "dest": "absent", "flag": "default", "fault": None, "edit": edit, "inspect": True})
            spec = r["spec"]
            out.case("c17:save", json.dumps(desc(spec), sort_keys=True).encode(), sample={"spec": desc(spec), "members": sorted(r.get("members_new", {}))})
            if "harness_error" in r or r.get("exception"):
                out.violations.append({"oracle": "saving a map read from a corpus archive succeeds", "spec": desc(spec), "error": r.get("harness_error") or r.get("exception")})
                continue
            mb, mn = r["members_base"], r["members_new"]
            scen = "staredit\\scenario.chk"
            if r["scenario_sha"] != r["encoder_sha"]:
                out.violations.append({"oracle": "the stored scenario file is exactly the encoder's bytes", "spec": desc(spec)})
            for m, h in mb.items():
                if m != scen and mn.get(m) != h:
                    out.violations.append({"oracle": "every other archive member is preserved with identical content", "spec": desc(spec), "member": m})
            if set(mn) != set(mb):
                out.violations.append({"oracle": "the new archive has exactly the base archive's members", "spec": desc(spec), "base": sorted(mb), "new": sorted(mn)})
            if not r["reload_reencodes_equal"]:
                out.violations.append({"oracle": "reading the saved archive returns a map equal to the saved one", "spec": desc(spec)})
        sets = [audio_files()[:1], audio_files()[1:], audio_files()]
        # a file whose name has upper-case letters and a space: stored and listed under exactly that spelling
        import shutil
        import tempfile

        mixed_dir = tempfile.mkdtemp(prefix="vfo_mixed_")
        src0 = audio_files()[0]
        mixed = os.path.join(mixed_dir, "Bandit One" + os.path.splitext(src0)[1])
        shutil.copyfile(src0, mixed)
        sets.append([mixed])
        # two files from different directories whose directory order and file-name order disagree
        import wave

        d1, d2 = os.path.join(mixed_dir, "1-music"), os.path.join(mixed_dir, "2-effects")
        os.makedirs(d1)
        os.makedirs(d2)
        f1, f2 = os.path.join(d1, "theme.wav"), os.path.join(d2, "alarm.wav")
        for f, n in ((f1, 4000), (f2, 2500)):
            with wave.open(f, "wb") as w:
                w.setnchannels(1)
                w.setsampwidth(2)
                w.setframerate(8000)
                w.writeframes(bytes((i * 7 + n) % 251 for i in range(2 * n)))
        sets.append([f1, f2])
        sets.append([f2, f1])
        # a file given through a symbolic link whose name differs from its target's: it is imported under the name
        # the caller gave
        lnk = os.path.join(mixed_dir, "alert.wav")
        os.symlink(f1, lnk)
        sets.append([lnk])
        for audio in sets:
            r = child({"op": "import", "base": base, "dest": "absent", "flag": "default", "fault": None, "audio": audio, "inspect": True})
            spec = r["spec"]
            out.case("c17:import", json.dumps(desc(spec), sort_keys=True).encode(), sample={"spec": desc(spec)})
            if "harness_error" in r or r.get("exception"):
                out.violations.append({"oracle": "importing audio into a corpus archive succeeds", "spec": desc(spec), "error": r.get("harness_error") or r.get("exception")})
                continue
            mb, mn = r["members_base"], r["members_new"]
            for a, h in r["audio_sha"].items():
                member = "staredit\\wav\\" + a
                if mn.get(member) != h:
                    out.violations.append({"oracle": "each imported file is stored under the canonical sound path with identical bytes", "spec": desc(spec), "member": member})
                if member not in r["wav_table"]:
                    out.violations.append({"oracle": "each imported file is listed in the map's sound table", "spec": desc(spec), "member": member, "table": r["wav_table"]})
            for m, h in mb.items():
                # the (listfile) member legitimately gains the imported names; it must still exist
                if m == "(listfile)":
                    if m not in mn:
                        out.violations.append({"oracle": "the listfile is still present after the import", "spec": desc(spec)})
                    continue
                if m != "staredit\\scenario.chk" and m not in ["staredit\\wav\\" + a for a in r["audio_sha"]] and mn.get(m) != h:
                    out.violations.append({"oracle": "every other archive member is preserved by the import", "spec": desc(spec), "member": m})
        shutil.rmtree(mixed_dir, ignore_errors=True)
    # multi-step histories on one long-lived IO object
    for base in archives()[:1] if tier == "quick" else archives():
        r = child({"op": "scenario_stale_duration", "base": base, "dest": "absent", "flag": "default", "fault": None})
        sc = r.get("scenario")
        out.case("c17:history-duration", json.dumps(desc(r["spec"]), sort_keys=True).encode(), sample={"spec": desc(r["spec"]), "result": sc})
        if sc is None:
            out.violations.append({"oracle": "save / re-import / save history completes", "spec": desc(r["spec"]), "error": r.get("harness_error") or r.get("exception")})
        elif sc["error"] or sc["first"] != 1500 or sc["second"] != 2750 or sc["new_sound"] != 640:
            out.violations.append({"oracle": "a PlayWav without explicit duration gets the CURRENT file's true duration on every save (1500, then 2750 after the sound was replaced, 640 for the newly imported one)", "spec": desc(r["spec"]), "got": sc})
        r = child({"op": "scenario_explicit_duration", "base": base, "dest": "absent", "flag": "default", "fault": None})
        sc = r.get("scenario")
        out.case("c17:history-explicit-duration", json.dumps(desc(r["spec"]), sort_keys=True).encode(), sample={"spec": desc(r["spec"]), "result": sc})
        if sc is None:
            out.violations.append({"oracle": "import + authored PlayWav + save completes", "spec": desc(r["spec"]), "error": r.get("harness_error") or r.get("exception")})
        elif sc["error"] or sc["got"] != sc["want"]:
            out.violations.append({"oracle": "an authored PlayWav keeps its explicit duration (0 ms included) and gets the file's duration only when it has none", "spec": desc(r["spec"]), "got": sc})
        r = child({"op": "scenario_custom_folder", "base": base, "dest": "absent", "flag": "default", "fault": None})
        sc = r.get("scenario")
        out.case("c17:history-custom-folder", json.dumps(desc(r["spec"]), sort_keys=True).encode(), sample={"spec": desc(r["spec"]), "result": sc})
        if sc is None:
            out.violations.append({"oracle": "a map with a sound stored under a folder of the author's choosing saves", "spec": desc(r["spec"]), "error": r.get("harness_error") or r.get("exception")})
        elif sc["error"] or sc["got"] != sc["want"]:
            out.violations.append({"oracle": "a PlayWav without explicit duration gets the file's true duration wherever in the archive the sound is stored", "spec": desc(r["spec"]), "got": sc})
        oggs = [a for a in audio_files() if a.lower().endswith(".ogg")]
        if oggs:
            for b2 in archives():
                r = child({"op": "scenario_ogg_only", "base": b2, "dest": "absent", "flag": "default", "fault": None, "ogg": oggs[0]})
                sc = r.get("scenario")
                out.case("c17:history-ogg-only", json.dumps(desc(r["spec"]), sort_keys=True).encode(), sample={"spec": desc(r["spec"]), "result": sc})
                if sc is None:
                    out.violations.append({"oracle": "import of one OGG + PlayWav + save completes", "spec": desc(r["spec"]), "error": r.get("harness_error") or r.get("exception")})
                elif sc["error"] or sc["got"] is None or abs(sc["got"] - sc["want"]) > 1.0:
                    out.violations.append({"oracle": "a PlayWav without explicit duration gets the file's true duration, also when the file is the archive's only sound and an OGG", "spec": desc(r["spec"]), "got": sc})
        r = child({"op": "scenario_mixed_batch", "base": base, "dest": "absent", "flag": "default", "fault": None})
        sc = r.get("scenario")
        out.case("c17:history-mixed-batches", json.dumps(desc(r["spec"]), sort_keys=True).encode(), sample={"spec": desc(r["spec"]), "result": sc})
        if sc is None:
            out.violations.append({"oracle": "a sequence of imports mixing listed and new sounds completes", "spec": desc(r["spec"]), "error": r.get("harness_error") or r.get("exception")})
        else:
            for st in sc["steps"]:
                if st.get("error"):
                    out.violations.append({"oracle": "an import batch that mixes sounds the map already lists with new ones completes", "spec": desc(r["spec"]), "history": "imports [a] ; [a,b] ; [c,c,d] ; [e,a]", "step": st["step"], "error": st["error"]})
                    break
                if st["not_listed"] or st["not_stored"] or st["dropped_from_table"]:
                    out.violations.append({"oracle": "after an import every file of the batch is stored with its bytes and listed in the map's sound table, and what was listed stays listed — whatever mix of listed, repeated and new sounds the batch holds, in whatever order",
                                           "spec": desc(r["spec"]), "history": "imports [a] ; [a,b] ; [c,c,d] ; [e,a]", "step": st["step"], "got": st})
                    break
        for free in ([0], [0, 2], [1, 3]):
            r = child({"op": "scenario_sparse_wav", "base": base, "dest": "absent", "flag": "default", "fault": None, "free_slots": free})
            sc = r.get("scenario")
            out.case("c17:history-sparse-wav", json.dumps(desc(r["spec"]), sort_keys=True).encode(), sample={"spec": desc(r["spec"]), "result": sc})
            if sc is None:
                out.violations.append({"oracle": "import into a map with a sparse sound table completes", "spec": desc(r["spec"]), "error": r.get("harness_error") or r.get("exception")})
                continue
            after = {int(k): v for k, v in sc["after"].items()}
            for k, v in sc["before"].items():
                if after.get(int(k)) != v:
                    out.violations.append({"oracle": "sounds already listed in the sound table stay listed in their slot after an import", "spec": desc(r["spec"]), "slot": k, "was": v, "now": after.get(int(k))})
                    break
            for n in sc["new"]:
                if n not in after.values():
                    out.violations.append({"oracle": "each imported file is listed in the map's sound table", "spec": desc(r["spec"]), "missing": n})
                    break
    duration_law(out, tier, rng)


def duration_law(out, tier, rng):
    """PlayWav without explicit duration gets floor(1000*frames/rate) for WAV files"""
    import tempfile
    import wave

    from richchk.io.mpq.starcraft_audio_files_metadata_io import StarCraftAudioFilesMetadataIo as M

    cases = [(8008, 8000), (1, 8000), (7999, 8000), (8000, 8000), (44100, 44100), (44101, 44100), (11025 * 3 + 1, 11025), (1001, 1000), (22050 * 7 + 11, 22050)]
    for _ in range(40 if tier == "quick" else 400):
        rate = rng.choice([8000, 11025, 22050, 44100, 48000, 1000, 7, 96000])
        cases.append((rng.randrange(0, rate * 5), rate))
    lines, reals = [], []
    d = tempfile.mkdtemp(prefix="vwav_")
    try:
        for ci, (frames, rate) in enumerate(cases):
            p = os.path.join(d, "t.wav")
            # mono / stereo / 3 channels, 8 / 16 / 24 bit samples: a frame is one sample PER channel
            channels, width = [(1, 1), (2, 1), (2, 2), (1, 2), (3, 3)][ci % 5]
            with wave.open(p, "wb") as w:
                w.setnchannels(channels)
                w.setsampwidth(width)
                w.setframerate(rate)
                w.writeframes(b"\x80" * (frames * channels * width))
            got = M._calculate_wav_file_duration_ms(p)
            out.case("c17:duration", ("%d/%d/%d/%d" % (frames, rate, channels, width)).encode(), sample={"frames": frames, "rate": rate, "channels": channels, "sample_bytes": width, "ms": got})
            if got != frames * 1000 // rate:
                out.violations.append({"oracle": "WAV duration is the true duration in whole milliseconds", "frames": frames, "rate": rate, "got": got, "true": frames * 1000 // rate})
            lines.append("wavms %d %d" % (frames, rate))
            reals.append(str(got))
    finally:
        import shutil

        shutil.rmtree(d, ignore_errors=True)
    try:
        from common import run_driver

        model = run_driver(lines)
        for ln, m, r in zip(lines, model, reals):
            if m != r:
                out.disagreements.append({"op": ln, "model": m, "real": r})
    except Exception as e:  # noqa: BLE001
        out.disagreements.append({"op": "driver", "what": str(e)[:200]})


def run(prop, tier, seed):
    out = Outcome(prop)
    rng = Rng(seed * 9973 + int(prop[1:]))
    if prop == "C15":
        run_c15(out, tier)
    elif prop == "C16":
        run_c16(out, tier, rng)
    else:
        run_c17(out, tier, rng)
    return out
